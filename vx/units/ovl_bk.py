"""Unit `ovl_bk` (C10, "... UPDATED BY EACH OPERATION AS AN ORDINARY FILESYSTEM WOULD BE"): what every MUTATING operation of the overlay does to the LIVE VIEW -
the ghost token `LView` of unit ovl_view (node table, delayed-removal table, path -> number reservations, every children table, parent links, lookup counters,
flags, real inodes) - on the real text of src/overlayfs/mod.rs and of the handlers of src/overlayfs/sync_io.rs that call them:

  OverlayFs::{alloc_inode, insert_inode, remove_inode}                     (the store wrappers, here with the reservation clauses the callers need)
  OverlayInode::{count_entries_and_whiteout, create_upper_dir}, OverlayFs::{copy_symlink_up, copy_regfile_up, copy_node_up}   (copy-up: the view is the same)
  OverlayFs::{do_mkdir, do_mknod, do_create, do_symlink, do_link, do_rm, empty_node_directory}
  FileSystem for OverlayFs::{mkdir, mknod, create, symlink, link, unlink, rmdir}

The model is the one of unit ovl_view: its prelude items (VIEW, NODEM, struct copies) are taken from `ovl_view.unit()` item by item, not copied; the functions ovl_view
verifies and this unit calls (lookup_node, lookup_node_ignore_enoent, load_directory, do_lookup, child / insert_child / remove_child) are imported as the SAME Fn
objects with `external_body` set: textually the contracts ovl_view proves.  Every postcondition speaks about the WHOLE token: the final view is a struct expression
over the view at a named earlier point, so a change of any other cell, table entry, counter or reservation fails.

Clauses (tags [C10.bk.<fn>.<aspect>]; the relations are in BK below, each written from the property text):
  1. create / mkdir / mknod / symlink / link of (parent p, name), `enter_post`: without an upper layer, under a whiteout parent, for a failing lookup: an error, nothing
     changes; a VISIBLE node under that name: EEXIST, nothing changes beyond the load the lookup did; otherwise, after the parent's copy-up (`up_rel`: nothing but
     real inodes changes): on success EITHER the whiteout node under that name is turned into the new file in place (`revived`: its flag, its real inodes; same node,
     same number, same table entries: replaced, not duplicated) OR exactly one NEW node (`made`: every cell new to the view) is entered under `name` in p's table and
     under its own number in the store, with name / path = p.path/name, lookup count 1 (the tree's own reference), number = the one the store remembers for that path,
     else one no live or delayed-removal node carries (`alloc_num`), mkdir over a whiteout REPLACES the whiteout node in table and store; nothing else changes.
     On failure: nothing but the copy-up (and the ghost `collided`).  `strict` adds what the property demands and the code does not do: the PARENT LINK of the new node.
     Handlers: lookup_node(parent, "") ; do_X ; do_lookup(parent, name) composed (`h_enter_post`): the reply is do_lookup's entry of the new node: count 1 + 1.
  2. do_rm, `rm_post`: ENOENT for a missing / whiteout name and EROFS without upper layer change nothing; rmdir loads the directory BEING REMOVED and fails with ENOTEMPTY,
     nothing else changed, iff its table has a visible child; on success the tree's own reference is dropped exactly once (fetch_sub 1), the node leaves the live table
     and stays in the delayed-removal table iff it is still referenced, ITS path's reservation is given up, ITS name leaves the parent's table, and iff the whiteout rule
     (ovl_ops) asks for it a new whiteout node is entered under the name with a number of its own; `atomic` adds: an Err leaves the view as it was.
  3. link: the code makes a NEW node with a NEW number for the new name (see the report: not what an ordinary file system shows).
  4. copy-up, `up_rel`: node table, store, children tables, parent links, counters are the same; a node's real inodes either stay or now start with a visible upper
     object; flags are the same provided no whiteout sits on the parent chain (`vis_par`), and never set.

Rewrites (all logged): R23 (token), R24, R2, R7; R29 (closures of handle_upper_inode_locked inlined against the dispatch model hu_upper), R28, presub of `format!("{}/{}", ..)`
(path_join, as in ovl_ops), body_resub / resub_hook entries with their `why`; NEW, additive, opt-in (this file): r60v `M.values().cloned().collect::<Vec<_>>()` -> values_vec.

Models / assumptions: everything ovl_view assumes (S-STORE, S-SCAN, S-HEAP, A-WEAK, A-HASH-ORDER, locks never poisoned, ..) plus
  S-STORE+   InodeStoreCell::remove_inode gives up the reservation of the path it is told ([C10.inodes.remove.reservation] of unit ovl_inodes, restated: one clause of
             the VIEW text is replaced by the stronger one);
  S-NODE     in_upper_layer / upper_layer_only / add_upper_inode / handle_upper_inode_locked (hu_upper) / new_from_real_inode over the token: the clauses unit ovl_merge
             proves on the real text against the Mutex's value (as unit ovl_ops restates them over its heap); a node made by new_from_real_inode owns NEW cells, its parent
             link is Weak::new() (upgrade() = None), count 1;
  S-REAL     RealInode::{mkdir, mknod, create, symlink, link} return an upper, non-whiteout real inode, create_whiteout a whiteout ([C10.real.*.result] of unit ovl_real);
             they and every Layer call are otherwise OPAQUE and cannot touch the view (they have no access to it); `bk_grant`: every capability of the layer model is
             granted - WHICH layer is touched with WHAT arguments is unit ovl_ops' business;
  handles    the handle table and the cell of a new RealHandle are outside the view (insert_handle, new_handle_cell: no contract);
  lemmas     the checked lemmas of unit ovl_view's NODEM text are proved THERE; here their bodies are elided mechanically (lemmas_as_given): statements taken as given;
  sequential model, termination of the recursions (create_upper_dir, empty_node_directory) and of the copy loops not shown here.
Checked lemmas of this unit ([C10.bk.lemma.*]): what `made` / `revived` / `rm_unlinked` / `up_rel` / the handler composition mean in the terms of the property (one entry of one
table, fresh number, replaced whiteout, delayed removal, reservation given up, whiteout number never the number of a still referenced predecessor = D24, reply = own number +
one reference), each under the hypotheses it names (the parent's table is a table the view knows; the removed node is the live node of its number; ...).

On the unchanged tree (b095594) these obligations FAIL, all reproduced on the real crate (findings/repro_overlay_bk.rs):
  [C10.bk.do_mkdir.parent_link] and the same clause of do_mknod / do_create / do_symlink / do_link / do_rm (whiteout node)   K1: a node made at run time never gets its parent link
  [C10.bk.do_rm.err_unchanged]   K2: when the whiteout cannot be made the removal has happened all the same (exits: create_whiteout(..)?, alloc_inode(..)?)
`VX_DROP_TAGS=<those seven tags>` gives STATUS ok (every `.post` clause holds: they say what the code does, parent link left open, failure after the removal allowed).
K3 (not an obligation: [C10.bk.do_link.post] states what the code does): LINK makes a second node with a second number for the new name."""
import copy
import re

from vx.api import Unit, Fn, Copy, Raw, Group
from vx import ovlrules as R, extract as X
from vx.units import ovl_common as C
from vx.units import ovl_real as RL
from vx.units import ovl_view as V
from vx.units import ovl_ops as O

OVL = C.OVL
OVLS = C.OVLS
OI = 'impl OverlayInode'
OF = 'impl OverlayFs'
FSI = 'impl FileSystem for OverlayFs'
P = ['C10']
H0, H1 = '*old(vxv)', '*final(vxv)'

# ---- S-STORE+: the one clause of the VIEW text that is replaced (remove_inode and the reservation)
RM_OLD = 'path_removed is None ==> final(vxv).paths == old(vxv).paths,'
RM_NEW = ('final(vxv).paths == (match path_removed { Some(p) => old(vxv).paths.remove(p@), None => old(vxv).paths }),      '
          '// S-STORE+: [C10.inodes.remove.reservation] of unit ovl_inodes: the path told gives up its number at once')

BK = r'''
// =====================================================================================================================================
// unit ovl_bk: the bookkeeping of the mutating operations over the view of unit ovl_view
pub open spec fn path_join_spec(dir: Seq<char>, name: Seq<char>) -> Seq<char> { dir + seq!['/'] + name }
#[verifier::external_body] pub fn path_join(dir: &str, name: &str) -> (r: String) ensures r@ == path_join_spec(dir@, name@) { unimplemented!() }
// AtomicU64::fetch_sub: "Subtracts from the current value, returning the previous value. This operation wraps around on overflow."
pub open spec fn sub_wrap(a: u64, b: u64) -> u64 { if a >= b { (a - b) as u64 } else { (a + 0x1_0000_0000_0000_0000 - b) as u64 } }
impl CounterCell {
    #[verifier::external_body] pub fn fetch_sub(&self, n: u64, o: Ordering, Tracked(vxv): Tracked<&mut LView>) -> (r: u64)
        ensures r == old(vxv).ctr[self.id()], *final(vxv) == (LView { ctr: old(vxv).ctr.insert(self.id(), sub_wrap(old(vxv).ctr[self.id()], n)), ..*old(vxv) }) { unimplemented!() }
    // AtomicU64::new(hd) for the RealHandle of a new HandleData: a cell outside the view (no function here reads it)
    #[verifier::external_body] pub fn new_handle_cell(v: u64) -> (r: Self) { unimplemented!() }
}
impl HandlesCell { #[verifier::external_body] pub fn insert_handle(&self, h: u64, d: Arc<HandleData>) { unimplemented!() } }
pub assume_specification<T> [Option::<T>::replace] (o: &mut Option<T>, v: T) -> (r: Option<T>) ensures *final(o) == Some(v), r == *old(o);
#[verifier::external_body] pub struct Utf8Error { _p: u8 }
#[verifier::external_body] pub fn str_from_utf8(v: &Vec<u8>) -> (r: core::result::Result<&str, Utf8Error>) { unimplemented!() }
#[verifier::external_body] pub fn vx_tempfile() -> (r: File) ensures r.data().len() == 0 && r.pos() == 0 { unimplemented!() }
// the Layer helpers: opaque here (unit ovl_layer verifies them, unit ovl_ops their call sites)
pub trait Layer: FileSystem {
    fn root_inode(&self) -> u64;
    fn delete_whiteout(&self, ctx: &Context, parent: u64, name: &CStr) -> (r: Result<()>);
    fn set_opaque(&self, ctx: &Context, inode: u64) -> (r: Result<()>);
}
impl Layer for LayerObj {
    #[verifier::external_body] fn root_inode(&self) -> (r: u64) { unimplemented!() }
    #[verifier::external_body] fn delete_whiteout(&self, ctx: &Context, parent: u64, name: &CStr) -> (r: Result<()>) { unimplemented!() }
    #[verifier::external_body] fn set_opaque(&self, ctx: &Context, inode: u64) -> (r: Result<()>) { unimplemented!() }
}
%(GRANT)s
// every capability of the layer model is granted: this unit decides what happens to the VIEW, not which layer is touched (unit ovl_ops)
pub open spec fn bk_grant() -> bool { grant_all_args() && forall|l: LayerObj| #[trigger] l.is_upper() }

// ---- the store: InodeStore::remove_inode as a function of the view (store_removed of unit ovl_view + the reservation)
pub open spec fn store_rm(o: LView, inode: u64, path: Option<Seq<char>>) -> LView {
    LView {
        inodes: (if o.inodes.contains_key(inode) { o.inodes.remove(inode) } else { o.inodes }),
        deleted: (if o.inodes.contains_key(inode) { if o.ctr[o.inodes[inode].lookups.id()] > 0 { o.deleted.insert(inode, o.inodes[inode]) } else { o.deleted } }
                  else if o.deleted.contains_key(inode) { if o.ctr[o.deleted[inode].lookups.id()] == 0 { o.deleted.remove(inode) } else { o.deleted } } else { o.deleted }),
        paths: (match path { Some(p) => o.paths.remove(p), None => o.paths }),
        ..o }
}
pub open spec fn opt_view(p: Option<String>) -> Option<Seq<char>> { match p { Some(s) => Some(s@), None => None } }
// alloc_inode: the number the store remembers for the path, else one that no live or delayed-removal node carries
pub open spec fn alloc_num(v: LView, path: Seq<char>, i: u64) -> bool { if v.paths.contains_key(path) { i == v.paths[path] } else { !v.used(i) } }
'''

BKN = r'''
// ---- S-NODE: the node operations of unit ovl_merge, over the token
pub open spec fn sp_in_upper(rs: Seq<RealInode>) -> bool { rs.len() > 0 && rs[0].in_upper_layer }
pub open spec fn sp_upper_only(rs: Seq<RealInode>) -> bool { rs.len() == 1 && rs[0].in_upper_layer }
// none of the node's cells is known to the view (the node was made after this view), and its three flags are three cells
pub open spec fn node_new(v: LView, n: OverlayInode) -> bool {
    &&& !v.flag.contains_key(n.whiteout.id()) && !v.flag.contains_key(n.loaded.id()) && !v.flag.contains_key(n.lower_exists.id())
    &&& n.whiteout.id() != n.loaded.id() && n.whiteout.id() != n.lower_exists.id() && n.loaded.id() != n.lower_exists.id()
    &&& !v.ctr.contains_key(n.lookups.id()) && !v.kids.contains_key(n.childrens.id()) && !v.par.contains_key(n.parent.id()) && !v.ris.contains_key(n.real_inodes.id())
}
// the view with the cells of a node as new_from_real_inode leaves them: hidden iff the real inode is a whiteout, not loaded, no children, ONE reference (the tree's own),
// `lower_exists` as the real inode says; `pl` = what the parent link yields
pub open spec fn with_node(v: LView, n: OverlayInode, ri: RealInode, pl: Option<Node>) -> LView {
    LView { flag: v.flag.insert(n.whiteout.id(), ri.whiteout).insert(n.loaded.id(), false).insert(n.lower_exists.id(), !ri.in_upper_layer && !ri.whiteout),
            ctr: v.ctr.insert(n.lookups.id(), 1), kids: v.kids.insert(n.childrens.id(), Map::<Seq<char>, Node>::empty()), par: v.par.insert(n.parent.id(), pl),
            ris: v.ris.insert(n.real_inodes.id(), seq![ri]), ..v }
}
impl OverlayInode {
    #[verifier::external_body] pub fn in_upper_layer(&self, Tracked(vxv): Tracked<&mut LView>) -> (r: bool)
        ensures *final(vxv) == *old(vxv), r == sp_in_upper(old(vxv).ris[self.real_inodes.id()]) { unimplemented!() }
    #[verifier::external_body] pub fn upper_layer_only(&self, Tracked(vxv): Tracked<&mut LView>) -> (r: bool)
        ensures *final(vxv) == *old(vxv), r == sp_upper_only(old(vxv).ris[self.real_inodes.id()]) { unimplemented!() }
    #[verifier::external_body] pub fn add_upper_inode(&self, ri: RealInode, clear_lowers: bool, Tracked(vxv): Tracked<&mut LView>)
        ensures *final(vxv) == (LView { flag: old(vxv).flag.insert(self.whiteout.id(), ri.whiteout),
            ris: old(vxv).ris.insert(self.real_inodes.id(), if clear_lowers { seq![ri] } else { seq![ri] + old(vxv).ris[self.real_inodes.id()] }), ..*old(vxv) }) { unimplemented!() }
    // dispatch of handle_upper_inode_locked (rule R29 inlines the closures against it; verified on the real text in unit ovl_merge)
    #[verifier::external_body] pub fn hu_upper(&self, Tracked(vxv): Tracked<&mut LView>) -> (r: Result<Option<&RealInode>>)
        ensures *final(vxv) == *old(vxv), old(vxv).ris[self.real_inodes.id()].len() == 0 ==> r is Err,
            old(vxv).ris[self.real_inodes.id()].len() > 0 ==> r is Ok && (r->Ok_0 is Some <==> old(vxv).ris[self.real_inodes.id()][0].in_upper_layer)
                && (r->Ok_0 is Some ==> *r->Ok_0->Some_0 == old(vxv).ris[self.real_inodes.id()][0]) { unimplemented!() }
    // [C10.union.single] + [C11.new_from_real_inode.lower_record] of unit ovl_merge; the node's cells are new, Mutex<Weak<..>>::default() is Weak::new(): upgrade() = None
    #[verifier::external_body] pub fn new_from_real_inode(name: &str, ino: u64, path: String, real_inode: RealInode, Tracked(vxv): Tracked<&mut LView>) -> (r: Self)
        ensures r.inode == ino && r.path@ == path@ && r.name@ == name@, node_new(*old(vxv), r), *final(vxv) == with_node(*old(vxv), r, real_inode, None::<Node>) { unimplemented!() }
}

// ---- clause 4: COPY-UP.  Nothing but real inodes changes: same node table, same store, same children tables, parent links, counters; a node's real inodes stay or
// now start with a visible upper object; no flag is ever set, and none changes when nothing visible hangs below a whiteout (add_upper_inode stores the new real
// inode's whiteout mark - false - into the node's flag)
pub open spec fn same_but_ris_flag(o: LView, n: LView) -> bool {
    n.ctr == o.ctr && n.kids == o.kids && n.par == o.par && n.inodes == o.inodes && n.deleted == o.deleted && n.paths == o.paths && n.collided == o.collided
}
pub open spec fn ris_up(o: LView, n: LView) -> bool { forall|id: int| (#[trigger] n.ris[id]) == o.ris[id] || (n.ris[id].len() > 0 && n.ris[id][0].in_upper_layer && !n.ris[id][0].whiteout) }
pub open spec fn flags_cleared(o: LView, n: LView) -> bool { forall|id: int| (#[trigger] n.flag[id]) == o.flag[id] || !n.flag[id] }
pub open spec fn flags_same(o: LView, n: LView) -> bool { forall|id: int| (#[trigger] n.flag[id]) == o.flag[id] }
pub open spec fn vis_par(v: LView) -> bool {
    forall|x: OverlayInode| v.par[#[trigger] x.parent.id()] is Some && !v.flag[x.whiteout.id()] ==> !v.flag[v.par[x.parent.id()]->Some_0.whiteout.id()]
}
pub open spec fn up_rel(o: LView, n: LView, x: OverlayInode) -> bool {
    same_but_ris_flag(o, n) && ris_up(o, n) && flags_cleared(o, n) && (vis_par(o) && !o.flag[x.whiteout.id()] ==> flags_same(o, n))
}

// ---- what a directory node's table holds: visible children (vis of unit ovl_view: the non-whiteout ones, in table order) and whiteouts
pub open spec fn n_vis(v: LView, d: OverlayInode) -> nat { vis(v, kids_vals(v.kids[d.childrens.id()])).len() }
pub open spec fn n_all(v: LView, d: OverlayInode) -> nat { kids_vals(v.kids[d.childrens.id()]).len() }
// count_entries_and_whiteout as a function of the view
pub open spec fn count_res(v: LView, d: OverlayInode, ctx: Context, r: Result<(u64, u64)>) -> bool {
    let st = s_stat(v.ris[d.real_inodes.id()], ctx);
    if st is Err { r == Err::<(u64, u64), Error>(st->Err_0) } else if !sp_is_dir(st->Ok_0) { r is Err && err_is(r->Err_0, 20) }
    else { r is Ok && r->Ok_0.0 == n_vis(v, d) && r->Ok_0.0 + r->Ok_0.1 == n_all(v, d) && n_all(v, d) <= 0xffff_ffff_ffff_ffff }
}
// a directory has a visible child <==> the count is not zero (lemma_listing of unit ovl_view: the visible children are exactly the table's non-whiteout entries)
pub open spec fn n_vis_of(v: LView, d: Node) -> nat { n_vis(v, *d) }
pub proof fn lemma_n_vis(v: LView, d: Node)
    ensures n_vis_of(v, d) > 0 <==> exists|k: Seq<char>| v.kids[d.childrens.id()].contains_key(k) && !v.flag[(#[trigger] v.kids[d.childrens.id()][k]).whiteout.id()] // [C10.bk.lemma.n_vis]
{
    lemma_listing(v, d);
    let tbl = v.kids[d.childrens.id()]; let fk = vis_keys(v, tbl, hm_order(tbl));
    assert(dir_ents(v, d).len() == 2 + n_vis_of(v, d));
    if n_vis_of(v, d) > 0 { assert(fk.contains(fk[0])); assert(tbl.contains_key(fk[0]) && !v.flag[tbl[fk[0]].whiteout.id()]); }
    if exists|k: Seq<char>| tbl.contains_key(k) && !v.flag[(#[trigger] tbl[k]).whiteout.id()] {
        let k = choose|k: Seq<char>| tbl.contains_key(k) && !v.flag[(#[trigger] tbl[k]).whiteout.id()]; assert(fk.contains(k));
    }
}

// ---- clause 1: ENTERING a name
pub open spec fn unit_res<T>(r: Result<T>) -> Result<()> { match r { Ok(_) => Ok(()), Err(e) => Err(e) } }
pub open spec fn same_but_collided(o: LView, n: LView) -> bool { n == (LView { collided: n.collided, ..o }) && (o.collided ==> n.collided) }
// do_create: a handle number taken from the counter `next_handle`
pub open spec fn bump_cell(v: LView, hb: Option<int>) -> LView { match hb { Some(id) => LView { ctr: v.ctr.insert(id, add_wrap(v.ctr[id], 1)), ..v }, None => v } }
// the whiteout node `nd` turned into the new file IN PLACE: its flag and its real inodes; same node, same number, same entries in table and store
pub open spec fn revived(v: LView, nd: OverlayInode, ri: RealInode) -> LView {
    LView { flag: v.flag.insert(nd.whiteout.id(), ri.whiteout), ris: v.ris.insert(nd.real_inodes.id(), seq![ri]), ..v }
}
// `nd` entered under its own number in the store (which remembers the path) and under `name` in p's table
pub open spec fn entered(v: LView, p: OverlayInode, name: Seq<char>, nd: Node) -> LView {
    LView { inodes: v.inodes.insert(nd.inode, nd), paths: v.paths.insert(nd.path@, nd.inode), kids: v.kids.insert(p.childrens.id(), v.kids[p.childrens.id()].insert(name, nd)),
            par: v.par.insert(nd.parent.id(), Some(Arc::new(p))), ..v }      // insert_child also links the entered node to the directory it is entered into (since the repair of K1)
}
// exactly one NEW node made under (p, name) from the view `vc`: it is what p's table holds under `name` afterwards
pub open spec fn made(vc: LView, n: LView, p: Node, name: Seq<char>, lower: Option<bool>, wh: bool, hb: Option<int>, strict: bool) -> bool {
    let nd = n.kids[p.childrens.id()][name]; let ri = n.ris[nd.real_inodes.id()][0]; let pl = n.par[nd.parent.id()];
    let va = LView { collided: vc.collided || vc.used(nd.inode), ..vc };
    let vb = with_node(va, *nd, ri, None::<Node>);      // a node is made without a parent link (new_from_real_inode); entering it sets the link
    let vl = match lower { Some(b) => LView { flag: vb.flag.insert(nd.lower_exists.id(), b), ..vb }, None => vb };
    &&& node_new(vc, *nd) && nd.name@ == name && nd.path@ == path_join_spec(p.path@, name) && alloc_num(vc, nd.path@, nd.inode) && ri.whiteout == wh
    &&& n == bump_cell(entered(vl, *p, name, nd), hb)
    &&& (strict ==> pl == Some(p))
}
pub open spec fn new_or_err(vc: LView, n: LView, p: Node, name: Seq<char>, lower: Option<bool>, ok: bool, hb: Option<int>, strict: bool) -> bool {
    if ok { made(vc, n, p, name, lower, false, hb, strict) } else { same_but_collided(vc, n) }
}
pub open spec fn revive_or_err(vc: LView, n: LView, nd: OverlayInode, ok: bool, hb: Option<int>) -> bool {
    if ok { !n.ris[nd.real_inodes.id()][0].whiteout && n == bump_cell(revived(vc, nd, n.ris[nd.real_inodes.id()][0]), hb) } else { n == vc }
}
// after the lookup of (p, name) gave r0 in view v1.  kind: 0 = mknod / symlink / create / link (a whiteout node is turned into the file), 1 = mkdir (a new node replaces it);
// cu: the parent is copied up here (do_link has done it before)
pub open spec fn enter_rest(v1: LView, n: LView, p: Node, name: Seq<char>, r0: Result<Node>, r: Result<()>, kind: int, cu: bool, hb: Option<int>, strict: bool) -> bool {
    match r0 {
        Ok(nd) =>
            if !v1.flag[nd.whiteout.id()] { n == v1 && r is Err && err_is(r->Err_0, 17) }
            else if !cu { if kind == 1 { new_or_err(v1, n, p, name, Some(v1.flag[nd.lower_exists.id()]), r is Ok, hb, strict) } else { revive_or_err(v1, n, *nd, r is Ok, hb) } }
            else { exists|vc: LView| #[trigger] up_rel(v1, vc, *p) && (if kind == 1 { new_or_err(vc, n, p, name, Some(v1.flag[nd.lower_exists.id()]), r is Ok, hb, strict) } else { revive_or_err(vc, n, *nd, r is Ok, hb) }) },
        Err(e) =>
            if e.os_code() != Some(2i32) { n == v1 && r == Err::<(), Error>(e) }
            else if !cu { new_or_err(v1, n, p, name, if kind == 1 { Some(false) } else { None::<bool> }, r is Ok, hb, strict) }
            else { exists|vc: LView| #[trigger] up_rel(v1, vc, *p) && new_or_err(vc, n, p, name, if kind == 1 { Some(false) } else { None::<bool> }, r is Ok, hb, strict) },
    }
}
// ---- clause 2: REMOVING a name
// empty_node_directory only removes: entries leave children tables and the store (a node still referenced moves to the delayed-removal table); nothing is added,
// no flag, counter, parent link or real inode changes
pub open spec fn shrunk(o: LView, n: LView) -> bool {
    &&& n.flag == o.flag && n.ctr == o.ctr && n.par == o.par && n.ris == o.ris && n.collided == o.collided
    &&& forall|i: u64| #[trigger] n.inodes.contains_key(i) ==> o.inodes.contains_key(i) && n.inodes[i] == o.inodes[i]
    &&& forall|i: u64| #[trigger] n.deleted.contains_key(i) ==> (o.deleted.contains_key(i) && n.deleted[i] == o.deleted[i]) || (o.inodes.contains_key(i) && n.deleted[i] == o.inodes[i])
    &&& forall|p: Seq<char>| #[trigger] n.paths.contains_key(p) ==> o.paths.contains_key(p) && n.paths[p] == o.paths[p]
    &&& forall|id: int, nm: Seq<char>| #[trigger] n.kids[id].contains_key(nm) ==> o.kids[id].contains_key(nm) && n.kids[id][nm] == o.kids[id][nm]
}
// the bookkeeping of a removal, from the view v5 (after the parent's copy-up and the layer's unlink / rmdir): the tree's own reference is dropped ONCE, the node leaves
// the live table (and stays findable in the delayed-removal table iff it is still referenced), ITS path gives up its number, ITS name leaves the parent's table;
// then, iff the whiteout rule asks for one (unit ovl_ops), a NEW whiteout node is entered under the name, with a number of its own
pub open spec fn rm_unlinked(v5: LView, pn: Node, nd: Node) -> LView {
    let v6 = LView { ctr: v5.ctr.insert(nd.lookups.id(), sub_wrap(v5.ctr[nd.lookups.id()], 1)), ..v5 };
    let v7 = store_rm(v6, nd.inode, Some(nd.path@));
    LView { kids: v7.kids.insert(pn.childrens.id(), v7.kids[pn.childrens.id()].remove(nd.name@)), ..v7 }
}
pub open spec fn rm_need_whiteout(v5: LView, pn: Node, nd: Node) -> bool {
    !(sp_upper_only(v5.ris[nd.real_inodes.id()]) && !v5.flag[nd.lower_exists.id()]) && !(sp_in_upper(v5.ris[nd.real_inodes.id()]) && v5.ris[pn.real_inodes.id()][0].opaque)
}
pub open spec fn rm_done(v5: LView, n: LView, pn: Node, nd: Node, sname: Seq<char>, r: Result<()>, strict: bool, atomic: bool) -> bool {
    let v8 = rm_unlinked(v5, pn, nd);
    if !rm_need_whiteout(v5, pn, nd) { n == v8 && r is Ok }
    else if r is Ok { made(v8, n, pn, sname, Some(true), true, None::<int>, strict) }
    else { same_but_collided(v8, n) && !atomic }      // the whiteout could not be made: the removal has happened all the same
}
pub open spec fn rm_core(v4: LView, n: LView, pn: Node, nd: Node, sname: Seq<char>, r: Result<()>, strict: bool, atomic: bool) -> bool {
    exists|v5: LView| #[trigger] up_rel(v4, v5, *pn) && ((r is Err && n == v5) || rm_done(v5, n, pn, nd, sname, r, strict, atomic))
}
// rmdir: the directory BEING REMOVED is loaded, then its table decides: a visible child -> ENOTEMPTY, nothing changed; only whiteouts -> the upper ones are removed first
pub open spec fn rm_dir2(v3: LView, n: LView, ctx: Context, pn: Node, nd: Node, sname: Seq<char>, r: Result<()>, strict: bool, atomic: bool) -> bool {
    let st = s_stat(v3.ris[nd.real_inodes.id()], ctx);
    if st is Err { n == v3 && r == Err::<(), Error>(st->Err_0) }
    else if !sp_is_dir(st->Ok_0) { n == v3 && r is Err && err_is(r->Err_0, 20) }
    else if n_vis(v3, *nd) > 0 { n == v3 && r is Err && err_is(r->Err_0, 39) }
    else if n_all(v3, *nd) > 0 && sp_in_upper(v3.ris[nd.real_inodes.id()]) { exists|v4: LView| #[trigger] shrunk(v3, v4) && ((r is Err && n == v4) || rm_core(v4, n, pn, nd, sname, r, strict, atomic)) }
    else { rm_core(v3, n, pn, nd, sname, r, strict, atomic) }
}
pub open spec fn rm_dir(v2: LView, n: LView, ctx: Context, pn: Node, nd: Node, sname: Seq<char>, r: Result<()>, strict: bool, atomic: bool) -> bool {
    if v2.flag[nd.loaded.id()] { rm_dir2(v2, n, ctx, pn, nd, sname, r, strict, atomic) }
    else { (r is Err && (n == v2 || load_broken(v2, n, nd, ctx))) || exists|v3: LView| #[trigger] loaded_from(v2, v3, nd, ctx) && rm_dir2(v3, n, ctx, pn, nd, sname, r, strict, atomic) }
}
pub open spec fn rm_post2(v1: LView, n: LView, ctx: Context, parent: u64, pn: Node, sname: Seq<char>, dir: bool, r: Result<()>, strict: bool, atomic: bool) -> bool {
    exists|r2: Result<Node>, v2: LView| #[trigger] lookup_node_post(v1, v2, ctx, parent, sname, r2) && (match r2 {
        Err(e) => n == v2 && r == Err::<(), Error>(e),
        Ok(nd) => if v2.flag[nd.whiteout.id()] { n == v2 && r is Err && err_is(r->Err_0, 2) }
                  else if dir { rm_dir(v2, n, ctx, pn, nd, sname, r, strict, atomic) } else { rm_core(v2, n, pn, nd, sname, r, strict, atomic) } })
}
pub open spec fn rm_post(has_upper: bool, o: LView, n: LView, ctx: Context, parent: u64, cname: Seq<u8>, dir: bool, r: Result<()>, strict: bool, atomic: bool) -> bool {
    if !has_upper { n == o && r is Err && err_is(r->Err_0, 30) }
    else { exists|r1: Result<Node>, v1: LView| #[trigger] lookup_node_post(o, v1, ctx, parent, Seq::<char>::empty(), r1) && (match r1 {
        Err(e) => n == v1 && r == Err::<(), Error>(e),
        Ok(pn) => if v1.flag[pn.whiteout.id()] { n == v1 && r is Err && err_is(r->Err_0, 2) } else { rm_post2(v1, n, ctx, parent, pn, lossy_str(cname), dir, r, strict, atomic) } }) }
}

// ---- clause 3: LINK.  The source (not a directory) and the new parent are copied up first; then the new NAME is entered like any other: a node of its own
pub open spec fn link_post2(va: LView, n: LView, ctx: Context, np: Node, name: Seq<char>, r: Result<()>, strict: bool) -> bool {
    exists|vb: LView| #[trigger] up_rel(va, vb, *np) && ((r is Err && n == vb)
        || exists|r0: Result<Node>, v1: LView| #[trigger] lookup_node_post(vb, v1, ctx, np.inode, name, r0) && enter_rest(v1, n, np, name, r0, r, 0, false, None::<int>, strict))
}
pub open spec fn link_post(has_upper: bool, o: LView, n: LView, ctx: Context, src: Node, np: Node, name: Seq<char>, r: Result<()>, strict: bool) -> bool {
    let st = s_stat(o.ris[src.real_inodes.id()], ctx);
    if !has_upper { n == o && r is Err && err_is(r->Err_0, 30) }
    else if o.flag[src.whiteout.id()] || o.flag[np.whiteout.id()] { n == o && r is Err && err_is(r->Err_0, 2) }
    else if st is Err { n == o && r == Err::<(), Error>(st->Err_0) }
    else if sp_is_dir(st->Ok_0) { n == o && r is Err && err_is(r->Err_0, 1) }
    else { exists|va: LView| #[trigger] up_rel(o, va, *src) && ((r is Err && n == va) || link_post2(va, n, ctx, np, name, r, strict)) }
}
pub open spec fn enter_post(has_upper: bool, o: LView, n: LView, ctx: Context, p: Node, name: Seq<char>, r: Result<()>, kind: int, hb: Option<int>, strict: bool) -> bool {
    if !has_upper { n == o && r is Err }
    else if o.flag[p.whiteout.id()] { n == o && r is Err && err_is(r->Err_0, 2) }
    else { exists|r0: Result<Node>, v1: LView| #[trigger] lookup_node_post(o, v1, ctx, p.inode, name, r0) && enter_rest(v1, n, p, name, r0, r, kind, true, hb, strict) }
}

// ---- the handlers: lookup_node(parent, "") ; do_X ; do_lookup(parent, name), composed.  The reply is do_lookup's: the entry of the node now under the name, ONE more reference
// hcheck: the handler itself refuses a whiteout parent (symlink leaves that to do_symlink, which looks for the upper layer first)
pub open spec fn h_enter_post(has_upper: bool, o: LView, n: LView, ctx: Context, parent: u64, name: Seq<char>, r: Result<Entry>, kind: int, hcheck: bool, at: Duration, et: Duration) -> bool {
    exists|r1: Result<Node>, v1: LView| #[trigger] lookup_node_post(o, v1, ctx, parent, Seq::<char>::empty(), r1) && (match r1 {
        Err(e) => n == v1 && r == Err::<Entry, Error>(e),
        Ok(pn) => if hcheck && v1.flag[pn.whiteout.id()] { n == v1 && r is Err && err_is(r->Err_0, 2) }
                  else { exists|v2: LView, rx: Result<()>| #[trigger] enter_post(has_upper, v1, v2, ctx, pn, name, rx, kind, None::<int>, false) && (match rx {
                      Err(e) => n == v2 && r == Err::<Entry, Error>(e),
                      Ok(_) => dl_post(v2, n, ctx, parent, name, r, at, et) }) } })
}
pub open spec fn create_hb(hid: int, rc: Result<Option<u64>>) -> Option<int> { if rc is Ok && rc->Ok_0 is Some { Some(hid) } else { None::<int> } }
pub open spec fn h_create_post(has_upper: bool, hid: int, o: LView, n: LView, ctx: Context, parent: u64, name: Seq<char>, r: Result<(Entry, Option<u64>, OpenOptions, Option<u32>)>, at: Duration, et: Duration) -> bool {
    exists|r1: Result<Node>, v1: LView| #[trigger] lookup_node_post(o, v1, ctx, parent, Seq::<char>::empty(), r1) && (match r1 {
        Err(e) => n == v1 && r == Err::<(Entry, Option<u64>, OpenOptions, Option<u32>), Error>(e),
        Ok(pn) => if v1.flag[pn.whiteout.id()] { n == v1 && r is Err && err_is(r->Err_0, 2) }
                  else { exists|v2: LView, rc: Result<Option<u64>>| #[trigger] enter_post(has_upper, v1, v2, ctx, pn, name, unit_res(rc), 0, create_hb(hid, rc), false) && (match rc {
                      Err(e) => n == v2 && r == Err::<(Entry, Option<u64>, OpenOptions, Option<u32>), Error>(e),
                      Ok(h) => exists|re: Result<Entry>| #[trigger] dl_post(v2, n, ctx, parent, name, re, at, et) && (match re {
                          Err(e) => r == Err::<(Entry, Option<u64>, OpenOptions, Option<u32>), Error>(e),
                          Ok(en) => r is Ok && r->Ok_0.0 == en && r->Ok_0.1 == h && r->Ok_0.3 is None }) }) } })
}
pub open spec fn h_link_post(has_upper: bool, o: LView, n: LView, ctx: Context, inode: u64, newparent: u64, name: Seq<char>, r: Result<Entry>, at: Duration, et: Duration) -> bool {
    exists|r1: Result<Node>, v1: LView| #[trigger] lookup_node_post(o, v1, ctx, inode, Seq::<char>::empty(), r1) && (match r1 {
        Err(e) => n == v1 && r == Err::<Entry, Error>(e),
        Ok(src) => if v1.flag[src.whiteout.id()] { n == v1 && r is Err && err_is(r->Err_0, 2) } else { h_link_post2(has_upper, v1, n, ctx, src, newparent, name, r, at, et) } })
}
pub open spec fn h_link_post2(has_upper: bool, v1: LView, n: LView, ctx: Context, src: Node, newparent: u64, name: Seq<char>, r: Result<Entry>, at: Duration, et: Duration) -> bool {
    exists|r2: Result<Node>, v2: LView| #[trigger] lookup_node_post(v1, v2, ctx, newparent, Seq::<char>::empty(), r2) && (match r2 {
        Err(e) => n == v2 && r == Err::<Entry, Error>(e),
        Ok(np) => if v2.flag[np.whiteout.id()] { n == v2 && r is Err && err_is(r->Err_0, 2) }
                  else { exists|v3: LView, rx: Result<()>| #[trigger] link_post(has_upper, v2, v3, ctx, src, np, name, rx, false) && (match rx {
                      Err(e) => n == v3 && r == Err::<Entry, Error>(e),
                      Ok(_) => dl_post(v3, n, ctx, newparent, name, r, at, et) }) } })
}

// =====================================================================================================================================
// CHECKED LEMMAS: what the relations above mean for the tree a client sees, clause by clause of the property
// 1. a node `made` under (p, name), p's table being a table the view knows: exactly ONE entry of ONE table is written - (name -> the new node), replacing what
//    was there -, the store gains exactly that node under its own number and remembers its path, the delayed-removal table is untouched; the new node carries the
//    right name and path, ONE reference, is visible unless it is a whiteout; a number the store did not remember for this very path is FRESH: no live or
//    delayed-removal node carries it; every cell, counter, link, real inode the view knew is as it was
pub proof fn lemma_made(vc: LView, n: LView, p: Node, name: Seq<char>, lower: Option<bool>, wh: bool)
    requires made(vc, n, p, name, lower, wh, None::<int>, false), vc.kids.contains_key(p.childrens.id())
    ensures ({ let nd = n.kids[p.childrens.id()][name]; let pc = p.childrens.id();
        &&& n.kids[pc] == vc.kids[pc].insert(name, nd)                                                                       // [C10.bk.lemma.made.one_entry]
        &&& forall|id: int| id != pc && #[trigger] vc.kids.contains_key(id) ==> n.kids[id] == vc.kids[id]                     // [C10.bk.lemma.made.other_tables]
        &&& n.inodes == vc.inodes.insert(nd.inode, nd) && n.deleted == vc.deleted && n.paths == vc.paths.insert(nd.path@, nd.inode)   // [C10.bk.lemma.made.store]
        &&& nd.name@ == name && nd.path@ == path_join_spec(p.path@, name)                                                    // [C10.bk.lemma.made.name_path]
        &&& n.ctr[nd.lookups.id()] == 1 && n.flag[nd.whiteout.id()] == wh && !n.flag[nd.loaded.id()] && n.kids[nd.childrens.id()] == Map::<Seq<char>, Node>::empty()   // [C10.bk.lemma.made.node]
        &&& (!vc.paths.contains_key(nd.path@) ==> !vc.used(nd.inode) && !n.deleted.contains_key(nd.inode))                  // [C10.bk.lemma.made.fresh_number]
        &&& (forall|id: int| #[trigger] vc.ctr.contains_key(id) ==> n.ctr[id] == vc.ctr[id]) && (forall|id: int| #[trigger] vc.flag.contains_key(id) ==> n.flag[id] == vc.flag[id])
        &&& (forall|id: int| #[trigger] vc.par.contains_key(id) ==> n.par[id] == vc.par[id]) && (forall|id: int| #[trigger] vc.ris.contains_key(id) ==> n.ris[id] == vc.ris[id])   // [C10.bk.lemma.made.frame]
    })
{ }
// 1'. mkdir over a whiteout node `w` that is the live node of its number and whose path is the one the store remembers: the new directory takes w's place in
//    the table AND in the store under the same number: w is no longer reachable, nothing is duplicated
pub proof fn lemma_made_replaces(vc: LView, n: LView, p: Node, name: Seq<char>, lower: Option<bool>, w: Node)
    requires made(vc, n, p, name, lower, false, None::<int>, false), vc.kids.contains_key(p.childrens.id()),
        vc.kids[p.childrens.id()].contains_key(name) && vc.kids[p.childrens.id()][name] == w, w.path@ == path_join_spec(p.path@, name),
        vc.paths.contains_key(w.path@) && vc.paths[w.path@] == w.inode, vc.inodes.contains_key(w.inode) && vc.inodes[w.inode] == w, !vc.deleted.contains_key(w.inode)
    ensures ({ let nd = n.kids[p.childrens.id()][name];
        nd.inode == w.inode && n.inodes[w.inode] == nd && n.inodes.dom() == vc.inodes.dom() && !n.deleted.contains_key(nd.inode) && n.kids[p.childrens.id()].dom() == vc.kids[p.childrens.id()].dom() })   // [C10.bk.lemma.made.replaces_whiteout]
{
    let nd = n.kids[p.childrens.id()][name];
    assert(n.inodes.dom() =~= vc.inodes.dom());
    assert(n.kids[p.childrens.id()].dom() =~= vc.kids[p.childrens.id()].dom());
}
// 1''. a whiteout node turned into the file in place: same node, same number, same entries everywhere; only its flag and its real inodes change
pub proof fn lemma_revived(vc: LView, n: LView, nd: OverlayInode, ri: RealInode)
    requires n == revived(vc, nd, ri), !ri.whiteout
    ensures n.kids == vc.kids && n.inodes == vc.inodes && n.deleted == vc.deleted && n.paths == vc.paths && n.ctr == vc.ctr && n.par == vc.par, !n.flag[nd.whiteout.id()],   // [C10.bk.lemma.revived.in_place]
        forall|id: int| id != nd.whiteout.id() ==> (#[trigger] n.flag[id]) == vc.flag[id]
{ }
// 2. the bookkeeping of a removal, for a node that is the live node of its number and sits under its own name in the parent's table (whose cell is not the
//    node's own): it leaves the live table; iff a client still references it (count beyond the tree's own reference) it stays findable in the delayed-removal
//    table; the tree's reference is dropped exactly once; its path's reservation is gone; its name is gone from the parent's table; nothing else changes
pub proof fn lemma_rm_unlinked(v5: LView, pn: Node, nd: Node)
    requires v5.inodes.contains_key(nd.inode) && v5.inodes[nd.inode] == nd, !v5.deleted.contains_key(nd.inode), v5.ctr[nd.lookups.id()] >= 1
    ensures ({ let v8 = rm_unlinked(v5, pn, nd); let pc = pn.childrens.id();
        &&& !v8.inodes.contains_key(nd.inode) && v8.inodes == v5.inodes.remove(nd.inode)                                         // [C10.bk.lemma.rm.leaves_live_table]
        &&& v8.ctr == v5.ctr.insert(nd.lookups.id(), (v5.ctr[nd.lookups.id()] - 1) as u64)                                      // [C10.bk.lemma.rm.own_reference_once]
        &&& (v5.ctr[nd.lookups.id()] >= 2 ==> v8.any_node(nd.inode) == Some(nd) && v8.deleted == v5.deleted.insert(nd.inode, nd))   // [C10.bk.lemma.rm.delayed_findable]
        &&& (v5.ctr[nd.lookups.id()] == 1 ==> !v8.used(nd.inode) && v8.deleted == v5.deleted)                                    // [C10.bk.lemma.rm.unreferenced_gone]
        &&& v8.paths == v5.paths.remove(nd.path@) && !v8.paths.contains_key(nd.path@)                                             // [C10.bk.lemma.rm.reservation_given_up]
        &&& v8.kids == v5.kids.insert(pc, v5.kids[pc].remove(nd.name@)) && !v8.kids[pc].contains_key(nd.name@)                     // [C10.bk.lemma.rm.name_gone]
        &&& v8.flag == v5.flag && v8.par == v5.par && v8.ris == v5.ris && v8.collided == v5.collided                             // [C10.bk.lemma.rm.frame]
    })
{ }
// 2'. the whiteout node that takes the place of a removed node whose path was parent.path/name: ITS number is fresh - never the number of the removed node when
//    that one is still referenced (the defect D24: the successor shared the number of its unlinked, still referenced predecessor)
pub proof fn lemma_rm_whiteout_number(v5: LView, n: LView, pn: Node, nd: Node, sname: Seq<char>)
    requires made(rm_unlinked(v5, pn, nd), n, pn, sname, Some(true), true, None::<int>, false), nd.path@ == path_join_spec(pn.path@, sname),
        v5.inodes.contains_key(nd.inode) && v5.inodes[nd.inode] == nd, !v5.deleted.contains_key(nd.inode), v5.ctr[nd.lookups.id()] >= 2
    ensures ({ let w = n.kids[pn.childrens.id()][sname]; w.inode != nd.inode && n.deleted.contains_key(nd.inode) && n.deleted[nd.inode] == nd && n.inodes[w.inode] == w && !rm_unlinked(v5, pn, nd).used(w.inode) })   // [C10.bk.lemma.rm.whiteout_number_fresh]
{ }
// 4. copy-up: with nothing visible below a whiteout, the view after a copy-up reads the same in every cell but real inodes
pub proof fn lemma_copy_up_same_view(o: LView, n: LView, x: OverlayInode)
    requires up_rel(o, n, x), vis_par(o), !o.flag[x.whiteout.id()]
    ensures n.kids == o.kids && n.inodes == o.inodes && n.deleted == o.deleted && n.paths == o.paths && n.ctr == o.ctr && n.par == o.par, forall|id: int| (#[trigger] n.flag[id]) == o.flag[id],   // [C10.bk.lemma.copy_up.same_view]
        forall|id: int| (#[trigger] n.ris[id]) == o.ris[id] || sp_in_upper(n.ris[id])
{ }
// the reply of a handler: do_lookup of a name whose parent directory is in the table and loaded, and whose table entry is a visible node that needs no load:
// the entry carries THAT node's own number, and exactly one reference is added to exactly that node (a node just made: the tree's own + the client's = 2)
pub proof fn lemma_reply(v2: LView, n: LView, ctx: Context, parent: u64, name: Seq<char>, r: Result<Entry>, at: Duration, et: Duration)
    requires dl_post(v2, n, ctx, parent, name, r, at, et), !has_slash(name), !lk_self(parent, name), v2.inodes.contains_key(parent),
        ({ let p = v2.inodes[parent]; !v2.flag[p.whiteout.id()] && s_stat(v2.ris[p.real_inodes.id()], ctx) is Ok && !lk_needs_load(v2, *p, ctx)
            && v2.kids[p.childrens.id()].contains_key(name) && !v2.flag[v2.kids[p.childrens.id()][name].whiteout.id()] && !lk_needs_load(v2, *v2.kids[p.childrens.id()][name], ctx) })
    ensures ({ let nd = v2.kids[v2.inodes[parent].childrens.id()][name];
        r is Ok ==> r->Ok_0.inode == nd.inode && n == bump(v2, nd) && n.ctr[nd.lookups.id()] == add_wrap(v2.ctr[nd.lookups.id()], 1) })   // [C10.bk.lemma.reply.own_number_one_reference]
{
    reveal(lookup_node_post);
}
'''


def grant_text():
    """grant_all_args / no_upper of unit ovl_ops, textually (the tail of its CAPS text, which does not mention its heap)"""
    marker = '// C10: without an upper layer'
    if marker not in O.CAPS:
        raise X.ExtractError('ovl_bk: marker of grant_all_args not found in ovl_ops.CAPS')
    t = marker + O.CAPS.split(marker, 1)[1]
    if 'Heap' in t or 'vxh' in t:
        raise X.ExtractError('ovl_bk: the capability text of unit ovl_ops mentions its heap')
    return t


# ---- new rule, additive and opt-in: R60v `M.values().cloned().collect::<Vec<_>>()` -> `M.values_vec()`
# (HashMap::values visits every value once in the table's iteration order, cloned() clones each Arc - the same node -, collect::<Vec<_>> keeps the order:
#  exactly the model constructor `values_vec` of rule R60, unit ovl_view.)  Nothing is dropped.
def r60v_values_collect(recv_rx):
    def hook(body, fired):
        rx = r'(%s)\s*\.\s*values\(\)\s*\.\s*cloned\(\)\s*\.\s*collect::<Vec<_>>\(\)' % recv_rx
        hits = list(re.finditer(rx, body, flags=re.S))
        if len(hits) != 1:
            raise X.ExtractError('R60v: `%s.values().cloned().collect::<Vec<_>>()` matches %d times' % (recv_rx, len(hits)))
        m = hits[0]
        fired.append('R60v %s.values().cloned().collect::<Vec<_>>() -> .values_vec()' % X.norm_ws(m.group(1)))
        return body[:m.start()] + X._pad(m.group(1) + '.values_vec()', m.group(0)) + body[m.end():]
    return hook


FS_CALLEES = sorted(set(V.FS_CALLEES + [
    'in_upper_layer', 'upper_layer_only', 'add_upper_inode', 'hu_upper', 'fetch_sub', 'count_entries_and_whiteout', 'create_upper_dir',
    'copy_symlink_up', 'copy_regfile_up', 'copy_node_up', 'empty_node_directory', 'do_mkdir', 'do_mknod', 'do_create', 'do_symlink', 'do_link', 'do_rm']))
PATH_CALLEES = ['new_from_real_inode']
OTHERSTR = O.OTHERSTR
SELF_ARC = O.SELF_ARC
EMPTY = 'proof { reveal_strlit(""); assert(""@ =~= Seq::<char>::empty()); }'


def tok(f, path=True):
    f.rules = tuple(getattr(f, 'rules', ())) + ('R23',)
    f.ghost_token = dict(V.TOK, callees=list(FS_CALLEES), path_callees=list(PATH_CALLEES) if path else None)
    return f


def shared_items(root):
    """the model of unit ovl_view: every item of ovl_view.unit() in front of its first group of functions (types, VIEW, NODEM), and the Fn objects it verifies"""
    base = V.unit(root)
    pre, fns, seen_group = [], {}, False

    def walk(items):
        for it in items:
            if isinstance(it, Group):
                walk(it.items)
            elif isinstance(it, Fn):
                fns[(it.scope, it.name)] = it
    for it in base.items:
        if isinstance(it, Group) and it.header.startswith('impl '):
            seen_group = True
        if seen_group:
            if isinstance(it, Group):
                walk([it])
        else:
            pre.append(it)
    out = []
    n_view = 0
    for it in pre:
        if isinstance(it, Raw) and it.text == V.VIEW:
            if V.VIEW.count(RM_OLD) != 1:
                raise X.ExtractError('ovl_bk: the remove_inode clause of the VIEW text of unit ovl_view has changed')
            it = Raw(V.VIEW.replace(RM_OLD, RM_NEW))
            n_view += 1
        elif isinstance(it, Raw) and 'pub proof fn lemma_loaded_children' in it.text:
            it = Raw(lemmas_as_given(it.text))
            n_view += 10
        out.append(it)
    if n_view != 11:
        raise X.ExtractError('ovl_bk: VIEW / NODEM text of unit ovl_view not found among its items')
    return base, out, fns


def lemmas_as_given(text):
    """the checked lemmas of the NODEM text are PROVED in unit ovl_view (same text); here their statements are taken as given: every `pub proof fn` keeps its
    signature and contract, its body is elided and the function marked external_body (mechanical: the body is the brace block that opens at the start of a line)"""
    out, k, n = [], 0, 0
    msk = X.mask(text)
    for m in re.finditer(r'(?m)^pub proof fn (\w+)', msk):
        b = re.compile(r'(?m)^\{').search(msk, m.end())
        nxt = re.compile(r'(?m)^pub ').search(msk, m.end())
        if not b or (nxt and nxt.start() < b.start()):
            raise X.ExtractError('ovl_bk: body of proof fn %s of unit ovl_view not found' % m.group(1))
        e = X.match_close(msk, b.start())
        out.append(text[k:m.start()] + '#[verifier::external_body] ' + text[m.start():b.start()] + '{ }      // proved in unit ovl_view')
        k = e + 1
        n += 1
    out.append(text[k:])
    if n == 0:
        raise X.ExtractError('ovl_bk: no lemma found in the NODEM text of unit ovl_view')
    return ''.join(out)


def imported(fns, scope, name):
    """a function unit ovl_view verifies, here contract only: the same Fn object (same contract strings), body not extracted"""
    f = copy.copy(fns[(scope, name)])
    f.external_body = True
    f.canary = False
    f.splices = []
    f.body_hooks = []
    f.body_resub = []
    return f


def real_weak(name):
    """S-REAL: the result clause the view needs, nothing else"""
    res = 'r->Ok_0.0' if name == 'create' else 'r->Ok_0'
    if name == 'create_whiteout':
        ens = ['r is Ok ==> %s.whiteout // S-REAL ([C10.real.create_whiteout.result] of unit ovl_real)' % res]
    else:
        ens = ['r is Ok ==> %s.in_upper_layer && !%s.whiteout // S-REAL ([C10.real.%s.result] of unit ovl_real)' % (res, res, name)]
    return Fn(OVL, RL.RI, name, ensures=ens, props=P, external_body=True)


def unit(root='/repo'):
    if not C.has_lower_flag(root):
        raise X.ExtractError('ovl_bk: struct OverlayInode has no `lower_exists` field in this tree')
    base, items, vf = shared_items(root)
    notes = [base.notes]
    items.append(Raw(BK.replace('%(GRANT)s', grant_text())))
    items.append(Group('impl RealInode {', [real_weak(n) for n in ('create_whiteout', 'mkdir', 'create', 'mknod', 'link', 'symlink')]))
    items.append(Raw(BKN))
    # ---- imported from unit ovl_view, contract only
    items.append(Group('impl OverlayInode {', [imported(vf, OI, n) for n in ('child', 'insert_child', 'remove_child')]))
    items.append(Group('impl OverlayFs {', [imported(vf, OF, n) for n in ('lookup_node', 'lookup_node_ignore_enoent', 'load_directory', 'do_lookup')]))

    # ------------------------------------------------------------------------------------------------ the store wrappers
    fns = [
        tok(Fn(OVL, OF, 'alloc_inode', props=P, canary=True,
               ensures=['%s == (LView { collided: old(vxv).collided || (r is Ok && old(vxv).used(r->Ok_0)), ..%s }) // the view is untouched (the ghost mark aside) [C10.bk.alloc_inode.frame]' % (H1, H0),
                        'r is Ok ==> alloc_num(%s, path@, r->Ok_0) // the number remembered for this path, else one no live or delayed-removal node carries [C10.bk.alloc_inode.number]' % H0])),
        tok(Fn(OVL, OF, 'insert_inode', props=P, canary=True,
               ensures=['%s == (LView { inodes: old(vxv).inodes.insert(inode, node), paths: old(vxv).paths.insert(node.path@, inode), ..%s }) // [C10.bk.insert_inode.exact]' % (H1, H0)])),
        tok(Fn(OVL, OF, 'remove_inode', props=P, canary=True,
               ensures=['%s == store_rm(%s, inode, opt_view(path_removed)) // exact table operation; the path told gives up its reserved number at once [C10.bk.remove_inode.reservation]' % (H1, H0)])),
    ]
    items.append(Group('impl OverlayFs {', fns))

    # ------------------------------------------------------------------------------------------------ counting a directory's entries
    CNT_INV = '''
            invariant *vxv == *old(vxv), kids_v@ == kv, kv.len() == vstd::std_specs::vec::spec_vec_len(&kids_v), kit.index@ <= kv.len(), kit.seq().len() == kv.len(), forall|i: int| 0 <= i < kv.len() ==> *kit.seq()[i] == kv[i],
                count == vis(*old(vxv), kv.take(kit.index@)).len(), count + whiteouts == kit.index@, // so far: the visible children seen, and every child seen counted once [C10.bk.count_entries_and_whiteout.loop]
        '''
    CNT_PRE = ' let ghost i0 = kit.index@; proof { assert(*child == kv[i0]); assert(kv.take(i0 + 1).drop_last() =~= kv.take(i0)); assert(kv.take(i0 + 1).last() == kv[i0]); }'
    cnt = tok(Fn(OVL, OI, 'count_entries_and_whiteout', props=P, canary=True,
                 ensures=['%s == %s // counting changes nothing [C10.bk.count_entries_and_whiteout.frame]' % (H1, H0),
                          'count_res(%s, *self, *ctx, r) // the visible children (non-whiteout entries of the table) and the whiteouts, every entry counted once; ENOTDIR for a non-directory [C10.bk.count_entries_and_whiteout.exact]' % H0],
                 splices=[('let mut whiteouts = 0;', 'replace', 'let mut whiteouts: u64 = 0; let ghost kv = kids_vals(old(vxv).kids[self.childrens.id()]); proof { assert(kv.take(0) =~= Seq::<Node>::empty()); }'),
                          ('let mut count = 0;', 'replace', 'let mut count: u64 = 0;'),
                          ('Ok((count, whiteouts))', 'before', 'proof { assert(kv.take(kv.len() as int) =~= kv); }')]))
    cnt.body_hooks = [R.r60_for_map_values(r'self\s*\.\s*childrens\s*\.\s*lock\(\)\s*\.\s*unwrap\(\)', 'kids_v', label='kit', header_extra=CNT_INV, body_prefix=CNT_PRE)]
    items.append(Group('impl OverlayInode {', [cnt]))

    # ------------------------------------------------------------------------------------------------ copy-up
    UP = 'up_rel(%s, %s, **X**) // a copy-up changes nothing in the view but real inodes [C10.bk.%%s.same_view]' % (H0, H1)
    INUP = 'r is Ok ==> sp_in_upper(final(vxv).ris[**X**.real_inodes.id()]) // afterwards the node stands on an upper object [C10.bk.%s.in_upper]'
    NOLOOP = ['#[verifier::exec_allows_no_decreases_clause]']
    cud = tok(Fn(OVL, OI, 'create_upper_dir', props=P, canary=True, sig_subst=SELF_ARC, body_resub=[OTHERSTR], attrs=NOLOOP, requires=['bk_grant()'],
                 ensures=[(UP % 'create_upper_dir').replace('**X**', '*self'), (INUP % 'create_upper_dir').replace('**X**', 'self')]))
    cud.body_hooks = [R.r29_inline_upper_closure(0)]
    items.append(Group('impl OverlayInode {', [cud]))
    SAME = 'r is Ok ==> r->Ok_0 == node // the node handed back is the node handed in: same node, same number [C10.bk.%s.same_node]'
    csu = tok(Fn(OVL, OF, 'copy_symlink_up', props=P, canary=True, requires=['bk_grant()', 'old(vxv).ris[node.real_inodes.id()].len() > 0 // first_layer_inode panics on a node without real inodes (the caller, copy_node_up, has seen its attributes)'],
                 body_resub=[OTHERSTR, (r'\bstd::str::from_utf8\(', 'str_from_utf8(', 'every: std::str::from_utf8 -> model (opaque here)')],
                 ensures=[(UP % 'copy_symlink_up').replace('**X**', '*node'), (INUP % 'copy_symlink_up').replace('**X**', 'node'), SAME % 'copy_symlink_up']))
    csu.body_hooks = [R.r29_inline_upper_closure(0)]
    LOOPH = 'up_rel(*old(vxv), *vxv, *node), bk_grant(),'
    cru = tok(Fn(OVL, OF, 'copy_regfile_up', props=P, canary=True, attrs=NOLOOP, requires=['bk_grant()'],
                 body_resub=[OTHERSTR, (r'TempFile::new\(\)\.unwrap\(\)\.into_file\(\)', 'vx_tempfile()', 'a fresh empty temporary file (the unwrap\'s panic on failure is dropped)')],
                 ensures=[(UP % 'copy_regfile_up').replace('**X**', '*node'), (INUP % 'copy_regfile_up').replace('**X**', 'node'), SAME % 'copy_regfile_up'],
                 splices=[('let mut upper_handle = 0u64;', 'before', 'proof { axiom_file_size(&*lower_layer, lower_inode); }'),
                          ('loop {', 'replace', '''loop
            invariant ''' + LOOPH + ''' file.pos() == file.data().len(), file.data().len() == offset, offset <= (*lower_layer).s_content(lower_inode).len(), (*lower_layer).s_content(lower_inode).len() <= 0x7fff_ffff_ffff_ffff, size == 4194304u32,
        {'''),
                          ('while let Some(ref ri) = upper_real_inode {', 'replace', '''while let Some(ref ri) = upper_real_inode
            invariant ''' + LOOPH + ''' file.pos() == offset, offset <= file.data().len(), file.data().len() <= 0x7fff_ffff_ffff_ffff, size == 4194304u32,
                upper_real_inode is Some ==> upper_real_inode->Some_0.in_upper_layer && !upper_real_inode->Some_0.whiteout,
        {''')]))
    cru.body_hooks = [R.r29_inline_upper_closure(0)]
    cnu = tok(Fn(OVL, OF, 'copy_node_up', props=P, canary=True, requires=['bk_grant()'],
                 ensures=[(UP % 'copy_node_up').replace('**X**', '*node'), (INUP % 'copy_node_up').replace('**X**', 'node'), SAME % 'copy_node_up']))
    items.append(Group('impl OverlayFs {', [csu, cru, cnu]))

    # ------------------------------------------------------------------------------------------------ entering a name
    PJ = ('format!("{}/{}", pnode.path, name)', 'path_join(pnode.path.as_str(), name)', 'the child path as a model call (R7 would erase it)')
    HAS_UP = 'self.upper_layer is Some'

    def enter_fn(name, kind, nclos, presub=(), resub=(), hooks=(), hb='None::<int>', res='r', extra=()):
        EP = 'enter_post(%s, %s, %s, *ctx, *parent_node, name@, %s, %d, %s, %%s)' % (HAS_UP, H0, H1, res, kind, hb)
        f = tok(Fn(OVL, OF, name, props=P, canary=True, requires=['bk_grant()'], body_resub=[OTHERSTR] + list(resub),
                   ensures=(['self.upper_layer is None ==> r is Err && err_is(r->Err_0, 30) // without an upper layer: EROFS [C10.bk.%s.no_upper]' % name] if res == 'r' else []) + [(EP % 'false') + ' // exactly one node under the name: the whiteout node turned into the file in place, or one new node in table and store; nothing else [C10.bk.%s.post]' % name,
                            (EP % 'true') + ' // ... and the new node is linked to its parent [C10.bk.%s.parent_link]' % name] + list(extra)))
        if presub:
            f.locate = R.presub_locate(OF, name, list(presub))
        f.body_hooks = list(hooks) + [R.r29_inline_upper_closure(0)] * nclos
        return f
    mknod = enter_fn('do_mknod', 0, 2, presub=[PJ])
    symlink = enter_fn('do_symlink', 0, 2, presub=[PJ])
    mkdir = enter_fn('do_mkdir', 1, 1, presub=[PJ])
    HB = 'create_hb(self.next_handle.id(), r)'
    create = enter_fn('do_create', 0, 2, presub=[PJ], hb=HB, res='unit_res(r)',
                      resub=[(r'\bAtomicU64::new\(', 'CounterCell::new_handle_cell(', 'AtomicU64::new for the RealHandle of the new HandleData -> a cell outside the view (model new_handle_cell)')],
                      hooks=[R.resub_hook(r'self\.handles\s*\.lock\(\)\s*\.unwrap\(\)\s*\.insert\(handle, Arc::new\(handle_data\)\)', 'self.handles.insert_handle(handle, Arc::new(handle_data))', 'the handle table (not part of the view): model call')],
                      )
    create.splices = [('^', 'after', 'broadcast use axiom_arc_cloned;')]
    LP = 'link_post(%s, %s, %s, *ctx, *src_node, *new_parent, name@, r, %%s)' % (HAS_UP, H0, H1)
    link = tok(Fn(OVL, OF, 'do_link', props=P, canary=True, requires=['bk_grant()'], body_resub=[OTHERSTR],
                  ensures=[(LP % 'false') + ' // source and new parent copied up (same view), then the new name is entered: what the code does is a node and a number of its OWN for the new name [C10.bk.do_link.post]',
                           (LP % 'true') + ' // ... linked to its parent [C10.bk.do_link.parent_link]']))
    link.locate = R.presub_locate(OF, 'do_link', [('format!("{}/{}", new_parent.path, name)', 'path_join(new_parent.path.as_str(), name)', 'the child path as a model call (R7 would erase it)')])
    link.body_hooks = [R.r29_inline_upper_closure(0)] * 2
    items.append(Group('impl OverlayFs {', [mknod, symlink, mkdir, create, link]))

    # ------------------------------------------------------------------------------------------------ removing a name
    END_INV = '''
            invariant shrunk(*old(vxv), *vxv), bk_grant(), // only removals so far [C10.bk.empty_node_directory.loop]
        '''
    end = tok(Fn(OVL, OF, 'empty_node_directory', props=P, canary=True, attrs=['#[verifier::exec_allows_no_decreases_clause]'], requires=['bk_grant()'],
                 ensures=['shrunk(%s, %s) // entries leave children tables and the store, nothing is added, nothing else changes [C10.bk.empty_node_directory.only_removes]' % (H0, H1)]))
    end.body_hooks = [r60v_values_collect(r'node\s*\.\s*childrens\s*\.\s*lock\(\)\s*\.\s*unwrap\(\)'),
                      R.r28_for_owned(r'\bfor\s+(child)\s+in\s+(iter)\s*\{', 'vec_into_iter', 'kid_it', header_extra=END_INV)]
    RMP = 'rm_post(%s, %s, %s, *ctx, parent, name@, dir, r, %%s, %%s)' % (HAS_UP, H0, H1)
    rm = tok(Fn(OVL, OF, 'do_rm', props=P, canary=True, requires=['bk_grant()'],
                ensures=[(RMP % ('false', 'false')) + ' // the complete case analysis of a removal over the whole view [C10.bk.do_rm.post]',
                         (RMP % ('true', 'false')) + ' // ... and the whiteout node is linked to its parent [C10.bk.do_rm.parent_link]',
                         (RMP % ('false', 'true')) + ' // ... and a removal that fails leaves the view as it was [C10.bk.do_rm.err_unchanged]'],
                splices=[('^', 'after', EMPTY)]))
    rm.locate = R.presub_locate(OF, 'do_rm', [('format!("{}/{}", pnode.path, sname)', 'path_join(pnode.path.as_str(), sname.as_str())', 'the child path as a model call (R7 would erase it)'),
                                              ('name.to_string_lossy().to_string()', 'cstr_to_string_lossy(name)', 'CStr::to_string_lossy().to_string() as one model call (lossy_str)')])
    rm.body_hooks = [R.r29_inline_upper_closure(0), R.r29_inline_upper_closure(0)]
    items.append(Group('impl OverlayFs {', [end, rm]))

    # ------------------------------------------------------------------------------------------------ the handlers (src/overlayfs/sync_io.rs)
    AT, ET = 'self.config.attr_timeout', 'self.config.entry_timeout'
    LOSSY = (r'name\.to_string_lossy\(\)\.to_string\(\)', 'cstr_to_string_lossy(name)', 'CStr::to_string_lossy().to_string() as one model call (the name as a String: lossy_str)')
    LOSSY2 = (r'\b(name|linkname)\.to_string_lossy\(\)\.into_owned\(\)\.to_owned\(\)', r'cstr_to_string_lossy(\1)', 'every: CStr::to_string_lossy().into_owned().to_owned() (Cow -> String -> its clone) as one model call (lossy_str)')
    HS = [('^', 'after', EMPTY)]

    def handler(name, kind, resub):
        HP = 'h_enter_post(%s, %s, %s, *ctx, parent, lossy_str(name@), r, %d, %s, %s, %s)' % (HAS_UP, H0, H1, kind, 'false' if name == 'symlink' else 'true', AT, ET)
        return tok(Fn(OVLS, FSI, name, props=P, canary=True, requires=['bk_grant()'], body_resub=[resub], splices=list(HS),
                      ensures=[HP + ' // the parent is looked up, the name entered (do_%s), and the reply is do_lookup of the new name: its node, its number, one more reference [C10.bk.%s.same]' % (name, name)]))
    h_mkdir, h_mknod, h_symlink = handler('mkdir', 1, LOSSY), handler('mknod', 0, LOSSY), handler('symlink', 0, LOSSY2)
    h_create = tok(Fn(OVLS, FSI, 'create', props=P, canary=True, requires=['bk_grant()'], splices=list(HS),
                      body_resub=[LOSSY, (r'\bopts \|= (OpenOptions::\w+)', r'opts = opts | \1', 'every: `x |= F` -> `x = x | F` on a bitflags value')],
                      ensures=['h_create_post(%s, self.next_handle.id(), %s, %s, *ctx, parent, lossy_str(name@), r, %s, %s) // CREATE = lookup_node ; do_create ; do_lookup [C10.bk.create.same]' % (HAS_UP, H0, H1, AT, ET)]))
    h_link = tok(Fn(OVLS, FSI, 'link', props=P, canary=True, requires=['bk_grant()'], body_resub=[LOSSY], splices=list(HS),
                    ensures=['h_link_post(%s, %s, %s, *ctx, inode, newparent, lossy_str(name@), r, %s, %s) // LINK = lookup_node(inode) ; lookup_node(newparent) ; do_link ; do_lookup(newparent, name) [C10.bk.link.same]' % (HAS_UP, H0, H1, AT, ET)]))
    h_unlink = tok(Fn(OVLS, FSI, 'unlink', props=P, canary=True, requires=['bk_grant()'],
                      ensures=['rm_post(%s, %s, %s, *ctx, parent, name@, false, r, false, false) // UNLINK = do_rm(.., dir = false) [C10.bk.unlink.same]' % (HAS_UP, H0, H1)]))
    h_rmdir = tok(Fn(OVLS, FSI, 'rmdir', props=P, canary=True, requires=['bk_grant()'],
                     ensures=['rm_post(%s, %s, %s, *ctx, parent, name@, true, r, false, false) // RMDIR = do_rm(.., dir = true) [C10.bk.rmdir.same]' % (HAS_UP, H0, H1)]))
    items.append(Group('impl OverlayFs {', [h_mkdir, h_mknod, h_symlink, h_create, h_link, h_unlink, h_rmdir]))

    u = Unit('ovl_bk', items, preludes=['base.rs', 'stdmodel.rs'], generic_tags=dict(C.GENERIC_TAGS), notes='; '.join(n for n in notes if n))
    u.prelude_subst = [C.LIBC_EXTRA, C.NO_STD_HASHMAP, V.LIBC_VIEW]
    return u
