"""Unit `pseudopersist` (C19, pseudo file system part): src/api/pseudo_fs.rs `mod persist` - PseudoFs::get_version_map / save_to_bytes /
restore_from_bytes / restore_from_state - plus PseudoInode::new / insert_child and PseudoFs::evict_inode (which decides whether what is saved
can be restored), under `#[cfg(feature = "persist")]` (ON for this unit only).

It proves, on the real text, the contract that unit `vfspersist` ASSUMES for the opaque PseudoFs (the clause strings PSEUDO_SAVE_ENS /
PSEUDO_RESTORE_ENS are imported from there), with `ptree_encodes` / `ptree_dec` / `ptree_img_wf` DEFINED here over the snapshot model, and the
inverse-pair lemma `lemma_pseudo_roundtrip` that `Vfs::lemma_roundtrip` takes as a hypothesis.

State model.  The tree is built from `Arc<PseudoInode>` nodes that are SHARED between the inode table and the children vector of their
parent, and mutated through `&self` (ArcSwap).  Two kinds of cells:
  * `PseudoFs::{inodes, next_inode}` - owned by the PseudoFs, one reference: cells WITH state as in unit vfsmount (R25: `&self` -> `&mut self`).
  * `PseudoInode::children` - reached through shared Arcs: a HEAP cell.  The cell value only carries an identity (`id()`); its content lives in
    a ghost heap `PHeap.kids: Map<id, Seq<Arc<PseudoInode>>>` threaded as an erased `Tracked<&mut PHeap>` parameter (rule R23), so that an
    insertion through one Arc is visible through every other Arc of the same node (which the by-value model could not express).
Serialised by `PseudoFs::lock` (dropped: concurrent readers).
"""
import re

from vx.api import Unit, Fn, Copy, Raw, Group
from vx import extract as X
from vx.units import vfspersist as VP

PFS = 'src/api/pseudo_fs.rs'
ABI = 'src/abi/fuse_abi_linux.rs'
R25 = [('&self', '&mut self')]
TOK = dict(param='Tracked(hp): Tracked<&mut PHeap>', arg='Tracked(hp)')

CELLS = r'''
use std::sync::Arc;
use std::collections::HashMap;
use vstd::std_specs::iter::IteratorSpec;
pub type Result<T> = io::Result<T>;
pub type IoError = io::Error;
pub use io::ErrorKind;
impl io::Error {
    #[verifier::external_body] pub fn new(kind: ErrorKind, msg: String) -> (r: io::Error) ensures r.os_code() is None, r.skind() == kind { unimplemented!() }
}
#[verifier::external_body] pub fn fmt_opaque() -> String { unimplemented!() }
pub enum Ordering { Relaxed, Release, Acquire, AcqRel, SeqCst }
#[verifier::external_body] #[verifier::reject_recursive_types(T)] pub struct Mutex<T> { _p: PhantomData<T> }
#[verifier::external_body] #[verifier::reject_recursive_types(T)] pub struct MutexGuard<T> { _p: PhantomData<T> }
#[verifier::external_body] #[derive(Debug)] pub struct PoisonError { _p: u8 }
impl<T> Mutex<T> {
    // "it should be safe to unwrap()" (comment in the code): assumed
    #[verifier::external_body] pub fn lock(&self) -> (r: core::result::Result<MutexGuard<T>, PoisonError>) ensures r is Ok { unimplemented!() }
}
// ---- cells WITH state, owned by the PseudoFs (sequential model under PseudoFs::lock, as in unit vfsmount)
#[verifier::external_body] #[verifier::reject_recursive_types(T)] pub struct ArcSwap<T> { _p: PhantomData<T> }
impl<T> ArcSwap<T> {
    pub uninterp spec fn cur(&self) -> T;
    #[verifier::external_body] pub fn load(&self) -> (r: Arc<T>) ensures *r == self.cur() { unimplemented!() }
    #[verifier::external_body] pub fn store(&mut self, v: Arc<T>) ensures final(self).cur() == *v { unimplemented!() }
}
#[verifier::external_body] pub struct AtomicU64 { _p: u8 }
impl AtomicU64 {
    pub uninterp spec fn cur(&self) -> u64;
    #[verifier::external_body] pub fn load(&self, o: Ordering) -> (r: u64) ensures r == self.cur() { unimplemented!() }
    #[verifier::external_body] pub fn store(&mut self, v: u64, o: Ordering) ensures final(self).cur() == v { unimplemented!() }
}
// ---- HEAP cells: `PseudoInode::children`.  The value of the cell is its identity; the content is in the ghost heap.
pub tracked struct PHeap { pub ghost kids: Map<int, Seq<Arc<PseudoInode>>> }
#[verifier::external_body] #[verifier::accept_recursive_types(T)] pub struct ArcSwapH<T> { _p: PhantomData<T> }
impl<T> ArcSwapH<T> { pub uninterp spec fn id(&self) -> int; }
impl ArcSwapH<Vec<Arc<PseudoInode>>> {
    // a new cell is none of the cells that exist
    #[verifier::external_body] pub fn new(v: Arc<Vec<Arc<PseudoInode>>>, Tracked(hp): Tracked<&mut PHeap>) -> (r: Self)
        ensures !old(hp).kids.contains_key(r.id()), final(hp).kids == old(hp).kids.insert(r.id(), v@) { unimplemented!() }
    #[verifier::external_body] pub fn load(&self, Tracked(hp): Tracked<&mut PHeap>) -> (r: Arc<Vec<Arc<PseudoInode>>>)
        requires old(hp).kids.contains_key(self.id()) ensures r@ == old(hp).kids[self.id()], *final(hp) == *old(hp) { unimplemented!() }
    #[verifier::external_body] pub fn load_clone(&self, Tracked(hp): Tracked<&mut PHeap>) -> (r: Vec<Arc<PseudoInode>>)
        requires old(hp).kids.contains_key(self.id()) ensures r@ == old(hp).kids[self.id()], *final(hp) == *old(hp) { unimplemented!() }
    #[verifier::external_body] pub fn store(&self, v: Arc<Vec<Arc<PseudoInode>>>, Tracked(hp): Tracked<&mut PHeap>)
        requires old(hp).kids.contains_key(self.id()) ensures final(hp).kids == old(hp).kids.insert(self.id(), v@) { unimplemented!() }
}
'''

SPEC = r'''
// =====================================================================================================================
// the abstract tree (same definition as in unit vfspersist) and what a listing of (ino, parent, name) says about it
pub struct PTree {
    pub next_inode: u64,
    pub nodes: Map<u64, (u64, Seq<char>)>,
    pub children: Map<u64, Seq<u64>>,
}
impl PTree { pub open spec fn is_fresh(self) -> bool { self.nodes =~= Map::empty() && (forall|k: u64| #[trigger] self.children.contains_key(k) ==> self.children[k].len() == 0) } }
pub struct StV { pub ino: u64, pub parent: u64, pub name: Seq<char> }                 // value of a PseudoInodeState
pub open spec fn stv(s: PseudoInodeState) -> StV { StV { ino: s.ino, parent: s.parent, name: s.name@ } }
pub open spec fn stvs(v: Seq<PseudoInodeState>) -> Seq<StV> { v.map_values(|s: PseudoInodeState| stv(s)) }
pub struct PImg { pub next_inode: u64, pub inodes: Seq<StV> }
pub open spec fn incr(s: Seq<u64>) -> bool { forall|i: int, j: int| 0 <= i < j < s.len() ==> s[i] < s[j] }
// every inode once, the root not at all ("no need to save the root inode")
pub open spec fn listing_wf(l: Seq<StV>) -> bool {
    &&& forall|i: int, j: int| 0 <= i < j < l.len() ==> (#[trigger] l[i]).ino != (#[trigger] l[j]).ino
    &&& forall|i: int| 0 <= i < l.len() ==> (#[trigger] l[i]).ino != ROOT_ID
}
// every listed inode has its parent listed too (or is a child of the root)
pub open spec fn listing_closed(l: Seq<StV>) -> bool {
    forall|i: int| 0 <= i < l.len() ==> (#[trigger] l[i]).parent == ROOT_ID || exists|j: int| 0 <= j < l.len() && (#[trigger] l[j]).ino == l[i].parent
}
pub open spec fn listed(l: Seq<StV>, k: u64) -> bool { exists|i: int| 0 <= i < l.len() && (#[trigger] l[i]).ino == k }
pub open spec fn listed_under(l: Seq<StV>, c: u64, k: u64) -> bool { exists|i: int| 0 <= i < l.len() && (#[trigger] l[i]).ino == c && l[i].parent == k }
// `t` is THE tree a listing describes: same numbers, parents, names; directory order by inode number (= creation order)
pub open spec fn tree_matches(t: PTree, next: u64, l: Seq<StV>) -> bool {
    &&& t.next_inode == next
    &&& forall|k: u64| #[trigger] t.nodes.contains_key(k) <==> listed(l, k)
    &&& forall|i: int| 0 <= i < l.len() ==> t.nodes[(#[trigger] l[i]).ino] == (l[i].parent, l[i].name)
    &&& forall|k: u64| #[trigger] t.children.contains_key(k) <==> (k == ROOT_ID || listed(l, k))
    &&& forall|k: u64| #[trigger] t.children.contains_key(k) ==> incr(t.children[k]) && (forall|c: u64| #[trigger] t.children[k].contains(c) <==> listed_under(l, c, k))
}
proof fn lemma_incr_unique(a: Seq<u64>, b: Seq<u64>)
    requires incr(a), incr(b), forall|c: u64| a.contains(c) <==> b.contains(c)
    ensures a =~= b
    decreases a.len()
{
    if a.len() == 0 { if b.len() > 0 { assert(b.contains(b[0])); } }
    else if b.len() == 0 { assert(a.contains(a[0])); }
    else {
        // the largest element of a strictly increasing sequence is its last one
        let la = a.last(); let lb = b.last();
        assert(a.contains(la)); assert(b.contains(lb));
        assert(b.contains(la)); assert(a.contains(lb));
        let ib = choose|i: int| 0 <= i < b.len() && b[i] == la; let ia = choose|i: int| 0 <= i < a.len() && a[i] == lb;
        assert(la <= lb) by { if ib < b.len() - 1 { assert(b[ib] < b[b.len() - 1]); } }
        assert(lb <= la) by { if ia < a.len() - 1 { assert(a[ia] < a[a.len() - 1]); } }
        let a2 = a.drop_last(); let b2 = b.drop_last();
        assert forall|c: u64| a2.contains(c) <==> b2.contains(c) by {
            if a2.contains(c) { let i = choose|i: int| 0 <= i < a2.len() && a2[i] == c; assert(a[i] == c && a[i] < a[a.len() - 1]); assert(a.contains(c)); assert(b.contains(c));
                let j = choose|j: int| 0 <= j < b.len() && b[j] == c; assert(j < b.len() - 1); assert(b2[j] == c); }
            if b2.contains(c) { let i = choose|i: int| 0 <= i < b2.len() && b2[i] == c; assert(b[i] == c && b[i] < b[b.len() - 1]); assert(b.contains(c)); assert(a.contains(c));
                let j = choose|j: int| 0 <= j < a.len() && a[j] == c; assert(j < a.len() - 1); assert(a2[j] == c); }
        }
        lemma_incr_unique(a2, b2);
        assert(a =~= a2.push(la)); assert(b =~= b2.push(lb));
    }
}
// a listing describes at most one tree
proof fn lemma_tree_unique(t: PTree, u: PTree, next: u64, l: Seq<StV>)
    requires tree_matches(t, next, l), tree_matches(u, next, l), listing_wf(l)
    ensures t.next_inode == u.next_inode, t.nodes =~= u.nodes, t.children =~= u.children, t == u,       // [C19.pseudo.tree_unique]
{
    assert forall|k: u64| t.nodes.contains_key(k) implies #[trigger] t.nodes[k] == u.nodes[k] by {
        let i = choose|i: int| 0 <= i < l.len() && (#[trigger] l[i]).ino == k;
        assert(t.nodes[l[i].ino] == u.nodes[l[i].ino]);
    }
    assert(t.nodes =~= u.nodes);
    assert forall|k: u64| t.children.contains_key(k) implies #[trigger] t.children[k] == u.children[k] by {
        assert(u.children.contains_key(k));
        assert forall|c: u64| t.children[k].contains(c) <==> u.children[k].contains(c) by { }
        lemma_incr_unique(t.children[k], u.children[k]);
    }
    assert(t.children =~= u.children);
}
// ---- the image of a pseudo fs (what unit vfspersist leaves uninterpreted)
spec fn ptree_encodes(b: Seq<u8>, t: PTree) -> bool {
    exists|i: PImg| b == #[trigger] snap_enc::<PseudoFsState>(1u16, i) && listing_wf(i.inodes) && listing_closed(i.inodes) && tree_matches(t, i.next_inode, i.inodes)
}
spec fn ptree_img_wf(b: Seq<u8>) -> bool { snap_dec::<PseudoFsState>(b) is Some && listing_wf(snap_dec::<PseudoFsState>(b)->Some_0.1.inodes) }
spec fn ptree_dec(b: Seq<u8>) -> Option<PTree> {
    match snap_dec::<PseudoFsState>(b) { Some(d) => Some(choose|t: PTree| tree_matches(t, d.1.next_inode, d.1.inodes)), None => None }
}
// save then restore gives back the tree: what Vfs::lemma_roundtrip (unit vfspersist) assumes of the pseudo file system
proof fn lemma_pseudo_roundtrip(rb: Seq<u8>, t: PTree)
    requires ptree_encodes(rb, t)
    ensures ptree_dec(rb) == Some(t) && ptree_img_wf(rb),                                   // [C19.pseudo.roundtrip]
{
    let i = choose|i: PImg| rb == #[trigger] snap_enc::<PseudoFsState>(1u16, i) && listing_wf(i.inodes) && listing_closed(i.inodes) && tree_matches(t, i.next_inode, i.inodes);
    axiom_snap_inverse::<PseudoFsState>(1u16, i);
    let u = choose|u: PTree| tree_matches(u, i.next_inode, i.inodes);
    lemma_tree_unique(t, u, i.next_inode, i.inodes);
}
// ---- #[derive(Versionize)] PseudoFsState / PseudoInodeState: no versioned field, one layout
impl Versionize for PseudoFsState {
    type Img = PImg;
    spec fn ty() -> TypeId { TypeId::PseudoFsState }
    spec fn nver() -> u16 { 1 }
    spec fn deps_ok(vs: Seq<Map<TypeId, u16>>, root: u16) -> bool { tv(vs, root, TypeId::PseudoInodeState) == 1 }
    spec fn img(&self, v: u16) -> PImg { PImg { next_inode: self.next_inode, inodes: stvs(self.inodes@) } }
    spec fn fits(i: PImg, v: u16) -> bool { true }
    spec fn seen(i: PImg, v: u16, out: PseudoFsState) -> bool { out.next_inode == i.next_inode && stvs(out.inodes@) == i.inodes }
}
impl PseudoFsState { pub fn type_id() -> (r: TypeId) ensures r == TypeId::PseudoFsState { TypeId::PseudoFsState } }
// Vec<PseudoInodeState>::clone() with the derived Clone of a plain struct: field by field
#[verifier::external_body] pub fn clone_states(v: &Vec<PseudoInodeState>) -> (r: Vec<PseudoInodeState>) ensures stvs(r@) == stvs(v@) { unimplemented!() }
// [T]::sort_by(|a, b| a.ino.cmp(&b.ino)): a stable sort by inode number - the result is a permutation of the input in non-decreasing order
pub open spec fn is_perm(p: Seq<int>, q: Seq<int>, n: int) -> bool {
    &&& p.len() == n && q.len() == n
    &&& forall|i: int| 0 <= i < n ==> 0 <= #[trigger] p[i] < n && q[p[i]] == i
    &&& forall|j: int| 0 <= j < n ==> 0 <= #[trigger] q[j] < n && p[q[j]] == j
}
pub open spec fn sorted_perm(o: Seq<StV>, f: Seq<StV>, p: Seq<int>, q: Seq<int>) -> bool {
    &&& f.len() == o.len() && is_perm(p, q, o.len() as int)
    &&& forall|i: int| 0 <= i < f.len() ==> #[trigger] f[i] == o[p[i]]
    &&& forall|i: int, j: int| 0 <= i < j < f.len() ==> (#[trigger] f[i]).ino <= (#[trigger] f[j]).ino
}
#[verifier::external_body] pub fn sort_states_by_ino(v: &mut Vec<PseudoInodeState>)
    ensures exists|p: Seq<int>, q: Seq<int>| #[trigger] sorted_perm(stvs(old(v)@), stvs(final(v)@), p, q) { unimplemented!() }
#[verifier::external_body] pub fn string_clone(s: &String) -> (r: String) ensures r@ == s@ { unimplemented!() }

// =====================================================================================================================
// the concrete structure: well-formedness and its abstract tree
impl PseudoInode { spec fn cell(&self) -> int { self.children.id() } }
spec fn kid_inos(s: Seq<Arc<PseudoInode>>) -> Seq<u64> { s.map_values(|a: Arc<PseudoInode>| a.ino) }
impl PseudoFs {
    spec fn im(&self) -> Map<u64, Arc<PseudoInode>> { self.inodes.cur()@ }
    spec fn kids(&self, h: PHeap, k: u64) -> Seq<Arc<PseudoInode>> { h.kids[self.im()[k].cell()] }
    spec fn tree(&self, h: PHeap) -> PTree { tree_m(self.im(), self.next_inode.cur(), h) }
    spec fn wf(&self, h: PHeap) -> bool { wf_m(self.im(), self.root_inode, h) }
    // every pseudo directory's parent is in the table: what makes a saved listing restorable
    spec fn closed(&self) -> bool { forall|c: u64| #[trigger] self.im().contains_key(c) ==> self.im().contains_key(self.im()[c].parent) }
}
spec fn mkids(m: Map<u64, Arc<PseudoInode>>, h: PHeap, k: u64) -> Seq<Arc<PseudoInode>> { h.kids[m[k].cell()] }
spec fn wf_m(m: Map<u64, Arc<PseudoInode>>, root: Arc<PseudoInode>, h: PHeap) -> bool {
    &&& m.contains_key(ROOT_ID) && m[ROOT_ID] == root && root.ino == ROOT_ID && root.parent == ROOT_ID
    &&& forall|k: u64| #[trigger] m.contains_key(k) ==> m[k].ino == k && h.kids.contains_key(m[k].cell())
    &&& forall|k: u64, l: u64| m.contains_key(k) && m.contains_key(l) && (#[trigger] m[k]).cell() == (#[trigger] m[l]).cell() ==> k == l
    // the children vector of a directory holds the very nodes of the table whose parent it is, each once, in inode order
    &&& forall|k: u64, j: int| m.contains_key(k) && 0 <= j < mkids(m, h, k).len() ==> ({ let c = #[trigger] mkids(m, h, k)[j];
            m.contains_key(c.ino) && m[c.ino] == c && c.parent == k && c.ino != ROOT_ID })
    &&& forall|k: u64| #[trigger] m.contains_key(k) ==> incr(kid_inos(mkids(m, h, k)))
    &&& forall|c: u64| #[trigger] m.contains_key(c) && c != ROOT_ID && m.contains_key(m[c].parent) ==> mkids(m, h, m[c].parent).contains(m[c])
}
// the children of directory k after the first n entries of the (sorted) listing have been connected
spec fn kids_upto(s: Seq<StV>, m: Map<u64, Arc<PseudoInode>>, n: int, k: u64) -> Seq<Arc<PseudoInode>> decreases n {
    if n <= 0 { Seq::empty() } else { let r = kids_upto(s, m, n - 1, k); if s[n - 1].parent == k { r.push(m[s[n - 1].ino]) } else { r } }
}
proof fn lemma_kids_upto(s: Seq<StV>, m: Map<u64, Arc<PseudoInode>>, n: int, k: u64)
    requires 0 <= n <= s.len(), forall|j: int| 0 <= j < s.len() ==> m.contains_key((#[trigger] s[j]).ino) && m[s[j].ino].ino == s[j].ino,
             forall|i: int, j: int| 0 <= i < j < s.len() ==> (#[trigger] s[i]).ino < (#[trigger] s[j]).ino
    ensures forall|x: int| 0 <= x < kids_upto(s, m, n, k).len() ==> exists|j: int| 0 <= j < n && (#[trigger] s[j]).parent == k && kids_upto(s, m, n, k)[x] == m[s[j].ino],
            forall|j: int| 0 <= j < n && (#[trigger] s[j]).parent == k ==> kids_upto(s, m, n, k).contains(m[s[j].ino]),
            incr(kid_inos(kids_upto(s, m, n, k))),
            forall|x: int| 0 <= x < kids_upto(s, m, n, k).len() && n < s.len() ==> (#[trigger] kids_upto(s, m, n, k)[x]).ino < s[n].ino,
    decreases n
{
    if n > 0 {
        lemma_kids_upto(s, m, n - 1, k);
        let r = kids_upto(s, m, n - 1, k); let f = kids_upto(s, m, n, k);
        if s[n - 1].parent == k {
            let c = m[s[n - 1].ino];
            assert(f == r.push(c));
            assert forall|x: int| 0 <= x < f.len() implies exists|j: int| 0 <= j < n && (#[trigger] s[j]).parent == k && f[x] == m[s[j].ino] by {
                if x < r.len() { let j = choose|j: int| 0 <= j < n - 1 && (#[trigger] s[j]).parent == k && r[x] == m[s[j].ino]; assert(s[j].parent == k && f[x] == m[s[j].ino]); }
                else { assert(s[n - 1].parent == k && f[x] == m[s[n - 1].ino]); }
            }
            assert forall|j: int| 0 <= j < n && (#[trigger] s[j]).parent == k implies f.contains(m[s[j].ino]) by {
                if j < n - 1 { assert(r.contains(m[s[j].ino])); let x = choose|x: int| 0 <= x < r.len() && r[x] == m[s[j].ino]; assert(f[x] == m[s[j].ino]); }
                else { assert(f[r.len() as int] == c); }
            }
            assert forall|x: int, y: int| 0 <= x < y < kid_inos(f).len() implies kid_inos(f)[x] < kid_inos(f)[y] by {
                if y < r.len() { assert(kid_inos(r)[x] < kid_inos(r)[y]); } else { assert(r[x].ino < s[n - 1].ino); }
            }
            assert forall|x: int| 0 <= x < f.len() && n < s.len() implies (#[trigger] f[x]).ino < s[n].ino by {
                if x < r.len() { assert(r[x].ino < s[n - 1].ino); assert(s[n - 1].ino < s[n].ino); } else { assert(s[n - 1].ino < s[n].ino); }
            }
        } else {
            assert(f == r);
            assert forall|x: int| 0 <= x < f.len() implies exists|j: int| 0 <= j < n && (#[trigger] s[j]).parent == k && f[x] == m[s[j].ino] by {
                let j = choose|j: int| 0 <= j < n - 1 && (#[trigger] s[j]).parent == k && r[x] == m[s[j].ino]; assert(s[j].parent == k && f[x] == m[s[j].ino]);
            }
            assert forall|x: int| 0 <= x < f.len() && n < s.len() implies (#[trigger] f[x]).ino < s[n].ino by { assert(r[x].ino < s[n - 1].ino); assert(s[n - 1].ino < s[n].ino); }
        }
    }
}
// what restore_from_state has built when it succeeds on a listing that names every inode once (l: as listed, s: sorted, m: the new table)
proof fn lemma_restored(m: Map<u64, Arc<PseudoInode>>, root: Arc<PseudoInode>, next: u64, h: PHeap, l: Seq<StV>, s: Seq<StV>, p: Seq<int>, q: Seq<int>)
    requires
        m.contains_key(ROOT_ID) && m[ROOT_ID] == root && root.ino == ROOT_ID && root.parent == ROOT_ID,
        forall|k: u64| #[trigger] m.contains_key(k) ==> m[k].ino == k && h.kids.contains_key(m[k].cell()),
        forall|k: u64, j: u64| m.contains_key(k) && m.contains_key(j) && (#[trigger] m[k]).cell() == (#[trigger] m[j]).cell() ==> k == j,
        forall|k: u64| #[trigger] m.contains_key(k) <==> (k == ROOT_ID || listed(l, k)),
        listing_wf(l), sorted_perm(l, s, p, q),
        forall|j: int| 0 <= j < l.len() ==> m[(#[trigger] l[j]).ino].parent == l[j].parent && m[l[j].ino].name@ == l[j].name,
        forall|k: u64| #[trigger] m.contains_key(k) ==> h.kids[m[k].cell()] == kids_upto(s, m, s.len() as int, k),
        forall|j: int| 0 <= j < s.len() ==> m.contains_key((#[trigger] s[j]).parent),
    ensures
        wf_m(m, root, h),                                                               // [C19.pseudo.restore.wf]
        tree_matches(tree_m(m, next, h), next, l),                                      // [C19.pseudo.restore.tree]
        forall|c: u64| #[trigger] m.contains_key(c) ==> m.contains_key(m[c].parent),    // closed
{
    let n = s.len() as int;
    // the sorted listing names the same inodes, each once
    assert forall|i: int| 0 <= i < n implies m.contains_key((#[trigger] s[i]).ino) && m[s[i].ino].ino == s[i].ino && m[s[i].ino].parent == s[i].parent && s[i].ino != ROOT_ID by {
        assert(s[i] == l[p[i]]); assert(listed(l, l[p[i]].ino));
    }
    assert forall|i: int, j: int| 0 <= i < j < n implies (#[trigger] s[i]).ino < (#[trigger] s[j]).ino by {
        assert(s[i] == l[p[i]] && s[j] == l[p[j]]);
        if p[i] == p[j] { assert(q[p[i]] == i && q[p[j]] == j); }
        if p[i] < p[j] { assert(l[p[i]].ino != l[p[j]].ino); } else { assert(l[p[j]].ino != l[p[i]].ino); }
    }
    assert forall|c: u64, k: u64| listed_under(s, c, k) <==> listed_under(l, c, k) by {
        if listed_under(s, c, k) { let i = choose|i: int| 0 <= i < s.len() && (#[trigger] s[i]).ino == c && s[i].parent == k; assert(s[i] == l[p[i]]); assert(l[p[i]].ino == c && l[p[i]].parent == k); }
        if listed_under(l, c, k) { let j = choose|j: int| 0 <= j < l.len() && (#[trigger] l[j]).ino == c && l[j].parent == k; assert(s[q[j]] == l[p[q[j]]]); assert(s[q[j]].ino == c && s[q[j]].parent == k); }
    }
    assert forall|k: u64| #[trigger] m.contains_key(k) implies incr(kid_inos(mkids(m, h, k)))
        && (forall|x: int| 0 <= x < mkids(m, h, k).len() ==> ({ let c = #[trigger] mkids(m, h, k)[x]; m.contains_key(c.ino) && m[c.ino] == c && c.parent == k && c.ino != ROOT_ID }))
        && (forall|c: u64| #[trigger] kid_inos(mkids(m, h, k)).contains(c) <==> listed_under(l, c, k)) by {
        lemma_kids_upto(s, m, n, k);
        let f = kids_upto(s, m, n, k);
        assert(mkids(m, h, k) == f);
        assert forall|x: int| 0 <= x < f.len() implies ({ let c = #[trigger] f[x]; m.contains_key(c.ino) && m[c.ino] == c && c.parent == k && c.ino != ROOT_ID }) by {
            let j = choose|j: int| 0 <= j < n && (#[trigger] s[j]).parent == k && f[x] == m[s[j].ino];
            assert(m.contains_key(s[j].ino));
        }
        assert forall|c: u64| #[trigger] kid_inos(f).contains(c) <==> listed_under(l, c, k) by {
            if kid_inos(f).contains(c) {
                let x = choose|x: int| 0 <= x < kid_inos(f).len() && kid_inos(f)[x] == c;
                let j = choose|j: int| 0 <= j < n && (#[trigger] s[j]).parent == k && f[x] == m[s[j].ino];
                assert(s[j].ino == c && s[j].parent == k); assert(listed_under(s, c, k));
            }
            if listed_under(l, c, k) {
                assert(listed_under(s, c, k));
                let j = choose|j: int| 0 <= j < s.len() && (#[trigger] s[j]).ino == c && s[j].parent == k;
                assert(f.contains(m[s[j].ino]));
                let x = choose|x: int| 0 <= x < f.len() && f[x] == m[s[j].ino];
                assert(kid_inos(f)[x] == c);
            }
        }
    }
    assert forall|c: u64| #[trigger] m.contains_key(c) && c != ROOT_ID && m.contains_key(m[c].parent) implies mkids(m, h, m[c].parent).contains(m[c]) by {
        assert(listed(l, c));
        let j = choose|j: int| 0 <= j < l.len() && (#[trigger] l[j]).ino == c;
        assert(s[q[j]] == l[p[q[j]]]);
        lemma_kids_upto(s, m, n, m[c].parent);
        assert(s[q[j]].parent == m[c].parent);
        assert(kids_upto(s, m, n, m[c].parent).contains(m[s[q[j]].ino]));
    }
    assert forall|c: u64| #[trigger] m.contains_key(c) implies m.contains_key(m[c].parent) by {
        if c != ROOT_ID { let j = choose|j: int| 0 <= j < l.len() && (#[trigger] l[j]).ino == c; assert(s[q[j]] == l[p[q[j]]]); assert(m.contains_key(s[q[j]].parent)); }
    }
    let t = tree_m(m, next, h);
    assert forall|k: u64| #[trigger] t.nodes.contains_key(k) <==> listed(l, k) by {
        if listed(l, k) { let j = choose|j: int| 0 <= j < l.len() && (#[trigger] l[j]).ino == k; assert(k != ROOT_ID); }
    }
    assert forall|i: int| 0 <= i < l.len() implies t.nodes[(#[trigger] l[i]).ino] == (l[i].parent, l[i].name) by { assert(listed(l, l[i].ino)); }
    assert forall|k: u64| #[trigger] t.children.contains_key(k) implies incr(t.children[k]) && (forall|c: u64| #[trigger] t.children[k].contains(c) <==> listed_under(l, c, k)) by {
        assert(m.contains_key(k)); assert(t.children[k] == kid_inos(mkids(m, h, k)));
    }
}
spec fn tree_m(m: Map<u64, Arc<PseudoInode>>, next: u64, h: PHeap) -> PTree {
    PTree { next_inode: next,
            nodes: Map::new(m.dom().filter(|k: u64| k != ROOT_ID), |k: u64| (m[k].parent, m[k].name@)),
            children: Map::new(m.dom(), |k: u64| kid_inos(mkids(m, h, k))) }
}
'''


def unit(root='/repo'):
    P = ['C19']
    T, T0, T1 = 'self.tree(*hp)', 'old(self).tree(*old(hp))', 'final(self).tree(*final(hp))'
    LOADCLONE_H = (r'self\.children\.load\(\)\.deref\(\)\.deref\(\)\.clone\(\)', 'self.children.load_clone(Tracked(hp))', 'snapshot of the children vector held by the cell (Guard -> Arc -> Vec, cloned), with the ghost heap')
    STORE_H = (r'self\.children\.store\(Arc::new\(children\)\)', 'self.children.store(Arc::new(children), Tracked(hp))', 'ghost heap token (R23) for the ArcSwap store')
    NEW_H = (r'ArcSwap::new\(Arc::new\(Vec::new\(\)\)\)', 'ArcSwapH::new(Arc::new(Vec::new()), Tracked(hp))', 'heap cell + ghost heap token (R23)')
    STRCLONE = (r'\b(inode\.name)\.clone\(\)', r'string_clone(&\1)', 'every: String::clone, same characters')
    items = [
        Copy(ABI, r'pub const ROOT_ID\b'),
        Raw(CELLS),
        Copy(PFS, r'struct PseudoInode\b', subst=[('children: ArcSwap<Vec<Arc<PseudoInode>>>', 'children: ArcSwapH<Vec<Arc<PseudoInode>>>')]),
        Copy(PFS, r'pub struct PseudoFs\b'),
        Copy(PFS, r'struct PseudoInodeState\b'),
        Copy(PFS, r'pub struct PseudoFsState\b'),
        Raw(VP.MODEL), Raw(SPEC),
    ]
    new = Fn(PFS, 'impl PseudoInode', 'new', props=P, canary=True, body_resub=[NEW_H],
             ensures=['r.ino == ino && r.parent == parent && r.name == name // [C19.pseudo.node.fields]',
                      '!old(hp).kids.contains_key(r.cell()) && final(hp).kids == old(hp).kids.insert(r.cell(), Seq::<Arc<PseudoInode>>::empty()) // [C19.pseudo.node.no_children] a new directory is empty and shares its children vector with no other'])
    new.rules, new.ghost_token = ('R23',), dict(TOK, callees=[])
    ins = Fn(PFS, 'impl PseudoInode', 'insert_child', props=P, canary=True, body_resub=[LOADCLONE_H, STORE_H],
             requires=['old(hp).kids.contains_key(self.cell())'],
             ensures=['final(hp).kids == old(hp).kids.insert(self.cell(), old(hp).kids[self.cell()].push(child)) // [C19.pseudo.insert_child] appended after the existing children; every other directory untouched'])
    ins.rules, ins.ghost_token = ('R23',), dict(TOK, callees=[])
    items.append(Group('impl PseudoInode {', [new, ins]))
    u = Unit('pseudopersist', items, preludes=['base.rs'], generic_tags={'snapver': ['C19']})
    u.cfg_features = {'persist'}
    return u
