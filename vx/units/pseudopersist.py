"""Unit `pseudopersist` (C19, pseudo file system part): src/api/pseudo_fs.rs `mod persist` - PseudoFs::get_version_map / save_to_bytes /
restore_from_bytes / restore_from_state - plus PseudoInode::new / insert_child and PseudoFs::evict_inode (which decides whether what is saved
can be restored), under `#[cfg(feature = "persist")]` (ON for this unit only).

It proves, on the real text, the contract that unit `vfspersist` ASSUMES for the opaque PseudoFs (the clause strings PSEUDO_SAVE_ENS /
PSEUDO_RESTORE_ENS are imported from there), with `ptree_encodes` / `ptree_dec` / `ptree_img_wf` DEFINED here over the snapshot model, and the
inverse-pair lemma `lemma_pseudo_roundtrip` that `Vfs::lemma_roundtrip` takes as a hypothesis.

State model.  The tree is built from `Arc<PseudoInode>` nodes that are SHARED between the inode table and the children vector of their
parent, and mutated through `&self` (ArcSwap).  Two kinds of cells:
  * `PseudoFs::{inodes, next_inode}` - owned by the PseudoFs, one reference: cells WITH state as in unit vfsmount (R25: `&self` -> `&mut self`).
  * `PseudoInode::children` - reached through shared Arcs: a HEAP cell.  The cell value only carries an identity (`id()`); its content lives in
    a ghost heap `PHeap.kids: Map<id, Seq<Arc<PseudoInode>>>` threaded as an erased `Tracked<&mut PHeap>` parameter (rule R23), so that an
    insertion through one Arc is visible through every other Arc of the same node (which the by-value model could not express).
Serialised by `PseudoFs::lock` (dropped: concurrent readers).
"""
import re

from vx.api import Unit, Fn, Copy, Raw, Group
from vx import extract as X
from vx.units import vfspersist as VP

PFS = 'src/api/pseudo_fs.rs'
ABI = 'src/abi/fuse_abi_linux.rs'
R25 = [('&self', '&mut self')]
TOK = dict(param='Tracked(hp): Tracked<&mut PHeap>', arg='Tracked(hp)')

CELLS = r'''
use std::sync::Arc;
use std::collections::HashMap;
use vstd::std_specs::iter::IteratorSpec;
pub type Result<T> = io::Result<T>;
pub type IoError = io::Error;
pub use io::ErrorKind;
impl io::Error {
    #[verifier::external_body] pub fn new(kind: ErrorKind, msg: String) -> (r: io::Error) ensures r.os_code() is None, r.skind() == kind { unimplemented!() }
}
#[verifier::external_body] pub fn fmt_opaque() -> String { unimplemented!() }
pub enum Ordering { Relaxed, Release, Acquire, AcqRel, SeqCst }
#[verifier::external_body] #[verifier::reject_recursive_types(T)] pub struct Mutex<T> { _p: PhantomData<T> }
#[verifier::external_body] #[verifier::reject_recursive_types(T)] pub struct MutexGuard<T> { _p: PhantomData<T> }
#[verifier::external_body] #[derive(Debug)] pub struct PoisonError { _p: u8 }
impl<T> Mutex<T> {
    // "it should be safe to unwrap()" (comment in the code): assumed
    #[verifier::external_body] pub fn lock(&self) -> (r: core::result::Result<MutexGuard<T>, PoisonError>) ensures r is Ok { unimplemented!() }
}
// ---- cells WITH state, owned by the PseudoFs (sequential model under PseudoFs::lock, as in unit vfsmount)
#[verifier::external_body] #[verifier::reject_recursive_types(T)] pub struct ArcSwap<T> { _p: PhantomData<T> }
impl<T> ArcSwap<T> {
    pub uninterp spec fn cur(&self) -> T;
    #[verifier::external_body] pub fn load(&self) -> (r: Arc<T>) ensures *r == self.cur() { unimplemented!() }
    #[verifier::external_body] pub fn store(&mut self, v: Arc<T>) ensures final(self).cur() == *v { unimplemented!() }
}
impl ArcSwap<HashMap<u64, Arc<PseudoInode>>> {
    #[verifier::external_body] pub fn load_clone(&self) -> (r: HashMap<u64, Arc<PseudoInode>>) ensures r@ == self.cur()@ { unimplemented!() }
}
#[verifier::external_body] pub struct AtomicU64 { _p: u8 }
impl AtomicU64 {
    pub uninterp spec fn cur(&self) -> u64;
    #[verifier::external_body] pub fn load(&self, o: Ordering) -> (r: u64) ensures r == self.cur() { unimplemented!() }
    #[verifier::external_body] pub fn store(&mut self, v: u64, o: Ordering) ensures final(self).cur() == v { unimplemented!() }
}
// ---- HEAP cells: `PseudoInode::children`.  The value of the cell is its identity; the content is in the ghost heap.
pub tracked struct PHeap { pub ghost kids: Map<int, Seq<Arc<PseudoInode>>> }
#[verifier::external_body] #[verifier::accept_recursive_types(T)] pub struct ArcSwapH<T> { _p: PhantomData<T> }
impl<T> ArcSwapH<T> { pub uninterp spec fn id(&self) -> int; }
impl ArcSwapH<Vec<Arc<PseudoInode>>> {
    // a new cell is none of the cells that exist
    #[verifier::external_body] pub fn new(v: Arc<Vec<Arc<PseudoInode>>>, Tracked(hp): Tracked<&mut PHeap>) -> (r: Self)
        ensures !old(hp).kids.contains_key(r.id()), final(hp).kids == old(hp).kids.insert(r.id(), v@) { unimplemented!() }
    #[verifier::external_body] pub fn load(&self, Tracked(hp): Tracked<&mut PHeap>) -> (r: Arc<Vec<Arc<PseudoInode>>>)
        requires old(hp).kids.contains_key(self.id()) ensures r@ == old(hp).kids[self.id()], *final(hp) == *old(hp) { unimplemented!() }
    #[verifier::external_body] pub fn load_clone(&self, Tracked(hp): Tracked<&mut PHeap>) -> (r: Vec<Arc<PseudoInode>>)
        requires old(hp).kids.contains_key(self.id()) ensures r@ == old(hp).kids[self.id()], *final(hp) == *old(hp) { unimplemented!() }
    #[verifier::external_body] pub fn store(&self, v: Arc<Vec<Arc<PseudoInode>>>, Tracked(hp): Tracked<&mut PHeap>)
        requires old(hp).kids.contains_key(self.id()) ensures final(hp).kids == old(hp).kids.insert(self.id(), v@) { unimplemented!() }
}
'''

SPEC = r'''
// =====================================================================================================================
// the abstract tree (same definition as in unit vfspersist) and what a listing of (ino, parent, name) says about it
pub struct PTree {
    pub next_inode: u64,
    pub nodes: Map<u64, (u64, Seq<char>)>,
    pub children: Map<u64, Seq<u64>>,
}
impl PTree { pub open spec fn is_fresh(self) -> bool { self.nodes =~= Map::empty() && (forall|k: u64| #[trigger] self.children.contains_key(k) ==> self.children[k].len() == 0) } }
pub struct StV { pub ino: u64, pub parent: u64, pub name: Seq<char> }                 // value of a PseudoInodeState
pub open spec fn stv(s: PseudoInodeState) -> StV { StV { ino: s.ino, parent: s.parent, name: s.name@ } }
pub open spec fn stvs(v: Seq<PseudoInodeState>) -> Seq<StV> { v.map_values(|s: PseudoInodeState| stv(s)) }
pub struct PImg { pub next_inode: u64, pub inodes: Seq<StV> }
pub open spec fn incr(s: Seq<u64>) -> bool { forall|i: int, j: int| 0 <= i < j < s.len() ==> s[i] < s[j] }
// every inode once, the root not at all ("no need to save the root inode")
pub open spec fn listing_wf(l: Seq<StV>) -> bool {
    &&& forall|i: int, j: int| 0 <= i < j < l.len() ==> (#[trigger] l[i]).ino != (#[trigger] l[j]).ino
    &&& forall|i: int| 0 <= i < l.len() ==> (#[trigger] l[i]).ino != ROOT_ID
}
// every listed inode has its parent listed too (or is a child of the root)
pub open spec fn listing_closed(l: Seq<StV>) -> bool {
    forall|i: int| 0 <= i < l.len() ==> (#[trigger] l[i]).parent == ROOT_ID || exists|j: int| 0 <= j < l.len() && (#[trigger] l[j]).ino == l[i].parent
}
pub open spec fn listed(l: Seq<StV>, k: u64) -> bool { exists|i: int| 0 <= i < l.len() && (#[trigger] l[i]).ino == k }
pub open spec fn listed_under(l: Seq<StV>, c: u64, k: u64) -> bool { exists|i: int| 0 <= i < l.len() && (#[trigger] l[i]).ino == c && l[i].parent == k }
// `t` is THE tree a listing describes: same numbers, parents, names; directory order by inode number (= creation order)
pub open spec fn tree_matches(t: PTree, next: u64, l: Seq<StV>) -> bool {
    &&& t.next_inode == next
    &&& forall|k: u64| #[trigger] t.nodes.contains_key(k) <==> listed(l, k)
    &&& forall|i: int| 0 <= i < l.len() ==> t.nodes[(#[trigger] l[i]).ino] == (l[i].parent, l[i].name)
    &&& forall|k: u64| #[trigger] t.children.contains_key(k) <==> (k == ROOT_ID || listed(l, k))
    &&& forall|k: u64| #[trigger] t.children.contains_key(k) ==> incr(t.children[k]) && (forall|c: u64| #[trigger] t.children[k].contains(c) <==> listed_under(l, c, k))
}
proof fn lemma_incr_unique(a: Seq<u64>, b: Seq<u64>)
    requires incr(a), incr(b), forall|c: u64| a.contains(c) <==> b.contains(c)
    ensures a =~= b
    decreases a.len()
{
    if a.len() == 0 { if b.len() > 0 { assert(b.contains(b[0])); } }
    else if b.len() == 0 { assert(a.contains(a[0])); }
    else {
        // the largest element of a strictly increasing sequence is its last one
        let la = a.last(); let lb = b.last();
        assert(a.contains(la)); assert(b.contains(lb));
        assert(b.contains(la)); assert(a.contains(lb));
        let ib = choose|i: int| 0 <= i < b.len() && b[i] == la; let ia = choose|i: int| 0 <= i < a.len() && a[i] == lb;
        assert(la <= lb) by { if ib < b.len() - 1 { assert(b[ib] < b[b.len() - 1]); } }
        assert(lb <= la) by { if ia < a.len() - 1 { assert(a[ia] < a[a.len() - 1]); } }
        let a2 = a.drop_last(); let b2 = b.drop_last();
        assert forall|c: u64| a2.contains(c) <==> b2.contains(c) by {
            if a2.contains(c) { let i = choose|i: int| 0 <= i < a2.len() && a2[i] == c; assert(a[i] == c && a[i] < a[a.len() - 1]); assert(a.contains(c)); assert(b.contains(c));
                let j = choose|j: int| 0 <= j < b.len() && b[j] == c; assert(j < b.len() - 1); assert(b2[j] == c); }
            if b2.contains(c) { let i = choose|i: int| 0 <= i < b2.len() && b2[i] == c; assert(b[i] == c && b[i] < b[b.len() - 1]); assert(b.contains(c)); assert(a.contains(c));
                let j = choose|j: int| 0 <= j < a.len() && a[j] == c; assert(j < a.len() - 1); assert(a2[j] == c); }
        }
        lemma_incr_unique(a2, b2);
        assert(a =~= a2.push(la)); assert(b =~= b2.push(lb));
    }
}
// a listing describes at most one tree
proof fn lemma_tree_unique(t: PTree, u: PTree, next: u64, l: Seq<StV>)
    requires tree_matches(t, next, l), tree_matches(u, next, l), listing_wf(l)
    ensures t.next_inode == u.next_inode, t.nodes =~= u.nodes, t.children =~= u.children, t == u,       // [C19.pseudo.tree_unique]
{
    assert forall|k: u64| t.nodes.contains_key(k) implies #[trigger] t.nodes[k] == u.nodes[k] by {
        let i = choose|i: int| 0 <= i < l.len() && (#[trigger] l[i]).ino == k;
        assert(t.nodes[l[i].ino] == u.nodes[l[i].ino]);
    }
    assert(t.nodes =~= u.nodes);
    assert forall|k: u64| t.children.contains_key(k) implies #[trigger] t.children[k] == u.children[k] by {
        assert(u.children.contains_key(k));
        assert forall|c: u64| t.children[k].contains(c) <==> u.children[k].contains(c) by { }
        lemma_incr_unique(t.children[k], u.children[k]);
    }
    assert(t.children =~= u.children);
}
// ---- the image of a pseudo fs (what unit vfspersist leaves uninterpreted)
spec fn ptree_encodes(b: Seq<u8>, t: PTree) -> bool {
    exists|i: PImg| b == #[trigger] snap_enc::<PseudoFsState>(1u16, i) && listing_wf(i.inodes) && listing_closed(i.inodes) && tree_matches(t, i.next_inode, i.inodes)
}
spec fn ptree_img_wf(b: Seq<u8>) -> bool { snap_dec::<PseudoFsState>(b) is Some && listing_wf(snap_dec::<PseudoFsState>(b)->Some_0.1.inodes) }
spec fn ptree_dec(b: Seq<u8>) -> Option<PTree> {
    match snap_dec::<PseudoFsState>(b) { Some(d) => Some(choose|t: PTree| tree_matches(t, d.1.next_inode, d.1.inodes)), None => None }
}
// save then restore gives back the tree: what Vfs::lemma_roundtrip (unit vfspersist) assumes of the pseudo file system
proof fn lemma_pseudo_roundtrip(rb: Seq<u8>, t: PTree)
    requires ptree_encodes(rb, t)
    ensures ptree_dec(rb) == Some(t) && ptree_img_wf(rb),                                   // [C19.pseudo.roundtrip]
{
    let i = choose|i: PImg| rb == #[trigger] snap_enc::<PseudoFsState>(1u16, i) && listing_wf(i.inodes) && listing_closed(i.inodes) && tree_matches(t, i.next_inode, i.inodes);
    axiom_snap_inverse::<PseudoFsState>(1u16, i);
    let u = choose|u: PTree| tree_matches(u, i.next_inode, i.inodes);
    lemma_tree_unique(t, u, i.next_inode, i.inodes);
}
// ---- #[derive(Versionize)] PseudoFsState / PseudoInodeState: no versioned field, one layout
impl Versionize for PseudoFsState {
    type Img = PImg;
    spec fn ty() -> TypeId { TypeId::PseudoFsState }
    spec fn nver() -> u16 { 1 }
    spec fn deps_ok(vs: Seq<Map<TypeId, u16>>, root: u16) -> bool { tv(vs, root, TypeId::PseudoInodeState) == 1 }
    spec fn img(&self, v: u16) -> PImg { PImg { next_inode: self.next_inode, inodes: stvs(self.inodes@) } }
    spec fn fits(i: PImg, v: u16) -> bool { true }
    spec fn seen(i: PImg, v: u16, out: PseudoFsState) -> bool { out.next_inode == i.next_inode && stvs(out.inodes@) == i.inodes }
}
impl PseudoFsState { pub fn type_id() -> (r: TypeId) ensures r == TypeId::PseudoFsState { TypeId::PseudoFsState } }
// Vec<PseudoInodeState>::clone() with the derived Clone of a plain struct: field by field
#[verifier::external_body] pub fn clone_states(v: &Vec<PseudoInodeState>) -> (r: Vec<PseudoInodeState>) ensures stvs(r@) == stvs(v@) { unimplemented!() }
// [T]::sort_by(|a, b| a.ino.cmp(&b.ino)): a stable sort by inode number - the result is a permutation of the input in non-decreasing order
pub open spec fn is_perm(p: Seq<int>, q: Seq<int>, n: int) -> bool {
    &&& p.len() == n && q.len() == n
    &&& forall|i: int| 0 <= i < n ==> 0 <= #[trigger] p[i] < n && q[p[i]] == i
    &&& forall|j: int| 0 <= j < n ==> 0 <= #[trigger] q[j] < n && p[q[j]] == j
}
pub open spec fn sorted_perm(o: Seq<StV>, f: Seq<StV>, p: Seq<int>, q: Seq<int>) -> bool {
    &&& f.len() == o.len() && is_perm(p, q, o.len() as int)
    &&& forall|i: int| 0 <= i < f.len() ==> #[trigger] f[i] == o[p[i]]
    &&& forall|i: int, j: int| 0 <= i < j < f.len() ==> (#[trigger] f[i]).ino <= (#[trigger] f[j]).ino
}
#[verifier::external_body] pub fn sort_states_by_ino(v: &mut Vec<PseudoInodeState>)
    ensures exists|p: Seq<int>, q: Seq<int>| #[trigger] sorted_perm(stvs(old(v)@), stvs(final(v)@), p, q) { unimplemented!() }
#[verifier::external_body] pub fn string_clone(s: &String) -> (r: String) ensures r@ == s@ { unimplemented!() }

// =====================================================================================================================
// the concrete structure: well-formedness and its abstract tree
impl PseudoInode { spec fn cell(&self) -> int { self.children.id() } }
spec fn kid_inos(s: Seq<Arc<PseudoInode>>) -> Seq<u64> { s.map_values(|a: Arc<PseudoInode>| a.ino) }
impl PseudoFs {
    spec fn im(&self) -> Map<u64, Arc<PseudoInode>> { self.inodes.cur()@ }
    spec fn kids(&self, h: PHeap, k: u64) -> Seq<Arc<PseudoInode>> { h.kids[self.im()[k].cell()] }
    spec fn tree(&self, h: PHeap) -> PTree { tree_m(self.im(), self.next_inode.cur(), h) }
    spec fn wf(&self, h: PHeap) -> bool { wf_m(self.im(), self.root_inode, h) }
    // every pseudo directory's parent is in the table: what makes a saved listing restorable
    spec fn closed(&self) -> bool { forall|c: u64| #[trigger] self.im().contains_key(c) ==> self.im().contains_key(self.im()[c].parent) }
}
spec fn mkids(m: Map<u64, Arc<PseudoInode>>, h: PHeap, k: u64) -> Seq<Arc<PseudoInode>> { h.kids[m[k].cell()] }
spec fn wf_m(m: Map<u64, Arc<PseudoInode>>, root: Arc<PseudoInode>, h: PHeap) -> bool {
    &&& m.contains_key(ROOT_ID) && m[ROOT_ID] == root && root.ino == ROOT_ID && root.parent == ROOT_ID
    &&& forall|k: u64| #[trigger] m.contains_key(k) ==> m[k].ino == k && h.kids.contains_key(m[k].cell())
    &&& forall|k: u64, l: u64| m.contains_key(k) && m.contains_key(l) && (#[trigger] m[k]).cell() == (#[trigger] m[l]).cell() ==> k == l
    // the children vector of a directory holds the very nodes of the table whose parent it is, each once, in inode order
    &&& forall|k: u64, j: int| m.contains_key(k) && 0 <= j < mkids(m, h, k).len() ==> ({ let c = #[trigger] mkids(m, h, k)[j];
            m.contains_key(c.ino) && m[c.ino] == c && c.parent == k && c.ino != ROOT_ID })
    &&& forall|k: u64| #[trigger] m.contains_key(k) ==> incr(kid_inos(mkids(m, h, k)))
    &&& forall|c: u64| #[trigger] m.contains_key(c) && c != ROOT_ID && m.contains_key(m[c].parent) ==> mkids(m, h, m[c].parent).contains(m[c])
}
// the children of directory k after the first n entries of the (sorted) listing have been connected
spec fn kids_upto(s: Seq<StV>, m: Map<u64, Arc<PseudoInode>>, n: int, k: u64) -> Seq<Arc<PseudoInode>> decreases n {
    if n <= 0 { Seq::empty() } else { let r = kids_upto(s, m, n - 1, k); if s[n - 1].parent == k { r.push(m[s[n - 1].ino]) } else { r } }
}
spec fn kid_src(s: Seq<StV>, m: Map<u64, Arc<PseudoInode>>, n: int, k: u64, c: Arc<PseudoInode>) -> bool {
    exists|j: int| 0 <= j < n && (#[trigger] s[j]).parent == k && c == m[s[j].ino]
}
proof fn lemma_kids_upto(s: Seq<StV>, m: Map<u64, Arc<PseudoInode>>, n: int, k: u64)
    requires 0 <= n <= s.len(), forall|j: int| 0 <= j < s.len() ==> m.contains_key((#[trigger] s[j]).ino) && m[s[j].ino].ino == s[j].ino,
             forall|i: int, j: int| 0 <= i < j < s.len() ==> (#[trigger] s[i]).ino < (#[trigger] s[j]).ino
    ensures forall|x: int| 0 <= x < kids_upto(s, m, n, k).len() ==> kid_src(s, m, n, k, #[trigger] kids_upto(s, m, n, k)[x]),
            forall|j: int| 0 <= j < n && (#[trigger] s[j]).parent == k ==> kids_upto(s, m, n, k).contains(m[s[j].ino]),
            incr(kid_inos(kids_upto(s, m, n, k))),
            forall|x: int| 0 <= x < kids_upto(s, m, n, k).len() && n < s.len() ==> (#[trigger] kids_upto(s, m, n, k)[x]).ino < s[n].ino,
    decreases n
{
    if n > 0 {
        lemma_kids_upto(s, m, n - 1, k);
        let r = kids_upto(s, m, n - 1, k); let f = kids_upto(s, m, n, k);
        if s[n - 1].parent == k {
            let c = m[s[n - 1].ino];
            assert(f == r.push(c));
            assert forall|x: int| 0 <= x < f.len() implies kid_src(s, m, n, k, #[trigger] f[x]) by {
                if x < r.len() { assert(kid_src(s, m, n - 1, k, r[x])); let j = choose|j: int| 0 <= j < n - 1 && (#[trigger] s[j]).parent == k && r[x] == m[s[j].ino]; assert(s[j].parent == k && f[x] == m[s[j].ino]); }
                else { assert(s[n - 1].parent == k && f[x] == m[s[n - 1].ino]); }
            }
            assert forall|j: int| 0 <= j < n && (#[trigger] s[j]).parent == k implies f.contains(m[s[j].ino]) by {
                if j < n - 1 { assert(r.contains(m[s[j].ino])); let x = choose|x: int| 0 <= x < r.len() && r[x] == m[s[j].ino]; assert(f[x] == m[s[j].ino]); }
                else { assert(f[r.len() as int] == c); }
            }
            assert forall|x: int, y: int| 0 <= x < y < kid_inos(f).len() implies kid_inos(f)[x] < kid_inos(f)[y] by {
                if y < r.len() { assert(kid_inos(r)[x] < kid_inos(r)[y]); } else { assert(r[x].ino < s[n - 1].ino); }
            }
            assert forall|x: int| 0 <= x < f.len() && n < s.len() implies (#[trigger] f[x]).ino < s[n].ino by {
                if x < r.len() { assert(r[x].ino < s[n - 1].ino); assert(s[n - 1].ino < s[n].ino); } else { assert(s[n - 1].ino < s[n].ino); }
            }
        } else {
            assert(f == r);
            assert forall|x: int| 0 <= x < f.len() implies kid_src(s, m, n, k, #[trigger] f[x]) by {
                assert(kid_src(s, m, n - 1, k, r[x])); let j = choose|j: int| 0 <= j < n - 1 && (#[trigger] s[j]).parent == k && r[x] == m[s[j].ino]; assert(s[j].parent == k && f[x] == m[s[j].ino]);
            }
            assert forall|x: int| 0 <= x < f.len() && n < s.len() implies (#[trigger] f[x]).ino < s[n].ino by { assert(r[x].ino < s[n - 1].ino); assert(s[n - 1].ino < s[n].ino); }
        }
    }
}
// what restore_from_state has built when it succeeds on a listing that names every inode once (l: as listed, s: sorted, m: the new table)
proof fn lemma_restored(m: Map<u64, Arc<PseudoInode>>, root: Arc<PseudoInode>, next: u64, h: PHeap, l: Seq<StV>, s: Seq<StV>, p: Seq<int>, q: Seq<int>)
    requires
        m.contains_key(ROOT_ID) && m[ROOT_ID] == root && root.ino == ROOT_ID && root.parent == ROOT_ID,
        forall|k: u64| #[trigger] m.contains_key(k) ==> m[k].ino == k && h.kids.contains_key(m[k].cell()),
        forall|k: u64, j: u64| m.contains_key(k) && m.contains_key(j) && (#[trigger] m[k]).cell() == (#[trigger] m[j]).cell() ==> k == j,
        forall|k: u64| #[trigger] m.contains_key(k) <==> (k == ROOT_ID || listed(l, k)),
        listing_wf(l), sorted_perm(l, s, p, q),
        forall|j: int| 0 <= j < l.len() ==> m[(#[trigger] l[j]).ino].parent == l[j].parent && m[l[j].ino].name@ == l[j].name,
        forall|k: u64| #[trigger] m.contains_key(k) ==> h.kids[m[k].cell()] == kids_upto(s, m, s.len() as int, k),
        forall|j: int| 0 <= j < s.len() ==> m.contains_key((#[trigger] s[j]).parent),
    ensures
        wf_m(m, root, h),                                                               // [C19.pseudo.restore.wf]
        tree_matches(tree_m(m, next, h), next, l),                                      // [C19.pseudo.restore.tree]
        forall|c: u64| #[trigger] m.contains_key(c) ==> m.contains_key(m[c].parent),    // closed
{
    let n = s.len() as int;
    // the sorted listing names the same inodes, each once
    assert forall|i: int| 0 <= i < n implies m.contains_key((#[trigger] s[i]).ino) && m[s[i].ino].ino == s[i].ino && m[s[i].ino].parent == s[i].parent && s[i].ino != ROOT_ID by {
        assert(s[i] == l[p[i]]); assert(listed(l, l[p[i]].ino));
    }
    assert forall|i: int, j: int| 0 <= i < j < n implies (#[trigger] s[i]).ino < (#[trigger] s[j]).ino by {
        assert(s[i] == l[p[i]] && s[j] == l[p[j]]);
        if p[i] == p[j] { assert(q[p[i]] == i && q[p[j]] == j); }
        if p[i] < p[j] { assert(l[p[i]].ino != l[p[j]].ino); } else { assert(l[p[j]].ino != l[p[i]].ino); }
    }
    assert forall|c: u64, k: u64| listed_under(s, c, k) <==> listed_under(l, c, k) by {
        if listed_under(s, c, k) { let i = choose|i: int| 0 <= i < s.len() && (#[trigger] s[i]).ino == c && s[i].parent == k; assert(s[i] == l[p[i]]); assert(l[p[i]].ino == c && l[p[i]].parent == k); }
        if listed_under(l, c, k) { let j = choose|j: int| 0 <= j < l.len() && (#[trigger] l[j]).ino == c && l[j].parent == k; assert(s[q[j]] == l[p[q[j]]]); assert(s[q[j]].ino == c && s[q[j]].parent == k); }
    }
    assert forall|k: u64| #[trigger] m.contains_key(k) implies incr(kid_inos(mkids(m, h, k)))
        && (forall|x: int| 0 <= x < mkids(m, h, k).len() ==> ({ let c = #[trigger] mkids(m, h, k)[x]; m.contains_key(c.ino) && m[c.ino] == c && c.parent == k && c.ino != ROOT_ID }))
        && (forall|c: u64| #[trigger] kid_inos(mkids(m, h, k)).contains(c) <==> listed_under(l, c, k)) by {
        lemma_kids_upto(s, m, n, k);
        let f = kids_upto(s, m, n, k);
        assert(mkids(m, h, k) == f);
        assert forall|x: int| 0 <= x < f.len() implies ({ let c = #[trigger] f[x]; m.contains_key(c.ino) && m[c.ino] == c && c.parent == k && c.ino != ROOT_ID }) by {
            assert(kid_src(s, m, n, k, f[x]));
            let j = choose|j: int| 0 <= j < n && (#[trigger] s[j]).parent == k && f[x] == m[s[j].ino];
            assert(m.contains_key(s[j].ino));
        }
        assert forall|c: u64| #[trigger] kid_inos(f).contains(c) <==> listed_under(l, c, k) by {
            if kid_inos(f).contains(c) {
                let x = choose|x: int| 0 <= x < kid_inos(f).len() && kid_inos(f)[x] == c;
                assert(kid_src(s, m, n, k, f[x]));
                let j = choose|j: int| 0 <= j < n && (#[trigger] s[j]).parent == k && f[x] == m[s[j].ino];
                assert(s[j].ino == c && s[j].parent == k); assert(listed_under(s, c, k));
            }
            if listed_under(l, c, k) {
                assert(listed_under(s, c, k));
                let j = choose|j: int| 0 <= j < s.len() && (#[trigger] s[j]).ino == c && s[j].parent == k;
                assert(f.contains(m[s[j].ino]));
                let x = choose|x: int| 0 <= x < f.len() && f[x] == m[s[j].ino];
                assert(kid_inos(f)[x] == c);
            }
        }
    }
    assert forall|c: u64| #[trigger] m.contains_key(c) && c != ROOT_ID && m.contains_key(m[c].parent) implies mkids(m, h, m[c].parent).contains(m[c]) by {
        assert(listed(l, c));
        let j = choose|j: int| 0 <= j < l.len() && (#[trigger] l[j]).ino == c;
        assert(s[q[j]] == l[p[q[j]]]);
        lemma_kids_upto(s, m, n, m[c].parent);
        assert(s[q[j]].parent == m[c].parent);
        assert(kids_upto(s, m, n, m[c].parent).contains(m[s[q[j]].ino]));
    }
    assert forall|c: u64| #[trigger] m.contains_key(c) implies m.contains_key(m[c].parent) by {
        if c != ROOT_ID { let j = choose|j: int| 0 <= j < l.len() && (#[trigger] l[j]).ino == c; assert(s[q[j]] == l[p[q[j]]]); assert(m.contains_key(s[q[j]].parent)); }
    }
    let t = tree_m(m, next, h);
    assert forall|k: u64| #[trigger] t.nodes.contains_key(k) <==> listed(l, k) by {
        if listed(l, k) { let j = choose|j: int| 0 <= j < l.len() && (#[trigger] l[j]).ino == k; assert(k != ROOT_ID); }
    }
    assert forall|i: int| 0 <= i < l.len() implies t.nodes[(#[trigger] l[i]).ino] == (l[i].parent, l[i].name) by { assert(listed(l, l[i].ino)); }
    assert forall|k: u64| #[trigger] t.children.contains_key(k) implies incr(t.children[k]) && (forall|c: u64| #[trigger] t.children[k].contains(c) <==> listed_under(l, c, k)) by {
        assert(m.contains_key(k)); assert(t.children[k] == kid_inos(mkids(m, h, k)));
    }
}
// ---- save: the listing built from the values of the table in iteration order, the root skipped
spec fn node_stv(a: Arc<PseudoInode>) -> StV { StV { ino: a.ino, parent: a.parent, name: a.name@ } }
spec fn states_upto(vs: Seq<Arc<PseudoInode>>, n: int) -> Seq<StV> decreases n {
    if n <= 0 { Seq::empty() } else if vs[n - 1].ino == ROOT_ID { states_upto(vs, n - 1) } else { states_upto(vs, n - 1).push(node_stv(vs[n - 1])) }
}
spec fn saved_from(m: Map<u64, Arc<PseudoInode>>, l: Seq<StV>, vs: Seq<Arc<PseudoInode>>) -> bool { vs.len() == m.len() && vs.to_set() == m.values() && l == states_upto(vs, vs.len() as int) }
spec fn st_src(vs: Seq<Arc<PseudoInode>>, n: int, e: StV) -> bool { exists|j: int| 0 <= j < n && (#[trigger] vs[j]).ino != ROOT_ID && e == node_stv(vs[j]) }
proof fn lemma_states_upto(vs: Seq<Arc<PseudoInode>>, n: int)
    requires 0 <= n <= vs.len()
    ensures forall|x: int| 0 <= x < states_upto(vs, n).len() ==> st_src(vs, n, #[trigger] states_upto(vs, n)[x]),
            forall|j: int| 0 <= j < n && (#[trigger] vs[j]).ino != ROOT_ID ==> states_upto(vs, n).contains(node_stv(vs[j])),
    decreases n
{
    if n > 0 {
        lemma_states_upto(vs, n - 1);
        let r = states_upto(vs, n - 1); let f = states_upto(vs, n);
        assert forall|x: int| 0 <= x < f.len() implies st_src(vs, n, #[trigger] f[x]) by {
            if x < r.len() { assert(st_src(vs, n - 1, r[x])); let j = choose|j: int| 0 <= j < n - 1 && (#[trigger] vs[j]).ino != ROOT_ID && r[x] == node_stv(vs[j]); assert(vs[j].ino != ROOT_ID && f[x] == node_stv(vs[j])); }
            else { assert(vs[n - 1].ino != ROOT_ID && f[x] == node_stv(vs[n - 1])); }
        }
        assert forall|j: int| 0 <= j < n && (#[trigger] vs[j]).ino != ROOT_ID implies f.contains(node_stv(vs[j])) by {
            if j < n - 1 { assert(r.contains(node_stv(vs[j]))); let x = choose|x: int| 0 <= x < r.len() && r[x] == node_stv(vs[j]); assert(f[x] == node_stv(vs[j])); }
            else { assert(f[r.len() as int] == node_stv(vs[j])); }
        }
    }
}
proof fn lemma_states_distinct(m: Map<u64, Arc<PseudoInode>>, vs: Seq<Arc<PseudoInode>>, n: int)
    requires 0 <= n <= vs.len(), vs.no_duplicates(), forall|k: u64| #[trigger] m.contains_key(k) ==> m[k].ino == k,
             forall|j: int| 0 <= j < vs.len() ==> m.values().contains(#[trigger] vs[j])
    ensures listing_wf(states_upto(vs, n))
    decreases n
{
    if n > 0 {
        lemma_states_distinct(m, vs, n - 1);
        lemma_states_upto(vs, n - 1);
        let r = states_upto(vs, n - 1); let f = states_upto(vs, n);
        if vs[n - 1].ino != ROOT_ID {
            assert forall|x: int, y: int| 0 <= x < y < f.len() implies (#[trigger] f[x]).ino != (#[trigger] f[y]).ino by {
                if y == r.len() {
                    assert(st_src(vs, n - 1, r[x]));
                    let j = choose|j: int| 0 <= j < n - 1 && (#[trigger] vs[j]).ino != ROOT_ID && r[x] == node_stv(vs[j]);
                    assert(m.values().contains(vs[j]) && m.values().contains(vs[n - 1]));
                    let a = choose|a: u64| m.contains_key(a) && m[a] == vs[j]; let b = choose|b: u64| m.contains_key(b) && m[b] == vs[n - 1];
                    if vs[j].ino == vs[n - 1].ino { assert(a == b); assert(vs[j] == vs[n - 1]); }
                }
            }
            assert forall|x: int| 0 <= x < f.len() implies (#[trigger] f[x]).ino != ROOT_ID by { assert(st_src(vs, n, f[x])) by { lemma_states_upto(vs, n); } }
        }
    }
}
// the listing save_to_bytes builds from a well-formed, closed table describes exactly the tree of that table
proof fn lemma_saved_listing(m: Map<u64, Arc<PseudoInode>>, root: Arc<PseudoInode>, next: u64, h: PHeap, vs: Seq<Arc<PseudoInode>>)
    requires wf_m(m, root, h), forall|c: u64| #[trigger] m.contains_key(c) ==> m.contains_key(m[c].parent),
             vs.len() == m.len(), vs.to_set() == m.values(),           // HashMap::values(): as many items as keys, the set of values
    ensures ({ let l = states_upto(vs, vs.len() as int);
               listing_wf(l) && listing_closed(l) && tree_matches(tree_m(m, next, h), next, l) }),       // [C19.pseudo.save.listing]
{
    let n = vs.len() as int; let l = states_upto(vs, n);
    // each key's node is visited once
    assert forall|a: u64, b: u64| m.contains_key(a) && m.contains_key(b) && #[trigger] m[a] == #[trigger] m[b] implies a == b by { assert(m[a].ino == a && m[b].ino == b); }
    m.lemma_injective_values_len();
    vs.lemma_no_dup_set_cardinality();
    assert forall|j: int| 0 <= j < vs.len() implies m.values().contains(#[trigger] vs[j]) by { assert(vs.to_set().contains(vs[j])); }
    lemma_states_distinct(m, vs, n);
    lemma_states_upto(vs, n);
    // an entry of the listing is a non-root node of the table with its own fields
    assert forall|i: int| 0 <= i < l.len() implies m.contains_key((#[trigger] l[i]).ino) && l[i].ino != ROOT_ID && l[i] == node_stv(m[l[i].ino]) by {
        assert(st_src(vs, n, l[i]));
        let j = choose|j: int| 0 <= j < n && (#[trigger] vs[j]).ino != ROOT_ID && l[i] == node_stv(vs[j]);
        assert(m.values().contains(vs[j])); let a = choose|a: u64| m.contains_key(a) && m[a] == vs[j]; assert(m[a].ino == a);
    }
    // every non-root node of the table is listed
    assert forall|k: u64| m.contains_key(k) && k != ROOT_ID implies listed(l, k) by {
        assert(m.values().contains(m[k])); assert(vs.to_set().contains(m[k]));
        let j = choose|j: int| 0 <= j < vs.len() && vs[j] == m[k];
        assert(vs[j].ino != ROOT_ID); assert(l.contains(node_stv(vs[j])));
        let x = choose|x: int| 0 <= x < l.len() && l[x] == node_stv(vs[j]); assert(l[x].ino == k);
    }
    assert(listing_closed(l)) by {
        assert forall|i: int| 0 <= i < l.len() implies (#[trigger] l[i]).parent == ROOT_ID || exists|j: int| 0 <= j < l.len() && (#[trigger] l[j]).ino == l[i].parent by {
            let pk = m[l[i].ino].parent; assert(m.contains_key(pk));
            if pk != ROOT_ID { assert(listed(l, pk)); }
        }
    }
    let t = tree_m(m, next, h);
    assert forall|k: u64| #[trigger] t.nodes.contains_key(k) <==> listed(l, k) by {
        if listed(l, k) { let i = choose|i: int| 0 <= i < l.len() && (#[trigger] l[i]).ino == k; assert(m.contains_key(l[i].ino)); }
    }
    assert forall|k: u64| #[trigger] t.children.contains_key(k) <==> (k == ROOT_ID || listed(l, k)) by {
        if listed(l, k) { let i = choose|i: int| 0 <= i < l.len() && (#[trigger] l[i]).ino == k; assert(m.contains_key(l[i].ino)); }
    }
    assert forall|k: u64| #[trigger] t.children.contains_key(k) implies incr(t.children[k]) && (forall|c: u64| #[trigger] t.children[k].contains(c) <==> listed_under(l, c, k)) by {
        let ks = mkids(m, h, k);
        assert(t.children[k] == kid_inos(ks));
        assert forall|c: u64| #[trigger] kid_inos(ks).contains(c) <==> listed_under(l, c, k) by {
            if kid_inos(ks).contains(c) {
                let x = choose|x: int| 0 <= x < kid_inos(ks).len() && kid_inos(ks)[x] == c;
                let cn = ks[x]; assert(m.contains_key(cn.ino) && m[cn.ino] == cn && cn.parent == k && cn.ino != ROOT_ID);
                assert(listed(l, c)); let i = choose|i: int| 0 <= i < l.len() && (#[trigger] l[i]).ino == c; assert(l[i] == node_stv(m[l[i].ino]));
            }
            if listed_under(l, c, k) {
                let i = choose|i: int| 0 <= i < l.len() && (#[trigger] l[i]).ino == c && l[i].parent == k;
                assert(l[i] == node_stv(m[l[i].ino])); assert(m.contains_key(c) && c != ROOT_ID && m[c].parent == k);
                assert(ks.contains(m[c])); let x = choose|x: int| 0 <= x < ks.len() && ks[x] == m[c]; assert(kid_inos(ks)[x] == c);
            }
        }
    }
}
spec fn tree_m(m: Map<u64, Arc<PseudoInode>>, next: u64, h: PHeap) -> PTree {
    PTree { next_inode: next,
            nodes: Map::new(m.dom().filter(|k: u64| k != ROOT_ID), |k: u64| (m[k].parent, m[k].name@)),
            children: Map::new(m.dom(), |k: u64| kid_inos(mkids(m, h, k))) }
}
'''


def unit(root='/repo'):
    P = ['C19']
    T, T0, T1 = 'self.tree(*hp)', 'old(self).tree(*old(hp))', 'final(self).tree(*final(hp))'
    LOADCLONE_H = (r'self\.children\.load\(\)\.deref\(\)\.deref\(\)\.clone\(\)', 'self.children.load_clone(Tracked(hp))', 'snapshot of the children vector held by the cell (Guard -> Arc -> Vec, cloned), with the ghost heap')
    STORE_H = (r'self\.children\.store\(Arc::new\(children\)\)', 'self.children.store(Arc::new(children), Tracked(hp))', 'ghost heap token (R23) for the ArcSwap store')
    NEW_H = (r'ArcSwap::new\(Arc::new\(Vec::new\(\)\)\)', 'ArcSwapH::new(Arc::new(Vec::new()), Tracked(hp))', 'heap cell + ghost heap token (R23)')
    STRCLONE = (r'\b(inode\.name)\.clone\(\)', r'string_clone(&\1)', 'every: String::clone, same characters')
    items = [
        Copy(ABI, r'pub const ROOT_ID\b'),
        Raw(CELLS),
        Copy(PFS, r'struct PseudoInode\b', subst=[('children: ArcSwap<Vec<Arc<PseudoInode>>>', 'children: ArcSwapH<Vec<Arc<PseudoInode>>>')]),
        Copy(PFS, r'pub struct PseudoFs\b'),
        Copy(PFS, r'struct PseudoInodeState\b'),
        Copy(PFS, r'pub struct PseudoFsState\b'),
        Raw(VP.MODEL), Raw(SPEC),
    ]
    new = Fn(PFS, 'impl PseudoInode', 'new', props=P, canary=True, body_resub=[NEW_H],
             ensures=['r.ino == ino && r.parent == parent && r.name == name // [C19.pseudo.node.fields]',
                      '!old(hp).kids.contains_key(r.cell()) && final(hp).kids == old(hp).kids.insert(r.cell(), Seq::<Arc<PseudoInode>>::empty()) // [C19.pseudo.node.no_children] a new directory is empty and shares its children vector with no other'])
    new.rules, new.ghost_token = ('R23',), dict(TOK, callees=[])
    ins = Fn(PFS, 'impl PseudoInode', 'insert_child', props=P, canary=True, body_resub=[LOADCLONE_H, STORE_H],
             requires=['old(hp).kids.contains_key(self.cell())'],
             ensures=['final(hp).kids == old(hp).kids.insert(self.cell(), old(hp).kids[self.cell()].push(child)) // [C19.pseudo.insert_child] appended after the existing children; every other directory untouched'])
    ins.rules, ins.ghost_token = ('R23',), dict(TOK, callees=[])
    # remove_child: `.iter().position(..).map(|pos| children.remove(pos)).unwrap()` (closure mutating a captured vector) - contract only, listed
    rmc = Fn(PFS, 'impl PseudoInode', 'remove_child', props=P, external_body=True,
             requires=['old(hp).kids.contains_key(self.cell())'],
             ensures=['final(hp).kids.dom() == old(hp).kids.dom() && (forall|c: int| c != self.cell() && old(hp).kids.contains_key(c) ==> final(hp).kids[c] == #[trigger] old(hp).kids[c])'])
    rmc.rules, rmc.ghost_token = ('R23',), dict(TOK, callees=[])
    items.append(Group('impl PseudoInode {', [new, ins, rmc]))
    PP = 'impl PseudoFs'
    CLONE_ST = (r'state\.inodes\.clone\(\)', 'clone_states(&state.inodes)', 'Vec<PseudoInodeState>::clone with the derived Clone: field by field')
    SORT = (r'state_inodes\.sort_by\(\|a, b\| a\.ino\.cmp\(&b\.ino\)\);', 'sort_states_by_ino(&mut state_inodes);', 'slice::sort_by with the comparison of the `ino` fields: a sorted permutation')
    GETMUT = (r'inode_map\.get_mut\(', 'inode_map.get(', '`&mut Arc<PseudoInode>` used for a `&self` method only: shared lookup')
    NEWCALL = (r'PseudoInode::new\(((?:[^()]|\([^()]*\))*?),?\s*\)', r'PseudoInode::new(\1, Tracked(hp))', 'ghost heap token (R23) for the associated function')
    LOOP1 = '''for inode in it1: state_inodes.iter()
                invariant
                    l == stvs(state_inodes@), state_inodes@.len() == l.len(), it1.index@ <= l.len(),
                    l == stvs(state.inodes@), forall|c: int| #[trigger] h0.kids.contains_key(c) ==> hp.kids.contains_key(c) && hp.kids[c] == h0.kids[c],
                    forall|k: u64| #[trigger] inode_map@.contains_key(k) ==> inode_map@[k].ino == k && hp.kids.contains_key(inode_map@[k].cell())
                        && !h0.kids.contains_key(inode_map@[k].cell()) && hp.kids[inode_map@[k].cell()] == Seq::<Arc<PseudoInode>>::empty(),
                    forall|k: u64, j: u64| inode_map@.contains_key(k) && inode_map@.contains_key(j) && (#[trigger] inode_map@[k]).cell() == (#[trigger] inode_map@[j]).cell() ==> k == j,
                    forall|k: u64| #[trigger] inode_map@.contains_key(k) <==> (exists|j: int| 0 <= j < it1.index@ && (#[trigger] l[j]).ino == k),
                    listing_wf(l) ==> forall|j: int| 0 <= j < it1.index@ ==> inode_map@[(#[trigger] l[j]).ino].parent == l[j].parent && inode_map@[l[j].ino].name@ == l[j].name, // [C19.pseudo.restore.node_fields]
            {
                let ghost j1 = it1.index@; let ghost m1 = inode_map@;
                proof { assert(stvs(state_inodes@)[j1] == stv(state_inodes@[j1])); }'''
    LOOP2 = '''for inode in it2: state_inodes.iter()
                invariant
                    s == stvs(state_inodes@), state_inodes@.len() == s.len(), it2.index@ <= s.len(), inode_map@ == m, sorted_perm(l, s, p, q), l == stvs(state.inodes@), good ==> listing_wf(l),
                    forall|k: u64| #[trigger] m.contains_key(k) ==> m[k].ino == k && hp.kids.contains_key(m[k].cell()),
                    forall|k: u64, j: u64| m.contains_key(k) && m.contains_key(j) && (#[trigger] m[k]).cell() == (#[trigger] m[j]).cell() ==> k == j,
                    forall|k: u64| #[trigger] m.contains_key(k) <==> (k == ROOT_ID || listed(l, k)),
                    listing_wf(l) ==> forall|j: int| 0 <= j < l.len() ==> m[(#[trigger] l[j]).ino].parent == l[j].parent && m[l[j].ino].name@ == l[j].name,
                    good ==> forall|k: u64| #[trigger] m.contains_key(k) ==> hp.kids[m[k].cell()] == kids_upto(s, m, it2.index@ as int, k), // [C19.pseudo.restore.children]
                    forall|j: int| 0 <= j < it2.index@ ==> m.contains_key(m[(#[trigger] s[j]).ino].parent),
            {
                let ghost j2 = it2.index@; let ghost hb = *hp;
                proof {
                    assert(stvs(state_inodes@)[j2] == stv(state_inodes@[j2]));
                    assert(s[j2] == l[p[j2]]); assert(listed(l, l[p[j2]].ino));
                    if listing_wf(l) && listing_closed(l) {       // a listing that names every inode once together with its parent is accepted
                        let pj = p[j2];
                        assert(m[l[pj].ino].parent == l[pj].parent);
                        if l[pj].parent != ROOT_ID { let x = choose|x: int| 0 <= x < l.len() && (#[trigger] l[x]).ino == l[pj].parent; assert(listed(l, l[x].ino)); }
                        assert(m.contains_key(m[s[j2].ino].parent));
                    }
                }'''
    rfs = Fn(PFS, PP, 'restore_from_state', props=P, canary=True, sig_subst=R25, body_resub=[CLONE_ST, SORT, GETMUT, STRCLONE, NEWCALL],
             body_subst=[('let mut inode_map = HashMap::new();', 'let mut inode_map: HashMap<u64, Arc<PseudoInode>> = HashMap::new();')],     # type annotation only (the ghost invariants mention the map before inference reaches it)
             requires=['old(self).wf(*old(hp))'],
             ensures=['r is Ok && listing_wf(stvs(state.inodes@)) && {T0}.is_fresh() ==> tree_matches({T1}, state.next_inode, stvs(state.inodes@)) // [C19.pseudo.restore.tree] same numbers, parents, names; directory order by inode number; next_inode continues where it was'.replace('{T0}', T0).replace('{T1}', T1),
                      'r is Ok && listing_wf(stvs(state.inodes@)) && %s.is_fresh() ==> final(self).wf(*final(hp)) && final(self).closed() // [C19.pseudo.restore.wf]' % T0,
                      'listing_wf(stvs(state.inodes@)) && listing_closed(stvs(state.inodes@)) ==> r is Ok // [C19.pseudo.restore.accepts_closed] what save_to_bytes writes for a closed table is accepted',
                      'r is Err ==> final(self).inodes == old(self).inodes && final(self).next_inode == old(self).next_inode'],
             splices=[('let mut state_inodes = clone_states(&state.inodes);', 'after', '''let ghost l = stvs(state_inodes@); let ghost h0 = *hp;
            let ghost good = listing_wf(l) && old(self).tree(*old(hp)).is_fresh();
            proof { assert(old(self).tree(h0).children.contains_key(ROOT_ID)); }'''),
                      ('for inode in state_inodes.iter() {', 'replace', LOOP1, 'for inode in state_inodes.iter() {\n                let inode = Arc::new('),
                      ('inode_map.insert(inode.ino, inode);', 'after', '''proof {
                    assert forall|k: u64| #[trigger] inode_map@.contains_key(k) <==> (exists|j: int| 0 <= j < j1 + 1 && (#[trigger] l[j]).ino == k) by {
                        if k == l[j1].ino { } else if m1.contains_key(k) { let j = choose|j: int| 0 <= j < j1 && (#[trigger] l[j]).ino == k; assert(0 <= j < j1 + 1); }
                        if exists|j: int| 0 <= j < j1 + 1 && (#[trigger] l[j]).ino == k { let j = choose|j: int| 0 <= j < j1 + 1 && (#[trigger] l[j]).ino == k; if j < j1 { assert(m1.contains_key(k)); } }
                    }
                }'''),
                      ('inode_map.insert(self.root_inode.ino, self.root_inode.clone());', 'after', '''proof {
                assert forall|k: u64| #[trigger] inode_map@.contains_key(k) <==> (k == ROOT_ID || listed(l, k)) by {
                    if listed(l, k) { let j = choose|j: int| 0 <= j < l.len() && (#[trigger] l[j]).ino == k; assert(0 <= j < l.len()); }
                }
            }'''),
                      ('sort_states_by_ino(&mut state_inodes);', 'after', '''let ghost s = stvs(state_inodes@); let ghost m = inode_map@;
            let ghost (p, q) = choose|p: Seq<int>, q: Seq<int>| #[trigger] sorted_perm(l, s, p, q);
            proof { if good { assert(hp.kids[self.root_inode.cell()] == Seq::<Arc<PseudoInode>>::empty()) by { assert(kid_inos(h0.kids[self.root_inode.cell()]).len() == 0); } } }'''),
                      ('for inode in state_inodes.iter() {', 'replace', LOOP2),
                      ('parent.insert_child(inode, Tracked(hp));', 'after', '''proof {
                    if good {
                        let pk = m[s[j2].ino].parent;
                        assert(s[j2] == l[p[j2]]); assert(pk == s[j2].parent); // [C19.pseudo.restore.node_fields]
                        assert forall|k: u64| #[trigger] m.contains_key(k) implies hp.kids[m[k].cell()] == kids_upto(s, m, j2 + 1, k) by { // [C19.pseudo.restore.children] appended to the children of ITS parent, nobody else's
                            if k == pk { } else { assert(m[k].cell() != m[pk].cell()); assert(hp.kids[m[k].cell()] == hb.kids[m[k].cell()]); }
                        }
                    }
                }'''),
                      ('Ok(())', 'before', '''proof {
                if good {
                    assert forall|j: int| 0 <= j < s.len() implies m.contains_key((#[trigger] s[j]).parent) by { assert(s[j] == l[p[j]]); assert(listed(l, l[p[j]].ino)); assert(m[l[p[j]].ino].parent == l[p[j]].parent); }
                    lemma_restored(m, self.root_inode, state.next_inode, *hp, l, s, p, q);
                }
            }''')])
    rfs.rules, rfs.ghost_token = ('R23',), dict(TOK, callees=['insert_child'])
    gvm = Fn(PFS, PP, 'get_version_map', props=P, canary=True,
             ensures=['r@.len() == 1 // [C19.pseudo.version_map.latest] one root version',
                      'forall|root: u16| tv(r@, root, TypeId::PseudoFsState) == 1 && tv(r@, root, TypeId::PseudoInodeState) == 1 // [C19.pseudo.version_map.layout] the only layout the derive knows'],
             splices=[('^', 'after', 'proof { reveal_with_fuel(tv_rec, 3); }')])
    rfb = Fn(PFS, PP, 'restore_from_bytes', props=P, canary=True, sig_subst=R25, gtag_props={'snapver': ['C19']},
             requires=['old(self).wf(*old(hp))'],
             ensures=VP.pseudo_clauses(VP.PSEUDO_RESTORE_ENS, T, T0, T1)
             + ['r is Ok && %s.is_fresh() && ptree_img_wf(old(buf)@) ==> final(self).wf(*final(hp)) && final(self).closed() // [C19.pseudo.restore.wf]' % T0,
                'final(buf)@ == old(buf)@'],
             # the tail call is bound to a name so that the uniqueness lemma can be applied to the state it leaves (same value returned)
             splices=[('self.restore_from_state(&state, Tracked(hp))', 'replace', '''let ghost h0 = *hp; let res_ = self.restore_from_state(&state, Tracked(hp));
            proof {
                assert(buf@.take(buf@.len() as int) =~= buf@);
                let d = snap_dec::<PseudoFsState>(buf@)->Some_0;
                assert(state.next_inode == d.1.next_inode && stvs(state.inodes@) == d.1.inodes);
                if res_ is Ok && listing_wf(d.1.inodes) && old(self).tree(h0).is_fresh() {
                    // a listing describes at most one tree: what restore_from_state has built IS ptree_dec of the image
                    lemma_tree_unique(self.tree(*hp), ptree_dec(buf@)->Some_0, d.1.next_inode, d.1.inodes);     // [C19.pseudo.restore.tree]
                }
            }
            res_''')])
    rfb.rules, rfb.ghost_token = ('R23',), dict(TOK, callees=['restore_from_state'])
    HOIST = (r'for inode in self\.inodes\.load\(\)\.values\(\) \{', 'let inodes_guard = self.inodes.load(); for inode in inodes_guard.values() {',
             'the temporary of the `for` iterator expression (it lives for the whole loop) bound to a name: Verus binds the iterator itself with `let`')
    SAVE_LOOP = '''for inode in it: inodes_guard.values()
                invariant
                    self.wf(*hp), self.closed(),
                    it.snapshot@.remaining().len() == self.im().len(), it.snapshot@.remaining().unref().to_set() == self.im().values(),
                    it.index@ <= it.snapshot@.remaining().len(),
                    stvs(inodes@) == states_upto(it.snapshot@.remaining().unref(), it.index@ as int), // [C19.pseudo.save.every_inode]
                ensures
                    saved_from(self.im(), stvs(inodes@), it.snapshot@.remaining().unref()),
            {
                let ghost vs = it.snapshot@.remaining().unref(); let ghost j0 = it.index@ as int; let ghost before = inodes@;
                proof { assert(*inode == vs[j0]); }'''
    sv = Fn(PFS, PP, 'save_to_bytes', props=P, canary=True, gtag_props={'snapver': ['C19']}, body_resub=[STRCLONE, HOIST],
            body_subst=[('let mut inodes = Vec::new();', 'let mut inodes: Vec<PseudoInodeState> = Vec::new();')],     # type annotation only
            requires=['self.wf(*hp)',
                      # what is written can only be read back if every listed inode's parent is listed too
                      'self.closed() // [C19.pseudo.save.closed]'],
            ensures=VP.pseudo_clauses(VP.PSEUDO_SAVE_ENS, T, T0, T1),
            splices=[('for inode in inodes_guard.values() {', 'replace', SAVE_LOOP),
                     ('// no need to save the root inode', 'after', 'proof { assert(states_upto(vs, j0 + 1) == states_upto(vs, j0)); } // [C19.pseudo.save.every_inode] only the root is skipped'),
                     ('name: string_clone(&inode.name),\n                });', 'after', '''proof {
                    let last = inodes@[inodes@.len() - 1];
                    assert(stvs(inodes@) =~= stvs(before).push(stv(last)));
                    assert(states_upto(vs, j0 + 1) == states_upto(vs, j0).push(node_stv(vs[j0]))); // [C19.pseudo.save.every_inode]
                }'''),
                     ('let vm = PseudoFs::get_version_map();', 'before', '''let ghost vs = choose|vs: Seq<Arc<PseudoInode>>| #[trigger] saved_from(self.im(), stvs(state.inodes@), vs);
            proof { lemma_saved_listing(self.im(), self.root_inode, next_inode, *hp, vs); }'''),
                     ('Ok(buf)', 'before', '''proof {
                let i = PImg { next_inode: state.next_inode, inodes: stvs(state.inodes@) };
                assert(buf@ =~= snap_enc::<PseudoFsState>(1u16, i));
                assert(listing_wf(i.inodes) && listing_closed(i.inodes) && tree_matches(self.tree(*hp), i.next_inode, i.inodes));   // [C19.pseudo.save.image]
            }''')])
    sv.rules, sv.ghost_token = ('R23', 'R34'), dict(param='Tracked(hp): Tracked<&PHeap>', arg='Tracked(hp)', callees=[])
    LOADCLONE = (r'self\.inodes\.load\(\)\.deref\(\)\.deref\(\)\.clone\(\)', 'self.inodes.load_clone()', 'snapshot of the table held by the cell (Guard -> Arc -> HashMap, cloned)')
    KIDSLOAD = (r'inode\.children\.load\(\)', 'inode.children.load(Tracked(hp))', 'every: ghost heap token (R23) for a load of the children cell')
    rmi = Fn(PFS, PP, 'remove_inode', props=P, sig_subst=R25, body_resub=[LOADCLONE],
             ensures=['final(self).im() == old(self).im().remove(inode.ino) && final(self).next_inode == old(self).next_inode && final(self).root_inode == old(self).root_inode // [C19.pseudo.remove_inode]'])
    ev = Fn(PFS, PP, 'evict_inode', props=P, canary=True, sig_subst=R25, body_resub=[KIDSLOAD],
            requires=['old(self).wf(*old(hp))', 'old(self).closed()', 'old(self).im().contains_key(ino)'],
            ensures=['final(self).im() == old(self).im() || final(self).im() == old(self).im().remove(ino)',
                     # umount with `remove_pseudo_root` evicts the mount point's directory: what stays in the table must still be restorable
                     'final(self).closed() // [C19.pseudo.evict.closed] no pseudo directory is left without its parent: a later save can be restored'],
            splices=[('^', 'after', 'proof { assert(old(self).im().contains_key(old(self).im()[ino].parent)); }'),
                     ('self.remove_inode(inode);', 'after', '''proof {
            // a directory whose children vector is empty is nobody's parent
            assert forall|c: u64| #[trigger] self.im().contains_key(c) implies self.im().contains_key(self.im()[c].parent) by { // [C19.pseudo.evict.closed]
                let o = old(self).im();
                assert(o.contains_key(c) && c != ino);
                if o[c].parent == ino && c != ROOT_ID { assert(mkids(o, *old(hp), ino).contains(o[c])); }
            }
        }''')])
    ev.rules, ev.ghost_token = ('R23',), dict(TOK, callees=['remove_child'])
    items.append(Group('impl PseudoFs {', [gvm, rfs, rfb, sv, rmi, ev]))
    u = Unit('pseudopersist', items, preludes=['base.rs'], generic_tags={'snapver': ['C19']})
    u.cfg_features = {'persist'}
    return u
