"""Unit `msgbody` (C01, C02): ServerUtil::get_message_body (src/api/server/mod.rs) - the one place where a length taken from the request header
decides how many bytes are allocated and read - verified on its real text against EXACTLY the contract the unit `server` assumes for it
(vx/prelude/server.rs; this unit refuses to build if the two texts differ): Ok(v) iff the header's length covers the fixed part and the reader
still holds the rest, v is exactly the next `len - 40 - sub_hdr_sz` request bytes and the reader is advanced by exactly that; the subtractions cannot
wrap (a hostile `len` smaller than the fixed part is InvalidHeaderLength), and the `unsafe { buf.set_len(len) }` stays within the capacity just
allocated [C01.msgbody.set_len.in_capacity].
Assumed (models below): Vec::with_capacity gives an empty vector of at least that capacity; set_len within capacity changes the length only (contents
unspecified until read_exact overwrites them); `io::Read::read_exact` on the Reader is Ok iff enough bytes remain and then delivers exactly the next
bytes (the composition of std read_exact - verified as a hand copy in unit readerrd - with Reader::read, total and in order, unit readerrd); an
error leaves the vector unreturned.  size_of::<InHeader>() comes from the generated wire model (field sizes added up, checked against the kernel header by C13)."""
import os
import re

from vx import wiremodel
from vx.api import Unit, Fn, Copy, Raw, Group

LIB = 'src/lib.rs'
SMOD = 'src/api/server/mod.rs'
ABI = 'src/abi/fuse_abi_linux.rs'
VABI = 'src/abi/virtio_fs.rs'
HERE = os.path.dirname(os.path.abspath(__file__))

DECL_HEAD = "    pub fn get_message_body<'a, S: BitmapSlice>(r: &mut Reader<'a, S>, in_header: &InHeader, sub_hdr_sz: usize) -> (res: Result<Vec<u8>>)"
ENS = ['''match res {
            Ok(v) => in_header.len as int >= 40 + sub_hdr_sz && v@.len() == in_header.len as int - 40 - sub_hdr_sz && old(r).rem@.len() >= v@.len()
                     && v@ == old(r).rem@.subrange(0, v@.len() as int) && final(r).rem@ == old(r).rem@.skip(v@.len() as int),
            Err(_) => (in_header.len as int) < 40 + sub_hdr_sz || old(r).rem@.len() < in_header.len as int - 40 - sub_hdr_sz,
        } // [C02.msgbody.contract]''']

MODELS = r'''
pub type Result<T> = core::result::Result<T, Error>;
pub struct ServerUtil();
// ---- std, as documented
pub uninterp spec fn vec_cap(v: &Vec<u8>) -> nat;
// Vec::with_capacity(n): "the vector will be able to hold at least capacity elements without reallocating"; it is empty
#[verifier::external_body]
pub fn vx_vec_with_capacity(n: usize) -> (v: Vec<u8>)
    ensures v@.len() == 0, vec_cap(&v) >= n
{ unimplemented!() }
// unsafe Vec::set_len(n) - safety: "new_len must be less than or equal to capacity()" (PROVED at the call) and "the elements at old_len..new_len must be
// initialized" (they are not: the code relies on read_exact overwriting all of them before the vector is looked at - the contents are unspecified here,
// so nothing can be proved FROM them; on the error path the vector is dropped unread)
#[verifier::external_body]
pub fn vx_vec_set_len_uninit(v: &mut Vec<u8>, n: usize)
    requires n <= vec_cap(old(v)), // [C01.msgbody.set_len.in_capacity]
    ensures final(v)@.len() == n, vec_cap(final(v)) == vec_cap(old(v))
{ unimplemented!() }
impl<'a, S: BitmapSlice> Reader<'a, S> {
    // <Reader as io::Read>::read_exact(&mut buf[..]): std's loop over Reader::read (a verified hand copy in unit readerrd; Reader::read is total and delivers
    // the next min(n, remaining) bytes in order, same unit): Ok iff the reader holds at least buf.len() bytes
    #[verifier::external_body]
    pub fn read_exact_vec(&mut self, buf: &mut Vec<u8>) -> (r: io::Result<()>)
        ensures final(buf)@.len() == old(buf)@.len(), match r {
            Ok(_) => old(self).rem@.len() >= old(buf)@.len() && final(buf)@ == old(self).rem@.subrange(0, old(buf)@.len() as int)
                     && final(self).rem@ == old(self).rem@.skip(old(buf)@.len() as int),
            Err(_) => old(self).rem@.len() < old(buf)@.len(),
        }
    { unimplemented!() }
}
'''


def unit(root='/repo'):
    ptxt = open(os.path.join(HERE, '..', 'prelude', 'server.rs')).read()
    # the assumed contract, textually: signature line and the ensures block that follows it
    i = ptxt.find(DECL_HEAD)
    if i < 0:
        raise RuntimeError('unit msgbody: the declaration of get_message_body in prelude/server.rs changed')
    assumed = ptxt[i:ptxt.index('{ unimplemented!() }', i)]
    norm = lambda t: re.sub(r'\s+', ' ', t).strip()
    mine = DECL_HEAD + ' ensures ' + ENS[0].split(' // [')[0]
    if norm(assumed) != norm(mine):
        raise RuntimeError('unit msgbody: the contract of get_message_body assumed in prelude/server.rs is no longer the one proved here')
    items = []
    items += wiremodel.items(root, [ABI, VABI], ['InHeader', 'OutHeader'])      # OutHeader: named by the shared transport prelude
    items += [
        Raw('#[verifier::external_body] pub struct FromBytesWithNulError { _p: u8 }'),
        Copy(LIB, r'pub enum Error\b'),
        Raw(MODELS),
        Group('impl ServerUtil {', [
            Fn(SMOD, 'impl ServerUtil', 'get_message_body', ensures=ENS, props=['C02'], extra_props=['C01'], canary=True, ret_name='res',
               sig_subst=[("r: &mut Reader<'_, S>", "r: &mut Reader<'a, S>"), ('fn get_message_body<S: BitmapSlice>', "fn get_message_body<'a, S: BitmapSlice>")],
               body_resub=[
                   (r'Vec::<u8>::with_capacity\(([^()]+)\)', r'vx_vec_with_capacity(\1)', 'ABSTRACT Vec::with_capacity(n) -> model call (empty, capacity >= n)'),
                   (r'(?:#\[allow\(clippy::uninit_vec\)\]\s*)?unsafe\s*\{\s*(\w+)\.set_len\(([^()]+)\)\s*\}\s*;', r'vx_vec_set_len_uninit(&mut \1, \2);',
                    'ABSTRACT unsafe { V.set_len(n) } -> model call whose safety condition n <= capacity is PROVED here (the lint attribute on the statement is dropped)'),
                   (r'(\w+)\.read_exact\(&mut (\w+)\)', r'\1.read_exact_vec(&mut \2)', 'io::Read::read_exact(&mut V[..]) on the Reader (deref coercion Vec -> slice written out) -> model call'),
                   (r'\.and_then\(\|l\| l\.checked_sub\((\w+)\)\)', r'.and_then(|l: usize| -> (q: Option<usize>) ensures q == (if l >= \1 { Some((l - \1) as usize) } else { None::<usize> }) { l.checked_sub(\1) })',
                    'closure |l| l.checked_sub(N) annotated with its result (no code change)'),
               ]),
        ]),
    ]
    return Unit('msgbody', items, preludes=['base.rs', 'stdmodel.rs', 'transport.rs'], generic_tags={'assert': ['C01']},
                notes='contract textually identical to the one unit `server` assumes (checked at build time)')
