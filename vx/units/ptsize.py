"""Unit `ptsize` (C18, the call sites): the passthrough functions through which a client request can change the size of a host file -
PassthroughFs::write, fallocate, setattr, open_inode (every re-open for I/O: OPEN, CREATE of an existing name, truncate by path) and
check_fd_flags - on top of the arithmetic gate `seal_size_check` (unit `seal`).

Host system calls are capability-guarded externals (module `sys`, below).  Each function is given the capability to perform a
size-changing host operation only as the property allows:  on a sealed export no ftruncate, no open with O_TRUNC, no fallocate outside
[0, size) or with a size-changing mode, and no write that ends beyond the current size or goes through a descriptor in append mode
(Linux: on an O_APPEND descriptor pwrite(2) appends whatever the offset, see pwrite(2) BUGS)."""
from vx.api import Unit, Fn, Copy, Raw, Group
from vx import flagsmodel

PT = 'src/passthrough/mod.rs'
PTS = 'src/passthrough/sync_io.rs'
UTIL = 'src/passthrough/util.rs'
CFG = 'src/passthrough/config.rs'
IMPL = 'impl<S: BitmapSlice + Send + Sync> PassthroughFs<S>'
FSIMPL = 'impl<S: BitmapSlice + Send + Sync> FileSystem for PassthroughFs<S>'
FSIMPL_G = IMPL

SYS = ('every: host system call -> capability-guarded model in module `sys` (same name, same arguments)')
# ManuallyDrop<T> is T whose destructor does not run (no effect on anything the contracts speak about): new(x) is x, *m is m
MD = [(r'\bManuallyDrop::new\(', 'md_new(', 'every: ManuallyDrop::new(x) -> x (identity model md_new)'),
      (r'&mut \*f\b', '&mut f', 'every: deref of ManuallyDrop<File> is the File'), (r'&\*f\b', '&f', 'every: deref of ManuallyDrop<File> is the File')]
LIBC_CALLS = r'\blibc::(ftruncate|fchmod|fchmodat|fchownat|futimens|utimensat|fcntl|fallocate64)\('

PRE = r'''
pub type Inode = u64;
pub type Handle = u64;
pub type RawFd = i32;
pub trait BitmapSlice {}
pub struct Context { pub uid: u32, pub gid: u32, pub pid: i32 }
// ---- host objects: a descriptor is known by its number; what the kernel keeps for it is uninterpreted
#[verifier::external_body] pub struct File { _p: u8 }
#[verifier::external_body] pub struct BorrowedFd<'a> { _p: PhantomData<&'a u8> }
pub trait AsRawFd {
    spec fn sfd(&self) -> i32;
    fn as_raw_fd(&self) -> (r: RawFd) ensures r == self.sfd();
}
impl AsRawFd for File {
    uninterp spec fn sfd(&self) -> i32;
    #[verifier::external_body] fn as_raw_fd(&self) -> (r: RawFd) { unimplemented!() }
}
impl<'a> AsRawFd for BorrowedFd<'a> {
    uninterp spec fn sfd(&self) -> i32;
    #[verifier::external_body] fn as_raw_fd(&self) -> (r: RawFd) { unimplemented!() }
}
pub fn md_new<T>(x: T) -> (r: T) ensures r == x { x }
impl File {
    #[verifier::external_body] pub fn from_raw_fd(fd: RawFd) -> (r: File) ensures r.sfd() == fd { unimplemented!() }
}
pub uninterp spec fn host_size(fd: i32) -> i64;            // st_size of the file behind the descriptor (fstat)
// the descriptors' O_APPEND status flags are STATE (fcntl(F_SETFL) changes them): a ghost token threaded through write / check_fd_flags (rule R23)
pub tracked struct HostSt { pub ghost append: Map<int, bool> }
impl HostSt { pub open spec fn app(&self, fd: i32) -> bool { self.append[fd as int] } }
// the capabilities: what a request may do to the host
pub uninterp spec fn host_write_ok(append: bool, size_now: u64, offset: u64, count: u64) -> bool;
pub uninterp spec fn host_falloc_ok(size_now: i64, mode: i32, offset: i64, length: i64) -> bool;   // fallocate(2) takes signed off_t values
pub uninterp spec fn host_truncate_ok() -> bool;
pub uninterp spec fn reopen_ok(mode: u32, flags: i32) -> bool;
pub mod sys {
    use super::*;
    #[verifier::external_body] pub fn ftruncate(fd: i32, length: i64) -> (r: i32)
        requires host_truncate_ok(), // [truncate]
    { unimplemented!() }
    #[verifier::external_body] pub fn fallocate64(fd: i32, mode: i32, offset: i64, len: i64) -> (r: i32)
        requires host_falloc_ok(host_size(fd), mode, offset, len), // [falloc]
    { unimplemented!() }
    // fcntl(fd, F_SETFL, flags): the status flags of the descriptor become `flags` (fcntl(2))
    // attribute changes that cannot change a size: no capability needed
    #[verifier::external_body] pub fn fchmod(fd: i32, mode: u32) -> (r: i32) { unimplemented!() }
    #[verifier::external_body] pub fn fchmodat(dirfd: i32, path: *const i8, mode: u32, flags: i32) -> (r: i32) { unimplemented!() }
    #[verifier::external_body] pub fn fchownat(dirfd: i32, path: *const i8, uid: u32, gid: u32, flags: i32) -> (r: i32) { unimplemented!() }
    #[verifier::external_body] pub fn futimens(fd: i32, times: *const libc::timespec) -> (r: i32) { unimplemented!() }
    #[verifier::external_body] pub fn utimensat(dirfd: i32, path: *const i8, times: *const libc::timespec, flags: i32) -> (r: i32) { unimplemented!() }
    #[verifier::external_body] pub fn fcntl(fd: i32, cmd: i32, arg: u32, Tracked(hs): Tracked<&mut HostSt>) -> (r: i32)
        ensures cmd == 4 && r == 0 ==> final(hs).append == old(hs).append.insert(fd as int, arg & 0o2000u32 != 0),
                !(cmd == 4 && r == 0) ==> final(hs).append == old(hs).append,
    { unimplemented!() }
}
// stat_fd(fd, None) = fstat of the descriptor itself
#[verifier::external_body]
pub fn stat_fd<D: AsRawFd>(dir: &D, path: Option<&CStr>) -> (r: io::Result<stat64>)
    ensures r is Ok && path is None ==> r->Ok_0.st_size == host_size(dir.sfd()) && r->Ok_0.st_size >= 0     // fstat(2) reports no negative sizes
{ unimplemented!() }
impl io::Error { #[verifier::external_body] pub fn last_os_error() -> (r: io::Error) { unimplemented!() } }
// ---- HandleData: an open descriptor and the flags word last applied to it
#[verifier::external_body] pub struct HandleData { _p: u8 }
impl HandleData {
    pub uninterp spec fn hfd(&self) -> i32;
    #[verifier::external_body] pub fn borrow_fd(&self) -> (r: BorrowedFd<'_>) ensures r.sfd() == self.hfd() { unimplemented!() }
    // invariant of HandleData (established by do_open/create and kept by check_fd_flags): the descriptor is in append mode only if the recorded flags say so
    // (the recorded word is the client's; get_writeback_open_flags may have CLEARED O_APPEND on the descriptor, never set it)
    #[verifier::external_body] pub fn get_flags(&self, Tracked(hs): Tracked<&mut HostSt>) -> (r: u32) ensures final(hs).append == old(hs).append, old(hs).app(self.hfd()) ==> r & 0o2000u32 != 0 { unimplemented!() }
    #[verifier::external_body] pub fn set_flags(&self, flags: u32) { unimplemented!() }
}
#[verifier::external_body] pub struct CapFsetid { _p: u8 }
#[verifier::external_body] pub fn drop_cap_fsetid() -> (r: io::Result<Option<CapFsetid>>) { unimplemented!() }
// ---- the data streams of WRITE: read_to() takes the request payload and pwrite()s it to the file at `off`
pub trait ZeroCopyReader {
    fn read_to(&mut self, f: &mut File, count: usize, off: u64, Tracked(hs): Tracked<&mut HostSt>) -> (r: io::Result<usize>)
        requires host_write_ok(old(hs).app(old(f).sfd()), host_size(old(f).sfd()) as u64, off, count as u64), // [hostwrite] judged with the descriptor's mode AT THE TIME of the write
    ;
}
pub struct InodeData { pub inode: Inode, pub mode: u32 }
#[verifier::external_body] pub struct InodeFile<'a> { _p: PhantomData<&'a u8> }
impl<'a> AsRawFd for InodeFile<'a> {
    uninterp spec fn sfd(&self) -> i32;
    #[verifier::external_body] fn as_raw_fd(&self) -> (r: RawFd) { unimplemented!() }
}
impl InodeData { #[verifier::external_body] pub fn get_file(&self) -> (r: io::Result<InodeFile<'_>>) { unimplemented!() } }
#[verifier::external_body] pub struct HandleMap { _p: u8 }
impl HandleMap { #[verifier::external_body] pub fn get(&self, handle: Handle, inode: Inode) -> (r: io::Result<Arc<HandleData>>) { unimplemented!() } }
#[verifier::external_body] pub struct CString { _p: u8 }
#[verifier::external_body] #[derive(Debug)] pub struct NulError { _p: u8 }
impl CString {
    #[verifier::external_body] pub fn new(s: String) -> (r: core::result::Result<CString, NulError>) { unimplemented!() }
    #[verifier::external_body] pub fn as_ptr(&self) -> (r: *const i8) { unimplemented!() }
}
pub assume_specification<T>[ <[T]>::as_ptr ](s: &[T]) -> (r: *const T);
impl CStr { #[verifier::external_body] pub fn as_ptr(&self) -> (r: *const i8) { unimplemented!() } }
impl io::Error { #[verifier::external_body] pub fn new_nul(kind: io::ErrorKind, e: NulError) -> (r: io::Error) { unimplemented!() } }
#[verifier::external_body] pub struct InodeMap { _p: u8 }
impl InodeMap { #[verifier::external_body] pub fn get(&self, inode: Inode) -> (r: io::Result<Arc<InodeData>>) { unimplemented!() } }
impl InodeData {
    #[verifier::external_body]
    pub fn open_file(&self, flags: i32, proc_self_fd: &File) -> (r: io::Result<File>)
        requires reopen_ok(self.mode, flags), // [reopen]
    { unimplemented!() }
}
pub struct PassthroughFs<S> { pub cfg: Config, pub seal_size: AtomicBool, pub writeback: AtomicBool, pub killpriv_v2: AtomicBool, pub no_open: AtomicBool,
    pub proc_self_fd: File, pub inode_map: InodeMap, pub handle_map: HandleMap, pub phantom: PhantomData<S> }
impl<S: BitmapSlice + Send + Sync> PassthroughFs<S> {
    pub open spec fn sealed(&self) -> bool { self.seal_size.cur() }
    #[verifier::external_body] fn do_getattr(&self, inode: Inode, handle: Option<Handle>) -> (r: io::Result<(stat64, Duration)>) { unimplemented!() }
    #[verifier::external_body] fn get_data(&self, handle: Handle, inode: Inode, flags: i32) -> (r: io::Result<Arc<HandleData>>) { unimplemented!() }
    // the arithmetic gate: contract proved on the real text in unit `seal` ([C18.gate.*])
    #[verifier::external_body]
    fn seal_size_check(&self, opcode: Opcode, file_size: u64, offset: u64, size: u64, mode: i32) -> (r: io::Result<()>)
        ensures r is Ok ==> (opcode is Write || opcode is Fallocate) && offset as int + size as int <= file_size as int,
                r is Ok && opcode is Fallocate ==> seal_keeps_size(mode),
                (opcode is Write || (opcode is Fallocate && seal_keeps_size(mode))) && offset as int + size as int <= file_size as int ==> r is Ok,
    { unimplemented!() }
}
#[verifier::external_body] pub fn fmt_opaque() -> String { unimplemented!() }
pub open spec fn hasf(w: u32, f: u32) -> bool { w & f == f }
#[verifier::external_body] pub fn empty_cstr() -> (r: &'static CStr) { unimplemented!() }
pub open spec fn seal_keeps_size(mode: i32) -> bool {
    let op = mode & !(1i32 | 64i32);     // FALLOC_FL_KEEP_SIZE | FALLOC_FL_UNSHARE_RANGE, from fallocate(2)
    op == 0 || op == 2 || op == 16       // allocate, FALLOC_FL_PUNCH_HOLE, FALLOC_FL_ZERO_RANGE
}
// ---- C18 as capabilities: what a request on an export with the given seal switch may do
pub open spec fn c18_write(sealed: bool, append: bool, size_now: u64, offset: u64, count: u64) -> bool {
    !sealed || count == 0 || (!append && offset as int + count as int <= size_now as int)
}
pub open spec fn c18_falloc(sealed: bool, size_now: i64, mode: i32, offset: i64, length: i64) -> bool {
    !sealed || (seal_keeps_size(mode) && 0 <= offset && 0 <= length && offset + length <= size_now)
}
'''


TOK = dict(param='Tracked(hs): Tracked<&mut HostSt>', arg='Tracked(hs)')


def tokfn(fn, callees=(), path_callees=()):
    """R23: thread the ghost host-state token through fn and the listed callees"""
    fn.rules = tuple(getattr(fn, 'rules', ()) or ()) + ('R23',)
    fn.ghost_token = dict(TOK, callees=list(callees), path_callees=list(path_callees))
    return fn


def unit(root='/repo'):
    W_REQ = ['forall|a: bool, s: u64, o: u64, c: u64| #[trigger] host_write_ok(a, s, o, c) <==> c18_write(self.sealed(), a, s, o, c) // [C18.write.cap] on a sealed export only writes that end within the current size, never through an append-mode descriptor']
    items = [
        Copy('src/abi/fuse_abi_linux.rs', r'pub enum Opcode\b', prefix='#[repr(u32)]\n#[derive(Clone, Copy)]'),
        Copy('src/abi/fuse_abi_linux.rs', r'const WRITE_KILL_PRIV\b', make_pub=True),
        Copy(CFG, r'pub enum CachePolicy\b', prefix='#[derive(Clone, Copy, PartialEq, Eq)]'),
        Copy(CFG, r'pub struct Config\b'),
        Raw(PRE),
    ] + flagsmodel.items(root, 'src/abi/fuse_abi_linux.rs', 'SetattrValid') + [
        Group(IMPL + ' {', [
            Fn(PT, IMPL, 'get_writeback_open_flags', props=['C18'],
               ensures=['r & 0o1000i32 == flags & 0o1000i32 // [C18.open.wbflags] O_TRUNC is neither added nor hidden by the writeback adjustment'],
               splices=[('^', 'after', '''proof {
            assert(forall|f: i32| #![auto] ((f & !3i32) | 2i32) & 0o1000i32 == f & 0o1000i32) by (bit_vector);
            assert(forall|f: i32| #![auto] (f & !0o2000i32) & 0o1000i32 == f & 0o1000i32) by (bit_vector);
        }''')]),
            tokfn(Fn(PTS, IMPL, 'check_fd_flags', props=['C18'], ret_name='res',
               body_resub=[(LIBC_CALLS, r'sys::\1(', SYS)],
               # after a successful check the descriptor is in append mode only if THIS request's flags say so
               ensures=['res is Ok && fd == data.hfd() ==> (final(hs).app(fd) ==> flags & 0o2000u32 != 0) // [C18.fdflags.append] afterwards the descriptor is in append mode only if THIS request\'s flags say so',
                        'forall|k: int| k != fd as int ==> final(hs).append[k] == #[trigger] old(hs).append[k]']), callees=['get_flags'], path_callees=['fcntl']),
            tokfn(Fn(PTS, FSIMPL, 'write', props=['C18'], ret_name='res', canary=True,
               sig_subst=[('fn write(', 'fn write<R: ZeroCopyReader>('), ('r: &mut dyn ZeroCopyReader', 'r: &mut R')],
               body_resub=MD,
               requires=W_REQ), callees=['check_fd_flags', 'read_to', 'get_flags']),
            Fn(PTS, FSIMPL, 'fallocate', props=['C18'], ret_name='res', canary=True,
               body_resub=[(LIBC_CALLS, r'sys::\1(', SYS)],
               requires=['forall|s: i64, m: i32, o: i64, l: i64| #[trigger] host_falloc_ok(s, m, o, l) <==> c18_falloc(self.sealed(), s, m, o, l) // [C18.fallocate.cap] on a sealed export only size-keeping modes within the current size']),
            Fn(PTS, IMPL, 'open_inode', props=['C18'], ret_name='res', canary=True,
               # every re-open for I/O (OPEN, CREATE of an existing name, setattr by path, no_open mode): never with O_TRUNC on a sealed export
               requires=['forall|m: u32, f: i32| #[trigger] reopen_ok(m, f) <==> (self.sealed() ==> f & 0o1000i32 == 0) // [C18.open.trunc] truncating opens are refused on a sealed export'],
               splices=[('^', 'after', 'proof { assert(forall|a: i32| #![auto] (a | 0o2000000i32) & 0o1000i32 == a & 0o1000i32) by (bit_vector); assert(forall|a: i32| #![auto] (a & !0o40000i32) & 0o1000i32 == a & 0o1000i32) by (bit_vector); }')]),
        ]),
        Copy(PTS, r'enum Data\b'),        # R20: the local enum of setattr, hoisted to module level (deleted from the body below)
        Group(FSIMPL_G + ' {', [
            Fn(PTS, FSIMPL, 'setattr', props=['C18'], ret_name='res', canary=True,
               body_resub=[(LIBC_CALLS, r'sys::\1(', SYS),
                           (r'enum Data \{[^}]*\}', '', 'R20 local item hoisted to module level (Copy item `enum Data`)'),
                           (r'\.map_err\(\|e\| io::Error::new\(io::ErrorKind::InvalidData, e\)\)', '.map_err(|e: NulError| -> (r: io::Error) { io::Error::new_nul(io::ErrorKind::InvalidData, e) })', 'every: io::Error::new over a NulError (opaque error value)'),
                           (r'unsafe \{ CStr::from_bytes_with_nul_unchecked\(EMPTY_CSTR\) \}', 'empty_cstr()', 'the constant empty C string')],
               sig_subst=[('attr: libc::stat64', 'attr: stat64'), ('io::Result<(libc::stat64, Duration)>', 'io::Result<(stat64, Duration)>')],
               # "size-changing setattr": on a sealed export no truncate reaches the host
               requires=['host_truncate_ok() <==> !self.sealed() // [C18.setattr.cap]',
                         'forall|m: u32, f: i32| #[trigger] reopen_ok(m, f) <==> (self.sealed() ==> f & 0o1000i32 == 0)'],
               ensures=['self.sealed() && hasf(valid.bits, 8u32) ==> res is Err // [C18.setattr.refused] a setattr carrying FATTR_SIZE (1<<3) is refused on a sealed export']),
        ]),
        Fn(UTIL, None, 'is_safe_inode', props=['C18']),
        Fn(UTIL, None, 'ebadf', props=['C18']),
        Fn(UTIL, None, 'eperm', props=['C18']),
    ]
    return Unit('ptsize', items, preludes=['base.rs', 'stdmodel.rs'],
                generic_tags={'hostwrite': ['C18'], 'truncate': ['C18'], 'falloc': ['C18'], 'reopen': ['C18'], 'store': ['C18']})
