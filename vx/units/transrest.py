"""Unit `transrest` (C04, C17, C20; features async-io + fusedev + virtiofs): the transport functions no other unit had under contract.

PART 1 - src/transport/mod.rs, src/transport/virtiofs/mod.rs, src/transport/fusedev/mod.rs
  * IoBuffers::prepare_io_buf (unsafe fn; extracted, `unsafe` marker dropped by a logged SIG rule) - builds the `Vec<FileVolatileBuf>` an
    async file WRITE reads from: [C04.prepare_io_buf.prefix] the VALID bytes of the buffers are exactly the next min(count, remaining)
    request addresses in order, [C04.prepare_io_buf.no_spare_room] no buffer has room behind its valid bytes (a file operation gets no
    window it could write request memory through), [C04.prepare_io_buf.in_bounds] every raw window lies inside its VolatileSlice
    (precondition of the model call that abstracts `FileVolatileBuf::from_raw_ptr(X.ptr_guard_mut().as_ptr(), SIZE, CAP)`, PROVED).
  * Reader::async_read_to_at (R18) against the clauses of its sync twin read_to_at (units virtiofsw / iobuffers: err_nothing_moves,
    advance, unmarked) plus what the sync twin gets from IoBuffers::consume and the async one must do by itself (it calls mark_used
    directly): [.offered] the ONE file call gets exactly the prepared prefix and the caller's offset (capability on the file model),
    [.reported] the cursor advances by exactly what THAT call reported, [.nothing_wanted] count == 0: Ok(0), nothing moves.
  * VirtioFsWriter::async_write_all (R18) against the contract of the sync write_all (hand copy of std, proved in unit readerrd: assumed
    here with the same clause text); `impl io::Write for VirtioFsWriter`::flush (no effect).
  * `impl Default` for IoBuffers / Reader (an empty cursor: nothing to read, nothing consumed).
  * FuseSessionExt::with_writer / try_with_writer (provided trait methods, emitted as free generic functions over the trait - a trait
    cannot hold the `__canary` copies): the callback is called exactly when the session has a file, with ONE fresh unbuffered writer on
    that file's descriptor whose space is a fresh buffer of exactly bufsize() bytes; its result is handed on unchanged; without a file
    try_with_writer fails with SessionFailure and the callback is not called.  FuseDevWriter::new is verified once more here on its real
    text (same clause as unit fusedevw) because part 2 needs it in this unit's vocabulary.

PART 2 - src/transport/fusedev/linux_session.rs FuseChannel::get_request: see the section `CHANNEL` below.

Not under contract (reasons in the report): `impl fmt::Display for Error`::fmt (formatting only), `pagesize()` (lazy_static over sysconf)."""
import os
import re

from vx.api import Unit, Fn, Copy, Raw, Group
from vx import extract as X
from vx.units import iobuffers as IO
from vx.units import virtiofsw as VW
from vx.units import virtiofsw_async as VA
from vx.units import readerrd as RD
from vx.units import fusedevw as FW
from vx import ovlrules as OR
from vx import ptcorerules as PR

T = 'src/transport/mod.rs'
V = 'src/transport/virtiofs/mod.rs'
F = 'src/transport/fusedev/mod.rs'
L = 'src/transport/fusedev/linux_session.rs'
SRV = 'src/api/server/sync_io.rs'

OLDW, NO_OVF, STAYS, UNMARKED, advance = VW.OLDW, VW.NO_OVF, VW.STAYS, VW.UNMARKED, VW.advance

# ---------------------------------------------------------------------------------------------------------------------------------
# PART 1 models.  FileVolatileBuf / bcells / vx_buf_of_slice are the text of unit virtiofsw_async (tag of the in-bounds precondition renamed);
# added here: `bvalid` (the bytes a buffer list offers to a file WRITE: [addr, addr + size) of every buffer) and the write side of the file trait.
ASYNC_MODEL = (VA.ASYNC_MODEL
               .replace('[C04.prepare_mut_io_buf.in_bounds]', '[C04.prepare_io_buf.in_bounds]')
               .replace('pub trait AsyncFileReadWriteVolatile {', r'''// the addresses a list of buffers offers to a file WRITE (their valid bytes), in order
pub open spec fn bvalid(b: Seq<FileVolatileBuf>) -> Seq<int> decreases b.len() {
    if b.len() == 0 { Seq::<int>::empty() } else { range(b[0].addr(), b[0].size()) + bvalid(b.skip(1)) }
}
pub broadcast proof fn lemma_bvalid_push(b: Seq<FileVolatileBuf>, v: FileVolatileBuf)
    ensures #[trigger] bvalid(b.push(v)) =~= bvalid(b) + range(v.addr(), v.size())
    decreases b.len()
{
    if b.len() == 0 { assert(b.push(v).skip(1) =~= Seq::<FileVolatileBuf>::empty()); reveal_with_fuel(bvalid, 2); }
    else { assert(b.push(v).skip(1) =~= b.skip(1).push(v)); lemma_bvalid_push(b.skip(1), v); }
}
// capability / result of THE file write a transfer may make: which addresses it may be handed, at which file offset (DESIGN A.3)
pub uninterp spec fn file_write_ok<F>(f: &F, cells: Seq<int>, off: u64) -> bool;
pub uninterp spec fn file_write_res<F>(f: &F, cells: Seq<int>, off: u64) -> Option<usize>;      // Some(n): the call reports Ok(n); None: it fails
pub trait AsyncFileReadWriteVolatile: Sized {
    // ASSUMED (trait-level contract of unit filebuf): Ok(n) => n <= the valid bytes offered; the buffers are only read
    fn async_write_vectored_at_volatile(&self, bufs: Vec<FileVolatileBuf>, offset: u64) -> (r: (io::Result<usize>, Vec<FileVolatileBuf>))
        requires file_write_ok(self, bvalid(bufs@), offset), // [C04.async_read_to_at.offered]
        ensures r.0 is Ok ==> r.0->Ok_0 <= bvalid(bufs@).len(),
                r.0 is Ok <==> file_write_res(self, bvalid(bufs@), offset) is Some,
                r.0 is Ok ==> file_write_res(self, bvalid(bufs@), offset) == Some(r.0->Ok_0);'''))
assert 'bvalid' in ASYNC_MODEL and '[C04.prepare_io_buf.in_bounds]' in ASYNC_MODEL

WANT = 'minn(count as int, %s.len() as int)' % OLDW          # what a transfer of `count` bytes may touch: the next min(count, remaining) addresses


def part1(P):
    SIO = "impl<S: BitmapSlice> IoBuffers<'_, S>"
    SRA = "impl<'a, S: BitmapSlice> Reader<'a, S>"
    SW = "impl<'a, S: BitmapSlice> VirtioFsWriter<'a, S>"
    SWIO = "impl<S: BitmapSlice> io::Write for VirtioFsWriter<'_, S>"
    tok = P['tok']
    ROOM0 = 'forall|i: int| 0 <= i < %s.len() ==> #[trigger] %s[i].room() == 0'
    loop = IO._prefix_loop('bvalid(bufs@)', 'C04.prepare_io_buf.loop').replace(
        '            invariant\n', '            invariant\n                %s, // [C04.prepare_io_buf.loop.no_spare_room]\n' % (ROOM0 % ('bufs@', 'bufs@')), 1)
    assert 'no_spare_room' in loop
    loop = loop.replace('            invariant\n', '            invariant\n                count == 0 ==> bufs@.len() == 0, // [C04.prepare_io_buf.loop.nothing_wanted]\n', 1) + ' let ghost b0 = bufs@;'
    prep = Fn(T, SIO, 'prepare_io_buf', props=['C04'], canary=True,
              sig_subst=[('unsafe fn', 'fn')],          # `unsafe` marker of the declaration dropped: its only unsafe operation is the abstracted from_raw_ptr
              ensures=['bvalid(r@) =~= cells(self.buffers@).subrange(0, minn(count as int, cells(self.buffers@).len() as int)) // [C04.prepare_io_buf.prefix]',
                       (ROOM0 % ('r@', 'r@')) + ' // [C04.prepare_io_buf.no_spare_room]',
                       'count == 0 ==> r@.len() == 0 // [C04.prepare_io_buf.nothing_wanted]'],
              body_resub=[(r'FileVolatileBuf::from_raw_ptr\((?:\s*//[^\n]*\n)*\s*(\w+)\.ptr_guard_mut\(\)\.as_ptr\(\),\s*((?:[^,()]|\([^()]*\))+?),\s*((?:[^,()]|\([^()]*\))+?),?\s*\)(?=\s*\))',
                           r'vx_buf_of_slice(&\1, \2, \3)', 'raw window over a VolatileSlice -> model call (same address, inside the slice)')],
              # anchor-free hints: everything at function entry, the push step through a broadcast lemma
              splices=[('^', 'after', 'broadcast use lemma_bvalid_push; let ghost all = cells(self.buffers@); proof { assert(self.buffers@.take(0) =~= Seq::empty()); assert(self.buffers@.take(self.buffers@.len() as int) =~= self.buffers@); }'),
                       ('for buf in self.buffers.iter() {', 'replace', loop)])
    prep.rules = ('R21',)
    # the push step of the loop: ghost text in front of the loop's closing brace (R8 at loop end, vx/ovlrules.py) - no anchor on a statement of the body
    prep.body_hooks = [OR.r8_at_loop_end(r'\bfor\s+\w+\s+in\s+self\s*\.\s*buffers\s*\.\s*iter\s*\(\s*\)\s*\{',
                                         'proof { if bufs@.len() == b0.len() + 1 { lemma_bvalid_push(b0, bufs@[b0.len() as int]); assert(bufs@ =~= b0.push(bufs@[b0.len() as int])); } }')]
    UNSAFE_CALL = (r'unsafe\s*\{(?:\s*//[^\n]*\n)*\s*(self\.buffers\.prepare_io_buf\([^(){};]*\))\s*\}', r'\1',
                   'unsafe block around the call of the (extracted) unsafe fn prepare_io_buf: marker dropped')
    FRES = 'file_write_res(dst, %s.subrange(0, %s), off)' % (OLDW, WANT)
    arta = tok(Fn(T, SRA, 'async_read_to_at', props=['C04'], canary=True, extra_props=['C20'],
                  requires=['file_write_ok(dst, %s.subrange(0, %s), off) // [C04.async_read_to_at.offered]' % (OLDW, WANT)],
                  ensures=[
                      # the clauses of the sync twin (virtiofsw.rd_contract('read_to_at')), same text with the async tag
                      'r is Err ==> %s // [C04.async_read_to_at.err_nothing_moves] [C20.async_read_to_at.as_sync]' % STAYS,
                      'r is Ok ==> r->Ok_0 <= count && r->Ok_0 <= %s.len() && %s // [C04.async_read_to_at.advance] [C20.async_read_to_at.as_sync]' % (OLDW, advance('r->Ok_0')),
                      '%s // [C17.async_read_to_at.unmarked]' % UNMARKED,
                      # what IoBuffers::consume gives the sync twin: the result is the file's own report for exactly the offered prefix
                      '%s > 0 && %s ==> (r is Ok <==> %s is Some) && (r is Ok ==> %s == Some(r->Ok_0)) // [C04.async_read_to_at.reported]' % (WANT, NO_OVF, FRES, FRES),
                      'count == 0 ==> r is Ok && r->Ok_0 == 0 && %s // [C04.async_read_to_at.nothing_wanted]' % STAYS],
                  body_resub=[UNSAFE_CALL],
                  splices=[('^', 'after', 'let ghost all = cells(self.buffers.buffers@); proof { assert(all.skip(0) =~= all); assert(all.subrange(0, 0) =~= Seq::<int>::empty()); reveal_with_fuel(bvalid, 1); }')]),
               [])
    arta.rules = ('R18', 'R23')
    # write_all: hand copy of std's default method, VERIFIED in unit readerrd; here signature + the same clauses (assumed)
    WRITE_ALL = '''
    #[verifier::external_body]
    fn write_all(&mut self, data: &[u8], Tracked(dm): Tracked<&mut DirtyLog>) -> (r: io::Result<()>)
        ensures
            %s
    { unimplemented!() }
''' % RD._clauses(RD.moved_contract('vwrite_all', 'data@.len()'))
    awa = tok(Fn(V, SW, 'async_write_all', props=['C17'], canary=True, extra_props=['C20'],
                 ensures=[c.replace('] ', '] ', 1) for c in RD.moved_contract('async_write_all', 'buf@.len()')]),
              ['write_all'])
    awa.rules = ('R18', 'R23')
    flush = Fn(V, SWIO, 'flush', ensures=['r is Ok && %s // [C04.vflush.noop]' % STAYS], props=['C04'], canary=True)
    EMPTY = 'r.%sbuffers@.len() == 0 && cells(r.%sbuffers@) =~= Seq::<int>::empty() && r.%sbytes_consumed == 0'
    d_io = Fn(T, "impl<S: BitmapSlice> Default for IoBuffers<'_, S>", 'default', props=['C04'], canary=True,
              ensures=[(EMPTY % ('', '', '')) + ' // [C04.iobuffers.default.empty]'])
    d_rd = Fn(T, "impl<S: BitmapSlice> Default for Reader<'_, S>", 'default', props=['C04'], canary=True,
              ensures=[(EMPTY % ('buffers.', 'buffers.', 'buffers.')) + ' // [C04.reader.default.empty]'])
    mark_used = [f for f in IO.iobuffers_fns(external=True) if f.name == 'mark_used']
    io_group = [f for f in P['io_group'] if f.name != 'mark_used'] + mark_used + [prep, d_io]
    writer = [VW.as_external(f) for f in P['writer'] if f.name in ('available_bytes', 'bytes_written', 'check_available_space', 'write', 'commit')]
    return dict(io_group=io_group, reader=[arta, d_rd], writer=writer + [Raw(WRITE_ALL), awa, flush])



# =================================================================================================================================
# FuseDevWriter vocabulary (text shared with unit fusedevw: only the pieces that do not clash with the IoBuffers vocabulary above)
def _piece(text, start, end=None):
    i = text.index(start)
    j = text.index(end, i) if end else len(text)
    return text[i:j]


FDW_VOCAB = ('pub type RawFd = i32;\n'
             + _piece(FW.PRE_COMMON, '// Vec::capacity')
             + _piece(FW.MODEL, '// ---- Vec<u8> over borrowed memory', '// Vec::set_len')
             + _piece(FW.MODEL, '// ---- raw pointers into the reply buffer', '// ---- crate::file_buf::FileVolatileSlice'))
FDW_SPEC = _piece(FW.SPEC, "impl<'a, S: BitmapSlice> FuseDevWriter<'a, S> {", 'pub open spec fn other_bytes')

SESSION_MODEL = r"""
// `()` as BitmapSlice (vm-memory: `impl Bitmap for ()`, the no-op bitmap of the /dev/fuse transport)
impl BitmapSlice for () {
    open spec fn base(&self) -> int { 0 }
    #[verifier::external_body] fn mark_dirty(&self, offset: usize, len: usize, Tracked(dm): Tracked<&mut DirtyLog>) { unimplemented!() }
}
// std::fs::File as the descriptor it owns (`AsRawFd::as_raw_fd`)
#[verifier::external_body] pub struct File { _p: i32 }
impl File {
    pub uninterp spec fn fd(&self) -> RawFd;
    #[verifier::external_body] pub fn as_raw_fd(&self) -> (r: RawFd) ensures r == self.fd() { unimplemented!() }
}
// `vec![0x0u8; N]` (ABSTRACT, logged): a fresh allocation of N zero bytes; its capacity is at least N (std)
#[verifier::external_body] pub fn vx_zeroed_vec(n: usize) -> (r: Vec<u8>)
    ensures r@.len() == n, forall|i: int| 0 <= i < n ==> r@[i] == 0u8
{ unimplemented!() }
// `&mut V` of a Vec<u8> where a `&mut [u8]` is expected (deref coercion, ABSTRACT, logged): the slice of its `len` initialised bytes, at
// the address the allocation starts at; what is stored through the slice is what the Vec holds afterwards, nothing else of the Vec changes
#[verifier::external_body] pub fn vx_vec_as_mut_slice<'b>(v: &'b mut Vec<u8>) -> (r: &'b mut [u8])
    ensures r@ == old(v)@, slice_base(&*r) == vec_base(old(v)), final(v)@ == final(r)@, same_alloc(final(v), old(v)),
{ unimplemented!() }
// what a writer handed out by with_writer / try_with_writer / get_request looks like: unbuffered, empty, on descriptor `fd`, its space
// is `cap` bytes starting at `base`
pub open spec fn fresh_writer<'a>(w: &FuseDevWriter<'a, ()>, fd: RawFd, cap: nat) -> bool {
    w.fd == fd && !w.buffered && w.buf@.len() == 0 && w.cap() == cap
}
"""


def fdw_new():
    _, new = FW.split_new_fns()
    return new


def session_ext_items():
    """trait FuseSessionExt: the two required methods as declarations (what an implementor promises), the two provided ones extracted"""
    ST = 'pub trait FuseSessionExt'
    DECL = """    spec fn sfile(&self) -> Option<RawFd>;      // the descriptor of the session's /dev/fuse file, if it has one
    spec fn sbufsize(&self) -> nat;
    fn file(&self) -> (r: Option<&File>)
        ensures r is Some <==> self.sfile() is Some, r is Some ==> r->Some_0.fd() == self.sfile()->Some_0;
    fn bufsize(&self) -> (r: usize)
        ensures r == self.sbufsize();"""
    COMMON = [(r'vec!\[0x0u8;\s*([^\]]+)\]', r'vx_zeroed_vec(\1)', 'vec![0; n] -> model call (fresh allocation of n zero bytes)'),
              (r'FuseDevWriter::new\(([^,()]+),\s*&mut buf\)', r'FuseDevWriter::new(\1, vx_vec_as_mut_slice(&mut buf))', 'deref coercion &mut Vec<u8> -> &mut [u8] made explicit (model call)')]
    SIG = [('FnOnce(FuseDevWriter)', "FnOnce(FuseDevWriter<'_, ()>)")]
    CAN = "forall|w: FuseDevWriter<'_, ()>| #![trigger f.requires((w,))] fresh_writer(&w, old(self).sfile()->Some_0, old(self).sbufsize()) ==> f.requires((w,))"
    ww = Fn(F, ST, 'with_writer', props=['C04'], canary=True, sig_subst=SIG,
            requires=['old(self).sfile() is Some ==> %s' % CAN],
            ensures=["old(self).sfile() is Some ==> exists|w: FuseDevWriter<'_, ()>| fresh_writer(&w, old(self).sfile()->Some_0, old(self).sbufsize()) && #[trigger] f.ensures((w,), ()) // [C04.with_writer.one_fresh_writer_on_the_session_fd]"],
            body_resub=COMMON,
            # the callback's precondition as a tagged obligation of its own (Verus reports a failing `f.requires` of a closure call without a clause to attribute)
            splices=[('f(writer)', 'before', 'assert(f.requires((writer,))); // [C04.with_writer.fresh_writer_for_the_callback]')])
    tw = Fn(F, ST, 'try_with_writer', props=['C04'], canary=True, sig_subst=SIG,
            requires=['old(self).sfile() is Some ==> %s' % CAN],
            ensures=["old(self).sfile() is Some ==> exists|w: FuseDevWriter<'_, ()>| fresh_writer(&w, old(self).sfile()->Some_0, old(self).sbufsize()) && #[trigger] f.ensures((w,), r) // [C04.try_with_writer.result_of_one_fresh_writer]",
                     'old(self).sfile() is None ==> r is Err // [C04.try_with_writer.no_file_fails]'],
            body_resub=COMMON + [(r'Error::SessionFailure\("invalid fuse session"\.into\(\)\)', 'Error::SessionFailure(fmt_opaque())', 'the message string (&str -> String by Into) -> opaque String')],
            splices=[('f(writer)', 'before', 'assert(f.requires((writer,))); // [C04.try_with_writer.fresh_writer_for_the_callback]')])
    tw.body_hooks = [PR.r74_try_from(r'FuseDevWriter::new\(', 'E::from')]
    return [Group('pub trait FuseSessionExt {', [Raw(DECL), ww, tw])]



# =================================================================================================================================
# CHANNEL (part 2): FuseChannel::get_request - the one place where "one contiguous /dev/fuse buffer" becomes a Reader and a FuseDevWriter.
#
# Ghost state: `ChanLog.steps`, the sequence of everything the channel did with the outside world - every epoll wait (`Poll::poll`) with
# the events it delivered or the kind of its error, every read(2) on a descriptor with the bytes it delivered or its errno - threaded as an
# erased `Tracked<&mut ChanLog>` (R23) to `.poll(..)` and `read(..)`.  The contract reads the call's own steps `new = steps[l0..]`:
#   [C04.get_request.retries]    every step but the last is one the code documents as "try again": an interrupted wait, a wait that
#                                delivered neither the exit event nor an unknown token, a read that failed with ENOENT / EAGAIN / EINTR;
#                                a successful read is ALWAYS the last step (no request is read and dropped);
#   [C04.get_request.reads]      a read is made only on the channel's own descriptor, directly after a wait that delivered the device
#                                event and NOT the exit event ("handle wake up event first");
#   [C04.get_request.request] / [.exit] / [.error]   Ok(Some) iff the last step is a successful read; Ok(None) iff it is a wait that
#                                delivered the exit event (and no unknown token) or a read failing with ENODEV; Err (SessionFailure) iff it
#                                is a failed wait other than Interrupted, a wait that delivered an unknown token, or another errno;
#   [C04.get_request.reader.exact]   the Reader covers exactly the `len` bytes read(2) returned: the first `len` addresses of the channel's
#                                buffer, in order, nothing consumed; [.reader.holds_request] those addresses hold the delivered bytes;
#   [C04.get_request.writer.space]   the writer is unbuffered, empty, on the channel's descriptor, its space is the channel's buffer
#                                [base, base + buf.len()) and nothing else;
#   [C04.get_request.alias.reader_inside_writer_space]   THE HACK, explicit: the Reader's addresses are the first `len` addresses of the
#                                writer's space.  `lemma_alias_rule` (checked) states what a caller must respect - see ALIAS below.
# Raw operations, each abstracted by a model call whose in-bounds precondition is PROVED: `from_raw_parts_mut(self.buf.as_mut_ptr(),
# self.buf.len())` (len <= capacity), `&mut self.buf[..len]` (len <= buf.len()).  `panic!("unknown epoll result events")` becomes a call
# that requires `false` ([C04.get_request.no_panic]): unreachable under the ASSUMED epoll model (only EPOLLIN is registered for both
# descriptors, so every delivered event is readable or an error).
CHAN_MODEL = r"""
use std::sync::Arc;
pub use Error::SessionFailure;
// ASSUMED (as unit zcstreams; Rust: `#[derive(PartialEq)]` on a field-less enum compares the variants): the exec `==` on ErrorKind is equality.
// Needed for what the match guard `e.kind() == ErrorKind::Interrupted` provides in its arm and refutes in the arm below it.
impl vstd::std_specs::cmp::PartialEqSpecImpl for io::ErrorKind {
    open spec fn obeys_eq_spec() -> bool { true }
    open spec fn eq_spec(&self, other: &io::ErrorKind) -> bool { *self == *other }
}
// ---- nix::errno::Errno: the values get_request distinguishes and some others
#[derive(Clone, Copy, PartialEq, Eq, Debug, Structural)] pub enum Errno { ENOENT, EAGAIN, EINTR, ENODEV, EIO, EINVAL, EPERM, EBADF, ENOMEM, UnknownErrno }
// ---- mio 0.8 (ASSUMED; out of scope except for what get_request needs): a token is a number, an event carries a token and readiness flags
#[derive(Clone, Copy, PartialEq, Eq, Debug, Structural)] pub struct Token(pub usize);
#[derive(Clone, Copy)] pub struct Event { pub tok: Token, pub readable: bool, pub error: bool }
impl Event {
    pub fn is_readable(&self) -> (r: bool) ensures r == self.readable { self.readable }
    pub fn is_error(&self) -> (r: bool) ensures r == self.error { self.error }
    pub fn token(&self) -> (r: Token) ensures r == self.tok { self.tok }
}
pub struct Events { pub v: Vec<Event> }
impl Events {
    #[verifier::external_body] pub fn with_capacity(n: usize) -> (r: Events) ensures r.v@.len() == 0 { unimplemented!() }
    // `Events::iter()`: the delivered events in order - written `events.v.iter()` in the loop header annotation (R8 replaces the header anyway)
}
pub struct Duration { pub s: u64 }
#[verifier::external_body] pub struct Waker { _p: u8 }
pub ghost enum Step {
    PollOk { events: Seq<Event> },
    PollErr { kind: io::ErrorKind },
    ReadOk { fd: RawFd, bytes: Seq<u8> },
    ReadErr { fd: RawFd, errno: Errno },
}
pub tracked struct ChanLog { pub ghost steps: Seq<Step> }
#[verifier::external_body] pub struct Poll { _p: u8 }
impl Poll {
    // epoll_wait: Ok => `events` holds what was delivered.  ASSUMED (registration made by FuseChannel::new: EPOLLIN only, level triggered,
    // for the waker and the device descriptor): every delivered event is readable or an error
    #[verifier::external_body]
    pub fn poll(&mut self, events: &mut Events, timeout: Option<Duration>, Tracked(ch): Tracked<&mut ChanLog>) -> (r: io::Result<()>)
        ensures r is Ok ==> final(ch).steps == old(ch).steps.push(Step::PollOk { events: final(events).v@ })
                    && (forall|i: int| 0 <= i < final(events).v@.len() ==> (#[trigger] final(events).v@[i]).readable || final(events).v@[i].error),
                r is Err ==> final(ch).steps == old(ch).steps.push(Step::PollErr { kind: r->Err_0.skind() }),
    { unimplemented!() }
}
// nix::unistd::read on the /dev/fuse descriptor; `buf` is the channel's Vec (deref coercion `&mut Vec<u8>` -> `&mut [u8]`, SIG abstraction):
// length, capacity and address stay, Ok(n) => n <= len and the first n bytes are the request the kernel delivered (logged)
#[verifier::external_body]
pub fn read(fd: RawFd, buf: &mut Vec<u8>, Tracked(ch): Tracked<&mut ChanLog>) -> (r: core::result::Result<usize, Errno>)
    ensures final(buf)@.len() == old(buf)@.len(), same_alloc(final(buf), old(buf)),
            r is Ok ==> r->Ok_0 <= old(buf)@.len() && final(ch).steps == old(ch).steps.push(Step::ReadOk { fd: fd, bytes: final(buf)@.take(r->Ok_0 as int) }),
            r is Err ==> final(ch).steps == old(ch).steps.push(Step::ReadErr { fd: fd, errno: r->Err_0 }),
{ unimplemented!() }
// `std::slice::from_raw_parts_mut(PTR, N)` (ABSTRACT, logged): N bytes at PTR as a mutable slice of unbounded lifetime.  In bounds iff N
// bytes lie between PTR and the end of its allocation - PROVED at the call.  NOT expressed: that nothing else refers to this memory (it
// does - this is the hack; see ALIAS)
#[verifier::external_body] pub fn vx_raw_parts_mut<'b>(p: BufPtr, n: usize) -> (r: &'b mut [u8])
    requires n <= p.room(), // [C04.get_request.writer.in_bounds]
    ensures r@.len() == n, slice_base(&*r) == p.addr(),
{ unimplemented!() }
// `&mut V[..N]` (ABSTRACT, logged): the first N bytes of the Vec as a mutable slice; N <= len or the index panics - PROVED at the call
#[verifier::external_body] pub fn vx_vec_prefix_mut<'b>(v: &'b mut Vec<u8>, n: usize) -> (r: &'b mut [u8])
    requires n <= old(v)@.len(), // [C04.get_request.reader.in_bounds]
    ensures r@ == old(v)@.take(n as int), slice_base(&*r) == vec_base(old(v)),
            final(v)@ == final(r)@ + old(v)@.skip(n as int), same_alloc(final(v), old(v)),
{ unimplemented!() }
// `VolatileSlice::with_bitmap(PTR, LEN, S::default(), None)` (ABSTRACT, logged; as unit iobuffers): the slice at that address with that
// length; LEN bytes must lie behind PTR in its allocation - PROVED at the call
#[verifier::external_body] pub fn vx_with_bitmap<'a, S>(p: BufPtr, len: usize) -> (r: VolatileSlice<'a, S>)
    requires len <= p.room(), // [C04.reader.new.in_bounds]
    ensures r.addr() == p.addr(), r.slen() == len
{ unimplemented!() }
// `panic!(..)`: reaching it is a failed obligation
#[verifier::external_body] pub fn vx_panic()
    requires false, // [C04.get_request.no_panic]
{ unimplemented!() }

// ---- specification vocabulary of get_request
pub open spec fn tok_known(t: Token) -> bool { t == EXIT_FUSE_EVENT || t == FUSE_DEV_EVENT }
pub open spec fn has_tok(e: Seq<Event>, t: Token, n: int) -> bool { exists|j: int| 0 <= j < n && j < e.len() && (#[trigger] e[j]).tok == t }
pub open spec fn all_known(e: Seq<Event>, n: int) -> bool { forall|j: int| 0 <= j < n && j < e.len() ==> tok_known((#[trigger] e[j]).tok) }
pub open spec fn has_exit(e: Seq<Event>) -> bool { has_tok(e, EXIT_FUSE_EVENT, e.len() as int) }
pub open spec fn has_dev(e: Seq<Event>) -> bool { has_tok(e, FUSE_DEV_EVENT, e.len() as int) }
// a wait after which the code goes on to read the device: the device event, not the exit event, no unknown token
pub open spec fn wants_read(s: Step) -> bool { s is PollOk && all_known(s->PollOk_events, s->PollOk_events.len() as int) && !has_exit(s->PollOk_events) && has_dev(s->PollOk_events) }
pub open spec fn retry_errno(e: Errno) -> bool { e == Errno::ENOENT || e == Errno::EAGAIN || e == Errno::EINTR }
// "try again" steps
pub open spec fn retry_step(s: Step) -> bool {
    match s {
        Step::PollErr { kind } => kind == io::ErrorKind::Interrupted,
        Step::PollOk { events } => all_known(events, events.len() as int) && !has_exit(events),
        Step::ReadErr { fd, errno } => retry_errno(errno),
        Step::ReadOk { .. } => false,
    }
}
// every read of steps[from..] is made on `fd`, directly after a wait of the same call that wants it
pub open spec fn reads_ok(steps: Seq<Step>, from: int, fd: RawFd) -> bool {
    forall|i: int| from <= i < steps.len() && ((#[trigger] steps[i]) is ReadOk || steps[i] is ReadErr) ==>
        i > from && wants_read(steps[i - 1]) && (steps[i] is ReadOk ==> steps[i]->ReadOk_fd == fd) && (steps[i] is ReadErr ==> steps[i]->ReadErr_fd == fd)
}
pub open spec fn retries_ok(steps: Seq<Step>, from: int, to: int) -> bool { forall|i: int| from <= i < to ==> retry_step(#[trigger] steps[i]) }

// ---- ALIAS: the assumption behind the hack, explicit.  get_request hands out a Reader over [base, base + len) and a writer whose space is
// [base, base + cap), len <= cap: the SAME memory.  The writer stores into that memory only through a BUFFERED write (after split_at:
// extend_from_slice at base + offset + bytes_written) or a file transfer (write_from / write_from_at: at base + bytes_written) - an
// unbuffered write / write_vectored hands the caller's bytes to the device and only moves the length.  C04's "the bytes obtained from readers
// are exactly the request bytes" therefore holds for a caller iff, for every store of the writer (or a writer split off it) into offsets
// [a, b) of its space and every LATER read of the Reader (which then has consumed c bytes and returns bytes from offsets [c, len)):
//        b <= c   (only bytes already consumed are overwritten)    or    a >= len   (the store lies behind the request)    or    c == len (nothing left to read).
// Since c only grows, it suffices that this holds with the c AT THE TIME OF THE STORE, or that the Reader is not used after the store.
pub open spec fn store_harmless(a: int, b: int, consumed: int, len: int) -> bool { b <= consumed || a >= len || a >= b || consumed >= len }
pub proof fn lemma_alias_rule(base: int, len: nat, consumed: nat, a: int, b: int)
    requires consumed <= len, 0 <= a, store_harmless(a, b, consumed as int, len as int)
    ensures
        // what the Reader can still deliver (its cells after `consumed` bytes) ...
        range(base, len).skip(consumed as int) =~= range(base + consumed, (len - consumed) as nat),
        // ... is disjoint from the addresses of the store
        forall|i: int| 0 <= i < len - consumed ==> !(base + a <= (#[trigger] range(base + consumed, (len - consumed) as nat)[i]) < base + b), // [C04.get_request.alias.rule]
{ }
// and the converse: a store that is not harmless changes a byte the Reader will still deliver
pub proof fn lemma_alias_rule_tight(base: int, len: nat, consumed: nat, a: int, b: int)
    requires consumed <= len, 0 <= a, !store_harmless(a, b, consumed as int, len as int)
    ensures exists|i: int| 0 <= i < len - consumed && base + a <= (#[trigger] range(base + consumed, (len - consumed) as nat)[i]) < base + b, // [C04.get_request.alias.rule_tight]
{
    let o = if a >= consumed { a } else { consumed as int };
    let r = range(base + consumed, (len - consumed) as nat);
    assert(r[o - consumed] == base + o);
}
"""


def channel_items(root):
    SCH = 'impl FuseChannel'
    SRD = "impl<'a, S: BitmapSlice + Default> Reader<'a, S>"
    NEW_STEPS = 'final(ch).steps'
    L0 = 'old(ch).steps.len() as int'
    LAST = '%s.last()' % NEW_STEPS
    BASE = 'vec_base(&old(self).buf)'
    fb_new = Fn(F, "impl<'a> FuseBuf<'a>", 'new', props=['C04'], canary=True,
                ensures=['r.mem@ == old(mem)@ && slice_base(&*r.mem) == slice_base(&*old(mem)) && final(mem)@ == final(r.mem)@ // [C04.fusebuf.new.same_memory]'])
    ffb = Fn(F, SRD, 'from_fuse_buffer', props=['C04'], canary=True,
             body_resub=[(r'unsafe\s*\{\s*VolatileSlice::with_bitmap\(([^,]+),\s*([^,]+),\s*S::default\(\),\s*None\)\s*\}', r'vx_with_bitmap(\1, \2)',
                          'VolatileSlice::with_bitmap(ptr, len, ..) -> model call: the slice at that address with that length (vm-memory, as documented)'),
                         (r'buf\.mem\.as_mut_ptr\(\)', 'vx_slice_as_mut_ptr(buf.mem)', 'every: <[u8]>::as_mut_ptr -> model pointer (address, room, bytes)')],
             ensures=['r is Ok // [C04.reader.new.ok]',
                      'r is Ok ==> cells(r->Ok_0.buffers.buffers@) =~= range(slice_base(&*old(buf.mem)), old(buf.mem)@.len()) && r->Ok_0.buffers.bytes_consumed == 0 // [C04.reader.new.whole_buffer]',
                      'final(buf.mem)@ == old(buf.mem)@ // [C04.reader.new.reads_only]'],
             splices=[('Ok(Reader {', 'before', 'proof { let b = buffers@; assert(b.len() == 1); lemma_cells_one(b[0]); assert(b =~= seq![b[0]]); }')])
    RD_ = 'r->Ok_0->Some_0.0'
    WR_ = 'r->Ok_0->Some_0.1'
    N = '%s->ReadOk_bytes.len()' % LAST
    ALLK = 'all_known(%s->PollOk_events, %s->PollOk_events.len() as int)' % (LAST, LAST)
    gr = Fn(L, SCH, 'get_request', props=['C04'], canary=True,
            attrs=['#[verifier::exec_allows_no_decreases_clause]', '#[verifier::loop_isolation(false)]'],
            sig_subst=[("Reader<'_>", "Reader<'_, ()>"), ("FuseDevWriter<'_>", "FuseDevWriter<'_, ()>")],
            ensures=[
                '%s.len() > %s && %s.take(%s) =~= old(ch).steps // [C04.get_request.log_grows]' % (NEW_STEPS, L0, NEW_STEPS, L0),
                'retries_ok(%s, %s, %s.len() - 1) // [C04.get_request.retries]' % (NEW_STEPS, L0, NEW_STEPS),
                'reads_ok(%s, %s, old(self).file.fd()) // [C04.get_request.reads]' % (NEW_STEPS, L0),
                '(r is Ok && r->Ok_0 is Some) <==> %s is ReadOk // [C04.get_request.request]' % LAST,
                '(r is Ok && r->Ok_0 is None) <==> (%s is PollOk && %s && has_exit(%s->PollOk_events)) || (%s is ReadErr && %s->ReadErr_errno == Errno::ENODEV) // [C04.get_request.exit]'
                % (LAST, ALLK, LAST, LAST, LAST),
                'r is Err <==> (%s is PollErr && %s->PollErr_kind != io::ErrorKind::Interrupted) || (%s is PollOk && !%s) || (%s is ReadErr && !retry_errno(%s->ReadErr_errno) && %s->ReadErr_errno != Errno::ENODEV) // [C04.get_request.error]'
                % (LAST, LAST, LAST, ALLK, LAST, LAST, LAST),
                'r is Err ==> r->Err_0 is SessionFailure // [C04.get_request.error]',
                # the channel keeps its buffer
                'same_alloc(&final(self).buf, &old(self).buf) && final(self).buf@.len() == old(self).buf@.len() && final(self).file.fd() == old(self).file.fd() // [C04.get_request.buffer_kept]',
                'r is Ok && r->Ok_0 is Some ==> %s <= old(self).buf@.len() && cells(%s.buffers.buffers@) =~= range(%s, %s) && %s.buffers.bytes_consumed == 0 // [C04.get_request.reader.exact]' % (N, RD_, BASE, N, RD_),
                'r is Ok && r->Ok_0 is Some ==> final(self).buf@.take(%s as int) =~= %s->ReadOk_bytes // [C04.get_request.reader.holds_request]' % (N, LAST),
                'r is Ok && r->Ok_0 is Some ==> fresh_writer(&%s, old(self).file.fd(), old(self).buf@.len()) && vec_base(&%s.buf) == %s // [C04.get_request.writer.space]' % (WR_, WR_, BASE),
                # the hack: the Reader's addresses are the first `len` addresses of the writer's space
                'r is Ok && r->Ok_0 is Some ==> cells(%s.buffers.buffers@) =~= range(vec_base(&%s.buf), %s.cap()).subrange(0, %s as int) // [C04.get_request.alias.reader_inside_writer_space]' % (RD_, WR_, WR_, N),
            ],
            body_resub=[
                (r'std::io::', 'io::', 'every: std::io:: -> io:: (the model of std::io)'),
                (r'unsafe\s*\{\s*std::slice::from_raw_parts_mut\(self\.buf\.as_mut_ptr\(\),\s*([^;{}]+?)\)\s*\}', r'vx_raw_parts_mut(vx_vec_as_mut_ptr(&mut self.buf), \1)',
                 'raw alias of the whole channel buffer -> model call (n bytes at the pointer; in bounds iff n <= room)'),
                (r'&mut self\.buf\[\.\.(\w+)\]', r'vx_vec_prefix_mut(&mut self.buf, \1)', '&mut v[..n] -> model call (n <= len)'),
                (r'panic!\(\s*"[^"]*"\s*\)', 'vx_panic()', 'panic!(..) -> call that requires false (must be unreachable)'),
            ],
            splices=[('^', 'after', 'broadcast use axiom_capacity_bound; let ghost l0 = ch.steps.len() as int; let ghost fd0 = self.file.fd(); proof { assert(ch.steps.take(l0) =~= ch.steps); }'),
                     ('loop {', 'replace', '''loop
            invariant
                !need_exit, ch.steps.len() >= l0, ch.steps.take(l0) =~= old(ch).steps, l0 == old(ch).steps.len(), fd0 == old(self).file.fd(), // [C04.get_request.loop.log_grows]
                retries_ok(ch.steps, l0, ch.steps.len() as int), // [C04.get_request.loop.retries]
                reads_ok(ch.steps, l0, fd0), // [C04.get_request.loop.reads]
                same_alloc(&self.buf, &old(self).buf) && self.buf@.len() == old(self).buf@.len() && self.file.fd() == fd0, // [C04.get_request.loop.buffer_kept]
        {
            let ghost s0 = ch.steps;'''),
                     ('for event in events.iter() {', 'replace', '''let ghost evs = events.v@; let ghost s1 = ch.steps;
            proof { assert(s1 =~= s0.push(Step::PollOk { events: evs })); assert(s1.take(l0) =~= s0.take(l0)); }
            for event in it: events.v.iter()
                invariant
                    evs == events.v@, ch.steps == s1, it.index@ <= evs.len(),
                    need_exit == has_tok(evs, EXIT_FUSE_EVENT, it.index@), // [C04.get_request.events.exit_seen]
                    fusereq_available == has_tok(evs, FUSE_DEV_EVENT, it.index@), // [C04.get_request.events.device_seen]
                    all_known(evs, it.index@), // [C04.get_request.events.tokens_known]
            {'''),
                     ])
    gr.rules = ('R23',)
    gr.ghost_token = dict(param='Tracked(ch): Tracked<&mut ChanLog>', arg='Tracked(ch)', callees=['poll'], free_callees=['read'])
    return [
        Copy(L, r'const POLL_EVENTS_CAPACITY: usize'),
        Copy(L, r'const EXIT_FUSE_EVENT: Token'),
        Copy(L, r'const FUSE_DEV_EVENT: Token'),
        Raw(CHAN_MODEL),
        Copy(F, r"pub struct FuseBuf<'a>"),
        Copy(L, r'pub struct FuseChannel'),
        Group("impl<'a> FuseBuf<'a> {", [fb_new]),
        Group("impl<'a, S: BitmapSlice + Default> Reader<'a, S> {", [ffb]),
        Group('impl FuseChannel {', [gr]),
    ]



# =================================================================================================================================
# ALIAS, in-tree callers: a syntactic check of the request handlers (src/api/server/sync_io.rs, and async_io.rs when the file exists) for the
# caller rule stated above, in its simplest sufficient form - "once a handler has used the writer, it does not use the Reader again".
# Per function of the file (test modules excluded), on the comment- and string-masked text:
#   R = uses of the request reader (`ctx.r`, `self.r`, `take_reader`, `data_reader`, and `r.<method>` where `r` is a Reader parameter);
#   W = uses of the reply writer (`ctx.w` / `self.w` other than the pure queries available_bytes / bytes_written, the reply helpers reply_ok /
#       reply_error / reply_error_explicit / do_reply_error / handle_attr_result, `data_writer`, `cursor`, `buffer_writer`);
#   a W is TERMINAL when its statement starts with `return` or is directly followed by a `return` statement (`let _ = ctx.reply_error_explicit(..);
#   return Err(..);`): control does not come back to the handler's text behind it.
# Offending: an R textually behind a non-terminal W of the same function, or an R and a non-terminal W inside the body of the same loop.
# A handler that passes the whole `ctx` on (`self.do_readdir(ctx, ..)`) is covered by the callee being scanned itself.  Every offending site
# becomes `assert(false); // [C04.get_request.alias.handlers]` in a generated proof function.  NOT covered: file-system implementations
# behind `fs.read(.., &mut data_writer, ..)` / `fs.write(.., &mut data_reader, ..)` (each gets only ONE of the two objects - also checked:
# no statement mentions both a reader and a writer object other than `ctx` itself).
R_RX = re.compile(r'\bctx\s*\.\s*r\b|\bself\s*\.\s*r\b|\btake_reader\b|\bdata_reader\b')
W_RX = re.compile(r'\b(?:ctx|self)\s*\.\s*w\b(?!\s*\.\s*(?:available_bytes|bytes_written)\b)|\breply_ok\b|\breply_error(?:_explicit)?\b|\bdo_reply_error\b|\bhandle_attr_result\b|\bdata_writer\b|\bcursor\b|\bbuffer_writer\b')


def _stmt_bounds(msk, p, lo, hi):
    """(start, end) of the statement around position p inside the block text msk[lo:hi]"""
    d, i = 0, p
    while i > lo:
        c = msk[i - 1]
        if c in ')]}':
            d += 1
        elif c in '([{':
            if d == 0:
                break
            d -= 1
        elif d == 0 and (c == ';' or (c == ',' ) or (c == '>' and msk[i - 2] == '=')):
            break
        i -= 1
    d, j = 0, p
    while j < hi:
        c = msk[j]
        if c in '([{':
            d += 1
        elif c in ')]}':
            if d == 0:
                break
            d -= 1
        elif d == 0 and c == ';':
            j += 1
            break
        j += 1
    return i, j


def alias_scan(root, files=(SRV, 'src/api/server/async_io.rs')):
    """-> (number of functions looked at, number with both R and W, list of offending sites)"""
    from vx.units.handles import _fn_ranges
    bad, nfn, nboth = [], 0, 0
    for rel in files:
        if not os.path.exists(os.path.join(root, rel)):
            continue
        src = X.Source(root, rel)
        msk = src.msk
        dead = []
        for m in re.finditer(r'(?m)^[ \t]*(?:pub(?:\([a-z]+\))?\s+)?mod\s+\w+\s*\{', msk):
            _, attrs = X.leading_attrs(src.src, msk, m.start())
            if re.search(r'cfg\s*\(\s*test', ' '.join(attrs) if isinstance(attrs, (list, tuple)) else str(attrs)):
                dead.append((m.start(), X.match_close(msk, m.end() - 1)))
        for (name, a, b) in _fn_ranges(msk):
            if any(x <= a <= y for (x, y) in dead):
                continue
            nfn += 1
            body = msk[a:b + 1]
            sig = msk[msk.rfind('fn ' + name, 0, a):a]
            rs = [m.start() for m in R_RX.finditer(body)]
            if re.search(r'\br\s*:\s*Reader\b', sig):      # a Reader parameter named r (handle_message)
                rs += [m.start() for m in re.finditer(r'(?<![\w.])r\s*\.\s*\w+\s*\(', body)]
            ws = []
            for m in W_RX.finditer(body):
                s0, s1 = _stmt_bounds(body, m.start(), 0, len(body))
                stmt = body[s0:s1].strip()
                nxt = body[s1:].lstrip()
                terminal = stmt.startswith('return') or nxt.startswith('return')
                ws.append((m.start(), terminal, s0, s1))
            if rs and ws:
                nboth += 1
            live = [w for w in ws if not w[1]]
            for (wp, _t, s0, s1) in live:
                later = [rp for rp in rs if rp > s1]
                if later:
                    bad.append('%s:%d fn %s: the reader is used (line %d) behind a use of the writer' % (rel, src.line_of(a + wp), name, src.line_of(a + later[0])))
                    break
            # a reader use and a live writer use inside the body of one loop
            for lm in re.finditer(r'\b(?:loop|while|for)\b[^;{}]*\{', body):
                lo = lm.end() - 1
                hi = X.match_close(body, lo)
                if any(lo < rp < hi for rp in rs) and any(lo < w[0] < hi for w in live):
                    bad.append('%s:%d fn %s: reader and writer are both used inside one loop' % (rel, src.line_of(a + lo), name))
                    break
            # one statement handing out both objects
            for (wp, _t, s0, s1) in ws:
                if any(s0 <= rp < s1 for rp in rs):
                    bad.append('%s:%d fn %s: one statement uses both the reader and the writer' % (rel, src.line_of(a + wp), name))
                    break
    return nfn, nboth, bad


def alias_items(root):
    nfn, nboth, bad = alias_scan(root)
    if nboth < 20:
        raise X.ExtractError('alias scan: only %d functions of the server use both the reader and the writer - the patterns no longer match the handlers' % nboth)
    return [Raw('// ---- ALIAS, in-tree callers: generated from a scan of the request handlers (alias_scan in vx/units/transrest.py): %d functions, %d use both objects\n'
                'proof fn alias_handlers_read_before_write() {\n' % (nfn, nboth) +
                ''.join('    assert(false); // [C04.get_request.alias.handlers] %s\n' % b for b in bad) + '}')]


def unit(root='/repo'):
    P = VW.parts()
    p1 = part1(P)
    items = [
        Raw(IO.MODEL.replace('pub enum Error { DescriptorChainOverflow,', '#[derive(Debug)] pub enum Error { SessionFailure(String), DescriptorChainOverflow,')),      # + the variant the session code builds
        Copy(T, r"struct IoBuffers<'a, S>", prefix='#[verifier::reject_recursive_types(S)]'),
        Copy(V, r"pub struct VirtioFsWriter<'a, S", subst=[('S = ()', 'S')], prefix='#[verifier::reject_recursive_types(S)]'),
        Copy(T, r"pub struct Reader<'a, S", subst=[('S = ()', 'S')], prefix='#[verifier::reject_recursive_types(S)]'),
        Raw(IO.SPEC),
        Raw(VW.MODEL2),
        Raw(ASYNC_MODEL),
        Group("impl<'a, S: BitmapSlice> IoBuffers<'a, S> {", p1['io_group']),
        Group("impl<'a, S: BitmapSlice> Reader<'a, S> {", p1['reader']),
        Group("impl<'a, S: BitmapSlice> VirtioFsWriter<'a, S> {", p1['writer']),
        # ---- FuseDevWriter side
        Raw(FDW_VOCAB),
        Copy(F, r"pub struct FuseDevWriter<'a, S", subst=[('ManuallyDrop<Vec<u8>>', 'Vec<u8>'), ('S: BitmapSlice = ()', 'S: BitmapSlice')]),
        Raw(FDW_SPEC),
        Raw(SESSION_MODEL),
        Group("impl<'a, S: BitmapSlice + Default> FuseDevWriter<'a, S> {", [fdw_new()]),
    ] + session_ext_items() + channel_items(root) + alias_items(root)
    u = Unit('transrest', items, preludes=['base.rs'])
    u.cfg_features = {'async-io'}
    return u
