"""Unit `ptstatx` (C05: "the attributes returned are the host object's"): the translation of a statx(2) answer into the stat64 the passthrough
file system hands on - `impl SafeStatXAccess for statx_st`::{stat64, mount_id} of src/passthrough/statx.rs on their real text.
Specification from statx(2) / stat(2): every stat field is the statx field of the same meaning (device numbers through makedev(3)), the answer is
used only when the kernel filled in the basic fields (STATX_BASIC_STATS), the mount id only when STATX_MNT_ID is set.
Models: libc::statx (x86_64-linux-gnu field set), libc::makedev (glibc gnu_dev_makedev), `MaybeUninit::<stat64>::zeroed().assume_init()` = the
all-zero struct (as rule R9 does for mem::zeroed)."""
from vx.api import Unit, Fn, Raw, Group

SX = 'src/passthrough/statx.rs'
SC = 'impl SafeStatXAccess for statx_st'

PRE = r'''
pub type MountId = u64;
// libc::statx / statx_timestamp (x86_64-linux-gnu), the fields statx(2) documents
#[derive(Clone, Copy)] pub struct statx_timestamp { pub tv_sec: i64, pub tv_nsec: u32 }
#[derive(Clone, Copy)] pub struct statx_st {
    pub stx_mask: u32, pub stx_blksize: u32, pub stx_attributes: u64, pub stx_nlink: u32, pub stx_uid: u32, pub stx_gid: u32, pub stx_mode: u16,
    pub stx_ino: u64, pub stx_size: u64, pub stx_blocks: u64, pub stx_attributes_mask: u64,
    pub stx_atime: statx_timestamp, pub stx_btime: statx_timestamp, pub stx_ctime: statx_timestamp, pub stx_mtime: statx_timestamp,
    pub stx_rdev_major: u32, pub stx_rdev_minor: u32, pub stx_dev_major: u32, pub stx_dev_minor: u32, pub stx_mnt_id: u64,
}
pub const STATX_BASIC_STATS: u32 = 0x07ff;     // linux/stat.h
pub const STATX_MNT_ID: u32 = 0x1000;
// glibc gnu_dev_makedev (sys/sysmacros.h)
pub open spec fn sp_makedev(maj: u32, min: u32) -> u64 {
    (((maj as u64) & 0xffff_f000u64) << 32) | (((maj as u64) & 0x0000_0fffu64) << 8) | (((min as u64) & 0xffff_ff00u64) << 12) | ((min as u64) & 0x0000_00ffu64)
}
pub mod libcx { use super::*;
    #[verifier::external_body] pub fn makedev(maj: u32, min: u32) -> (r: u64) ensures r == sp_makedev(maj, min) { unimplemented!() }
}
#[verifier::external_body] pub fn zero_stat64() -> (r: stat64)
    ensures r == (stat64 { st_dev: 0, st_ino: 0, st_nlink: 0, st_mode: 0, st_uid: 0, st_gid: 0, st_rdev: 0, st_size: 0, st_blksize: 0, st_blocks: 0,
                           st_atime: 0, st_atime_nsec: 0, st_mtime: 0, st_mtime_nsec: 0, st_ctime: 0, st_ctime_nsec: 0 })
{ unimplemented!() }
pub trait SafeStatXAccess { }
// stat(2) <- statx(2), field by field
pub open spec fn sp_stat_of(x: statx_st) -> stat64 {
    stat64 { st_dev: sp_makedev(x.stx_dev_major, x.stx_dev_minor), st_ino: x.stx_ino, st_mode: x.stx_mode as u32, st_nlink: x.stx_nlink as u64, st_uid: x.stx_uid, st_gid: x.stx_gid,
             st_rdev: sp_makedev(x.stx_rdev_major, x.stx_rdev_minor), st_size: x.stx_size as i64, st_blksize: x.stx_blksize as i64, st_blocks: x.stx_blocks as i64,
             st_atime: x.stx_atime.tv_sec, st_atime_nsec: x.stx_atime.tv_nsec as i64, st_mtime: x.stx_mtime.tv_sec, st_mtime_nsec: x.stx_mtime.tv_nsec as i64,
             st_ctime: x.stx_ctime.tv_sec, st_ctime_nsec: x.stx_ctime.tv_nsec as i64 }
}
'''


def unit(root='/repo'):
    fns = [
        Fn(SX, SC, 'stat64', props=['C05'], canary=True,
           ensures=['r is Some <==> self.stx_mask & STATX_BASIC_STATS != 0 // [C05.statx.valid_only_if_filled]',
                    'r is Some ==> r->Some_0 == sp_stat_of(*self) // [C05.statx.fields] every stat field is the statx field of the same meaning'],
           sig_subst=[('libc::stat64', 'stat64')], lenient_sig=True,
           body_resub=[(r'unsafe\s*\{\s*MaybeUninit::<libc::stat64>::zeroed\(\)\.assume_init\(\)\s*\}', 'zero_stat64()', 'MaybeUninit::<stat64>::zeroed().assume_init() = the all-zero struct'),
                       (r'(?s)fn makedev\(maj: libc::c_uint, min: libc::c_uint\) -> libc::dev_t \{\s*libc::makedev\(maj, min\)\s*\}', '', 'the local wrapper `fn makedev(maj, min) { libc::makedev(maj, min) }` (an item inside a fn body) is deleted; its calls go to the model of libc::makedev directly'),
                       (r'= makedev\(', '= libcx::makedev(', 'every: calls of the deleted local wrapper -> libc::makedev (model: glibc gnu_dev_makedev)'),
                       (r' as _;', ' as _;', 'every: casts `as _` take the type of the assigned field (rustc inference; unchanged)')]),
        Fn(SX, SC, 'mount_id', props=['C05'],
           ensures=['r == (if self.stx_mask & STATX_MNT_ID != 0 { Some(self.stx_mnt_id) } else { None::<MountId> }) // [C05.statx.mnt_id]']),
    ]
    return Unit('ptstatx', [Raw(PRE), Group('impl statx_st {', fns)], preludes=['base.rs', 'stdmodel.rs'])
