"""Unit `vfsmount` (C07, C14, C12: the mount table): Vfs::allocate_fs_idx, insert_mount_locked, mount, mount_with_id_mapping, umount
(src/api/vfs/mod.rs) - the functions that ESTABLISH the table invariants (`wf`, `mount_wf`) which unit `vfs` assumes for routing.

State model: the Vfs keeps its tables in ArcSwap / atomic cells and mutates them through `&self`.  Mount operations are serialised by
`self.lock`; for them the cells are modelled WITH state: rule R22 rewrites the receiver `&self` of the extracted functions to `&mut self`
and the cell models (below) take `&mut self` in `store` / `fetch_add` and say what the cell holds afterwards.  What this drops: that
readers may run concurrently with a mount operation (they see either the old or the new table of each cell; the order of the stores is
what makes every intermediate combination consistent - NOT decided here)."""
from vx.api import Unit, Fn, Copy, Raw, Group, ByteConst
from vx import fsmodel, flagsmodel
from vx.units import vfs as V

MOD = V.MOD
R22 = [('&self', '&mut self')]
LOADCLONE = (r'\.load\(\)\.deref\(\)\.deref\(\)\.clone\(\)', '.load_clone()', 'every: snapshot of the table held by the cell (Guard -> Arc -> T, cloned)')
OTHERSTR = (r'\bError::other\("', 'Error::other_str("', 'every: io::Error::other over a string literal')
LOADDEREF = (r'self\.opts\.load\(\)\.deref\(\)\.out_opts', 'self.opts.load().out_opts', 'every: Guard<Arc<T>>::deref is the loaded value')
TOSTRING = (r'\bpath\.to_string\(\)', 'str_to_string(path)', 'every: String::from(&str), opaque')

CELLS = r'''
// ---- cells WITH state (sequential model under the mount lock)
#[verifier::external_body] #[verifier::reject_recursive_types(T)] pub struct ArcSwap<T> { _p: PhantomData<T> }
impl<T> ArcSwap<T> {
    pub uninterp spec fn cur(&self) -> T;
    #[verifier::external_body] pub fn load(&self) -> (r: Arc<T>) ensures *r == self.cur() { unimplemented!() }
    #[verifier::external_body] pub fn load_clone(&self) -> (r: T) ensures r == self.cur() { unimplemented!() }
    #[verifier::external_body] pub fn store(&mut self, v: Arc<T>) ensures final(self).cur() == *v { unimplemented!() }
}
#[verifier::external_body] pub struct AtomicU8 { _p: u8 }
impl AtomicU8 {
    pub uninterp spec fn cur(&self) -> u8;
    #[verifier::external_body] pub fn load(&self, o: Ordering) -> (r: u8) ensures r == self.cur() { unimplemented!() }
    #[verifier::external_body] pub fn fetch_add(&mut self, n: u8, o: Ordering) -> (r: u8)
        ensures r == old(self).cur(), final(self).cur() as int == (old(self).cur() as int + n as int) % 256 { unimplemented!() }
}
#[verifier::external_body] pub struct AtomicBool { _p: u8 }
impl AtomicBool {
    pub uninterp spec fn cur(&self) -> bool;
    #[verifier::external_body] pub fn load(&self, o: Ordering) -> (r: bool) ensures r == self.cur() { unimplemented!() }
}
impl PseudoFs {
    // the pseudo directory tree: mount(path) creates the directories of `path` as needed and returns the inode of the last one
    pub uninterp spec fn mount_ino(&self, path: Seq<char>) -> u64;
    #[verifier::external_body] pub fn mount(&self, mountpoint: &str) -> (r: Result<u64>) ensures r is Ok ==> r->Ok_0 == self.mount_ino(mountpoint@) { unimplemented!() }
}
#[verifier::external_body] pub fn str_to_string(s: &str) -> (r: String) { unimplemented!() }
'''


def unit(root='/repo'):
    base = V.unit(root)
    keep_fns = {'convert_inode', 'get_effective_id_mapping', 'convert_entry', 'remap_attr_id', 'initialized'}
    items = []
    conv = []
    for it in base.items:
        if isinstance(it, Group):
            if it.header.startswith('impl Vfs {') or it.header.startswith('impl FileSystem for Vfs'):
                for f in it.items:
                    if isinstance(f, Fn) and f.name in keep_fns and f.file == MOD:
                        conv.append(f)
                continue
        if isinstance(it, Fn) and it.name in ('is_dot_or_dotdot', 'is_safe_path_component', 'validate_path_component'):
            continue
        items.append(it)
    items.insert(0, Raw(CELLS))
    items.append(Copy(MOD, r'pub enum VfsError\b'))
    items.append(Copy(MOD, r'pub type VfsResult<T>'))
    M = 'impl Vfs'
    mount_fns = conv + [
        Fn(MOD, M, 'allocate_fs_idx', sig_subst=R22, body_resub=[LOADCLONE, OTHERSTR], ret_name='res', props=['C07'], canary=True,
           attrs=['#[verifier::exec_allows_no_decreases_clause]'],
           requires=['old(self).sb().len() == 256'],
           ensures=['res is Ok ==> res->Ok_0 != 0 && old(self).sb()[res->Ok_0 as int] is None // [C07.mount.fresh_slot] a new mount never takes the pseudo index or a slot that is in use',
                    'final(self).same_tables(*old(self)) // [C07.mount.alloc.frame]'],
           splices=[('loop {', 'replace', '''loop
                invariant self.same_tables(*old(self)), superblocks@ == old(self).sb(), old(self).sb().len() == 256,
            {''')]),
        Fn(MOD, M, 'insert_mount_locked', sig_subst=R22, body_resub=[LOADCLONE, TOSTRING], ret_name='res', props=['C07', 'C14'], canary=True,
           requires=['old(self).sb().len() == 256', 'fs_idx != 0', 'map_ok(old(self).eff_map(fs_idx)) // [C14.mount.slot_mapping] the mapping in force for the new index is the one this mount was given (or the global one)'],
           ensures=['res is Err ==> final(self).same_tables(*old(self)) && final(self).next_super == old(self).next_super // [C07.mount.failed] a failed mount leaves the tables alone',
                    '''res is Ok ==> ({ let pino = old(self).root.mount_ino(path@); let o = *old(self);
                        &&& entry.inode <= 0xff_ffff_ffff_ffffu64
                        // the mount point now denotes the new backend: its index, its root number, its root entry as the client must see it
                        &&& final(self).mp().dom() == o.mp().dom().insert(pino) && (forall|k: u64| k != pino && o.mp().contains_key(k) ==> final(self).mp()[k] == #[trigger] o.mp()[k])
                        &&& final(self).mp()[pino].fs_idx == fs_idx && final(self).mp()[pino].ino == entry.inode
                        &&& no_ids(final(self).mp()[pino].root_entry) == no_ids(o.entry_out(fs_idx, entry.inode, entry))
                        // the new backend is reachable at its index; a backend that was mounted at this path before (over-mount) is not reachable any more
                        &&& final(self).sb() == (if o.mp().contains_key(pino) { o.sb().update(o.mp()[pino].fs_idx as int, None) } else { o.sb() }).update(fs_idx as int, Some(Arc::new(fs)))
                    }) // [C07.mount.tables]''',
                    'res is Ok ==> final(self).mp()[old(self).root.mount_ino(path@)].root_entry == old(self).entry_out(fs_idx, entry.inode, entry) // [C14.mount.root_ids] the owner ids of the mount root are translated with the mapping in force for this index',
                    'res is Ok ==> final(self).mount_id_mappings == old(self).mount_id_mappings && final(self).opts == old(self).opts && final(self).initialized == old(self).initialized && final(self).id_mapping == old(self).id_mapping && final(self).next_super == old(self).next_super // [C07.mount.frame]']),
        Fn(MOD, M, 'mount_with_id_mapping', sig_subst=R22, body_resub=[LOADCLONE, TOSTRING, LOADDEREF], ret_name='res', props=['C07', 'C14', 'C12'], canary=True,
           gtag_props={'cap': ['C12'], 'touch': ['C12']},
           requires=['old(self).sb().len() == 256', 'old(self).maps().len() == 256', 'map_ok(old(self).id_mapping)', 'map_ok(id_mapping)',
                     'fs.touch_ok()',
                     # "the VFS ... layers switch on ... only when negotiated": a backend mounted after INIT is initialised with the negotiated set, one mounted before is not initialised here
                     'forall|o: FsOptions| #[trigger] fs.allowed_init(o) <==> (old(self).initialized.cur() && o == old(self).opts.cur().out_opts) // [C12.mount.init]',
                     'fs.allowed_destroy() <==> (fs.res_mount() is Ok && fs.res_mount()->Ok_0.1 > 0xff_ffff_ffff_ffffu64)'],
           ensures=['res is Err ==> final(self).sb() == old(self).sb() && final(self).mp() == old(self).mp() // [C07.mount.failed]',
                    '''res is Ok ==> ({ let idx = res->Ok_0; let pino = old(self).root.mount_ino(path@); let o = *old(self); let e = fs.res_mount()->Ok_0.0;
                        &&& idx != 0 && o.sb()[idx as int] is None && fs.res_mount() is Ok
                        &&& final(self).mp().dom() == o.mp().dom().insert(pino) && (forall|k: u64| k != pino && o.mp().contains_key(k) ==> final(self).mp()[k] == #[trigger] o.mp()[k])
                        &&& final(self).mp()[pino].fs_idx == idx && final(self).mp()[pino].ino == e.inode && e.inode <= 0xff_ffff_ffff_ffffu64
                        &&& no_ids(final(self).mp()[pino].root_entry) == no_ids(final(self).entry_out(idx, e.inode, e))
                        &&& final(self).sb() == (if o.mp().contains_key(pino) { o.sb().update(o.mp()[pino].fs_idx as int, None) } else { o.sb() }).update(idx as int, Some(Arc::new(fs)))
                    }) // [C07.mount.tables]''',
                    # "Each mount uses its own mapping if it was given one and the global mapping otherwise"
                    'res is Ok ==> final(self).maps() == old(self).maps().update(res->Ok_0 as int, id_mapping) && final(self).id_mapping == old(self).id_mapping // [C14.mount.mapping]',
                    'res is Ok ==> final(self).eff_map(res->Ok_0) == (if id_mapping is Some { id_mapping } else { old(self).id_mapping }) // [C14.mount.effective]',
                    'res is Ok ==> final(self).mp()[old(self).root.mount_ino(path@)].root_entry == final(self).entry_out(res->Ok_0, fs.res_mount()->Ok_0.0.inode, fs.res_mount()->Ok_0.0) // [C14.mount.root_ids]',
                    'res is Ok ==> final(self).opts == old(self).opts && final(self).initialized == old(self).initialized // [C07.mount.frame]']),
        Fn(MOD, M, 'mount', sig_subst=R22, ret_name='res', props=['C07', 'C14'],
           requires=['old(self).sb().len() == 256', 'old(self).maps().len() == 256', 'map_ok(old(self).id_mapping)', 'fs.touch_ok()',
                     'forall|o: FsOptions| #[trigger] fs.allowed_init(o) <==> (old(self).initialized.cur() && o == old(self).opts.cur().out_opts)',
                     'fs.allowed_destroy() <==> (fs.res_mount() is Ok && fs.res_mount()->Ok_0.1 > 0xff_ffff_ffff_ffffu64)'],
           ensures=['res is Ok ==> final(self).eff_map(res->Ok_0) == old(self).id_mapping // [C14.mount.global] a mount without a mapping of its own uses the global one']),
    ]
    items.append(Raw(TABLES))
    items.append(Group('impl Vfs {', mount_fns))
    u = Unit('vfsmount', items, preludes=['base.rs', 'stdmodel.rs', 'names.rs', 'vfs.rs'], generic_tags={'cap': ['C07'], 'touch': ['C07'], 'ids': ['C14']})
    u.prelude_subst = [('ArcSwap', 'ArcSwapRo'), ('AtomicU8', 'AtomicU8Ro'), ('AtomicBool', 'AtomicBoolRo')]
    return u


TABLES = r'''
impl BackFileSystem {
    // BackendFileSystem::mount(): the backend's root entry and its largest inode number
    pub uninterp spec fn res_mount(&self) -> Result<(Entry, u64)>;
    #[verifier::external_body] pub fn mount(&self) -> (r: Result<(Entry, u64)>) requires self.touch_ok() ensures r == self.res_mount() { unimplemented!() }
}
impl Vfs {
    pub open spec fn maps(&self) -> Seq<Option<(u32, u32, u32)>> { self.mount_id_mappings.cur()@ }
    // everything but the allocation cursor is unchanged
    pub open spec fn same_tables(&self, o: Vfs) -> bool {
        self.superblocks == o.superblocks && self.mountpoints == o.mountpoints && self.mount_id_mappings == o.mount_id_mappings && self.opts == o.opts
            && self.initialized == o.initialized && self.root == o.root && self.id_mapping == o.id_mapping && self.remove_pseudo_root == o.remove_pseudo_root
    }
}
'''
