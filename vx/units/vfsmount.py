"""Unit `vfsmount` (C07, C14, C12: the mount table): Vfs::allocate_fs_idx, insert_mount_locked, mount, mount_with_id_mapping, umount
(src/api/vfs/mod.rs) - the functions that ESTABLISH the table invariants (`wf`, `mount_wf`) which unit `vfs` assumes for routing.

State model: the Vfs keeps its tables in ArcSwap / atomic cells and mutates them through `&self`.  Mount operations are serialised by
`self.lock`; for them the cells are modelled WITH state: rule R25 rewrites the receiver `&self` of the extracted functions to `&mut self`
and the cell models (below) take `&mut self` in `store` / `fetch_add` and say what the cell holds afterwards.  What this drops: that
readers may run concurrently with a mount operation (they see either the old or the new table of each cell; the order of the stores is
what makes every intermediate combination consistent - NOT decided here)."""
from vx.api import Unit, Fn, Copy, Raw, Group, ByteConst
from vx import fsmodel, flagsmodel
from vx.units import vfs as V

MOD = V.MOD
R25 = [('&self', '&mut self')]
LOADCLONE = (r'\.load\(\)\.deref\(\)\.deref\(\)\.clone\(\)', '.load_clone()', 'every: snapshot of the table held by the cell (Guard -> Arc -> T, cloned)')
OTHERSTR = (r'\bError::other\("', 'Error::other_str("', 'every: io::Error::other over a string literal')
LOADDEREF = (r'self\.opts\.load\(\)\.deref\(\)\.out_opts', 'self.opts.load().out_opts', 'every: Guard<Arc<T>>::deref is the loaded value')
# Option::map / ok_or_else / `?` by definition:  E.map(|x| {B}).ok_or_else(|| {C})?   ==   match E { Some(x) => {B}, None => return Err({C}) }
MAP_OK_OR_ELSE = (r'(mountpoints\s*\.get\(&inode\)\s*\.cloned\(\))\s*\.map\(\|x\| \{(.*?)\n            \}\)\s*\.ok_or_else\(\|\| \{(.*?)\n            \}\)\?;',
                  r'match \1 { Some(x) => {\2\n            } None => { return Err({\3\n            }); } };',
                  'Option::map(closure).ok_or_else(closure)? written as the match it stands for (the closure mutates captured tables)')
TOSTRING = (r'\bpath\.to_string\(\)', 'str_to_string(path)', 'every: String::from(&str), opaque')

CELLS = r'''
// ---- cells WITH state (sequential model under the mount lock)
#[verifier::external_body] #[verifier::reject_recursive_types(T)] pub struct ArcSwap<T> { _p: PhantomData<T> }
impl<T> ArcSwap<T> {
    pub uninterp spec fn cur(&self) -> T;
    #[verifier::external_body] pub fn load(&self) -> (r: Arc<T>) ensures *r == self.cur() { unimplemented!() }
    #[verifier::external_body] pub fn load_clone(&self) -> (r: T) ensures r == self.cur() { unimplemented!() }
    #[verifier::external_body] pub fn store(&mut self, v: Arc<T>) ensures final(self).cur() == *v { unimplemented!() }
}
#[verifier::external_body] pub struct AtomicU8 { _p: u8 }
impl AtomicU8 {
    pub uninterp spec fn cur(&self) -> u8;
    #[verifier::external_body] pub fn load(&self, o: Ordering) -> (r: u8) ensures r == self.cur() { unimplemented!() }
    #[verifier::external_body] pub fn fetch_add(&mut self, n: u8, o: Ordering) -> (r: u8)
        ensures r == old(self).cur(), final(self).cur() as int == (old(self).cur() as int + n as int) % 256 { unimplemented!() }
}
#[verifier::external_body] pub struct AtomicBool { _p: u8 }
impl AtomicBool {
    pub uninterp spec fn cur(&self) -> bool;
    #[verifier::external_body] pub fn load(&self, o: Ordering) -> (r: bool) ensures r == self.cur() { unimplemented!() }
}
impl PseudoFs {
    // the pseudo directory tree: mount(path) creates the directories of `path` as needed and returns the inode of the last one
    pub uninterp spec fn mount_ino(&self, path: Seq<char>) -> u64;
    #[verifier::external_body] pub fn mount(&self, mountpoint: &str) -> (r: Result<u64>) ensures r is Ok ==> r->Ok_0 == self.mount_ino(mountpoint@) { unimplemented!() }
    pub uninterp spec fn walk_ino(&self, path: Seq<char>) -> Option<u64>;
    #[verifier::external_body] pub fn path_walk(&self, mountpoint: &str) -> (r: Result<Option<u64>>) ensures r is Ok ==> r->Ok_0 == self.walk_ino(mountpoint@) { unimplemented!() }
    #[verifier::external_body] pub fn get_parent_inode(&self, ino: u64) -> (r: Option<u64>) { unimplemented!() }
    #[verifier::external_body] pub fn evict_inode(&self, ino: u64) { unimplemented!() }
}
#[verifier::external_body] pub fn str_to_string(s: &str) -> (r: String) { unimplemented!() }
'''


def unit(root='/repo'):
    base = V.unit(root)
    keep_fns = {'convert_inode', 'get_effective_id_mapping', 'convert_entry', 'remap_attr_id', 'initialized'}
    items = []
    conv = []
    for it in base.items:
        if isinstance(it, Group):
            if it.header.startswith('impl Vfs {') or it.header.startswith('impl FileSystem for Vfs'):
                for f in it.items:
                    if isinstance(f, Fn) and f.name in keep_fns and f.file == MOD:
                        conv.append(f)
                continue
        if isinstance(it, Fn) and it.name in ('is_dot_or_dotdot', 'is_safe_path_component', 'validate_path_component'):
            continue
        items.append(it)
    items.insert(0, Raw(CELLS))
    items.append(Copy(MOD, r'pub enum VfsError\b'))
    items.append(Copy(MOD, r'pub type VfsResult<T>'))
    M = 'impl Vfs'
    mount_fns = conv + [
        Fn(MOD, M, 'allocate_fs_idx', sig_subst=R25, body_resub=[LOADCLONE, OTHERSTR], ret_name='res', props=['C07'], canary=True,
           attrs=['#[verifier::exec_allows_no_decreases_clause]'],
           requires=['old(self).sb().len() == 256'],
           ensures=['res is Ok ==> res->Ok_0 != 0 && old(self).sb()[res->Ok_0 as int] is None // [C07.mount.fresh_slot] a new mount never takes the pseudo index or a slot that is in use',
                    'final(self).same_tables(*old(self)) // [C07.mount.alloc.frame]'],
           splices=[('loop {', 'replace', '''loop
                invariant self.same_tables(*old(self)), superblocks@ == old(self).sb(), old(self).sb().len() == 256,
            {''')]),
        Fn(MOD, M, 'insert_mount_locked', sig_subst=R25, body_resub=[LOADCLONE, TOSTRING], ret_name='res', props=['C07'], canary=True,
           requires=['old(self).sb().len() == 256', 'fs_idx != 0', 'map_ok(old(self).eff_map(fs_idx)) // [C14.mount.slot_mapping] the mapping in force for the new index is the one this mount was given (or the global one)'],
           ensures=['res is Err ==> final(self).same_tables(*old(self)) && final(self).next_super == old(self).next_super // [C07.mount.failed] a failed mount leaves the tables alone',
                    '''res is Ok ==> ({ let pino = old(self).root.mount_ino(path@); let o = *old(self);
                        &&& entry.inode <= 0xff_ffff_ffff_ffffu64
                        // the mount point now denotes the new backend: its index, its root number, its root entry as the client must see it
                        &&& final(self).mp().dom() == o.mp().dom().insert(pino) && (forall|k: u64| k != pino && o.mp().contains_key(k) ==> final(self).mp()[k] == #[trigger] o.mp()[k])
                        &&& final(self).mp()[pino].fs_idx == fs_idx && final(self).mp()[pino].ino == entry.inode
                        &&& no_ids(final(self).mp()[pino].root_entry) == no_ids(o.entry_out(fs_idx, entry.inode, entry))
                        // the new backend is reachable at its index; a backend that was mounted at this path before (over-mount) is not reachable any more
                        &&& final(self).sb() == (if o.mp().contains_key(pino) { o.sb().update(o.mp()[pino].fs_idx as int, None) } else { o.sb() }).update(fs_idx as int, Some(Arc::new(fs)))
                    }) // [C07.mount.tables]''',
                    'res is Ok ==> final(self).mp()[old(self).root.mount_ino(path@)].root_entry == old(self).entry_out(fs_idx, entry.inode, entry) // [C14.mount.root_ids] the owner ids of the mount root are translated with the mapping in force for this index',
                    'res is Ok ==> final(self).mount_id_mappings == old(self).mount_id_mappings && final(self).opts == old(self).opts && final(self).initialized == old(self).initialized && final(self).id_mapping == old(self).id_mapping && final(self).next_super == old(self).next_super // [C07.mount.frame]']),
        Fn(MOD, M, 'mount_with_id_mapping', sig_subst=R25, body_resub=[LOADCLONE, TOSTRING, LOADDEREF], ret_name='res', props=['C07'], canary=True,
           gtag_props={'cap': ['C12'], 'touch': ['C12']},
           requires=['old(self).inv()', 'map_ok(id_mapping)',
                     'fs.touch_ok()',
                     # "the VFS ... layers switch on ... only when negotiated": a backend mounted after INIT is initialised with the negotiated set, one mounted before is not initialised here
                     'forall|o: FsOptions| #[trigger] fs.allowed_init(o) <==> (old(self).initialized.cur() && o == old(self).opts.cur().out_opts) // [C12.mount.init]',
                     'fs.allowed_destroy() <==> (fs.res_mount() is Ok && fs.res_mount()->Ok_0.1 > 0xff_ffff_ffff_ffffu64)'],
           ensures=['res is Err ==> final(self).sb() == old(self).sb() && final(self).mp() == old(self).mp() // [C07.mount.failed]',
                    '''res is Ok ==> ({ let idx = res->Ok_0; let pino = old(self).root.mount_ino(path@); let o = *old(self); let e = fs.res_mount()->Ok_0.0;
                        &&& idx != 0 && o.sb()[idx as int] is None && fs.res_mount() is Ok
                        &&& final(self).mp().dom() == o.mp().dom().insert(pino) && (forall|k: u64| k != pino && o.mp().contains_key(k) ==> final(self).mp()[k] == #[trigger] o.mp()[k])
                        &&& final(self).mp()[pino].fs_idx == idx && final(self).mp()[pino].ino == e.inode && e.inode <= 0xff_ffff_ffff_ffffu64
                        &&& no_ids(final(self).mp()[pino].root_entry) == no_ids(final(self).entry_out(idx, e.inode, e))
                        &&& final(self).sb() == (if o.mp().contains_key(pino) { o.sb().update(o.mp()[pino].fs_idx as int, None) } else { o.sb() }).update(idx as int, Some(Arc::new(fs)))
                    }) // [C07.mount.tables]''',
                    # "Each mount uses its own mapping if it was given one and the global mapping otherwise"
                    'res is Ok ==> final(self).maps() == old(self).maps().update(res->Ok_0 as int, id_mapping) && final(self).id_mapping == old(self).id_mapping // [C14.mount.mapping]',
                    'res is Ok ==> final(self).eff_map(res->Ok_0) == (if id_mapping is Some { id_mapping } else { old(self).id_mapping }) // [C14.mount.effective]',
                    'res is Ok ==> final(self).mp()[old(self).root.mount_ino(path@)].root_entry == final(self).entry_out(res->Ok_0, fs.res_mount()->Ok_0.0.inode, fs.res_mount()->Ok_0.0) // [C14.mount.root_ids]',
                    'res is Ok ==> final(self).opts == old(self).opts && final(self).initialized == old(self).initialized // [C07.mount.frame]',
                    # the table invariant assumed by the routing proofs (unit vfs) is preserved, whatever the outcome
                    'res is Ok ==> final(self).inv() // [C07.mount.inv]',
                    'res is Err ==> Vfs::err_frame(*old(self), *final(self)) // [C07.mount.failed.frame] (lemma_inv_frame: the invariant survives a failed mount)',
                    'res is Ok && old(self).mp().contains_key(old(self).root.mount_ino(path@)) ==> final(self).sb()[old(self).mp()[old(self).root.mount_ino(path@)].fs_idx as int] is None // [C07.mount.overmount] the over-mounted backend is unreachable'],
           splices=[('Ok(index)', 'before', '''proof {
            let pino = old(self).root.mount_ino(path@);
            assert(self.maps() == old(self).maps().update(index as int, id_mapping) && self.id_mapping == old(self).id_mapping); // [C14.mount.mapping]
            assert(self.mp()[pino].root_entry == self.entry_out(index, entry.inode, entry)); // [C14.mount.root_ids]
            assert(Vfs::post_mount(*old(self), *self, index, pino, entry, self.sb()[index as int]->Some_0, id_mapping)); // [C07.mount.tables]
            Vfs::lemma_mount_keeps_inv(*old(self), *self, index, pino, entry, self.sb()[index as int]->Some_0, id_mapping);
        }''')]),
        Fn(MOD, M, 'mount', sig_subst=R25, ret_name='res', props=['C07'],
           requires=['old(self).inv()', 'fs.touch_ok()',
                     'forall|o: FsOptions| #[trigger] fs.allowed_init(o) <==> (old(self).initialized.cur() && o == old(self).opts.cur().out_opts)',
                     'fs.allowed_destroy() <==> (fs.res_mount() is Ok && fs.res_mount()->Ok_0.1 > 0xff_ffff_ffff_ffffu64)'],
           ensures=['res is Ok ==> final(self).eff_map(res->Ok_0) == old(self).id_mapping // [C14.mount.global] a mount without a mapping of its own uses the global one',
                    'res is Ok ==> final(self).inv()', 'res is Err ==> Vfs::err_frame(*old(self), *final(self))']),
        Fn(MOD, M, 'umount', sig_subst=R25, body_resub=[LOADCLONE, TOSTRING, MAP_OK_OR_ELSE], ret_name='res', props=['C07'], canary=True,
           splices=[('^', 'after', 'broadcast use axiom_arc_cloned;'), ('Ok((inode, parent))', 'before', 'proof { assert(Vfs::post_umount(*old(self), *self, inode)); Vfs::lemma_umount_keeps_inv(*old(self), *self, inode); }')],
           requires=['old(self).inv()',
                     # only the backend mounted at `path` may be shut down
                     '''forall|i: int| 0 <= i < 256 && (#[trigger] old(self).sb()[i]) is Some ==> (*old(self).sb()[i]->Some_0).touch_ok()
                            && ((*old(self).sb()[i]->Some_0).allowed_destroy() <==> (old(self).root.walk_ino(path@) is Some && old(self).mp().contains_key(old(self).root.walk_ino(path@)->Some_0)
                                    && old(self).mp()[old(self).root.walk_ino(path@)->Some_0].fs_idx == i)) // [C07.umount.destroy]'''],
           ensures=['res is Err ==> final(self).sb() == old(self).sb() && final(self).mp() == old(self).mp() && final(self).maps() == old(self).maps() // [C07.umount.failed]',
                    '''res is Ok ==> ({ let o = *old(self); let pino = o.root.walk_ino(path@)->Some_0; let idx = o.mp()[pino].fs_idx;
                        &&& o.root.walk_ino(path@) is Some && o.mp().contains_key(pino) && res->Ok_0.0 == pino
                        &&& final(self).mp() == o.mp().remove(pino)
                        &&& final(self).sb() == o.sb().update(idx as int, None)
                    }) // [C07.umount.tables] the mount point stops denoting the backend and the backend's index stops resolving; every other mount is untouched''',
                    'res is Ok ==> final(self).maps() == old(self).maps().update(old(self).mp()[old(self).root.walk_ino(path@)->Some_0].fs_idx as int, None) && final(self).id_mapping == old(self).id_mapping // [C14.umount.mapping] the slot keeps no mapping for its next user',
                    'res is Ok ==> final(self).opts == old(self).opts && final(self).initialized == old(self).initialized && final(self).next_super == old(self).next_super // [C07.umount.frame]',
                    'res is Ok ==> final(self).inv() // [C07.umount.inv]']),
    ]
    items.append(Raw(TABLES))
    items.append(Group('impl Vfs {', mount_fns))
    u = Unit('vfsmount', items, preludes=['base.rs', 'stdmodel.rs', 'names.rs', 'vfs.rs'], generic_tags={'cap': ['C07'], 'touch': ['C07'], 'ids': ['C14']})
    u.prelude_subst = [('ArcSwap', 'ArcSwapRo'), ('AtomicU8', 'AtomicU8Ro'), ('AtomicBool', 'AtomicBoolRo')]
    return u


TABLES = r'''
// ---- the table invariant that unit `vfs` assumes for routing (Vfs::wf / mount_wf there), and that every mount operation preserves
impl Vfs {
    spec fn inv(&self) -> bool {
        &&& self.sb().len() == 256 && self.maps().len() == 256
        &&& map_ok(self.id_mapping) && (forall|i: int| 0 <= i < 256 ==> map_ok(#[trigger] self.maps()[i]))
        // every mount point denotes a live backend at a non-pseudo index with a root number the encoding can carry ...
        &&& forall|k: u64| #[trigger] self.mp().contains_key(k) ==> self.mp()[k].fs_idx != 0 && self.mp()[k].ino <= 0xff_ffff_ffff_ffffu64 && self.sb()[self.mp()[k].fs_idx as int] is Some
        // ... two mount points never share a backend index ("a request is delivered to exactly that backend") ...
        &&& forall|k: u64, l: u64| self.mp().contains_key(k) && self.mp().contains_key(l) && k != l ==> (#[trigger] self.mp()[k]).fs_idx != (#[trigger] self.mp()[l]).fs_idx
        // ... no index resolves to a backend that is not mounted anywhere (over-mounted or unmounted backends are unreachable) ...
        &&& forall|i: int| 0 <= i < 256 && (#[trigger] self.sb()[i]) is Some ==> exists|k: u64| self.mp().contains_key(k) && (#[trigger] self.mp()[k]).fs_idx == i
        &&& self.sb()[0] is None
        // ... and the root entry kept for a mount point is some backend root entry as the client must see it under the mapping in force for that mount
        &&& forall|k: u64| #[trigger] self.mp().contains_key(k) ==> exists|e: Entry| self.mp()[k].root_entry == #[trigger] self.entry_out(self.mp()[k].fs_idx, self.mp()[k].ino, e)
    }
    // what mount_with_id_mapping guarantees on success (its [C07.mount.tables], [C14.mount.mapping], [C14.mount.root_ids] postconditions)
    spec fn post_mount(o: Vfs, n: Vfs, idx: u8, pino: u64, e: Entry, fs: Arc<BackFileSystem>, m: Option<(u32, u32, u32)>) -> bool {
        &&& idx != 0 && o.sb()[idx as int] is None && e.inode <= 0xff_ffff_ffff_ffffu64
        &&& n.mp().dom() == o.mp().dom().insert(pino) && (forall|k: u64| k != pino && o.mp().contains_key(k) ==> n.mp()[k] == #[trigger] o.mp()[k])
        &&& n.mp()[pino].fs_idx == idx && n.mp()[pino].ino == e.inode
        &&& n.sb() == (if o.mp().contains_key(pino) { o.sb().update(o.mp()[pino].fs_idx as int, None) } else { o.sb() }).update(idx as int, Some(fs))
        &&& n.maps() == o.maps().update(idx as int, m) && n.id_mapping == o.id_mapping
        &&& n.mp()[pino].root_entry == n.entry_out(idx, e.inode, e)
    }
    spec fn post_umount(o: Vfs, n: Vfs, pino: u64) -> bool {
        &&& o.mp().contains_key(pino)
        &&& n.mp() == o.mp().remove(pino)
        &&& n.sb() == o.sb().update(o.mp()[pino].fs_idx as int, None)
        &&& n.maps() == o.maps().update(o.mp()[pino].fs_idx as int, None) && n.id_mapping == o.id_mapping
    }
    // a failed mount operation: routing tables untouched; per-mount mappings may only differ at vacant indices
    spec fn err_frame(o: Vfs, n: Vfs) -> bool {
        &&& n.sb() == o.sb() && n.mp() == o.mp() && n.id_mapping == o.id_mapping && n.maps().len() == o.maps().len()
        &&& forall|i: int| 0 <= i < 256 ==> (#[trigger] n.maps()[i]) == o.maps()[i] || (o.sb()[i] is None && map_ok(n.maps()[i]))
    }
    proof fn lemma_inv_frame(o: Vfs, n: Vfs)
        requires o.inv(), Vfs::err_frame(o, n)
        ensures n.inv(),                                                                 // [C07.tables.failed_keeps_inv]
    {
        assert forall|i: int| 0 <= i < 256 implies map_ok(#[trigger] n.maps()[i]) by { assert(map_ok(o.maps()[i])); }
        assert forall|k: u64| #[trigger] n.mp().contains_key(k) implies exists|x: Entry| n.mp()[k].root_entry == #[trigger] n.entry_out(n.mp()[k].fs_idx, n.mp()[k].ino, x) by {
            let x = choose|x: Entry| o.mp()[k].root_entry == #[trigger] o.entry_out(o.mp()[k].fs_idx, o.mp()[k].ino, x);
            assert(o.sb()[o.mp()[k].fs_idx as int] is Some);
            assert(n.maps()[o.mp()[k].fs_idx as int] == o.maps()[o.mp()[k].fs_idx as int]);
            assert(n.eff_map(o.mp()[k].fs_idx) == o.eff_map(o.mp()[k].fs_idx));
            assert(n.entry_out(n.mp()[k].fs_idx, n.mp()[k].ino, x) == o.entry_out(o.mp()[k].fs_idx, o.mp()[k].ino, x));
        }
        assert forall|i: int| 0 <= i < 256 && (#[trigger] n.sb()[i]) is Some implies exists|k: u64| n.mp().contains_key(k) && (#[trigger] n.mp()[k]).fs_idx == i by {
            let k = choose|k: u64| o.mp().contains_key(k) && (#[trigger] o.mp()[k]).fs_idx == i;
            assert(n.mp().contains_key(k));
        }
    }
    // the invariant implies what unit `vfs` assumes
    proof fn lemma_inv_gives_wf(&self)
        requires self.inv()
        ensures self.wf(),                                                               // [C07.tables.wf]
    {
        assert forall|i: u8| map_ok(#[trigger] self.eff_map(i)) by { assert(map_ok(self.maps()[i as int])); }
    }
    proof fn lemma_mount_keeps_inv(o: Vfs, n: Vfs, idx: u8, pino: u64, e: Entry, fs: Arc<BackFileSystem>, m: Option<(u32, u32, u32)>)
        requires o.inv(), map_ok(m), Vfs::post_mount(o, n, idx, pino, e, fs, m)
        ensures n.inv(),                                                                 // [C07.tables.mount_keeps_inv]
            // every other live mount keeps its index, its backend and its effective mapping
            forall|k: u64| k != pino && o.mp().contains_key(k) ==> n.sb()[o.mp()[k].fs_idx as int] == o.sb()[(#[trigger] o.mp()[k]).fs_idx as int] && n.eff_map(o.mp()[k].fs_idx) == o.eff_map(o.mp()[k].fs_idx),
            // a backend that was mounted at this path before is unreachable now
            o.mp().contains_key(pino) ==> n.sb()[o.mp()[pino].fs_idx as int] is None,   // [C07.tables.overmount]
    {
        let old_idx = if o.mp().contains_key(pino) { o.mp()[pino].fs_idx as int } else { -1 };
        assert forall|k: u64| #[trigger] n.mp().contains_key(k) implies n.mp()[k].fs_idx != 0 && n.mp()[k].ino <= 0xff_ffff_ffff_ffffu64 && n.sb()[n.mp()[k].fs_idx as int] is Some by {
            if k != pino { assert(o.mp().contains_key(k)); assert(o.mp()[k].fs_idx as int != old_idx); }
        }
        assert forall|k: u64, l: u64| n.mp().contains_key(k) && n.mp().contains_key(l) && k != l implies (#[trigger] n.mp()[k]).fs_idx != (#[trigger] n.mp()[l]).fs_idx by {
            if k != pino { assert(o.mp().contains_key(k)); }
            if l != pino { assert(o.mp().contains_key(l)); }
        }
        assert forall|i: int| 0 <= i < 256 && (#[trigger] n.sb()[i]) is Some implies exists|k: u64| n.mp().contains_key(k) && (#[trigger] n.mp()[k]).fs_idx == i by {
            if i == idx as int { assert(n.mp().contains_key(pino)); }
            else {
                assert(o.sb()[i] is Some);
                let k = choose|k: u64| o.mp().contains_key(k) && (#[trigger] o.mp()[k]).fs_idx == i;
                assert(k != pino); assert(n.mp().contains_key(k));
            }
        }
        assert forall|i: int| 0 <= i < 256 implies map_ok(#[trigger] n.maps()[i]) by { if i != idx as int { assert(map_ok(o.maps()[i])); } }
        assert forall|k: u64| #[trigger] n.mp().contains_key(k) implies exists|x: Entry| n.mp()[k].root_entry == #[trigger] n.entry_out(n.mp()[k].fs_idx, n.mp()[k].ino, x) by {
            if k != pino {
                assert(o.mp().contains_key(k));
                let x = choose|x: Entry| o.mp()[k].root_entry == #[trigger] o.entry_out(o.mp()[k].fs_idx, o.mp()[k].ino, x);
                assert(o.mp()[k].fs_idx != idx);
                assert(n.eff_map(o.mp()[k].fs_idx) == o.eff_map(o.mp()[k].fs_idx));
                assert(n.entry_out(n.mp()[k].fs_idx, n.mp()[k].ino, x) == o.entry_out(o.mp()[k].fs_idx, o.mp()[k].ino, x));
            }
        }
    }
    proof fn lemma_umount_keeps_inv(o: Vfs, n: Vfs, pino: u64)
        requires o.inv(), Vfs::post_umount(o, n, pino)
        ensures n.inv(),                                                                 // [C07.tables.umount_keeps_inv]
            n.sb()[o.mp()[pino].fs_idx as int] is None,                                  // the unmounted backend's index stops resolving
            forall|k: u64| k != pino && o.mp().contains_key(k) ==> n.sb()[o.mp()[k].fs_idx as int] == o.sb()[(#[trigger] o.mp()[k]).fs_idx as int] && n.eff_map(o.mp()[k].fs_idx) == o.eff_map(o.mp()[k].fs_idx),
    {
        let idx = o.mp()[pino].fs_idx as int;
        assert forall|k: u64| #[trigger] n.mp().contains_key(k) implies n.mp()[k].fs_idx != 0 && n.mp()[k].ino <= 0xff_ffff_ffff_ffffu64 && n.sb()[n.mp()[k].fs_idx as int] is Some by {
            assert(o.mp().contains_key(k)); assert(k != pino);
        }
        assert forall|i: int| 0 <= i < 256 && (#[trigger] n.sb()[i]) is Some implies exists|k: u64| n.mp().contains_key(k) && (#[trigger] n.mp()[k]).fs_idx == i by {
            assert(o.sb()[i] is Some);
            let k = choose|k: u64| o.mp().contains_key(k) && (#[trigger] o.mp()[k]).fs_idx == i;
            assert(k != pino); assert(n.mp().contains_key(k));
        }
        assert forall|i: int| 0 <= i < 256 implies map_ok(#[trigger] n.maps()[i]) by { if i != idx { assert(map_ok(o.maps()[i])); } }
        assert forall|k: u64| #[trigger] n.mp().contains_key(k) implies exists|x: Entry| n.mp()[k].root_entry == #[trigger] n.entry_out(n.mp()[k].fs_idx, n.mp()[k].ino, x) by {
            assert(o.mp().contains_key(k)); assert(k != pino);
            let x = choose|x: Entry| o.mp()[k].root_entry == #[trigger] o.entry_out(o.mp()[k].fs_idx, o.mp()[k].ino, x);
            assert(n.eff_map(o.mp()[k].fs_idx) == o.eff_map(o.mp()[k].fs_idx));
            assert(n.entry_out(n.mp()[k].fs_idx, n.mp()[k].ino, x) == o.entry_out(o.mp()[k].fs_idx, o.mp()[k].ino, x));
        }
    }
}
impl BackFileSystem {
    // BackendFileSystem::mount(): the backend's root entry and its largest inode number
    pub uninterp spec fn res_mount(&self) -> Result<(Entry, u64)>;
    #[verifier::external_body] pub fn mount(&self) -> (r: Result<(Entry, u64)>) requires self.touch_ok() ensures r == self.res_mount() { unimplemented!() }
}
impl Vfs {
    spec fn maps(&self) -> Seq<Option<(u32, u32, u32)>> { self.mount_id_mappings.cur()@ }
    // everything but the allocation cursor is unchanged
    spec fn same_tables(&self, o: Vfs) -> bool {
        self.superblocks == o.superblocks && self.mountpoints == o.mountpoints && self.mount_id_mappings == o.mount_id_mappings && self.opts == o.opts
            && self.initialized == o.initialized && self.root == o.root && self.id_mapping == o.id_mapping && self.remove_pseudo_root == o.remove_pseudo_root
    }
}
'''
