"""Unit `asyncsrv` (C20): src/api/server/async_io.rs - Server::async_handle_message, the ten async handlers and the async reply
helpers - under THE SAME contracts as their synchronous twins in unit `server`.

Nothing of the specification is written here.  The per-opcode `wf_/want_/reply_` functions, `reply_msg` / `want_msg`, the wire
structs, the FileSystem model and every contract clause are taken from vx/units/server.py (the Fn objects of the sync twins are
looked up by name and their `requires` / `ensures` are reused verbatim, with the property prefix of the tags rewritten to C20).

Argument for C20:   sync handler |= Spec(op)   (unit `server`)   and   async handler |= Spec(op)   (this unit)
Spec(op) fixes, as a function of the request bytes and of what the filesystem returns, (a) the one FileSystem operation that
may be called and the exact value of each of its arguments (capabilities `allowed_<op>`, shared by `async_<op>` - see
fsmodel.gen_async_trait), (b) the only byte string that may leave on the reply channel (`emit_ok <==> reply_<op>`), at most
once, and never for FORGET / BATCH_FORGET.

The sync handlers the async dispatcher falls back to are emitted WITHOUT body (`external_body`): their contracts are proved in unit
`server` from the same text of server.py and are only *used* here (ASYNCSRV_FULL=1 re-verifies them in this file as well).  C20 is a
RELATIVE property: a defect of a sync handler is a C02/C03 finding of unit `server`, not a difference between the two paths.

What "same" this gives: for every request and every filesystem result, both paths can only call the operation Spec names, with the
argument values Spec names (request context after id remapping included), and can only emit the byte string Spec names, at most
once, never for FORGET/BATCH_FORGET; over-long messages, unknown opcodes and the 37 fallback opcodes are tied to the same clauses of
reply_msg / want_msg as in the sync dispatcher.  What it does NOT give (Spec leaves it open, so the two paths could differ
there without either violating Spec): which error reply - or none - a MALFORMED request gets; that a reply IS sent / the operation
IS called (contracts forbid, they cannot demand); the return value of handle_message; logging and MetricsHook calls; the content
moved through the zero-copy stream objects; interleavings, cancellation and Send-ness (R18); the writers other than the abstract
FuseDev-style Writer (prelude/transport.rs + asynctransport.rs + async_commit_model below).
Results: async_open / async_create cannot return the passthrough backing id; their result (h, o) stands for the sync result
(h, o, None) - see fsmodel.gen_async_trait.

On the tree 60f75a4+fixes the unit reports four genuine deviations (reproduced in findings/repro_async.rs, repaired by
findings/c20_async_fixes.patch, with which the unit is STATUS ok): over-long / small-reply-buffer ENOMEM path of async_handle_message
([C20.do_reply_error.noreply]), second device write after every async error reply ([once] in async_do_reply_error, [C20.reply_error.one]),
async_write refusing size > MAX_BUFFER_SIZE ([C20.reply_error.bytes] in async_write), async_create encoding the entry by hand
([C20.reply_ok.bytes] in async_create).
"""
import copy
import os
import re

from vx.api import Unit, Fn, Copy, Raw, Group
from vx import fsmodel
from vx import extract as X
from vx.units import server as SV
from vx.units.asyncdevw import commit_gated

ASYNC = 'src/api/server/async_io.rs'
ASRV = 'impl<F: AsyncFileSystem + Sync> Server<F>'
ACTX = "impl<'a, F: AsyncFileSystem, S: BitmapSlice> SrvContext<'a, F, S>"

# sync functions of unit `server` that nothing on the async path calls
NOT_NEEDED = {'handle_message', 'notify_inval_entry', 'notify_inval_inode', 'notify_resend', 'add_dirent', 'do_readdir', 'do_rename'}
# async function -> its synchronous twin (same contract)
HANDLERS = ['lookup', 'getattr', 'setattr', 'open', 'read', 'write', 'fsync', 'fsyncdir', 'create', 'fallocate']
HELPERS = ['reply_ok', 'do_reply_error', 'reply_error', 'reply_error_explicit', 'handle_attr_result']


def retag(c):
    """[C02.getattr.args] -> [C20.getattr.args]: same clause, attributed to C20 in this unit"""
    return re.sub(r'\[C\d\d\.', '[C20.', c)


ASPECTS = [('may_reply(', 'noreply'), ('.fresh()', 'fresh'), ('uniq(', 'unique'), ('err_ok(', 'errno'), ('convs_ok', 'convs'), ('touch_ok()', 'touch'),
           ('ids_ok(', 'ids'), ('emitted@.len() == 0', 'fresh'), ('frame_same', 'frame'), ('in_header ==', 'frame'), ('.context ==', 'frame'), ('.r ==', 'frame'),
           ('emitted@.len()', 'one'), ('ssize()', 'size'), ('on_init_params', 'hook')]


def tagged(clauses, fname):
    """the twin's clauses, every one carrying a C20 tag: an untagged clause of the sync contract gets `[C20.<fn>.<aspect>]` (aspect from a
    fixed keyword table; the clause text itself is untouched)"""
    out = []
    for i, c in enumerate(clauses):
        c = retag(c)
        if not re.search(r'//\s*(?:\[[^\]]+\]\s*)+$', c.rstrip()):
            asp = next((a for (k, a) in ASPECTS if k in c), 'pre%d' % i)
            c = c.rstrip() + ' // [C20.%s.%s]' % (fname, asp)
        out.append(c)
    return out


def async_commit_model(gated):
    """Writer::async_commit of the abstract transport.  gated = the contract of the sync commit (prelude/transport.rs); ungated = the same
    with the `buffered` condition removed: own ++ other's bytes go to the device whenever there are any (unit `asyncdevw` checks the real
    FuseDevWriter::async_commit against the same choice)."""
    g = 'old(self).buffered@ && ' if gated else ''
    ng = '!old(self).buffered@ || ' if gated else ''
    return """
// ---- Writer::async_commit: %s
impl<'a, S: BitmapSlice> Writer<'a, S> {
    #[verifier::external_body]
    pub fn async_commit(&mut self, other: Option<&Writer<'a, S>>) -> (r: io::Result<usize>)
        requires
            %scommit_bytes(old(self), other).len() > 0 ==> old(self).emit_pre_once(), // [once]
            %scommit_bytes(old(self), other).len() > 0 ==> may_reply(old(self).id@), // [noreply]
            %scommit_bytes(old(self), other).len() > 0 ==> wire_ok(old(self).id@, commit_bytes(old(self), other)), // [frame]
            %scommit_bytes(old(self), other).len() > 0 ==> emit_ok(old(self).id@, commit_bytes(old(self), other)), // [emit]
        ensures
            final(self).frame_same(old(self)), final(self).buf@ == old(self).buf@,
            %scommit_bytes(old(self), other).len() == 0 ==> r == Ok::<usize, io::Error>(0usize) && final(self).emitted@ == old(self).emitted@,
            %scommit_bytes(old(self), other).len() > 0 ==> match r {
                Ok(n) => n == commit_bytes(old(self), other).len() && final(self).emitted@ == old(self).emitted@.push(commit_bytes(old(self), other)),
                Err(_) => final(self).emitted@ == old(self).emitted@,
            },
    { unimplemented!() }
}
""" % ('gated like the sync commit' if gated else 'NOT gated on `buffered` (text of FuseDevWriter::async_commit)', g, g, g, g, ng, g)


def _walk(items, f):
    for it in items:
        if isinstance(it, Group):
            _walk(it.items, f)
        else:
            f(it)


def unit(root='/repo'):
    full = bool(os.environ.get('ASYNCSRV_FULL'))
    base = SV.unit(root)
    # the modules holding the async path exist only with feature async-io: they must be ENABLED under this unit's configuration
    with X.features({'async-io'}):
        X.Source(root, SV.SMOD).find_item(r'(?m)^mod async_io\s*;')
        X.Source(root, SV.FSMOD).find_item(r'(?m)^mod async_io\s*;')
    sync = {}

    def collect(it):
        if isinstance(it, Fn) and it.file in (SV.SYNC, SV.SMOD) and it.name != 'from':
            sync[it.name] = it
    _walk(base.items, collect)

    def strip(items):
        out = []
        for it in items:
            if isinstance(it, Group):
                out.append(Group(it.header, strip(it.items)))
            elif isinstance(it, Fn):
                if it.name in NOT_NEEDED and not (full and it.name in ('do_readdir', 'do_rename', 'add_dirent')):
                    continue
                f = copy.copy(it)
                f.requires = tagged(it.requires, it.name) if it.file == SV.SYNC else [retag(c) for c in it.requires]
                f.ensures = tagged(it.ensures, it.name) if it.file == SV.SYNC else [retag(c) for c in it.ensures]
                f.props, f.extra_props, f.gtag_props = ['C20'], [], {}
                if not full:
                    f.external_body, f.canary, f.splices = True, False, []
                else:
                    f.splices = [tuple([s[0], s[1], retag(s[2])] + list(s[3:])) for s in it.splices]
                out.append(f)
            elif isinstance(it, Raw):
                out.append(Raw(retag(it.text)))
            else:
                out.append(it)
        return out
    items = strip(base.items)

    notes = [base.notes]
    _, info, ms = fsmodel.gen_trait(root, [], server=True, dirsink=True)
    atrait, ainfo = fsmodel.gen_async_trait(root, notes, info, ms)
    missing = [h for h in HANDLERS if 'async_' + h not in ainfo]
    if missing or len(ainfo) != len(HANDLERS):
        raise X.ExtractError('AsyncFileSystem methods %s do not match the async handlers under contract %s' % (sorted(ainfo), HANDLERS))
    gated = commit_gated(root)
    notes.append('asyncsrv: Writer::async_commit modelled as %s' % ('gated on `buffered` (as the sync commit)' if gated else 'NOT gated on `buffered`'))
    items += [
        Raw(atrait),
        Raw(async_commit_model(gated)),
        Copy(ASYNC, r"struct AsyncZcReader<'a", subst=[('S: BitmapSlice = ()', 'S: BitmapSlice')]),
        Copy(ASYNC, r"struct AsyncZcWriter<'a", subst=[('S: BitmapSlice = ()', 'S: BitmapSlice')]),
        # the stream adapters handed to AsyncFileSystem::async_read / async_write wrap the transport exactly like ZcWriter / ZcReader
        # (`#[async_trait(?Send)] impl AsyncZeroCopyWriter for AsyncZcWriter` forwards to Writer::async_write_from_at): model as for the sync ones
        Raw('''
impl<'a, S: BitmapSlice> ZeroCopyWriter for AsyncZcWriter<'a, S> {
    open spec fn zw_buf(&self) -> Seq<u8> { self.0.buf@ }
    open spec fn zw_rest(&self) -> (int, nat, bool, bool, Seq<Seq<u8>>) { (self.0.id@, self.0.cap@, self.0.buffered@, self.0.primary@, self.0.emitted@) }
}
impl<'a, S: BitmapSlice> AsyncZeroCopyWriter for AsyncZcWriter<'a, S> { }
impl<'a, S: BitmapSlice> ZeroCopyReader for AsyncZcReader<'a, S> { }
impl<'a, S: BitmapSlice> AsyncZeroCopyReader for AsyncZcReader<'a, S> { }
'''),
    ]

    def twin(aname, sname, splices, canary=True, **kw):
        s = sync[sname]
        f = Fn(ASYNC, kw.pop('scope'), aname, requires=tagged(s.requires, sname), ensures=tagged(s.ensures, sname),
               splices=splices, props=['C20'], canary=canary, ret_name=s.ret_name, sig_subst=list(s.sig_subst), **kw)
        f.rules = ('R18',)
        f.body_resub = list(f.body_resub) + [SV.MAPERR_ANNOT]
        return f

    # ---- reply helpers (impl<'a, F: AsyncFileSystem, S: BitmapSlice> SrvContext<'a, F, S>)
    ERRSPL = [('^', 'after', 'broadcast use axiom_sbytes_len, axiom_decode_encode; proof { lemma_err_reply_frame(self.in_header.unique, err); reveal(errno_reply); }'),
              ('||', 'closure', '|| -> (k: i32) ensures k == spec_kind_errno(err.skind())', '|| encode_io_error_kind('),
              ('|_v|', 'closure', '|_v: usize| -> (q: usize) ensures q == 16')]
    helpers = [
        twin('async_reply_ok', 'reply_ok', scope=ACTX, splices=[
            ('^', 'after', 'broadcast use axiom_sbytes_len, axiom_decode_encode;'),
            ('|v|', 'closure', '|v: &T| -> (s: &[u8]) ensures s@ == v.sbytes(), s@.len() == T::ssize()'),
            ('let data3 = data.unwrap_or(&[]);', 'after',
             'proof { axiom_slice_len(data2); axiom_slice_len(data3); if 16 + data2@.len() + data3@.len() <= 0xffff_ffff { lemma_ok_reply_frame(self.in_header.unique, data2@, data3@); } }'),
            ('let result = match (data2.len(), data3.len()) {', 'before',
             '''proof {
            reveal(ok_reply);
            let m = ok_reply(self.in_header.unique, data2@, data3@);
            assert(m =~= header.sbytes() + data2@ + data3@); // [C20.reply_ok.header]
            if data2@.len() == 0 { assert(m =~= header.sbytes() + data3@); }
            if data3@.len() == 0 { assert(m =~= header.sbytes() + data2@); }
            if data2@.len() == 0 && data3@.len() == 0 { assert(m =~= header.sbytes()); }
        }''')]),
        twin('async_do_reply_error', 'do_reply_error', scope=ACTX, splices=ERRSPL),
        twin('async_reply_error', 'reply_error', scope=ACTX, splices=[], canary=False),
        twin('async_reply_error_explicit', 'reply_error_explicit', scope=ACTX, splices=[], canary=False),
        twin('async_handle_attr_result', 'handle_attr_result', scope=ACTX, splices=[], canary=False),
    ]
    items.append(Group("impl<'a, F: AsyncFileSystem, S: BitmapSlice> SrvContext<'a, F, S> {", helpers))

    # ---- handlers and the dispatcher (impl<F: AsyncFileSystem + Sync> Server<F>)
    E0 = ('^', 'after', 'broadcast use axiom_sbytes_len, lemma_err_reply_frame; let ghost rem0 = ctx.r.rem@; let ghost hd0 = ctx.in_header;')

    def name_hint(szexpr, sz):
        return ('ServerUtil::get_message_body(&mut ctx.r, &ctx.in_header, %s)?;' % szexpr, 'after',
                'proof { assert(buf@ =~= rem0.subrange(%d, %d + (hd0.len as int - 40 - %d))); }' % (sz, sz, sz))
    HCL = SV.HCLOSURE
    hspl = {
        'lookup': [E0, name_hint('0', 0), ('^', 'after', 'proof { reveal(errno_reply); }')],
        'open': [E0, HCL],
        'create': [E0, name_hint('size_of::<CreateIn>()', 16), HCL],
        'write': [E0, ('^', 'after', 'proof { reveal(errno_reply); }')],
        'read': [E0,
                 ('let out = OutHeader {', 'before',
                  'proof { assert(data_writer.0.buf@ =~= self.fs.res_read_data()); assert(count == self.fs.res_read_data().len()); assert(count <= MAX_REPLY_CAP); }'),
                 ('ctx.w\n                    .async_commit(Some(&data_writer.0))', 'before',
                  'proof { lemma_read_reply_frame(ctx.in_header.unique, self.fs.res_read_data()); assert(commit_bytes(&ctx.w, Some(&data_writer.0)) =~= hdr_bytes(16 + self.fs.res_read_data().len(), 0, ctx.in_header.unique) + self.fs.res_read_data()); } // [C20.read.bytes][C20.read.frame]')],
    }
    hs = [twin('async_' + op, op, scope=ASRV, splices=hspl.get(op, [E0])) for op in HANDLERS]
    hm = sync['handle_message']
    hs.append(twin('async_handle_message', 'handle_message', scope=ASRV,
                   splices=[(s[0], s[1], retag(s[2])) for s in hm.splices]))
    items.append(Group('impl<F: AsyncFileSystem> Server<F> {', hs))

    u = Unit('asyncsrv', items, preludes=list(base.preludes) + ['asynctransport.rs'],
             generic_tags={k: ['C20'] for k in list(base.generic_tags) + ['cap', 'touch', 'ids', 'emit', 'frame', 'noreply', 'once', 'assert', 'store']},
             notes='\n'.join(notes))
    u.cfg_features = {'async-io'}
    return u
