"""Unit `fhcmp` (C08 + C05 + C16), two parts on the real text.

PART 1 (C08, module `fh` of the generated file)  src/passthrough/file_handle.rs: the ORDER on file handles.
  The passthrough inode store finds an inode by its file handle through `by_handle: BTreeMap<Arc<FileHandle>, Inode>` (units inodes / ptlookup).
  "While valid an inode number denotes one host file and a host file has one inode number" needs that map to be keyed by handle VALUES: the
  order must be a total order whose `Equal` is equality of (mount id, handle type, handle length, handle bytes).
    * `impl Ord / PartialOrd / PartialEq for CFileHandle` (cmp / partial_cmp / eq) are verified on their real text against the spec-level
      comparison `hv_cmp(val(self), val(other))`: handle_bytes, then handle_type, then the first handle_bytes bytes of f_handle
      LEXICOGRAPHICALLY (std: "Implements comparison of slices lexicographically").  The pointer-equality shortcut is justified by the model
      fact "one address, one content" (M3).  Both raw slice windows `f_handle.as_slice(length)` are PROVED in bounds: `length <= room`.
    * the accessors `__IncompleteArrayField::{as_ptr, as_mut_ptr, as_slice, as_mut_slice}` are extracted; their pointer casts /
      slice::from_raw_parts[_mut] are model calls whose in-bounds precondition is proved from the accessor's own `requires`.
    * what `#[derive(PartialOrd, Ord, PartialEq, Eq)] struct FileHandle { mnt_id, handle }` makes of them: the derive expansion is written out
      from the struct's actual field and derive lists (rule R80) and VERIFIED against `fh_cmp` (mount id first, then the handle).
    * the order laws are CHECKED lemmas over the spec: Equal <=> all four components equal <=> equal values; antisymmetry
      (cmp(b, a) is the reverse of cmp(a, b)); transitivity (<= and <); totality; eq and partial_cmp agree with cmp (clauses of the functions).
  WHERE THE HANDLE INVARIANT IS ASSUMED: every comparison function `requires` both handles to be well formed - `handle_bytes <= bytes
  allocated for f_handle` (CFileHandle::wf).  Unit fhandle PROVES it for every handle from_name_at / from_fd / Default return
  ([C05.fh.from_name_at.wf]: the kernel never reports more bytes than the buffer it was given, the buffer has at most MAX_HANDLE_SIZE bytes);
  that BTreeMap only ever compares such handles (FileHandle has no other constructor; Clone copies the allocation) is not mechanised.

PART 2 (C05 / C16)  src/passthrough/sync_io.rs, the four handlers no unit covered, over the models of unit ptops (imported, not copied):
    * setupmapping (DAX window): the inode is re-opened through open_inode with O_RDWR exactly when the request's flags carry
      SetupmappingFlags::WRITE - the ABI constant 1 (C13) -, else O_RDONLY; `map` of the cache handler gets foffset, moffset, len, flags of the
      request unchanged and THAT descriptor, once; its result is the reply; a failed re-open is the reply and nothing is mapped.
    * removemapping: `unmap` gets the request list unchanged, once; its result is the reply.
    * readdir / readdirplus outside their closures: with no_readdir an empty reply and nothing done; otherwise ONE call of do_readdir with the
      request's inode / handle / size / offset unchanged and a callback that closes over exactly this directory and the client's add_entry
      (rule R79; the callbacks themselves are the lifted functions of unit ptlookup, do_readdir is unit ptreaddir); its result is the reply.

MODEL / ASSUMPTIONS (everything below is visible in the generated file / assumption scan)
  M1 FamStructWrapper<CFileHandleInner>, __IncompleteArrayField (H4 of unit fhandle, imported textually): view = (allocated bytes `cap`,
     handle_bytes, handle_type, bytes); room() / data() / addr() of the array.
  M2 raw pointer work of the accessors: `self as *const Self as *const T` = the address of the array (vx_fam_ptr, nothing is computed);
     slice::from_raw_parts(p, len) = the first len elements at p, REQUIRES p to be the array's address and len <= room (its safety condition).
  M3 `axiom_one_place`: two live shared references to arrays at the SAME address see the same contents and the same room.
  M4 std: `<[i8] as Ord>::cmp` is the lexicographic order `lex_cmp` (slice docs); `*const T == *const T` compares addresses; `Ordering == Ordering`
     is equality; integer cmp / partial_cmp / == come from vstd.
  M5 rule R80: the shape of rustc's derive expansion (lexicographic in declaration order; eq = all fields equal).
  M6 the cache handler (trait FsCacheReqHandler: map / unmap) and do_readdir are capability-guarded model calls recorded in ptops's `Host` token
     (numbers 40 / 41 / 42) with uninterpreted results; open_inode is contract-only here (its text is verified in unit ptops against textually
     this contract); the `File` setupmapping re-opened is closed when the handler returns (scope exit, not modelled here: descriptor accounting is C15).
  M7 the spec FIXES the order of the components (mount id, length, type, bytes - the code's): comparing the type before the length would be another total order
     and is reported at [C08.fhcmp.cmp.spec] (equal_iff still holds); likewise a re-ordering of FileHandle's fields.  A per-call postcondition cannot say
     "some total order": antisymmetry and transitivity relate several calls, so they are proved of ONE spec function the code is tied to.
  M8 the literals of the SetupmappingFlags block get the block's type inside the generated spec function all_bits() (flagsmodel writes them bare; same values).
  M9 rule R79 (closure -> model object over its captures), the sig substitutions `&mut dyn FsCacheReqHandler` -> generic, `&mut dyn FnMut(DirEntry..)` -> opaque
     sink object; rules of unit ptops (R23, R51, R53, R55, R56).
"""
import copy
import re

from vx.api import Unit, Fn, Copy, Raw, Group
from vx import flagsmodel, extract as X
from vx import fhcmprules as CR
from vx.units import fhandle as FHU
from vx.units import ptops as PTOPS

FH = FHU.FH
PTS = PTOPS.PTS
IMPL = PTOPS.IMPL
FSIMPL = PTOPS.FSIMPL
VIRTIO = 'src/abi/virtio_fs.rs'
NR_MAP, NR_UNMAP, NR_READDIR = 40, 41, 42


def _cut(text, start, end, what):
    a = text.find(start)
    b = text.find(end, a + 1) if a >= 0 else -1
    if a < 0 or b < 0:
        raise X.ExtractError('model text %s not found (markers %r .. %r)' % (what, start, end))
    return text[a:b]


def fam_models(root):
    """H4 of unit fhandle, imported: FhView + FamStructWrapper / __IncompleteArrayField.  The two accessor MODELS (as_ptr, as_slice) are taken out:
    this unit extracts the accessors themselves - against the same contracts (checked textually)."""
    view = _cut(FHU.PRE, '// ===== what the kernel keeps in', '// ===== the host as THIS request sees it', 'FhView (vx/units/fhandle.py)')
    fam = _cut(FHU.PRE, '// ===== vmm-sys-util FamStructWrapper', '// ===== error sources of MPRError::from', 'FamStructWrapper (vx/units/fhandle.py)')
    a = fam.find('    // `unsafe fn as_ptr(&self)`')
    b = fam.find('}\npub open spec fn zeros')
    if a < 0 or b < a:
        raise X.ExtractError('accessor models of __IncompleteArrayField not found in vx/units/fhandle.py')
    acc = fam[a:b]
    for need in ('ensures r as int == self.addr()', 'requires len as nat <= self.room()', 'ensures r@ == self.data().take(len as int)'):
        if need not in acc:
            raise X.ExtractError('accessor model of unit fhandle changed: %r not found' % need)
    fam = fam[:a] + fam[b:]
    return view + fam % dict(FAM_MAX=FHU.fam_macro_args(root)[5])


SPEC = r'''
// ===== M2: the raw pointer work of the accessors
// `self as *const __IncompleteArrayField<T> as *const T`: the address of the array is the address of the (zero-sized) field; nothing is computed
#[verifier::external_body] pub fn vx_fam_ptr<T>(a: &__IncompleteArrayField<T>) -> (r: *const T) ensures r as int == a.addr() { unimplemented!() }
#[verifier::external_body] pub fn vx_fam_ptr_mut<T>(a: &mut __IncompleteArrayField<T>) -> (r: *mut T) ensures r as int == old(a).addr(), *final(a) == *old(a) { unimplemented!() }
// slice::from_raw_parts(p, len): "data must point to len consecutive properly initialized values of type T", inside one allocation
#[verifier::external_body] pub fn vx_from_raw_parts<'a, T>(a: &'a __IncompleteArrayField<T>, p: *const T, len: usize) -> (r: &'a [T])
    // the window starts at the array; len elements are allocated behind the header
    requires p as int == a.addr(), // [C08.fhcmp.from_raw_parts.at_array]
             len as nat <= a.room(), // [C08.fhcmp.from_raw_parts.in_bounds]
    ensures r@ == a.data().take(len as int) { unimplemented!() }
#[verifier::external_body] pub fn vx_from_raw_parts_mut<'a, T>(p: *mut T, a: &'a mut __IncompleteArrayField<T>, len: usize) -> (r: &'a mut [T])
    requires p as int == old(a).addr(), // [C08.fhcmp.from_raw_parts_mut.at_array]
             len as nat <= old(a).room(), // [C08.fhcmp.from_raw_parts_mut.in_bounds]
    ensures r@ == old(a).data().take(len as int) { unimplemented!() }
// ===== M3: one address, one content
pub axiom fn axiom_one_place()
    ensures forall|a: &__IncompleteArrayField<i8>, b: &__IncompleteArrayField<i8>| #[trigger] a.addr() == #[trigger] b.addr() ==> a.data() == b.data() && a.room() == b.room();
// ===== M4: std comparisons Verus has no specification for
pub axiom fn axiom_std_cmp()
    ensures <[i8] as OrdSpec>::obeys_cmp_spec(),
            forall|a: &[i8], b: &[i8]| #[trigger] a.cmp_spec(b) == lex_cmp(a@, b@),             // "Implements comparison of slices lexicographically"
            <*const i8 as PartialEqSpec>::obeys_eq_spec(),
            forall|a: *const i8, b: *const i8| #[trigger] a.eq_spec(&b) == (a as int == b as int),   // thin raw pointers compare by address
            <Ordering as PartialEqSpec>::obeys_eq_spec(),
            forall|a: Ordering, b: Ordering| #[trigger] a.eq_spec(&b) == (a == b);
// ===== the VALUE of a handle: what a `struct file_handle` says (the bytes behind handle_bytes do not belong to it)
pub ghost struct HVal { pub len: u32, pub ty: i32, pub bytes: Seq<i8> }
pub ghost struct FhVal { pub mnt: u64, pub h: HVal }
pub open spec fn hval_wf(v: HVal) -> bool { v.bytes.len() == v.len as nat }
impl CFileHandle {
    // THE ASSUMED INVARIANT: the handle claims no more bytes than are allocated (proved for from_name_at / from_fd / Default in unit fhandle); the view holds the allocation
    pub open spec fn wf(&self) -> bool { self.wrapper@.handle_bytes as nat <= self.wrapper@.cap && self.wrapper@.bytes.len() == self.wrapper@.cap }
    pub open spec fn val(&self) -> HVal {
        HVal { len: self.wrapper@.handle_bytes, ty: self.wrapper@.handle_type, bytes: self.wrapper@.bytes.take(self.wrapper@.handle_bytes as int) }
    }
}
impl FileHandle {
    pub open spec fn val(&self) -> FhVal { FhVal { mnt: self.mnt_id, h: self.handle.val() } }
}
// ===== the order, written from the property: lexicographic over (mount id, handle length, handle type, handle bytes)
pub open spec fn int_cmp(a: int, b: int) -> Ordering { if a < b { Ordering::Less } else if a == b { Ordering::Equal } else { Ordering::Greater } }
pub open spec fn rev(o: Ordering) -> Ordering { match o { Ordering::Less => Ordering::Greater, Ordering::Equal => Ordering::Equal, Ordering::Greater => Ordering::Less } }
pub open spec fn le(o: Ordering) -> bool { o != Ordering::Greater }
pub open spec fn lex_cmp(a: Seq<i8>, b: Seq<i8>) -> Ordering
    decreases a.len()
{
    if a.len() == 0 && b.len() == 0 { Ordering::Equal }
    else if a.len() == 0 { Ordering::Less }
    else if b.len() == 0 { Ordering::Greater }
    else if a[0] < b[0] { Ordering::Less }
    else if a[0] > b[0] { Ordering::Greater }
    else { lex_cmp(a.skip(1), b.skip(1)) }
}
pub open spec fn hv_cmp(a: HVal, b: HVal) -> Ordering {
    if a.len != b.len { int_cmp(a.len as int, b.len as int) }
    else if a.ty != b.ty { int_cmp(a.ty as int, b.ty as int) }
    else { lex_cmp(a.bytes, b.bytes) }
}
pub open spec fn fh_cmp(a: FhVal, b: FhVal) -> Ordering {
    if a.mnt != b.mnt { int_cmp(a.mnt as int, b.mnt as int) } else { hv_cmp(a.h, b.h) }
}
// ===== the order laws (CHECKED)
pub proof fn lemma_lex_equal(a: Seq<i8>, b: Seq<i8>)
    ensures lex_cmp(a, b) == Ordering::Equal <==> a =~= b, // [C08.fhcmp.law.lex_equal_iff]
    decreases a.len()
{
    if a.len() > 0 && b.len() > 0 {
        lemma_lex_equal(a.skip(1), b.skip(1));
        if a[0] == b[0] && a.skip(1) =~= b.skip(1) {
            assert forall|i: int| 0 <= i < a.len() implies a[i] == b[i] by { if i > 0 { assert(a.skip(1)[i - 1] == b.skip(1)[i - 1]); } }
            assert(a.len() == a.skip(1).len() + 1 && b.len() == b.skip(1).len() + 1);
        }
    }
}
pub proof fn lemma_lex_antisym(a: Seq<i8>, b: Seq<i8>)
    ensures lex_cmp(b, a) == rev(lex_cmp(a, b)), // [C08.fhcmp.law.lex_antisym]
    decreases a.len()
{
    if a.len() > 0 && b.len() > 0 { lemma_lex_antisym(a.skip(1), b.skip(1)); }
}
pub proof fn lemma_lex_trans(a: Seq<i8>, b: Seq<i8>, c: Seq<i8>)
    ensures le(lex_cmp(a, b)) && le(lex_cmp(b, c)) ==> le(lex_cmp(a, c)), // [C08.fhcmp.law.lex_trans]
            le(lex_cmp(a, b)) && le(lex_cmp(b, c)) && (lex_cmp(a, b) == Ordering::Less || lex_cmp(b, c) == Ordering::Less) ==> lex_cmp(a, c) == Ordering::Less, // [C08.fhcmp.law.lex_trans_strict]
    decreases a.len()
{
    if a.len() > 0 && b.len() > 0 && c.len() > 0 { lemma_lex_trans(a.skip(1), b.skip(1), c.skip(1)); }
}
pub proof fn lemma_lex_refl()
    ensures forall|a: Seq<i8>| #[trigger] lex_cmp(a, a) == Ordering::Equal
{
    assert forall|a: Seq<i8>| #[trigger] lex_cmp(a, a) == Ordering::Equal by { lemma_lex_equal(a, a); }
}
pub proof fn lemma_hv_equal(a: HVal, b: HVal)
    requires hval_wf(a), hval_wf(b)
    ensures hv_cmp(a, b) == Ordering::Equal <==> (a.ty == b.ty && a.len == b.len && a.bytes =~= b.bytes), // [C08.fhcmp.law.handle_equal_iff_components]
            hv_cmp(a, b) == Ordering::Equal <==> a == b, // [C08.fhcmp.law.handle_equal_iff_same_value]
{ lemma_lex_equal(a.bytes, b.bytes); }
pub proof fn lemma_hv_antisym(a: HVal, b: HVal)
    ensures hv_cmp(b, a) == rev(hv_cmp(a, b)), // [C08.fhcmp.law.handle_antisym]
{ lemma_lex_antisym(a.bytes, b.bytes); }
pub proof fn lemma_hv_trans(a: HVal, b: HVal, c: HVal)
    ensures le(hv_cmp(a, b)) && le(hv_cmp(b, c)) ==> le(hv_cmp(a, c)), // [C08.fhcmp.law.handle_trans]
            le(hv_cmp(a, b)) && le(hv_cmp(b, c)) && (hv_cmp(a, b) == Ordering::Less || hv_cmp(b, c) == Ordering::Less) ==> hv_cmp(a, c) == Ordering::Less, // [C08.fhcmp.law.handle_trans_strict]
{ lemma_lex_trans(a.bytes, b.bytes, c.bytes); }
// the key type of InodeStore::by_handle
pub proof fn lemma_fh_equal(a: FhVal, b: FhVal)
    requires hval_wf(a.h), hval_wf(b.h)
    ensures fh_cmp(a, b) == Ordering::Equal <==> (a.mnt == b.mnt && a.h.ty == b.h.ty && a.h.len == b.h.len && a.h.bytes =~= b.h.bytes), // [C08.fhcmp.law.equal_iff_components]
            fh_cmp(a, b) == Ordering::Equal <==> a == b, // [C08.fhcmp.law.equal_iff_same_value]
{ lemma_hv_equal(a.h, b.h); }
pub proof fn lemma_fh_antisym(a: FhVal, b: FhVal)
    ensures fh_cmp(b, a) == rev(fh_cmp(a, b)), // [C08.fhcmp.law.antisym]
{ lemma_hv_antisym(a.h, b.h); }
pub proof fn lemma_fh_trans(a: FhVal, b: FhVal, c: FhVal)
    ensures le(fh_cmp(a, b)) && le(fh_cmp(b, c)) ==> le(fh_cmp(a, c)), // [C08.fhcmp.law.trans]
            le(fh_cmp(a, b)) && le(fh_cmp(b, c)) && (fh_cmp(a, b) == Ordering::Less || fh_cmp(b, c) == Ordering::Less) ==> fh_cmp(a, c) == Ordering::Less, // [C08.fhcmp.law.trans_strict]
{ lemma_hv_trans(a.h, b.h, c.h); }
pub proof fn lemma_fh_total(a: FhVal, b: FhVal)
    ensures fh_cmp(a, b) == Ordering::Less || fh_cmp(a, b) == Ordering::Equal || fh_cmp(a, b) == Ordering::Greater, // [C08.fhcmp.law.total]
            (fh_cmp(a, b) == Ordering::Less) != (fh_cmp(a, b) == Ordering::Greater) || fh_cmp(a, b) == Ordering::Equal,
{}
// what C08 needs from the key order of `by_handle: BTreeMap<Arc<FileHandle>, Inode>`: a probe that answers Equal has found THE entry of that
// host file - two well-formed handles the order cannot tell apart are the same (mount id, type, length, bytes)
pub proof fn lemma_key_is_value(a: FileHandle, b: FileHandle)
    requires a.handle.wf(), b.handle.wf()
    ensures fh_cmp(a.val(), b.val()) == Ordering::Equal <==> a.val() == b.val(), // [C08.fhcmp.law.key_is_value]
{ lemma_fh_equal(a.val(), b.val()); }
'''

HINT = 'proof { axiom_std_cmp(); axiom_one_place(); lemma_lex_refl(); }      // M3 / M4 and reflexivity of the byte order; anchor-free'


def derived_impls(root):
    """R80: the derive expansion of FileHandle, verified (Raw with a canary copy each)."""
    d = CR.r80_derive_cmp(root, FH, 'FileHandle', method_eq=('CFileHandle',))
    wf = ' && '.join('self.%s.wf() && other.%s.wf()' % (f, f) for (f, ty) in d['fields'] if ty == 'CFileHandle')
    fns = [
        ('cmp', '-> (r: Ordering)', d['cmp'],
         ['r == fh_cmp(self.val(), other.val()), // [C08.fhcmp.fh_cmp.spec]',
          '(r == Ordering::Equal) <==> (self.mnt_id == other.mnt_id && self.handle.val().ty == other.handle.val().ty && self.handle.val().len == other.handle.val().len && self.handle.val().bytes =~= other.handle.val().bytes), // [C08.fhcmp.fh_cmp.equal_iff]']),
        ('partial_cmp', '-> (r: Option<Ordering>)', d['partial_cmp'],
         ['r == Some(fh_cmp(self.val(), other.val())), // [C08.fhcmp.fh_partial_cmp.consistent]']),
        ('eq', '-> (r: bool)', d['eq'],
         ['r == (fh_cmp(self.val(), other.val()) == Ordering::Equal), // [C08.fhcmp.fh_eq.consistent]',
          'r == (self.val() == other.val()), // [C08.fhcmp.fh_eq.same_value]']),
    ]
    out = []
    for (name, ret, body, ens) in fns:
        def text(nm, extra):
            return ('impl FileHandle {      // %s\nfn %s(&self, other: &Self) %s\n    requires %s, // [C08.fhcmp.fh_%s.wf_assumed]\n    ensures\n        %s\n%s{\n    proof { axiom_std_cmp(); lemma_fh_equal(self.val(), other.val()); }\n    %s\n}\n}\n'
                    % (d['log'], nm, ret, wf, name, '\n        '.join(ens), extra, body))
        r = Raw(text(name, ''))
        r.canary = dict(name='FileHandle::' + name, text=text(name + '__canary', '        false, // [canary]\n'), props=['C08'])
        out.append(r)
    return out, d['log']


def part1(root):
    cmp_req = ['self.wf() && other.wf() // [C08.fhcmp.cmp.wf_assumed]']
    G_ACC = Group('impl<T> __IncompleteArrayField<T> {', [
        Fn(FH, 'impl<T> __IncompleteArrayField<T>', 'as_ptr', props=['C08'], canary=True,
           body_resub=[(r'self\s+as\s+\*const\s+__IncompleteArrayField<T>\s+as\s+\*const\s+T', 'vx_fam_ptr(self)', 'ABSTRACT pointer cast: the address of the array (model vx_fam_ptr, M2)')],
           ensures=['r as int == self.addr() // [C08.fhcmp.as_ptr.addr]']),
        Fn(FH, 'impl<T> __IncompleteArrayField<T>', 'as_mut_ptr', props=['C08'], canary=True,
           body_resub=[(r'self\s+as\s+\*mut\s+__IncompleteArrayField<T>\s+as\s+\*mut\s+T', 'vx_fam_ptr_mut(self)', 'ABSTRACT pointer cast: the address of the array (model vx_fam_ptr_mut, M2)')],
           ensures=['r as int == old(self).addr() // [C08.fhcmp.as_mut_ptr.addr]', '*final(self) == *old(self)']),
        Fn(FH, 'impl<T> __IncompleteArrayField<T>', 'as_slice', props=['C08'], canary=True,
           body_resub=[(r'(?:::)?std::slice::from_raw_parts\(', 'vx_from_raw_parts(self, ', 'ABSTRACT slice::from_raw_parts(p, len) -> model over the owning array; its safety condition (p is the array, len elements allocated) is a PROVED precondition (M2)')],
           requires=['len as nat <= self.room() // [C08.fhcmp.as_slice.in_bounds]'],
           ensures=['r@ == self.data().take(len as int) // [C08.fhcmp.as_slice.window]']),
        Fn(FH, 'impl<T> __IncompleteArrayField<T>', 'as_mut_slice', props=['C08'], canary=True,
           body_resub=[(r'(?:::)?std::slice::from_raw_parts_mut\(\s*([^,]+),', r'vx_from_raw_parts_mut(\1, self,', 'ABSTRACT slice::from_raw_parts_mut(p, len) -> model over the owning array; safety condition proved (M2)')],
           requires=['len as nat <= old(self).room() // [C08.fhcmp.as_mut_slice.in_bounds]'],
           ensures=['r@ == old(self).data().take(len as int) // [C08.fhcmp.as_mut_slice.window]']),
    ])
    EQ_IFF = '(r == Ordering::Equal) <==> (self.val().ty == other.val().ty && self.val().len == other.val().len && self.val().bytes =~= other.val().bytes)'
    G_CMP = Group('impl CFileHandle {  // impl Ord / PartialOrd / PartialEq for CFileHandle', [
        Fn(FH, 'impl Ord for CFileHandle', 'cmp', props=['C08'], canary=True, requires=cmp_req,
           splices=[('^', 'after', HINT + '\nproof { lemma_hv_equal(self.val(), other.val()); }')],
           ensures=['r == hv_cmp(self.val(), other.val()) // [C08.fhcmp.cmp.spec]',
                    EQ_IFF + ' // [C08.fhcmp.cmp.equal_iff]']),
        Fn(FH, 'impl PartialOrd for CFileHandle', 'partial_cmp', props=['C08'], canary=True, requires=['self.wf() && other.wf() // [C08.fhcmp.partial_cmp.wf_assumed]'],
           ensures=['r == Some(hv_cmp(self.val(), other.val())) // [C08.fhcmp.partial_cmp.consistent]']),
        Fn(FH, 'impl PartialEq for CFileHandle', 'eq', props=['C08'], canary=True, requires=['self.wf() && other.wf() // [C08.fhcmp.eq.wf_assumed]'],
           splices=[('^', 'after', 'proof { axiom_std_cmp(); lemma_hv_equal(self.val(), other.val()); }')],
           ensures=['r == (hv_cmp(self.val(), other.val()) == Ordering::Equal) // [C08.fhcmp.eq.consistent]',
                    'r == (self.val() == other.val()) // [C08.fhcmp.eq.same_value]']),
    ])
    derived, log = derived_impls(root)
    return Group('pub mod fh {      // ===== PART 1: the order on file handles (src/passthrough/file_handle.rs); std::cmp::Ordering, not the atomic one\n'
                 'use super::*;\nuse std::cmp::Ordering;\nuse vstd::std_specs::cmp::{OrdSpec, PartialEqSpec, PartialOrdSpec};', [
        Copy(FH, r'pub const MAX_HANDLE_SIZE\b'),
        Copy(FH, r'pub struct CFileHandleInner\b'),
        Copy(FH, r'type CFileHandleWrapper\b'),
        Copy(FH, r'struct CFileHandle\b'),
        Copy(FH, r'pub struct FileHandle\b'),
        Raw(fam_models(root)), Raw(SPEC), G_ACC, G_CMP,
    ] + derived), log


# ------------------------------------------------------------------------------------------------------------------------- part 2
PRE2 = r'''
// ===== unit fhcmp: the DAX window handler of the transport (src/transport/fs_cache_req_handler.rs, trait FsCacheReqHandler) - capability in, uninterpreted result out
pub uninterp spec fn dax_map_ok(foffset: u64, moffset: u64, len: u64, flags: u64, fd: i32) -> bool;
pub uninterp spec fn res_dax_map(foffset: u64, moffset: u64, len: u64, flags: u64, fd: i32) -> io::Result<()>;
pub uninterp spec fn dax_unmap_ok(requests: Seq<virtio_fs::RemovemappingOne>) -> bool;
pub uninterp spec fn res_dax_unmap(requests: Seq<virtio_fs::RemovemappingOne>) -> io::Result<()>;
// the access mode of the re-open behind a DAX mapping, from the property: O_RDWR (2) exactly when the request's flags carry WRITE - bit 0 of the
// virtio-fs ABI (FUSE_SETUPMAPPING_FLAG_WRITE = 1) -, else O_RDONLY (0)
pub open spec fn dax_open_flags(flags: u64) -> i32 { if flags & 1u64 != 0 { 2i32 } else { 0i32 } }
pub trait FsCacheReqHandler {
    fn map(&mut self, foffset: u64, moffset: u64, len: u64, flags: u64, fd: RawFd, Tracked(hs): Tracked<&mut Host>) -> (r: io::Result<()>)
        requires dax_map_ok(foffset, moffset, len, flags, fd), // [C05.dax.hostcall.map]
        ensures r == res_dax_map(foffset, moffset, len, flags, fd), same_creds(*old(hs), *final(hs)), final(hs).pending == old(hs).pending,
                final(hs).rets == old(hs).rets.push(Ret { nr: %(NR_MAP)d, ret: if r is Ok { 0int } else { -1int }, errno: final(hs).errno }),
    ;
    fn unmap(&mut self, requests: Vec<virtio_fs::RemovemappingOne>, Tracked(hs): Tracked<&mut Host>) -> (r: io::Result<()>)
        requires dax_unmap_ok(requests@), // [C05.dax.hostcall.unmap]
        ensures r == res_dax_unmap(requests@), same_creds(*old(hs), *final(hs)), final(hs).pending == old(hs).pending,
                final(hs).rets == old(hs).rets.push(Ret { nr: %(NR_UNMAP)d, ret: if r is Ok { 0int } else { -1int }, errno: final(hs).errno }),
    ;
}
// ===== unit fhcmp: the directory callbacks.  The client's add_entry is an opaque sink; the closure readdir / readdirplus build around it is an object
// known by what it closes over (rule R79): plain or plus, the directory whose entries it looks up, the sink it hands them to
#[verifier::external_body] pub struct DirSink { _p: u8 }          // &mut dyn FnMut(DirEntry) -> io::Result<usize>
#[verifier::external_body] pub struct DirSinkPlus { _p: u8 }      // &mut dyn FnMut(DirEntry, Entry) -> io::Result<usize>
impl DirSink { pub uninterp spec fn id(&self) -> int; }
impl DirSinkPlus { pub uninterp spec fn id(&self) -> int; }
pub ghost struct DirCbView { pub plus: bool, pub dir: Inode, pub sink: int }
#[verifier::external_body] pub struct DirCb<'a> { _p: PhantomData<&'a u8> }
impl<'a> DirCb<'a> { pub uninterp spec fn view(&self) -> DirCbView; }
// the closure of readdir: |dir_entry, _dir| { dir_entry.ino = lookup-and-forget under `dir`; add_entry(dir_entry) }  (unit ptlookup: readdir_entry)
#[verifier::external_body] pub fn vx_readdir_cb<'a, S>(fs: &'a PassthroughFs<S>, dir: Inode, sink: &'a mut DirSink) -> (r: DirCb<'a>)
    ensures r@ == (DirCbView { plus: false, dir: dir, sink: old(sink).id() }) { unimplemented!() }
// the closure of readdirplus: |dir_entry, _dir| { entry = lookup under `dir`; add_entry(dir_entry, entry); forget if not delivered }  (unit ptlookup: readdirplus_entry)
#[verifier::external_body] pub fn vx_readdirplus_cb<'a, S>(fs: &'a PassthroughFs<S>, dir: Inode, sink: &'a mut DirSinkPlus) -> (r: DirCb<'a>)
    ensures r@ == (DirCbView { plus: true, dir: dir, sink: old(sink).id() }) { unimplemented!() }
impl<S: BitmapSlice + Send + Sync> PassthroughFs<S> {
    // do_readdir is verified in unit ptreaddir (kernel directory-stream model); here: capability in, uninterpreted result out, one pinned call
    pub uninterp spec fn do_readdir_ok(&self, inode: Inode, handle: Handle, size: u32, offset: u64, cb: DirCbView) -> bool;
    pub uninterp spec fn res_do_readdir(&self, inode: Inode, handle: Handle, size: u32, offset: u64, cb: DirCbView) -> io::Result<()>;
    #[verifier::external_body] fn do_readdir(&self, inode: Inode, handle: Handle, size: u32, offset: u64, add_entry: &mut DirCb<'_>, Tracked(hs): Tracked<&mut Host>) -> (r: io::Result<()>)
        requires self.do_readdir_ok(inode, handle, size, offset, old(add_entry)@), // [C16.ptwrap.hostcall.do_readdir]
        ensures r == self.res_do_readdir(inode, handle, size, offset, old(add_entry)@), same_creds(*old(hs), *final(hs)), final(hs).pending == old(hs).pending,
                final(hs).rets == old(hs).rets.push(Ret { nr: %(NR_READDIR)d, ret: if r is Ok { 0int } else { -1int }, errno: final(hs).errno }),
    { unimplemented!() }
}
''' % dict(NR_MAP=NR_MAP, NR_UNMAP=NR_UNMAP, NR_READDIR=NR_READDIR)


def _find_fn(items, name):
    for it in items:
        if isinstance(it, Group):
            r = _find_fn(it.items, name)
            if r:
                return r
        elif isinstance(it, Fn) and it.name == name:
            return it
    return None


def part2(root):
    pu = PTOPS.unit(root)
    # everything unit ptops emits up to and including its model text: the copied ABI / config items, the flags models, PRE
    k = [i for i, it in enumerate(pu.items) if isinstance(it, Raw) and it.text == PTOPS.PRE]
    if len(k) != 1:
        raise X.ExtractError('model text PRE of unit ptops not found among its items')
    head = list(pu.items[:k[0]])
    FIELD = 'pub no_opendir: AtomicBool,'
    if PTOPS.PRE.count(FIELD) != 1:
        raise X.ExtractError('struct PassthroughFs of unit ptops: field no_opendir not found')
    pre = PTOPS.PRE.replace(FIELD, FIELD + ' pub no_readdir: AtomicBool,')       # the one further switch the readdir wrappers read
    safe = [it for it in pu.items if isinstance(it, Raw) and it.text.startswith('pub open spec fn safe_mode(')]
    if len(safe) != 1:
        raise X.ExtractError('safe_mode of unit ptops not found')
    open_inode = copy.copy(_find_fn(pu.items, 'open_inode'))
    if open_inode is None:
        raise X.ExtractError('open_inode of unit ptops not found')
    open_inode.external_body = True          # verified in unit ptops against textually this contract
    open_inode.canary = False
    open_inode.splices = []

    S = 'old(hs).rets.len() == 0'
    ROOT = 'root_thread(*old(hs))'
    N = 'final(hs).rets.len()'
    R0 = 'final(hs).rets[0]'
    CREDS = PTOPS.CREDS_KEPT

    def F(name, extra_callees, hooks=None, **kw):
        f = PTOPS.F(PTS, FSIMPL, name, hooks=hooks, **kw)
        f.ghost_token = dict(f.ghost_token, callees=list(f.ghost_token['callees']) + list(extra_callees))
        return f
    # the flag word of the re-open: O_RDWR (2) exactly when the request's flags carry SetupmappingFlags::WRITE = 1 (virtio-fs ABI), else O_RDONLY (0); open_inode adds O_CLOEXEC
    OFL = 'dax_open_flags(flags)'
    DAXFD = 'reopen_fd(inode, self.io_flags(%s) | 0o2000000i32)' % OFL
    BITCOMM = 'proof { assert(forall|a: u64, b: u64| #[trigger] (a & b) == b & a) by (bit_vector); }      // `&` commutes: the spelling of the mask test does not matter'
    SETUP = F('setupmapping', ['map'], canary=True,
              sig_subst=[('fn setupmapping(', 'fn setupmapping<V: FsCacheReqHandler>('), ('vu_req: &mut dyn FsCacheReqHandler', 'vu_req: &mut V')],
              requires=[S, ROOT,
                        'forall|m: u32| safe_mode(m) ==> #[trigger] reopen_ok(inode, m, self.io_flags(%s) | 0o2000000i32) // [C05.dax.setupmapping.open_flags]' % OFL,
                        'forall|fo: u64, mo: u64, l: u64, fl: u64, fd: i32| #[trigger] dax_map_ok(fo, mo, l, fl, fd) <==> (fo == foffset && mo == moffset && l == len && fl == flags && fd == %s) // [C05.dax.setupmapping.map_call]' % DAXFD],
              splices=[('^', 'after', BITCOMM)],
              ensures=['%s <= 1 && (%s == 1 ==> %s.nr == %d) // [C05.dax.setupmapping.once]' % (N, N, R0, NR_MAP),
                       '%s == 0 ==> res is Err // [C05.dax.setupmapping.performed]' % N,
                       '%s == 1 ==> res == res_dax_map(foffset, moffset, len, flags, %s) // [C05.dax.setupmapping.reply]' % (N, DAXFD),
                       '%s // [C05.dax.setupmapping.creds_kept]' % CREDS])
    REMOVE = F('removemapping', ['unmap'], canary=True,
               sig_subst=[('fn removemapping(', 'fn removemapping<V: FsCacheReqHandler>('), ('vu_req: &mut dyn FsCacheReqHandler', 'vu_req: &mut V')],
               requires=[S, 'forall|rq: Seq<virtio_fs::RemovemappingOne>| #[trigger] dax_unmap_ok(rq) <==> rq == requests@ // [C05.dax.removemapping.unmap_call]'],
               ensures=['%s == 1 && %s.nr == %d // [C05.dax.removemapping.once]' % (N, R0, NR_UNMAP),
                        'res == res_dax_unmap(requests@) // [C05.dax.removemapping.reply]',
                        '%s // [C05.dax.removemapping.creds_kept]' % CREDS])

    def listing(name, plus, sink_ty, dyn_ty, ctor):
        view = 'DirCbView { plus: %s, dir: inode, sink: old(add_entry).id() }' % ('true' if plus else 'false')
        return F(name, ['do_readdir'], canary=True, props=['C16'],
                 hooks=[CR.r79_closure_to_model(root, PTS, FSIMPL, name, 'do_readdir', ctor)],
                 sig_subst=[('add_entry: &mut dyn FnMut(%s) -> io::Result<usize>' % dyn_ty, 'add_entry: &mut %s' % sink_ty)],
                 requires=[S,
                           'forall|i: Inode, h: Handle, s: u32, o: u64, c: DirCbView| #[trigger] self.do_readdir_ok(i, h, s, o, c) <==> (i == inode && h == handle && s == size && o == offset && c == (%s)) // [C16.ptwrap.%s.call]' % (view, name)],
                 ensures=['self.no_readdir.cur() ==> res is Ok && %s == 0 // [C16.ptwrap.%s.gate]' % (N, name),
                          '!self.no_readdir.cur() ==> %s == 1 && %s.nr == %d // [C16.ptwrap.%s.once]' % (N, R0, NR_READDIR, name),
                          '!self.no_readdir.cur() ==> res == self.res_do_readdir(inode, handle, size, offset, %s) // [C16.ptwrap.%s.reply]' % (view, name),
                          '%s // [C16.ptwrap.%s.creds_kept]' % (CREDS, name)])
    READDIR = listing('readdir', False, 'DirSink', 'DirEntry', 'vx_readdir_cb')
    READDIRPLUS = listing('readdirplus', True, 'DirSinkPlus', 'DirEntry, Entry', 'vx_readdirplus_cb')
    fl_items = flagsmodel.items(root, VIRTIO, 'SetupmappingFlags')
    for it in fl_items:
        # the block's values are bare literals (`const WRITE = 0x1;`): inside the spec function all_bits() a bare literal is an `int`-like i32 for Verus;
        # give the literals of THAT line the block's own type (no change of value)
        if isinstance(it, Raw):
            it.text = re.sub(r'(?m)^(    pub open spec fn all_bits\(\) -> (\w+) \{)(.*)$',
                             lambda m: m.group(1) + re.sub(r'\((0x[0-9a-fA-F]+|\d+)\)', lambda q: '(%s%s)' % (q.group(1), m.group(2)), m.group(3)), it.text)
    vfs_mod = Group('pub mod virtio_fs {      // src/abi/virtio_fs.rs\nuse super::*;',
                    fl_items + [Copy(VIRTIO, r'pub struct RemovemappingOne\b')])
    items = head + [vfs_mod, Raw(pre), Raw(PRE2)] + safe + [
        Group(IMPL + ' {      // PART 2: the DAX and readdir wrappers (src/passthrough/sync_io.rs)', [open_inode, SETUP, REMOVE, READDIR, READDIRPLUS]),
    ]
    return items


def unit(root='/repo'):
    p1, log = part1(root)
    items = part2(root) + [p1]
    u = Unit('fhcmp', items, preludes=['base.rs', 'stdmodel.rs', 'names.rs'], generic_tags={},
             notes=log)
    u.prelude_subst = [(PTOPS.LIBC_EXTRA[0], PTOPS.LIBC_EXTRA[1] + '''
    // unit fhcmp: further libc items of x86_64-linux-gnu
    #[allow(non_camel_case_types)] pub type c_uint = u32;
    #[allow(non_camel_case_types)] pub type c_char = i8;''')]
    return u
