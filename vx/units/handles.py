"""Unit `handles` (C15): the passthrough handle table (src/passthrough/mod.rs `HandleMap`), handle allocation
(`next_handle.fetch_add` in do_open / create), release / releasedir / do_release, handle resolution (get_data /
get_dirdata / do_getattr / fsync / fsyncdir), the directory-position (cookie) records and `destroy`.

Specification from the property: a handle resolves only together with the inode it was opened on and only until it is
released; distinct opens get distinct handles (a fresh handle is never a key of the table); release removes exactly that
handle and its directory-position record and nothing else; a failed release changes nothing; in no_open / no_opendir mode
nothing is ever stored; destroy leaves no handles, no position records and no inode other than the re-imported root.

Sequential model (stated, see ASSUMPTIONS): `RwLock<T>` / `Mutex<T>` / `AtomicU64` / `AtomicBool` are the value they hold and
a function that mutates through them takes `&mut self` instead of `&self` (signature substitution, logged per function) -
Verus cannot state a postcondition about state behind `&self`.  Interleavings of concurrent requests are not covered."""
import os
import re

from vx.api import Unit, Fn, Copy, Raw, Group
from vx import extract as X
from vx.units import inodes as _inodes

PT = 'src/passthrough/mod.rs'
PTS = 'src/passthrough/sync_io.rs'
STORE = 'src/passthrough/inode_store.rs'
FH = 'src/passthrough/file_handle.rs'
CFG = 'src/passthrough/config.rs'
UTIL = 'src/passthrough/util.rs'
FSMOD = 'src/api/filesystem/mod.rs'
HERE = os.path.dirname(os.path.abspath(__file__))


def _slice(text, start, end, what):
    """reuse of an existing hand-written model: the text between two marker lines (start inclusive, end exclusive)"""
    a = text.find(start)
    b = text.find(end, a + 1) if a >= 0 else -1
    if a < 0 or b < 0:
        raise X.ExtractError('model text %s not found (markers %r .. %r)' % (what, start, end))
    return text[a:b]


def _btreemap_model():
    # the BTreeMap model of unit `inodes` (external type with a Map view; get / remove / insert / clear)
    return _slice(_inodes.PRE, '// std::collections::BTreeMap as a map', '// std::sync::atomic::AtomicU64', 'BTreeMap (vx/units/inodes.py)')


def _arc_cloned_axiom():
    std = open(os.path.join(os.path.dirname(HERE), 'prelude', 'stdmodel.rs')).read()
    return _slice(std, '// Option<&Arc<T>>::cloned()', '// std::ffi::CStr', 'axiom_arc_cloned (vx/prelude/stdmodel.rs)')


PRE_STD = r'''
use std::sync::Arc;
use std::collections::HashMap;          // the real std HashMap with vstd's specification (keys are u64)
pub type Inode = u64;
pub type Handle = u64;
pub mod fuse { pub const ROOT_ID: u64 = 1; }
pub trait BitmapSlice {}
impl BitmapSlice for () {}
%(BTREEMAP)s
// BTreeMap::new and the entry API as far as HandleMap::release uses it: an entry is the borrowed map plus the key
impl<K, V> BTreeMap<K, V> {
    #[verifier::external_body] pub fn new() -> (r: Self) ensures r@ == Map::<K, V>::empty() { unimplemented!() }
    #[verifier::external_body] pub fn entry(&mut self, k: K) -> (r: btree_map::Entry<'_, K, V>)
        ensures match r {
            btree_map::Entry::Occupied(e) => old(self)@.contains_key(k) && e.key == k && *e.map == *old(self) && *final(e.map) == *final(self),
            btree_map::Entry::Vacant(e) => !old(self)@.contains_key(k) && e.key == k && *e.map == *old(self) && *final(e.map) == *final(self),
        } { unimplemented!() }
}
pub mod btree_map {
    use vstd::prelude::*;
    use super::BTreeMap;
    #[verifier::reject_recursive_types(K)] #[verifier::reject_recursive_types(V)]
    pub struct OccupiedEntry<'a, K, V> { pub map: &'a mut BTreeMap<K, V>, pub key: K }
    #[verifier::reject_recursive_types(K)] #[verifier::reject_recursive_types(V)]
    pub struct VacantEntry<'a, K, V> { pub map: &'a mut BTreeMap<K, V>, pub key: K }
    #[verifier::reject_recursive_types(K)] #[verifier::reject_recursive_types(V)]
    pub enum Entry<'a, K, V> { Vacant(VacantEntry<'a, K, V>), Occupied(OccupiedEntry<'a, K, V>) }
    impl<'a, K, V> OccupiedEntry<'a, K, V> {
        #[verifier::external_body] pub fn get(&self) -> (r: &V)
            requires old(self.map)@.contains_key(self.key)
            ensures *r == old(self.map)@[self.key] { unimplemented!() }
        #[verifier::external_body] pub fn remove(self) -> (r: V)
            requires old(self.map)@.contains_key(self.key)
            ensures final(self.map)@ == old(self.map)@.remove(self.key), r == old(self.map)@[self.key] { unimplemented!() }
    }
}
%(ARC_CLONED)s
pub assume_specification<T, P> [std::option::Option::<T>::filter] (o: std::option::Option<T>, p: P) -> (r: std::option::Option<T>)
    where P: std::ops::FnOnce(&T,) -> bool + std::marker::Destruct, T: std::marker::Destruct,
    requires o is Some ==> p.requires((&o->Some_0,)),
    ensures match o { Some(v) => (r == Some(v) && p.ensures((&v,), true)) || (r is None && p.ensures((&v,), false)), None => r is None };
pub assume_specification<T, F> [std::option::Option::<T>::is_some_and] (o: std::option::Option<T>, f: F) -> (r: bool)
    where F: std::ops::FnOnce(T,) -> bool + std::marker::Destruct,
    requires o is Some ==> f.requires((o->Some_0,)),
    ensures match o { Some(v) => f.ensures((v,), r), None => !r };

// ---- SEQUENTIAL MODEL of the synchronisation types: the lock / atomic IS the value it holds; a write guard is `&mut` to it.
// "Do not expect poisoned lock here" (comment in the code): lock()/read()/write() never fail - assumed.
#[verifier::external_body] #[derive(Debug)] pub struct PoisonError { _p: u8 }
pub struct RwLock<T> { pub v: T }
impl<T> RwLock<T> {
    pub fn new(v: T) -> (r: Self) ensures r.v == v { RwLock { v } }
    pub fn read(&self) -> (r: core::result::Result<&T, PoisonError>) ensures r is Ok, *r->Ok_0 == self.v { Ok(&self.v) }
    pub fn write(&mut self) -> (r: core::result::Result<&mut T, PoisonError>)
        ensures r is Ok, *r->Ok_0 == old(self).v, *final(r->Ok_0) == final(self).v { Ok(&mut self.v) }
}
pub struct Mutex<T> { pub v: T }
impl<T> Mutex<T> {
    pub fn new(v: T) -> (r: Self) ensures r.v == v { Mutex { v } }
    pub fn lock(&mut self) -> (r: core::result::Result<&mut T, PoisonError>)
        ensures r is Ok, *r->Ok_0 == old(self).v, *final(r->Ok_0) == final(self).v { Ok(&mut self.v) }
}
pub enum Ordering { Relaxed, Release, Acquire, AcqRel, SeqCst }
pub struct AtomicBool { pub v: bool }
impl AtomicBool { pub fn load(&self, o: Ordering) -> (r: bool) ensures r == self.v { self.v } }
pub struct AtomicU32 { pub v: u32 }
impl AtomicU32 { pub fn new(v: u32) -> (r: Self) ensures r.v == v { AtomicU32 { v } } }
pub struct AtomicU64 { pub v: u64 }
impl AtomicU64 {
    pub fn new(v: u64) -> (r: Self) ensures r.v == v { AtomicU64 { v } }
    // fetch_add wraps around on overflow (std documentation)
    pub fn fetch_add(&mut self, n: u64, o: Ordering) -> (r: u64)
        ensures r == old(self).v, final(self).v == (if old(self).v + n > u64::MAX { (old(self).v + n - 0x1_0000_0000_0000_0000) as u64 } else { (old(self).v + n) as u64 })
    { let r = self.v; self.v = self.v.wrapping_add(n); r }
}
#[verifier::external_body] pub struct File { _p: u8 }
'''

PRE_HM = r'''
// ---- abstract view of the handle table and its representation invariant
impl HandleMap {
    pub open spec fn view(&self) -> Map<Handle, Arc<HandleData>> { self.handles.v@ }
    pub open spec fn cookies_view(&self) -> Map<Handle, u64> { self.cookies.v@ }
    // directory-position records exist only for live handles
    pub open spec fn wf(&self) -> bool { forall|h: Handle| #[trigger] self.cookies_view().contains_key(h) ==> self@.contains_key(h) }
    // what "handle h is usable with inode i" means
    pub open spec fn resolves(&self, h: Handle, i: Inode) -> bool { self@.contains_key(h) && self@[h].inode == i }
}
'''


def unit(root='/repo'):
    HM = 'impl HandleMap'
    pre = PRE_STD % dict(BTREEMAP=_btreemap_model(), ARC_CLONED=_arc_cloned_axiom())
    MUT = [('&self', '&mut self')]
    items = [
        Raw(pre),
        Copy(PT, r'struct HandleData\b'),
        Copy(PT, r'struct HandleMap\b'),
        Raw(PRE_HM),
        Fn(UTIL, None, 'ebadf', ensures=['r.os_code() == Some(9i32)'], props=['C15']),
        Group('impl HandleData {', [
            Fn(PT, 'impl HandleData', 'new', ensures=['r.inode == inode // [C15.handledata.new.inode]', 'r.file == file'], props=['C15']),
        ]),
        Group('impl HandleMap {', [
            Fn(PT, HM, 'new',
               ensures=['r@ == Map::<Handle, Arc<HandleData>>::empty() // [C15.map.new.empty]',
                        'r.cookies_view() == Map::<Handle, u64>::empty() // [C15.map.new.no_cookies]'],
               props=['C15'], canary=True),
            Fn(PT, HM, 'clear', sig_subst=MUT,
               ensures=['final(self)@ == Map::<Handle, Arc<HandleData>>::empty() // [C15.map.clear.handles]',
                        'final(self).cookies_view() == Map::<Handle, u64>::empty() // [C15.map.clear.cookies]'],
               props=['C15'], canary=True),
            Fn(PT, HM, 'insert', sig_subst=MUT,
               ensures=['final(self)@.dom() == old(self)@.dom().insert(handle) // [C15.map.insert.exact]',
                        'final(self)@ == old(self)@.insert(handle, final(self)@[handle]) // [C15.map.insert.frame]',
                        '*final(self)@[handle] == data // [C15.map.insert.data]',
                        'final(self).cookies_view() == old(self).cookies_view() // [C15.map.insert.cookies]'],
               props=['C15'], canary=True),
            Fn(PT, HM, 'release', sig_subst=MUT,
               ensures=['r is Ok <==> old(self).resolves(handle, inode) // [C15.map.release.iff]',
                        'r is Ok ==> final(self)@ == old(self)@.remove(handle) // [C15.map.release.exact]',
                        'r is Err ==> final(self)@ == old(self)@ // [C15.map.release.err_frame]',
                        'r is Err ==> r->Err_0.os_code() == Some(9i32) // [C15.map.release.ebadf]',
                        'final(self).cookies_view() == old(self).cookies_view()'],
               props=['C15'], canary=True),
            Fn(PT, HM, 'get',
               ensures=['r is Ok <==> self.resolves(handle, inode) // [C15.map.get.iff]',
                        'r is Ok ==> r->Ok_0 == self@[handle] // [C15.map.get.data]',
                        'r is Err ==> r->Err_0.os_code() == Some(9i32) // [C15.map.get.ebadf]'],
               splices=[('|hd|', 'closure', '|hd: &&Arc<HandleData>| -> (q: bool) ensures q == (hd.inode == inode)'),
                        ('^', 'after', 'broadcast use axiom_arc_cloned;')],
               props=['C15'], canary=True),
            Fn(PT, HM, 'set_cookie', sig_subst=MUT,
               ensures=['final(self).cookies_view() == old(self).cookies_view().insert(handle, cookie) // [C15.map.set_cookie.exact]',
                        'final(self)@ == old(self)@ // [C15.map.set_cookie.frame]'],
               props=['C15'], canary=True),
            Fn(PT, HM, 'remove_cookie', sig_subst=MUT,
               ensures=['final(self).cookies_view() == old(self).cookies_view().remove(handle) // [C15.map.remove_cookie.exact]',
                        'final(self)@ == old(self)@ // [C15.map.remove_cookie.frame]',
                        'r == (if old(self).cookies_view().contains_key(handle) { Some(old(self).cookies_view()[handle]) } else { None::<u64> })'],
               props=['C15'], canary=True),
        ]),
    ]
    return Unit('handles', items, preludes=['base.rs'],
                notes='sequential model of RwLock/Mutex/atomics: &self -> &mut self on mutating functions (logged as SIG)')
