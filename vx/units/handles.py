"""Unit `handles` (C15): the passthrough handle table (src/passthrough/mod.rs `HandleMap`), handle allocation
(`next_handle.fetch_add` in do_open / create), release / releasedir / do_release, handle resolution (get_data /
get_dirdata / do_getattr / fsync / fsyncdir), the directory-position (cookie) records and `destroy`.

Specification from the property: a handle resolves only together with the inode it was opened on and only until it is
released; distinct opens get distinct handles (a fresh handle is never a key of the table); release removes exactly that
handle and its directory-position record and nothing else; a failed release changes nothing; in no_open / no_opendir mode
nothing is ever stored; destroy leaves no handles, no position records and no inode other than the re-imported root.

Sequential model (stated, see ASSUMPTIONS): `RwLock<T>` / `Mutex<T>` / `AtomicU64` / `AtomicBool` are the value they hold and
a function that mutates through them takes `&mut self` instead of `&self` (signature substitution, logged per function) -
Verus cannot state a postcondition about state behind `&self`.  Interleavings of concurrent requests are not covered.

ASSUMPTIONS (each is visible in the generated file and in the mechanical assumption scan):
  A1 sequential model of RwLock / Mutex / AtomicU64 / AtomicU32 / AtomicBool (above); locks are never poisoned.
  A2 BTreeMap = external type with a Map view (model of unit `inodes`: get/remove/insert/clear) + `new` + the entry API
     (`entry`, `OccupiedEntry::{get, remove}`: an entry is the borrowed map plus the key); std HashMap through vstd.
  A3 Option::filter / Option::is_some_and by assume_specification; Arc clone denotes the same value (axiom_arc_cloned).
  A4 no_wrap: fewer than 2^64-1 handles are allocated (`requires next_handle.v < u64::MAX` on do_open/open/opendir/create).
  A5 contract-only (bodies are syscall chains or contain `unsafe`): open_inode (returns a descriptor of `inode`), import
     (touches only the inode map, inserts only ROOT_ID), do_lookup (+1 reference on the returned inode, handle state untouched),
     forget (gives references back, saturating, root exempt), last_cookie_in_buf, create_file_excl, set_creds, drop_cap_fsetid,
     validate_path_component, get_writeback_open_flags, sync_fd, stat_fd, InodeHandle::stat, InodeData::get_file.
  A6 cache_cookie is only called for a handle that do_readdir (not extracted: `unsafe`) has just resolved (its `requires`).
  A7 HandleData::get_file / borrow_fd are capability-guarded externals ([fd]): which descriptor an operation may touch.
  A8 rule R24 (explicit `else { }`) - works around a Verus mis-resolution, see findings/verus_elseless_if_unsound.rs.
The set of WRITERS of the table / position records / counter is closed syntactically (writers_scan below, [C15.writers.closed])."""
import os
import re

from vx.api import Unit, Fn, Copy, Raw, Group
from vx import extract as X, flagsmodel
from vx.units import inodes as _inodes

PT = 'src/passthrough/mod.rs'
PTS = 'src/passthrough/sync_io.rs'
STORE = 'src/passthrough/inode_store.rs'
FH = 'src/passthrough/file_handle.rs'
CFG = 'src/passthrough/config.rs'
UTIL = 'src/passthrough/util.rs'
FSMOD = 'src/api/filesystem/mod.rs'
ABI = 'src/abi/fuse_abi_linux.rs'
HERE = os.path.dirname(os.path.abspath(__file__))

# the error paths of `create` after do_lookup (see the report / DESIGN): switch on once the finding is fixed or recorded as known
CHECK_CREATE_ERR_PATHS = True


def _slice(text, start, end, what):
    """reuse of an existing hand-written model: the text between two marker lines (start inclusive, end exclusive)"""
    a = text.find(start)
    b = text.find(end, a + 1) if a >= 0 else -1
    if a < 0 or b < 0:
        raise X.ExtractError('model text %s not found (markers %r .. %r)' % (what, start, end))
    return text[a:b]


def _btreemap_model():
    # the BTreeMap model of unit `inodes` (external type with a Map view; get / remove / insert / clear)
    return _slice(_inodes.PRE, '// std::collections::BTreeMap as a map', '// std::sync::atomic::AtomicU64', 'BTreeMap (vx/units/inodes.py)')


def _arc_cloned_axiom():
    std = open(os.path.join(os.path.dirname(HERE), 'prelude', 'stdmodel.rs')).read()
    return _slice(std, '// Option<&Arc<T>>::cloned()', '// std::ffi::CStr', 'axiom_arc_cloned (vx/prelude/stdmodel.rs)')


PRE_STD = r'''
use std::sync::Arc;
use std::collections::HashMap;          // the real std HashMap with vstd's specification (keys are u64)
pub type Inode = u64;
pub type Handle = u64;
pub mod fuse { pub const ROOT_ID: u64 = 1; }
pub trait BitmapSlice {}
impl BitmapSlice for () {}
%(BTREEMAP)s
// BTreeMap::new and the entry API as far as HandleMap::release uses it: an entry is the borrowed map plus the key
impl<K, V> BTreeMap<K, V> {
    #[verifier::external_body] pub fn new() -> (r: Self) ensures r@ == Map::<K, V>::empty() { unimplemented!() }
    #[verifier::external_body] pub fn entry(&mut self, k: K) -> (r: btree_map::Entry<'_, K, V>)
        ensures match r {
            btree_map::Entry::Occupied(e) => old(self)@.contains_key(k) && e.key == k && *e.map == *old(self) && *final(e.map) == *final(self),
            btree_map::Entry::Vacant(e) => !old(self)@.contains_key(k) && e.key == k && *e.map == *old(self) && *final(e.map) == *final(self),
        } { unimplemented!() }
}
pub mod btree_map {
    use vstd::prelude::*;
    use super::BTreeMap;
    #[verifier::reject_recursive_types(K)] #[verifier::reject_recursive_types(V)]
    pub struct OccupiedEntry<'a, K, V> { pub map: &'a mut BTreeMap<K, V>, pub key: K }
    #[verifier::reject_recursive_types(K)] #[verifier::reject_recursive_types(V)]
    pub struct VacantEntry<'a, K, V> { pub map: &'a mut BTreeMap<K, V>, pub key: K }
    #[verifier::reject_recursive_types(K)] #[verifier::reject_recursive_types(V)]
    pub enum Entry<'a, K, V> { Vacant(VacantEntry<'a, K, V>), Occupied(OccupiedEntry<'a, K, V>) }
    impl<'a, K, V> OccupiedEntry<'a, K, V> {
        #[verifier::external_body] pub fn get(&self) -> (r: &V)
            requires old(self.map)@.contains_key(self.key)
            ensures *r == old(self.map)@[self.key] { unimplemented!() }
        #[verifier::external_body] pub fn remove(self) -> (r: V)
            requires old(self.map)@.contains_key(self.key)
            ensures final(self.map)@ == old(self.map)@.remove(self.key), r == old(self.map)@[self.key] { unimplemented!() }
    }
}
%(ARC_CLONED)s
pub assume_specification<T, P> [std::option::Option::<T>::filter] (o: std::option::Option<T>, p: P) -> (r: std::option::Option<T>)
    where P: std::ops::FnOnce(&T,) -> bool + std::marker::Destruct, T: std::marker::Destruct,
    requires o is Some ==> p.requires((&o->Some_0,)),
    ensures match o { Some(v) => (r == Some(v) && p.ensures((&v,), true)) || (r is None && p.ensures((&v,), false)), None => r is None };
pub assume_specification<T, F> [std::option::Option::<T>::is_some_and] (o: std::option::Option<T>, f: F) -> (r: bool)
    where F: std::ops::FnOnce(T,) -> bool + std::marker::Destruct,
    requires o is Some ==> f.requires((o->Some_0,)),
    ensures match o { Some(v) => f.ensures((v,), r), None => !r };

// ---- SEQUENTIAL MODEL of the synchronisation types: the lock / atomic IS the value it holds; a write guard is `&mut` to it.
// "Do not expect poisoned lock here" (comment in the code): lock()/read()/write() never fail - assumed.
#[verifier::external_body] #[derive(Debug)] pub struct PoisonError { _p: u8 }
pub struct RwLock<T> { pub v: T }
impl<T> RwLock<T> {
    pub fn new(v: T) -> (r: Self) ensures r.v == v { RwLock { v } }
    pub fn read(&self) -> (r: core::result::Result<&T, PoisonError>) ensures r is Ok, *r->Ok_0 == self.v { Ok(&self.v) }
    pub fn write(&mut self) -> (r: core::result::Result<&mut T, PoisonError>)
        ensures r is Ok, *r->Ok_0 == old(self).v, *final(r->Ok_0) == final(self).v { Ok(&mut self.v) }
}
pub struct Mutex<T> { pub v: T }
impl<T> Mutex<T> {
    pub fn new(v: T) -> (r: Self) ensures r.v == v { Mutex { v } }
    pub fn lock(&mut self) -> (r: core::result::Result<&mut T, PoisonError>)
        ensures r is Ok, *r->Ok_0 == old(self).v, *final(r->Ok_0) == final(self).v { Ok(&mut self.v) }
}
pub enum Ordering { Relaxed, Release, Acquire, AcqRel, SeqCst }
pub struct AtomicBool { pub v: bool }
impl AtomicBool { pub fn load(&self, o: Ordering) -> (r: bool) ensures r == self.v { self.v } }
pub struct AtomicU32 { pub v: u32 }
impl AtomicU32 { pub fn new(v: u32) -> (r: Self) ensures r.v == v { AtomicU32 { v } } }
pub struct AtomicU64 { pub v: u64 }
impl AtomicU64 {
    pub fn new(v: u64) -> (r: Self) ensures r.v == v { AtomicU64 { v } }
    pub fn load(&self, o: Ordering) -> (r: u64) ensures r == self.v { self.v }
    // fetch_add wraps around on overflow (std documentation)
    pub fn fetch_add(&mut self, n: u64, o: Ordering) -> (r: u64)
        ensures r == old(self).v, final(self).v == (if old(self).v + n > u64::MAX { (old(self).v + n - 0x1_0000_0000_0000_0000) as u64 } else { (old(self).v + n) as u64 })
    { let r = self.v; self.v = self.v.wrapping_add(n); r }
}
#[verifier::external_body] pub struct File { _p: u8 }
'''

PRE_HM = r'''
// ---- abstract view of the handle table and its representation invariant
impl HandleMap {
    pub open spec fn view(&self) -> Map<Handle, Arc<HandleData>> { self.handles.v@ }
    pub open spec fn cookies_view(&self) -> Map<Handle, u64> { self.cookies.v@ }
    // directory-position records exist only for live handles
    pub open spec fn wf(&self) -> bool { forall|h: Handle| #[trigger] self.cookies_view().contains_key(h) ==> self@.contains_key(h) }
    // what "handle h is usable with inode i" means
    pub open spec fn resolves(&self, h: Handle, i: Inode) -> bool { self@.contains_key(h) && self@[h].inode == i }
}
'''

PRE_TYPES = r"""
// ---- opaque / minimal models of the types that only appear as fields or pass-through values
#[derive(Clone, Copy)] pub struct Duration { pub secs: u64, pub nanos: u32 }
#[verifier::external_body] pub struct UniqueInodeGenerator { _p: u8 }
#[verifier::external_body] pub struct MountFds { _p: u8 }
#[verifier::external_body] pub struct FileHandle { _p: u8 }
#[verifier::external_body] pub struct MountFd { _p: u8 }
#[verifier::external_body] pub struct CStr { _p: u8 }
#[verifier::external_body] #[derive(Clone, Copy)] pub struct stat64 { _p: u8 }
#[verifier::external_body] pub struct CapFsetid { _p: u8 }
#[verifier::external_body] pub struct ScopedUid { _p: u8 }
#[verifier::external_body] pub struct ScopedGid { _p: u8 }
#[verifier::external_body] pub struct InodeFile { _p: u8 }
#[verifier::external_body] pub struct BorrowedFd { _p: u8 }
pub trait AsRawFd {}
impl AsRawFd for File {}
impl AsRawFd for InodeFile {}
impl AsRawFd for BorrowedFd {}
pub fn drop<T>(_x: T) {}                       // std::mem::drop: consumes its argument
"""

PRE_PT = r"""
impl OpenOptions {
    pub fn set(&mut self, o: OpenOptions, v: bool) { if v { self.insert(o); } else { self.remove(o); } }     // bitflags 1.x `set`
}
impl core::ops::BitOrAssign for OpenOptions { fn bitor_assign(&mut self, o: OpenOptions) { self.bits = self.bits | o.bits; } }
impl vstd::std_specs::ops::BitOrAssignSpecImpl<OpenOptions> for OpenOptions {
    open spec fn obeys_bitor_assign_spec() -> bool { true }
    open spec fn bitor_assign_req(&self, o: OpenOptions) -> bool { true }
    open spec fn bitor_assign_spec(&self, o: OpenOptions) -> &OpenOptions { &OpenOptions { bits: self.bits | o.bits } }
}
// the inode a descriptor was opened on (what open_inode(inode, ..) returns a descriptor of)
pub uninterp spec fn file_inode(f: File) -> Inode;
// CAPABILITY: the descriptor of a HandleData may only be touched when the contract of the requesting operation grants it
pub uninterp spec fn fd_use_ok(d: HandleData) -> bool;
impl HandleData {
    #[verifier::external_body] pub fn get_file(&self) -> (r: &File)
        requires fd_use_ok(*self), // [fd]
    { unimplemented!() }
    #[verifier::external_body] pub fn borrow_fd(&self) -> (r: BorrowedFd)
        requires fd_use_ok(*self), // [fd]
    { unimplemented!() }
}
#[verifier::external_body] pub fn sync_fd<D: AsRawFd>(fd: &D, datasync: bool) -> (r: io::Result<()>) { unimplemented!() }
#[verifier::external_body] pub fn stat_fd<D: AsRawFd>(dir: &D, path: Option<&CStr>) -> (r: io::Result<stat64>) { unimplemented!() }
#[verifier::external_body] pub fn drop_cap_fsetid() -> (r: io::Result<Option<CapFsetid>>) { unimplemented!() }
#[verifier::external_body] pub fn set_creds(uid: u32, gid: u32) -> (r: io::Result<(Option<ScopedUid>, Option<ScopedGid>)>) { unimplemented!() }
impl InodeHandle {
    #[verifier::external_body] pub fn stat(&self) -> (r: io::Result<stat64>) { unimplemented!() }
}
impl InodeData {
    #[verifier::external_body] pub fn get_file(&self) -> (r: io::Result<InodeFile>) { unimplemented!() }
}
impl InodeMap {
    pub open spec fn view(&self) -> Map<Inode, Arc<InodeData>> { self.inodes.v.data@ }
}
impl<S: BitmapSlice + Send + Sync> PassthroughFs<S> {
    // INVARIANT of the server state: directory-position records only for live handles, and every live handle is below the
    // allocation counter (so the next allocated handle is fresh)
    pub open spec fn handles_inv(&self) -> bool {
        self.handle_map.wf() && forall|h: Handle| #[trigger] self.handle_map@.contains_key(h) ==> h < self.next_handle.v
    }
    // the handle-related state: table, position records, counter
    pub open spec fn same_handles(&self, o: &Self) -> bool {
        self.handle_map@ == o.handle_map@ && self.handle_map.cookies_view() == o.handle_map.cookies_view() && self.next_handle.v == o.next_handle.v
    }
    // table and position records only (the allocation counter may advance)
    pub open spec fn same_table(&self, o: &Self) -> bool {
        self.handle_map@ == o.handle_map@ && self.handle_map.cookies_view() == o.handle_map.cookies_view()
    }
    pub open spec fn same_modes(&self, o: &Self) -> bool { self.no_open.v == o.no_open.v && self.no_opendir.v == o.no_opendir.v }
    // syscall chains (bodies contain `unsafe` or only forward to syscalls): contract only
    #[verifier::external_body] pub fn open_inode(&self, inode: Inode, flags: i32) -> (r: io::Result<File>)
        ensures r is Ok ==> file_inode(r->Ok_0) == inode { unimplemented!() }
    // import(): opens cfg.root_dir and inserts ROOT_ID into the inode map (mod.rs:492); touches nothing else (by reading)
    #[verifier::external_body] pub fn import(&mut self) -> (r: io::Result<()>)
        ensures final(self).same_handles(old(self)), final(self).same_modes(old(self)),
            forall|i: Inode| #[trigger] final(self).inode_map@.contains_key(i) ==> old(self).inode_map@.contains_key(i) || i == fuse::ROOT_ID
    { unimplemented!() }
    #[verifier::external_body] pub fn last_cookie_in_buf(buf: &[u8]) -> (r: Option<u64>) { unimplemented!() }
    #[verifier::external_body] pub fn validate_path_component(&self, name: &CStr) -> (r: io::Result<()>) { unimplemented!() }
    #[verifier::external_body] pub fn get_writeback_open_flags(&self, flags: i32) -> (r: i32) { unimplemented!() }
    #[verifier::external_body] pub fn create_file_excl<D: AsRawFd>(dir: &D, pathname: &CStr, flags: i32, mode: u32) -> (r: io::Result<Option<File>>) { unimplemented!() }
    // do_lookup (mod.rs:665, syscalls): on success the client holds one more reference to the returned inode (new InodeData
    // inserted or refcount incremented); it touches neither the handle table nor the modes (by reading)
    #[verifier::external_body] pub fn do_lookup(&mut self, parent: Inode, name: &CStr) -> (r: io::Result<Entry>)
        ensures final(self).same_handles(old(self)), final(self).same_modes(old(self)),
            r is Err ==> refs_same(final(self).inode_map, old(self).inode_map),
            r is Ok ==> forall|i: Inode| #[trigger] lookup_refs(final(self).inode_map, i) == lookup_refs(old(self).inode_map, i) + (if i == r->Ok_0.inode { 1nat } else { 0nat })
    { unimplemented!() }
    // FileSystem::forget (sync_io.rs:551 -> forget_one, verified in unit `inodes`): gives back `count` references, saturating; root exempt
    #[verifier::external_body] pub fn forget(&mut self, ctx: &Context, inode: Inode, count: u64)
        ensures final(self).same_handles(old(self)), final(self).same_modes(old(self)),
            forall|i: Inode| i != fuse::ROOT_ID ==> #[trigger] lookup_refs(final(self).inode_map, i) == (if i == inode { if lookup_refs(old(self).inode_map, i) >= count { (lookup_refs(old(self).inode_map, i) - count) as nat } else { 0nat } } else { lookup_refs(old(self).inode_map, i) })
    { unimplemented!() }
}
// number of references the client holds on inode i as recorded by the inode map (refcount of the live InodeData, 0 if none)
pub uninterp spec fn lookup_refs(m: InodeMap, i: Inode) -> nat;
// the root is exempt: it can never be forgotten, its count is irrelevant
pub open spec fn refs_same(a: InodeMap, b: InodeMap) -> bool { forall|i: Inode| i != fuse::ROOT_ID ==> #[trigger] lookup_refs(a, i) == lookup_refs(b, i) }
"""

# Client scenarios: hand-written exec code calling the extracted functions; Verus checks the assertions against the CONTRACTS
# above (nothing here is assumed).  They spell out the sentences of the property that span more than one call.
LEMMAS = r"""
// "a handle is usable ... only until it is released": after a successful release no inode resolves it any more
fn scenario_release_then_use(m: &mut HandleMap, h: Handle, i: Inode, j: Inode) {
    let r = m.release(h, i);
    if r.is_ok() {
        let g = m.get(h, j);
        assert(g is Err); // [C15.scenario.released_is_dead]
    }
}
// "a handle is usable only with the inode it was opened on"
fn scenario_wrong_inode(m: &HandleMap, h: Handle, i: Inode, j: Inode)
    requires m.resolves(h, i), j != i
{
    let g = m.get(h, j);
    assert(g is Err); // [C15.scenario.wrong_inode]
    let g2 = m.get(h, i);
    assert(g2 is Ok); // [C15.scenario.right_inode]
}
// a release with the wrong inode fails and the handle stays usable with the right one
fn scenario_wrong_release(m: &mut HandleMap, h: Handle, i: Inode, j: Inode)
    requires old(m).resolves(h, i), j != i
{
    let r = m.release(h, j);
    assert(r is Err); // [C15.scenario.wrong_release]
    let g = m.get(h, i);
    assert(g is Ok); // [C15.scenario.wrong_release_keeps]
}
// "distinct opens get distinct handles", and each is usable exactly with its own inode; releasing both restores the table
fn scenario_two_opens<S: BitmapSlice + Send + Sync>(fs: &mut PassthroughFs<S>, ctx: &Context, i1: Inode, i2: Inode, flags: u32)
    requires old(fs).handles_inv(), old(fs).next_handle.v < u64::MAX - 1, !old(fs).no_open.v
{
    let ghost before = fs.handle_map@;
    let ghost before_c = fs.handle_map.cookies_view();
    let a = fs.open(ctx, i1, flags, 0);
    if let Ok((Some(ha), _, _)) = a {
        let b = fs.open(ctx, i2, flags, 0);
        if let Ok((Some(hb), _, _)) = b {
            assert(ha != hb); // [C15.scenario.distinct]
            assert(fs.handle_map.resolves(ha, i1) && fs.handle_map.resolves(hb, i2)); // [C15.scenario.both_live]
            let d = fs.get_data(hb, i2, 0);
            assert(d is Ok); // [C15.scenario.usable]
            if i1 != i2 {
                let e = fs.get_data(ha, i2, 0);
                assert(e is Err); // [C15.scenario.not_with_other_inode]
            }
            let r1 = fs.release(ctx, i1, 0, ha, false, false, None);
            assert(r1 is Ok); // [C15.scenario.release_ok]
            let f = fs.get_data(ha, i1, 0);
            assert(f is Err); // [C15.scenario.dead_after_release]
            let r2 = fs.release(ctx, i2, 0, hb, false, false, None);
            assert(r2 is Ok); // [C15.scenario.release_ok]
            // "once the client has released every handle ... no more handles or directory-position records" than before
            assert(fs.handle_map@ =~= before); // [C15.scenario.all_released]
            assert(fs.handle_map.cookies_view() =~= before_c); // [C15.scenario.all_released_cookies]
        }
    }
}
// a directory handle with a position record: releasedir leaves neither behind
fn scenario_dir<S: BitmapSlice + Send + Sync>(fs: &mut PassthroughFs<S>, ctx: &Context, i: Inode, buf: &[u8], off: u64)
    requires old(fs).handles_inv(), old(fs).next_handle.v < u64::MAX, !old(fs).no_opendir.v
{
    let ghost before = fs.handle_map@;
    let ghost before_c = fs.handle_map.cookies_view();
    let a = fs.opendir(ctx, i, 0);
    if let Ok((Some(h), _)) = a {
        assert(!before_c.contains_key(h)); // [C15.scenario.fresh_handle_has_no_record]
        fs.cache_cookie(h, buf);
        let hit = fs.consume_cached_cookie(h, off);
        fs.cache_cookie(h, buf);
        let r = fs.releasedir(ctx, i, 0, h);
        assert(r is Ok); // [C15.scenario.dir_release_ok]
        assert(fs.handle_map@ =~= before); // [C15.scenario.dir_released]
        assert(fs.handle_map.cookies_view() =~= before_c); // [C15.scenario.dir_cookie_released]
    }
}
// a freshly started server (PassthroughFs::new initialises `handle_map: HandleMap::new(), next_handle: AtomicU64::new(1)`) satisfies the invariant
fn scenario_fresh_server() {
    let m = HandleMap::new();
    let c = AtomicU64::new(1);
    assert(m.wf() && (forall|h: Handle| #[trigger] m@.contains_key(h) ==> h < c.v)); // [C15.scenario.fresh_server_inv]
    assert(m@.dom() =~= Set::<Handle>::empty() && m.cookies_view().dom() =~= Set::<Handle>::empty()); // [C15.scenario.fresh_server_empty]
}
// destroy: a later session starts from an empty table and cannot use a handle of the previous one
fn scenario_destroy<S: BitmapSlice + Send + Sync>(fs: &mut PassthroughFs<S>, h: Handle, i: Inode)
    requires !old(fs).no_open.v
{
    fs.destroy();
    let d = fs.get_data(h, i, 0);
    assert(d is Err); // [C15.scenario.destroy_kills_handles]
}
"""


# ---------------------------------------------------------------------------------------------------------------------
# Closed set of writers (syntactic frame check).  The invariant `handles_inv` and the per-function frames speak about the
# functions under contract; that NO OTHER code of the crate writes the handle table, the position records or the counter is
# checked on the text: every use of `handle_map.<mutator>`, `next_handle`, `handles.write()`, `cookies.lock()` in the compiled,
# non-test code under src/passthrough must lie inside a function under contract (or be the field declaration / initialiser).
WRITER_RX = re.compile(r'\bhandle_map\s*\.\s*(insert|release|clear|set_cookie|remove_cookie)\b|\bnext_handle\b|\bhandles\s*\.\s*write\b|\bcookies\s*\.\s*lock\b|\bHandleMap\s*::\s*new\b')
INIT_OK = ('handle_map: HandleMap::new(),', 'next_handle: AtomicU64::new(1),', 'next_handle: AtomicU64,', 'handle_map: HandleMap,')


def _fn_ranges(msk):
    out = []
    for m in re.finditer(r'\bfn\s+(\w+)', msk):
        k, d = m.end(), 0
        while k < len(msk):
            c = msk[k]
            if c in '([':
                d += 1
            elif c in ')]':
                d -= 1
            elif c == '{' and d == 0:
                break
            elif c == ';' and d == 0:
                k = -1
                break
            k += 1
        if k < 0 or k >= len(msk):
            continue
        out.append((m.group(1), k, X.match_close(msk, k)))
    return out


def writers_scan(root, covered):
    """covered: set of (file, fn name).  Returns the list of offending sites (strings)."""
    base = os.path.join(root, 'src/passthrough')
    modsrc = X.Source(root, PT)
    disabled = set()
    for m in re.finditer(r'(?m)^\s*(?:pub(?:\([a-z]+\))?\s+)?mod\s+(\w+)\s*;', modsrc.msk):
        _, attrs = X.leading_attrs(modsrc.src, modsrc.msk, m.start())
        if not X.attrs_enabled(attrs):
            disabled.add(m.group(1))
    bad = []
    for dp, dn, fns in os.walk(base):
        for fn_ in sorted(fns):
            if not fn_.endswith('.rs'):
                continue
            rel = os.path.relpath(os.path.join(dp, fn_), root)
            top = os.path.relpath(os.path.join(dp, fn_), base).split(os.sep)[0]
            if top[:-3] in disabled or top in disabled:
                continue
            src = X.Source(root, rel)
            msk = src.msk
            # cfg-disabled blocks (test modules) are blanked
            dead = []
            for m in re.finditer(r'(?m)^[ \t]*(?:pub(?:\([a-z]+\))?\s+)?mod\s+\w+\s*\{', msk):
                _, attrs = X.leading_attrs(src.src, msk, m.start())
                if not X.attrs_enabled(attrs):
                    dead.append((m.start(), X.match_close(msk, m.end() - 1)))
            ranges = _fn_ranges(msk)
            for m in WRITER_RX.finditer(msk):
                if any(a <= m.start() <= b for (a, b) in dead):
                    continue
                ls = src.src.rfind('\n', 0, m.start()) + 1
                le = src.src.find('\n', m.start())
                line = src.src[ls:le].strip()
                if line in INIT_OK:
                    continue
                encl = [(b - a, n) for (n, a, b) in ranges if a <= m.start() <= b]
                name = min(encl)[1] if encl else '<item>'
                if (rel, name) in covered:
                    continue
                bad.append('%s:%d fn %s: `%s`' % (rel, src.line_of(m.start()), name, line[:80]))
    return bad


def unit(root='/repo'):
    HM = 'impl HandleMap'
    pre = PRE_STD % dict(BTREEMAP=_btreemap_model(), ARC_CLONED=_arc_cloned_axiom())
    MUT = [('&self', '&mut self')]

    def opt_closure(file, scope, name, anchor_src, anchor, text):
        """closure annotation that is only spliced when the closure is there: if the code no longer has it, the contract is
        checked against what is there (and fails if the closure mattered) instead of ending undecided on a lost anchor"""
        try:
            body = X.Source(root, file).find_fn(scope, name)['body']
        except X.ExtractError:
            return []
        return [(anchor, 'closure', text)] if X.mask(body).count(anchor_src) == 1 else []
    items = [
        Raw(pre),
        Copy(PT, r'struct HandleData\b'),
        Copy(PT, r'struct HandleMap\b'),
        Raw(PRE_HM),
        Fn(UTIL, None, 'ebadf', ensures=['r.os_code() == Some(9i32)'], props=['C15']),
        Group('impl HandleData {', [
            Fn(PT, 'impl HandleData', 'new', ensures=['r.inode == inode // [C15.handledata.new.inode]', 'r.file == file'], props=['C15']),
        ]),
        Group('impl HandleMap {', [
            Fn(PT, HM, 'new',
               ensures=['r@ == Map::<Handle, Arc<HandleData>>::empty() // [C15.map.new.empty]',
                        'r.cookies_view() == Map::<Handle, u64>::empty() // [C15.map.new.no_cookies]'],
               props=['C15'], canary=True),
            Fn(PT, HM, 'clear', sig_subst=MUT,
               ensures=['final(self)@ == Map::<Handle, Arc<HandleData>>::empty() // [C15.map.clear.handles]',
                        'final(self).cookies_view() == Map::<Handle, u64>::empty() // [C15.map.clear.cookies]'],
               props=['C15'], canary=True),
            Fn(PT, HM, 'insert', sig_subst=MUT,
               ensures=['final(self)@.dom() == old(self)@.dom().insert(handle) // [C15.map.insert.exact]',
                        'final(self)@ == old(self)@.insert(handle, final(self)@[handle]) // [C15.map.insert.frame]',
                        '*final(self)@[handle] == data // [C15.map.insert.data]',
                        'final(self).cookies_view() == old(self).cookies_view() // [C15.map.insert.cookies]'],
               props=['C15'], canary=True),
            Fn(PT, HM, 'release', sig_subst=MUT,
               ensures=['r is Ok <==> old(self).resolves(handle, inode) // [C15.map.release.iff]',
                        'r is Ok ==> final(self)@ == old(self)@.remove(handle) // [C15.map.release.exact]',
                        'r is Err ==> final(self)@ == old(self)@ // [C15.map.release.err_frame]',
                        'r is Err ==> r->Err_0.os_code() == Some(9i32) // [C15.map.release.ebadf]',
                        'final(self).cookies_view() == old(self).cookies_view()'],
               props=['C15'], canary=True),
            Fn(PT, HM, 'get',
               ensures=['r is Ok <==> self.resolves(handle, inode) // [C15.map.get.iff]',
                        'r is Ok ==> r->Ok_0 == self@[handle] // [C15.map.get.data]',
                        'r is Err ==> r->Err_0.os_code() == Some(9i32) // [C15.map.get.ebadf]'],
               splices=opt_closure(PT, HM, 'get', '|hd|', '|hd|', '|hd: &&Arc<HandleData>| -> (q: bool)\n    ensures q == (hd.inode == inode) // [C15.map.get.inode_filter]\n')
                       + [('^', 'after', 'broadcast use axiom_arc_cloned;')],
               props=['C15'], canary=True),
            Fn(PT, HM, 'set_cookie', sig_subst=MUT,
               ensures=['final(self).cookies_view() == old(self).cookies_view().insert(handle, cookie) // [C15.map.set_cookie.exact]',
                        'final(self)@ == old(self)@ // [C15.map.set_cookie.frame]'],
               props=['C15'], canary=True),
            Fn(PT, HM, 'remove_cookie', sig_subst=MUT,
               ensures=['final(self).cookies_view() == old(self).cookies_view().remove(handle) // [C15.map.remove_cookie.exact]',
                        'final(self)@ == old(self)@ // [C15.map.remove_cookie.frame]',
                        'r == (if old(self).cookies_view().contains_key(handle) { Some(old(self).cookies_view()[handle]) } else { None::<u64> })'],
               props=['C15'], canary=True),
        ]),
    ]
    # ---------------------------------------------------------------------------------------- PassthroughFs layer
    P = 'impl<S: BitmapSlice + Send + Sync> PassthroughFs<S>'
    PF = 'impl<S: BitmapSlice + Send + Sync> FileSystem for PassthroughFs<S>'
    G = 'impl<S: BitmapSlice + Send + Sync> PassthroughFs<S> {'
    # the descriptor an operation on (handle, inode) may touch: the table's entry for exactly that pair, or - when nothing
    # is stored (no_open / no_opendir) - a temporary HandleData of that inode
    def grant(mode):
        return ('forall|d: HandleData| #[trigger] fd_use_ok(d) <==> (d.inode == inode && (self.%s.v || (self.handle_map.resolves(handle, inode) && d == *self.handle_map@[handle]))) // [C15.grant]' % mode)
    items += [
        Raw(PRE_TYPES),
        Copy(FSMOD, r'pub struct Context\b', prefix='#[derive(Clone, Copy)]', subst=[('libc::uid_t', 'u32'), ('libc::gid_t', 'u32'), ('libc::pid_t', 'i32')]),
        Copy(CFG, r'pub enum CachePolicy\b', prefix='#[derive(Clone, Copy, PartialEq, Eq)]'),
        Copy(CFG, r'pub struct Config\b'),
        Copy(ABI, r'pub const FOPEN_IN_KILL_SUIDGID\b'),
        Copy(PT, r'const MAX_HOST_INO\b'),
        Copy(FSMOD, r'pub struct Entry\b', prefix='#[derive(Clone, Copy)]'),
        Copy(ABI, r'pub struct CreateIn\b', prefix='#[derive(Clone, Copy)]'),
        Copy(STORE, r'pub struct InodeId\b', prefix='#[derive(Clone, Copy, PartialEq, Eq)]', subst=[('libc::ino64_t', 'u64'), ('libc::dev_t', 'u64')]),
        Copy(PT, r'pub struct InodeData\b'),
        Copy(PT, r'enum InodeHandle\b'),
        Copy(FH, r'pub struct OpenableFileHandle\b'),
        Copy(STORE, r'pub struct InodeStore\b'),
        Copy(PT, r'struct InodeMap\b'),
        Copy(PT, r'pub struct PassthroughFs\b'),
    ]
    items += flagsmodel.items(root, ABI, 'OpenOptions')
    items += [
        Raw(PRE_PT),
        Fn(UTIL, None, 'enosys', ensures=['r.os_code() == Some(38i32)'], props=['C15']),
        # the other two errno helpers of util.rs: not used by the covered functions today, extracted so that a version of them that does use one is still in reach
        Fn(UTIL, None, 'eperm', ensures=['r.os_code() == Some(1i32)'], props=['C15']),
        Fn(UTIL, None, 'einval', ensures=['r.os_code() == Some(22i32)'], props=['C15']),
        Group('impl InodeStore {', [
            Fn(STORE, 'impl InodeStore', 'clear',
               ensures=['final(self).data@ == Map::<Inode, Arc<InodeData>>::empty() // [C15.inodes.clear]'], props=['C15']),
            Fn(STORE, 'impl InodeStore', 'get',
               ensures=['match r { Some(v) => self.data@.contains_key(*inode) && *v == self.data@[*inode], None => !self.data@.contains_key(*inode) }'], props=['C15']),
        ]),
        Group('impl InodeMap {', [
            Fn(PT, 'impl InodeMap', 'clear', sig_subst=MUT,
               ensures=['final(self)@ == Map::<Inode, Arc<InodeData>>::empty() // [C15.inodes.map_clear]'], props=['C15'], canary=True),
            Fn(PT, 'impl InodeMap', 'get',
               ensures=['r is Ok ==> self@.contains_key(inode) && r->Ok_0 == self@[inode]', 'r is Err <==> !self@.contains_key(inode)'],
               splices=[('^', 'after', 'broadcast use axiom_arc_cloned;')], props=['C15']),
        ]),
        Group(G, [
            # ---- release
            Fn(PT, P, 'do_release', sig_subst=MUT,
               ensures=['r is Ok <==> old(self).handle_map.resolves(handle, inode) // [C15.do_release.iff] released iff the handle exists and was opened on this inode',
                        'r is Ok ==> final(self).handle_map@ == old(self).handle_map@.remove(handle) // [C15.do_release.exact] exactly this handle, nothing else',
                        'r is Ok ==> final(self).handle_map.cookies_view() == old(self).handle_map.cookies_view().remove(handle) // [C15.do_release.cookie] its position record goes, no other',
                        'r is Err ==> final(self).same_handles(old(self)) // [C15.do_release.err_frame] a failed release changes nothing',
                        'r is Err ==> r->Err_0.os_code() == Some(9i32) // [C15.do_release.ebadf]',
                        'final(self).next_handle.v == old(self).next_handle.v',
                        'old(self).handles_inv() ==> final(self).handles_inv() // [C15.do_release.inv]', 'final(self).same_modes(old(self))'],
               props=['C15'], canary=True),
            # ---- allocation
            Fn(PTS, P, 'do_open', sig_subst=MUT,
               requires=['old(self).handles_inv()',
                         'old(self).next_handle.v < u64::MAX // ASSUMPTION no_wrap: fewer than 2^64 - 1 handles are allocated in the lifetime of the server'],
               ensures=['r is Err ==> final(self).same_table(old(self)) // [C15.do_open.err_no_leak] a failed open stores nothing',
                        '''r is Ok ==> ({ let h = old(self).next_handle.v;
                            r->Ok_0.0 == Some(h)
                            && !old(self).handle_map@.contains_key(h)                                      // distinct opens get distinct handles
                            && final(self).handle_map@ == old(self).handle_map@.insert(h, final(self).handle_map@[h])      // exactly one new entry
                            && final(self).handle_map@[h].inode == inode && file_inode(final(self).handle_map@[h].file) == inode
                            && final(self).next_handle.v == h + 1 }) // [C15.do_open.fresh]''',
                        'final(self).handle_map.cookies_view() == old(self).handle_map.cookies_view() // [C15.do_open.cookies]',
                        'final(self).next_handle.v >= old(self).next_handle.v // [C15.do_open.counter_monotone] handles are never handed out twice', 'final(self).handles_inv() // [C15.do_open.inv]',
                        'final(self).same_modes(old(self))'],
               props=['C15'], canary=True),
        ]),
        Group('impl<S: BitmapSlice + Send + Sync> PassthroughFs<S> {  // trait FileSystem', [
            Fn(PTS, PF, 'open', sig_subst=MUT,
               requires=['old(self).handles_inv()', 'old(self).next_handle.v < u64::MAX // ASSUMPTION no_wrap'],
               ensures=['old(self).no_open.v ==> final(self).same_table(old(self)) // [C15.open.no_open] nothing is stored in no_open mode',
                        'r is Err ==> final(self).same_table(old(self)) // [C15.open.err_no_leak]',
                        '''r is Ok && !old(self).no_open.v ==> ({ let h = old(self).next_handle.v;
                            r->Ok_0.0 == Some(h) && !old(self).handle_map@.contains_key(h)
                            && final(self).handle_map@ == old(self).handle_map@.insert(h, final(self).handle_map@[h])
                            && final(self).handle_map@[h].inode == inode && final(self).next_handle.v == h + 1 }) // [C15.open.fresh]''',
                        'final(self).handle_map.cookies_view() == old(self).handle_map.cookies_view() // [C15.open.cookies]',
                        'final(self).next_handle.v >= old(self).next_handle.v // [C15.open.counter_monotone] handles are never handed out twice', 'final(self).handles_inv() // [C15.open.inv]', 'final(self).same_modes(old(self))'],
               props=['C15'], canary=True),
            Fn(PTS, PF, 'opendir', sig_subst=MUT,
               requires=['old(self).handles_inv()', 'old(self).next_handle.v < u64::MAX // ASSUMPTION no_wrap'],
               ensures=['old(self).no_opendir.v ==> final(self).same_table(old(self)) // [C15.opendir.no_opendir] nothing is stored in no_opendir mode',
                        'r is Err ==> final(self).same_table(old(self)) // [C15.opendir.err_no_leak]',
                        '''r is Ok && !old(self).no_opendir.v ==> ({ let h = old(self).next_handle.v;
                            r->Ok_0.0 == Some(h) && !old(self).handle_map@.contains_key(h)
                            && final(self).handle_map@ == old(self).handle_map@.insert(h, final(self).handle_map@[h])
                            && final(self).handle_map@[h].inode == inode && final(self).next_handle.v == h + 1 }) // [C15.opendir.fresh]''',
                        'final(self).handle_map.cookies_view() == old(self).handle_map.cookies_view() // [C15.opendir.cookies]',
                        'final(self).next_handle.v >= old(self).next_handle.v // [C15.opendir.counter_monotone] handles are never handed out twice', 'final(self).handles_inv() // [C15.opendir.inv]', 'final(self).same_modes(old(self))'],
               splices=opt_closure(PTS, PF, 'opendir', '|(a, b, _)|', '|tp_1|', '|tp_1: (Option<Handle>, OpenOptions, Option<u32>)| -> (q: (Option<Handle>, OpenOptions)) ensures q.0 == tp_1.0'),
               props=['C15'], canary=True),
            Fn(PTS, PF, 'create', sig_subst=MUT,
               requires=['old(self).handles_inv()', 'old(self).next_handle.v < u64::MAX // ASSUMPTION no_wrap'],
               ensures=['r is Err ==> final(self).same_table(old(self)) // [C15.create.err_no_handle_leak] a failed create stores no handle',
                        '''r is Ok && !old(self).no_open.v ==> ({ let h = old(self).next_handle.v;
                            r->Ok_0.1 == Some(h) && !old(self).handle_map@.contains_key(h)
                            && final(self).handle_map@ == old(self).handle_map@.insert(h, final(self).handle_map@[h])
                            && final(self).handle_map@[h].inode == r->Ok_0.0.inode && final(self).next_handle.v == h + 1 }) // [C15.create.fresh] the handle belongs to the inode of the returned entry''',
                        'r is Ok && old(self).no_open.v ==> r->Ok_0.1 is None && final(self).same_table(old(self)) // [C15.create.no_open] nothing is stored in no_open mode',
                        'final(self).handle_map.cookies_view() == old(self).handle_map.cookies_view() // [C15.create.cookies]',
                        'final(self).next_handle.v >= old(self).next_handle.v // [C15.create.counter_monotone] handles are never handed out twice', 'final(self).handles_inv() // [C15.create.inv]', 'final(self).same_modes(old(self))']
                       + (['r is Err ==> refs_same(final(self).inode_map, old(self).inode_map) // [C15.create.err_no_inode_leak] a failed create leaves no inode reference behind'] if CHECK_CREATE_ERR_PATHS else []),
               props=['C15'], canary=True),
            Fn(PTS, PF, 'release', sig_subst=MUT,
               ensures=['old(self).no_open.v ==> final(self).same_handles(old(self)) // [C15.release.no_open] the table is untouched in no_open mode',
                        '!old(self).no_open.v ==> (r is Ok <==> old(self).handle_map.resolves(handle, inode)) // [C15.release.iff]',
                        '''!old(self).no_open.v && r is Ok ==> final(self).handle_map@ == old(self).handle_map@.remove(handle)
                            && final(self).handle_map.cookies_view() == old(self).handle_map.cookies_view().remove(handle) // [C15.release.exact]''',
                        'r is Err ==> final(self).same_handles(old(self)) // [C15.release.err_frame]',
                        'old(self).handles_inv() ==> final(self).handles_inv() // [C15.release.inv]', 'final(self).same_modes(old(self))'],
               props=['C15'], canary=True),
            Fn(PTS, PF, 'releasedir', sig_subst=MUT,
               ensures=['old(self).no_opendir.v ==> final(self).same_handles(old(self)) // [C15.releasedir.no_opendir] the table is untouched in no_opendir mode',
                        '!old(self).no_opendir.v ==> (r is Ok <==> old(self).handle_map.resolves(handle, inode)) // [C15.releasedir.iff]',
                        '''!old(self).no_opendir.v && r is Ok ==> final(self).handle_map@ == old(self).handle_map@.remove(handle)
                            && final(self).handle_map.cookies_view() == old(self).handle_map.cookies_view().remove(handle) // [C15.releasedir.exact]''',
                        'r is Err ==> final(self).same_handles(old(self)) // [C15.releasedir.err_frame]',
                        'old(self).handles_inv() ==> final(self).handles_inv() // [C15.releasedir.inv]', 'final(self).same_modes(old(self))'],
               props=['C15'], canary=True),
            # ---- destroy: nothing but the re-imported root survives
            Fn(PTS, PF, 'destroy', sig_subst=MUT,
               ensures=['final(self).handle_map@ == Map::<Handle, Arc<HandleData>>::empty() // [C15.destroy.handles]',
                        'final(self).handle_map.cookies_view() == Map::<Handle, u64>::empty() // [C15.destroy.cookies]',
                        'forall|i: Inode| #[trigger] final(self).inode_map@.contains_key(i) ==> i == fuse::ROOT_ID // [C15.destroy.inodes] no live inode object but the root',
                        'final(self).next_handle.v == old(self).next_handle.v // handles of the previous session are not reused',
                        'final(self).handles_inv() // [C15.destroy.inv]', 'final(self).same_modes(old(self))'],
               props=['C15'], canary=True),
        ]),
        Group(G, [
            # ---- resolution of a handle by the operations that use it
            Fn(PTS, P, 'get_data',
               ensures=['!self.no_open.v ==> (r is Ok <==> self.handle_map.resolves(handle, inode)) // [C15.get_data.iff] only with the inode it was opened on, only while it is in the table',
                        '!self.no_open.v && r is Ok ==> r->Ok_0 == self.handle_map@[handle] // [C15.get_data.entry]',
                        '!self.no_open.v && r is Err ==> r->Err_0.os_code() == Some(9i32) // [C15.get_data.ebadf]',
                        'self.no_open.v && r is Ok ==> r->Ok_0.inode == inode && file_inode(r->Ok_0.file) == inode // [C15.get_data.temp] a temporary descriptor of the request\'s inode'],
               props=['C15'], canary=True),
            Fn(PTS, P, 'get_dirdata',
               ensures=['!self.no_opendir.v ==> (r is Ok <==> self.handle_map.resolves(handle, inode)) // [C15.get_dirdata.iff]',
                        '!self.no_opendir.v && r is Ok ==> r->Ok_0 == self.handle_map@[handle] // [C15.get_dirdata.entry]',
                        '!self.no_opendir.v && r is Err ==> r->Err_0.os_code() == Some(9i32) // [C15.get_dirdata.ebadf]',
                        'self.no_opendir.v && r is Ok ==> r->Ok_0.inode == inode && file_inode(r->Ok_0.file) == inode // [C15.get_dirdata.temp]'],
               props=['C15'], canary=True),
            Fn(PTS, P, 'do_getattr', sig_subst=[('libc::stat64', 'stat64')],
               requires=['''forall|d: HandleData| #[trigger] fd_use_ok(d) <==> (handle is Some && !self.no_open.v && self.handle_map.resolves(handle->Some_0, inode)
                            && d == *self.handle_map@[handle->Some_0]) // [C15.grant]'''],
               ensures=['handle is Some && !self.no_open.v && !self.handle_map.resolves(handle->Some_0, inode) ==> r is Err // [C15.do_getattr.stale]'],
               props=['C15'], canary=True),
            # ---- directory-position records
            Fn(PTS, P, 'consume_cached_cookie', sig_subst=MUT,
               ensures=['old(self).no_opendir.v ==> !r && final(self).same_handles(old(self)) // [C15.cookie.consume.no_opendir]',
                        '!old(self).no_opendir.v ==> final(self).handle_map.cookies_view() == old(self).handle_map.cookies_view().remove(handle) // [C15.cookie.consume.exact]',
                        'final(self).handle_map@ == old(self).handle_map@ && final(self).next_handle.v == old(self).next_handle.v // [C15.cookie.consume.frame]',
                        '!old(self).no_opendir.v ==> r == (old(self).handle_map.cookies_view().contains_key(handle) && old(self).handle_map.cookies_view()[handle] == offset)',
                        'old(self).handles_inv() ==> final(self).handles_inv() // [C15.cookie.consume.inv]', 'final(self).same_modes(old(self))'],
               splices=opt_closure(PTS, P, 'consume_cached_cookie', '|cookie|', '|cookie|', '|cookie: u64| -> (q: bool)\n    ensures q == (cookie == offset) // [C15.cookie.consume.match]\n'),
               props=['C15'], canary=True),
            Fn(PTS, P, 'cache_cookie', sig_subst=MUT,
               # the (unextracted, `unsafe`) caller do_readdir has resolved (handle, inode) through get_dirdata before: assumed
               requires=['!old(self).no_opendir.v ==> old(self).handle_map@.contains_key(handle) // ASSUMPTION on the caller do_readdir'],
               ensures=['old(self).no_opendir.v ==> final(self).same_handles(old(self)) // [C15.cookie.cache.no_opendir] no position record in no_opendir mode',
                        '''final(self).handle_map.cookies_view() == old(self).handle_map.cookies_view()
                            || (final(self).handle_map.cookies_view().contains_key(handle) && final(self).handle_map.cookies_view() == old(self).handle_map.cookies_view().insert(handle, final(self).handle_map.cookies_view()[handle])) // [C15.cookie.cache.exact] at most the record of this handle''',
                        'final(self).handle_map@ == old(self).handle_map@ && final(self).next_handle.v == old(self).next_handle.v // [C15.cookie.cache.frame]',
                        'old(self).handles_inv() ==> final(self).handles_inv() // [C15.cookie.cache.inv]', 'final(self).same_modes(old(self))'],
               props=['C15'], canary=True),
        ]),
        Group('impl<S: BitmapSlice + Send + Sync> PassthroughFs<S> {  // trait FileSystem (2)', [
            Fn(PTS, PF, 'fsync', requires=[grant('no_open')],
               ensures=['!self.no_open.v && !self.handle_map.resolves(handle, inode) ==> r is Err && r->Err_0.os_code() == Some(9i32) // [C15.fsync.stale]'],
               props=['C15'], canary=True),
            Fn(PTS, PF, 'fsyncdir', requires=[grant('no_opendir')],
               ensures=['!self.no_opendir.v && !self.handle_map.resolves(handle, inode) ==> r is Err && r->Err_0.os_code() == Some(9i32) // [C15.fsyncdir.stale]'],
               props=['C15'], canary=True),
        ]),
        Raw(LEMMAS),
    ]
    # R24 on every extracted function of this unit (see extract.r24_explicit_else: Verus mis-resolves a BTreeMap entry moved in an
    # else-less `if`; found when the mutant "release removes but returns an error" verified vacuously)
    def walk(its):
        for it in its:
            if isinstance(it, Group):
                walk(it.items)
            elif isinstance(it, Fn):
                it.rules = tuple(getattr(it, 'rules', ())) + ('R24',)
    walk(items)
    covered = set()

    def collect(its):
        for it in its:
            if isinstance(it, Group):
                collect(it.items)
            elif isinstance(it, Fn) and not it.external_body:
                covered.add((it.file, it.name))
    collect(items)
    bad = writers_scan(root, covered)
    items.append(Raw('// ---- closed set of writers: generated from a scan of src/passthrough (see writers_scan in vx/units/handles.py)\n'
                     'proof fn writers_closed() {\n' +
                     ''.join('    assert(false); // [C15.writers.closed] the handle table / counter is touched outside the functions under contract: %s\n' % b.replace('\n', ' ') for b in bad) +
                     '}\n'))
    return Unit('handles', items, preludes=['base.rs'], generic_tags={'fd': ['C15']},
                notes='sequential model of RwLock/Mutex/atomics: &self -> &mut self on mutating functions (logged as SIG)')
