"""Unit `asyncfile` (C04 C20 C15): src/common/async_file.rs on its real text (feature async-io on for this unit) and what is in reach of
src/common/async_runtime.rs.  Unit filebuf ASSUMES a model of `async_file::File` (async_read_at / async_write_at with the clause `buf_xfer`); this unit
verifies the real functions against that very clause (the spec text is IMPORTED from vx/units/filebuf.py, not re-typed) up to the two points where
the real code cannot meet it (EINTR retries, offsets beyond off64_t) and shows by a checked lemma that without an interrupted attempt the proved
clause IS filebuf's clause.

Vocabulary (imported from unit filebuf): the ghost token `Host` (memory access log `mem`, host call log `calls`, `errno`), `IoVec`, `iov_cells`,
`in_ops` / `out_ops`, the kernel model `host_xfer` of the eight transfer calls, `buf_lo` / `buf_len` (the part of a FileVolatileBuf a transfer uses:
read = the FREE part [addr + size, addr + cap), write = the INITIALISED part [addr, addr + size)), `psum` (bytes of the first i buffers), `buf_xfer`.
New here: `bufs_iov(b, rd)` (the iovec list a buffer list stands for), `fill(b, n, i)` (how many of n transferred bytes land in buffer i),
`retried(o, n, c)` (the calls made are: zero or more attempts of call c that failed, then c itself), `buf_xfer_r` = `buf_xfer` with "exactly one
call" replaced by `retried`; a second ghost token `Fds` for the descriptor functions (open descriptors, how many Rust objects own each - i.e. will
close it when dropped -, the log of descriptor calls).

Clauses.
 preadv / pwritev (free functions; tags `*.asyncfile.preadv.*`, `*.asyncfile.pwritev.*`):
   every host call made is preadv64 / pwritev64 on the given descriptor with an iovec array that is exactly the free / initialised parts of the
   given buffers in order (array handed to the kernel in bounds, count = its length) and the given offset [C20 .host_call]; only failed attempts
   are repeated and an error other than EINTR ends the loop [.result]; Ok(n): exactly the first n bytes of the buffers, in order, from file offset
   `offset` on [C04 .fills_reported_prefix / .takes_reported_prefix]; the sizes grow by exactly that prefix, buffer by buffer, addresses and capacities
   unchanged [C04 .sizes_mark_filled_prefix] (pwritev: buffers unchanged); Err: nothing touched [.err_untouched]; `set_size` never beyond the
   capacity (its safety condition is a PROVED precondition [C04.asyncfile.set_size.in_bounds]); the `assert_eq!(count, 0)` cannot fire; no
   arithmetic overflow.
 File::async_read_at / async_write_at / async_readv_at / async_writev_at: per runtime variant, the same transfer [C04 .tokio_same_transfer /
   C20 .uring_same_transfer]: `buf_xfer_r` (single buffer) / `vec_xfer_r` (buffer list); buffers handed back with the same address / capacity.
   Finding A1 (findings/repro_asyncfile.rs): before its repair the io_uring arm of async_read_at is `f.read_at(buf, offset)`, which fills the buffer from its
   START: `C20.asyncfile.async_read_at.uring_same_transfer` fails on that text.  The repaired arm (`buf.slice(init..)` .. `into_inner()`, a buffer without
   free space answered (Ok(0), buf) without an operation) is proved against a model of tokio-uring's IoBuf::slice / Slice (asserts of slice() = proved
   preconditions `C04.asyncfile.uring_slice.*`); for such a buffer the clause says: nothing moves, Ok(0), no operation (the tokio arm issues a preadv
   with a zero-length iovec instead - the one remaining difference between the variants, visible only as an Err for a bad descriptor / offset).
 as_raw_fd: the descriptor of the wrapped object [C20].  from_std_file: wraps that very descriptor, variant by runtime type [C15].
 metadata: ONE fstat on the object's own descriptor; the temporary std File made by from_raw_fd is forgotten, not dropped: the descriptor is
   neither closed nor left with a second owner [C15 .descriptor_kept] (scope-exit drops made explicit by R53f).
 async_try_clone: both variants duplicate the object's own descriptor; Ok: ONE new descriptor, owned once (by the returned object); Err: nothing
   new is open; from_raw_fd only on an open descriptor nobody owns [C15].
 async_open: both variants open `path` with read = true, write = `write`, create = `create` and no other option [C20].
 RuntimeType::new / probe_io_uring, with_runtime: see the functions.

Models (ASSUMED; all in this file or imported from filebuf): libc preadv64 / pwritev64 (filebuf's kernel model), dup; std::io::IoSlice(Mut) ABI =
struct iovec; tokio-uring 0.4.0 fs::File::{read_at, readv_at, write_at, writev_at} written from src/driver/{read,readv,write,writev}.rs instantiated
with the IoBuf / IoBufMut impl of FileVolatileBuf that unit filebuf verifies (stable_ptr = addr, bytes_init = size, bytes_total = cap, set_init =
set_size), logged as the positional vectored call io_uring_enter(2) documents them to be equivalent to; tokio / tokio-uring OpenOptions, from_std,
try_clone, from_raw_fd; std::fs::File::{from_raw_fd, metadata}, mem::forget, drop of a File = close; io-uring 0.5 IoUring / Probe.
"""
import re

from vx.api import Unit, Fn, Copy, Raw, Group
from vx import extract as X
from vx import fbrules as FR
from vx import fhrules as FH
from vx import afrules as AFR
from vx.units import filebuf as FBU

AF = 'src/common/async_file.rs'
AR = 'src/common/async_runtime.rs'
FB = 'src/common/file_buf.rs'


def _cut(text, marker):
    if marker not in text:
        raise X.ExtractError('asyncfile: marker %r not found in the text imported from unit filebuf' % marker)
    return text.split(marker)[0]


# the part of filebuf's MODEL before the vm-memory section: ghost memory / host, raw pointers and slices, IoSlice / IoSliceMut
MODEL_HEAD = _cut(FBU.MODEL, '// ===== vm-memory')


def _buf_xfer_r():
    """`buf_xfer_r`: the text of filebuf's `buf_xfer` with `n.calls == o.calls.push(C)` replaced by `retried(o, n, C)` - nothing else changes"""
    t = FBU.ASYNC_SPEC
    a = t.index('pub open spec fn buf_xfer(')
    b = t.index('\n}\n', a) + 3
    f = t[a:b]
    k = f.index('n.calls == o.calls.push(')
    ob = k + len('n.calls == o.calls.push(') - 1
    cb = X.match_close(f, ob)
    f2 = f[:k] + 'retried(o, n, ' + f[ob + 1:cb] + ')' + f[cb + 1:]
    if f2.count('retried(') != 1 or 'o.calls.push' in f2:
        raise X.ExtractError('asyncfile: unexpected shape of filebuf.buf_xfer')
    return f2.replace('pub open spec fn buf_xfer(', 'pub open spec fn buf_xfer_r(')


AF_SPEC = r"""
// ===== unit asyncfile: specification vocabulary
// the iovec list / the addresses a list of buffers stands for in a read (rd: the free parts) or a write (the initialised parts), in order
pub open spec fn bufs_iov(b: Seq<FileVolatileBuf>, rd: bool) -> Seq<IoVec> { Seq::new(b.len(), |i: int| IoVec { base: buf_lo(b[i], rd), len: buf_len(b[i], rd) }) }
pub open spec fn bcells(b: Seq<FileVolatileBuf>, rd: bool) -> Seq<int> { iov_cells(bufs_iov(b, rd)) }
// how many of n bytes delivered to the buffers b, in order, land in buffer i
pub open spec fn fill(b: Seq<FileVolatileBuf>, n: int, i: int) -> int {
    let before = psum(b, true, i); let l = buf_len(b[i], true) as int;
    if n <= before { 0 } else if n - before >= l { l } else { n - before }
}
pub open spec fn ret_of(r: io::Result<usize>) -> int { match r { Ok(k) => k as int, Err(_) => -1int } }
// the attempts of one retried call: every call logged after c0 is call c with the result -1
pub open spec fn failed_attempts(c0: Seq<HostCall>, c1: Seq<HostCall>, c: HostCall) -> bool {
    &&& c0.len() <= c1.len()
    &&& c1.take(c0.len() as int) =~= c0
    &&& forall|j: int| c0.len() <= j < c1.len() ==> #[trigger] c1[j] == (HostCall { ret: -1int, ..c })
}
// the calls made between o and n: zero or more failed attempts of c, then c
pub open spec fn retried(o: Host, n: Host, c: HostCall) -> bool {
    n.calls.len() > o.calls.len() && n.calls.last() == c && failed_attempts(o.calls, n.calls.drop_last(), c)
}
%(BUF_XFER_R)s
// REFINEMENT of the clause unit filebuf assumes for async_file::File: without an interrupted attempt, what is proved here IS filebuf's `buf_xfer`
pub proof fn lemma_buf_xfer_r_is_filebuf_model(o: Host, n: Host, fd: i32, b: FileVolatileBuf, offset: u64, r: (io::Result<usize>, FileVolatileBuf), rd: bool)
    requires buf_xfer_r(o, n, fd, b, offset, r, rd), n.calls.len() == o.calls.len() + 1
    ensures buf_xfer(o, n, fd, b, offset, r, rd)
{
    assert(n.calls.drop_last() =~= o.calls);
    assert(n.calls =~= n.calls.drop_last().push(n.calls.last()));
}
// ... and conversely filebuf's clause is the special case of no retry
pub proof fn lemma_filebuf_model_is_buf_xfer_r(o: Host, n: Host, fd: i32, b: FileVolatileBuf, offset: u64, r: (io::Result<usize>, FileVolatileBuf), rd: bool)
    requires buf_xfer(o, n, fd, b, offset, r, rd)
    ensures buf_xfer_r(o, n, fd, b, offset, r, rd)
{
    assert(n.calls.drop_last() =~= o.calls);
}
// the buffers after a transfer of n bytes: same addresses and capacities, a read marks exactly the filled prefix as initialised, a write changes nothing
pub open spec fn sizes_after(b: Seq<FileVolatileBuf>, a: Seq<FileVolatileBuf>, n: int, rd: bool) -> bool {
    &&& a.len() == b.len()
    &&& forall|i: int| 0 <= i < b.len() ==> (#[trigger] a[i]).addr == b[i].addr && a[i].cap == b[i].cap && a[i].size == b[i].size + (if rd { fill(b, n, i) } else { 0 })
}
// one (retried) positional vectored transfer between a file and a LIST of buffers
pub open spec fn vec_xfer_r(o: Host, n: Host, fd: i32, b: Seq<FileVolatileBuf>, offset: u64, r: io::Result<usize>, a: Seq<FileVolatileBuf>, rd: bool) -> bool {
    &&& retried(o, n, HostCall { nr: if rd { 295int } else { 296int }, fd: fd as int, iov: bufs_iov(b, rd), off: Some(offset as int), ret: ret_of(r) })
    &&& match r {
            Ok(k) => k <= bcells(b, rd).len() && sizes_after(b, a, k as int, rd)
                        && n.mem == o.mem + (if rd { in_ops(bcells(b, rd).take(k as int), Some(offset as int)) } else { out_ops(bcells(b, rd).take(k as int), Some(offset as int)) }),
            Err(_) => a =~= b && n.mem == o.mem,
        }
}
pub proof fn lemma_iov_cells_push(v: Seq<IoVec>, x: IoVec)
    ensures iov_cells(v.push(x)) =~= iov_cells(v) + range(x.base, x.len)
    decreases v.len()
{
    if v.len() == 0 {
        assert(v.push(x).skip(1) =~= Seq::<IoVec>::empty());
        reveal_with_fuel(iov_cells, 3);
    } else {
        assert(v.push(x).skip(1) =~= v.skip(1).push(x));
        lemma_iov_cells_push(v.skip(1), x);
        assert(v.push(x)[0] == v[0]);
    }
}
// the bytes of the first i buffers are the addresses their iovec entries cover
pub proof fn lemma_cells_len(b: Seq<FileVolatileBuf>, rd: bool, i: int)
    requires 0 <= i <= b.len()
    ensures iov_cells(bufs_iov(b, rd).take(i)).len() == psum(b, rd, i)
    decreases i
{
    reveal_with_fuel(psum, 2);
    if i == 0 { assert(bufs_iov(b, rd).take(0) =~= Seq::<IoVec>::empty()); }
    else {
        lemma_cells_len(b, rd, i - 1);
        assert(bufs_iov(b, rd).take(i) =~= bufs_iov(b, rd).take(i - 1).push(bufs_iov(b, rd)[i - 1]));
        lemma_iov_cells_push(bufs_iov(b, rd).take(i - 1), bufs_iov(b, rd)[i - 1]);
    }
}
pub proof fn lemma_bcells_len(b: Seq<FileVolatileBuf>, rd: bool)
    ensures bcells(b, rd).len() == psum(b, rd, b.len() as int)
{ lemma_cells_len(b, rd, b.len() as int); assert(bufs_iov(b, rd).take(b.len() as int) =~= bufs_iov(b, rd)); }
// a list of ONE buffer is the one-entry iovec list of filebuf's single-buffer clause
pub broadcast proof fn lemma_single(s: Seq<FileVolatileBuf>, rd: bool)
    requires s.len() == 1
    ensures #[trigger] bufs_iov(s, rd) =~= one_iov(buf_lo(s[0], rd), buf_len(s[0], rd)), psum(s, rd, 0) == 0, psum(s, rd, 1) == buf_len(s[0], rd)
{ reveal_with_fuel(psum, 3); }
// ABSTRACT `V.as_ptr() as *const libc::iovec` (V: Vec<IoSliceMut> / Vec<IoSlice>): the array handed to the kernel.  ASSUMED (std::io::IoSlice /
// IoSliceMut: "guaranteed to be ABI compatible with the iovec type"): element i of the array is { iov_base: address of V[i], iov_len: its length }
pub open spec fn ioslices_mut_iov(v: Seq<IoSliceMut<'_>>) -> Seq<IoVec> { Seq::new(v.len(), |i: int| IoVec { base: slice_base(&*v[i].b) as int, len: v[i].b@.len() }) }
pub open spec fn ioslices_iov(v: Seq<IoSlice<'_>>) -> Seq<IoVec> { Seq::new(v.len(), |i: int| IoVec { base: slice_base(v[i].b) as int, len: v[i].b@.len() }) }
#[verifier::external_body] pub fn vx_ioslice_mut_array<'a, 'b>(v: &'a Vec<IoSliceMut<'b>>) -> (r: IovArray<'a>)
    ensures r.elems().len() == v@.len(), iovs(r.elems()) == ioslices_mut_iov(v@)
{ unimplemented!() }
#[verifier::external_body] pub fn vx_ioslice_array<'a, 'b>(v: &'a Vec<IoSlice<'b>>) -> (r: IovArray<'a>)
    ensures r.elems().len() == v@.len(), iovs(r.elems()) == ioslices_iov(v@)
{ unimplemented!() }
pub mod stdm {
    pub mod cmp {
        use vstd::prelude::*;
        // std::cmp::min on usize
        pub fn min(a: usize, b: usize) -> (r: usize) ensures r == (if a <= b { a } else { b }) { if a <= b { a } else { b } }
    }
    pub mod fs { pub use crate::File; pub use crate::Metadata; }        // std::fs::File (model of unit filebuf), std::fs::Metadata
    pub mod mem { pub use crate::stdm_fd::mem::forget; }                // std::mem::forget (of an owning file object)
}
"""

# ---- tokio-uring 0.4.0 fs::File, transfer side (ASSUMED; written from src/driver/read.rs, readv.rs, write.rs, writev.rs, instantiated with
# `impl IoBuf / IoBufMut for FileVolatileBuf` as verified by unit filebuf: stable_ptr = stable_mut_ptr = addr, bytes_init = size, bytes_total = cap,
# set_init(n) = set_size(n)).  An io_uring READ / WRITE / READV / WRITEV operation is logged as the positional vectored call it is documented to be
# equivalent to (io_uring_enter(2): "IORING_OP_READ / WRITE issue the equivalent of a pread(2) / pwrite(2)", "READV / WRITEV .. similar to preadv2 / pwritev2").
URING_XFER = r"""
// ABSTRACT `B.slice(E..)` (tokio_uring::buf::IoBuf::slice with a RangeFrom: begin = E, end = bytes_total()) -> `B.slice_from(E)`.  io_buf.rs:
// `assert!(begin < self.bytes_total()); .. assert!(end <= self.bytes_total()); assert!(begin <= self.bytes_init()); Slice::new(self, begin, end)` -
// the asserts are PRECONDITIONS, proved at the call
impl FileVolatileBuf {
    pub fn slice_from(self, begin: usize) -> (r: tokio_uring::buf::Slice)
        requires begin < self.cap, // [C04.asyncfile.uring_slice.begin_below_total] assert!(begin < self.bytes_total()): an EMPTY range panics
                 begin <= self.size, // [C04.asyncfile.uring_slice.begin_within_init] assert!(begin <= self.bytes_init())
        ensures r == (tokio_uring::buf::Slice { buf: self, begin: begin, end: self.cap })
    { tokio_uring::buf::Slice { buf: self, begin: begin, end: self.cap } }
}
pub open spec fn uring_op(o: Host, n: Host, rd: bool, fd: i32, iov: Seq<IoVec>, pos: u64, r: io::Result<usize>) -> bool {
    host_xfer(o, n, HostCall { nr: if rd { 295int } else { 296int }, fd: fd as int, iov: iov, off: Some((pos as i64) as int), ret: ret_of(r) }, rd)
}
pub mod tokio_uring {
pub mod buf {
    use super::super::*;
    // what tokio-uring's read path asks of an `IoBufMut`: stable_mut_ptr(), bytes_total(), set_init(n)
    pub trait UBufMut: Sized { spec fn u_ptr(&self) -> int; spec fn u_total(&self) -> nat; spec fn u_set_init(&self, n: int) -> Self; }
    // `unsafe impl IoBuf / IoBufMut for FileVolatileBuf` (src/common/file_buf.rs; verified by unit filebuf: C04.fbuf.iobuf.*): addr, cap, set_size(n)
    impl UBufMut for FileVolatileBuf {
        open spec fn u_ptr(&self) -> int { self.addr as int }
        open spec fn u_total(&self) -> nat { self.cap as nat }
        open spec fn u_set_init(&self, n: int) -> Self { FileVolatileBuf { addr: self.addr, cap: self.cap, size: if 0 <= n <= self.cap { n as usize } else { self.size } } }
    }
    // buf/slice.rs: `pub struct Slice<T> { buf: T, begin: usize, end: usize }` (here for T = FileVolatileBuf); IoBufMut for Slice<T>: stable_mut_ptr =
    // deref_mut(&mut buf)[begin..].as_mut_ptr() (= base + begin; needs begin <= bytes_init, asserted by slice()), bytes_total = end - begin,
    // set_init(pos) = buf.set_init(begin + pos)
    pub struct Slice { pub buf: FileVolatileBuf, pub begin: usize, pub end: usize }
    impl UBufMut for Slice {
        open spec fn u_ptr(&self) -> int { self.buf.addr + self.begin }
        open spec fn u_total(&self) -> nat { (self.end - self.begin) as nat }
        open spec fn u_set_init(&self, n: int) -> Self { Slice { buf: self.buf.u_set_init(self.begin + n), begin: self.begin, end: self.end } }
    }
    impl Slice {
        // `pub fn into_inner(self) -> T { self.buf }`
        pub fn into_inner(self) -> (r: FileVolatileBuf) ensures r == self.buf { self.buf }
    }
}
pub mod fs {
    use super::super::*;
    #[verifier::external_body] pub struct File { _p: u8 }
    impl AsRawFd for File { uninterp spec fn sfd(&self) -> i32; #[verifier::external_body] fn as_raw_fd(&self) -> (r: RawFd) { unimplemented!() } }
    impl File {
        // read.rs: ptr = stable_mut_ptr(), len = bytes_total(); complete: Ok(n) => set_init(n).  Generic in the buffer (FileVolatileBuf itself or a Slice of it)
        #[verifier::external_body] pub fn read_at<T: super::buf::UBufMut>(&self, buf: T, pos: u64, Tracked(hs): Tracked<&mut Host>) -> (r: (io::Result<usize>, T))
            ensures uring_op(*old(hs), *final(hs), true, self.sfd(), one_iov(buf.u_ptr(), buf.u_total()), pos, r.0),
                    r.1 == (match r.0 { Ok(n) => buf.u_set_init(n as int), Err(_) => buf })
        { unimplemented!() }
        // readv.rs: iovec i = { stable_mut_ptr().add(bytes_init()), bytes_total() - bytes_init() }; complete: Ok(n) => n is dealt out front to back, set_init(bytes_init() + share)
        #[verifier::external_body] pub fn readv_at(&self, bufs: Vec<FileVolatileBuf>, pos: u64, Tracked(hs): Tracked<&mut Host>) -> (r: (io::Result<usize>, Vec<FileVolatileBuf>))
            requires forall|i: int| 0 <= i < bufs@.len() ==> (#[trigger] bufs@[i]).wf(), // [C04.asyncfile.uring_readv_at.buffer_wf] `bytes_total() - bytes_init()` (IoBuf safety contract: bytes_init <= bytes_total)
            ensures uring_op(*old(hs), *final(hs), true, self.sfd(), bufs_iov(bufs@, true), pos, r.0),
                    match r.0 { Ok(n) => sizes_after(bufs@, r.1@, n as int, true), Err(_) => r.1@ =~= bufs@ }
        { unimplemented!() }
        // write.rs: ptr = stable_ptr(), len = bytes_init(); the buffer comes back as it was
        #[verifier::external_body] pub fn write_at(&self, buf: FileVolatileBuf, pos: u64, Tracked(hs): Tracked<&mut Host>) -> (r: (io::Result<usize>, FileVolatileBuf))
            ensures uring_op(*old(hs), *final(hs), false, self.sfd(), one_iov(buf.addr as int, buf.size as nat), pos, r.0), r.1 == buf
        { unimplemented!() }
        // writev.rs: iovec i = { stable_ptr(), bytes_init() }
        #[verifier::external_body] pub fn writev_at(&self, bufs: Vec<FileVolatileBuf>, pos: u64, Tracked(hs): Tracked<&mut Host>) -> (r: (io::Result<usize>, Vec<FileVolatileBuf>))
            ensures uring_op(*old(hs), *final(hs), false, self.sfd(), bufs_iov(bufs@, false), pos, r.0), r.1@ =~= bufs@
        { unimplemented!() }
%(URING_FD)s
    }
%(URING_OPEN)s
} }
pub mod tokio { pub mod fs {
    use super::super::*;
    #[verifier::external_body] pub struct File { _p: u8 }
    impl AsRawFd for File { uninterp spec fn sfd(&self) -> i32; #[verifier::external_body] fn as_raw_fd(&self) -> (r: RawFd) { unimplemented!() } }
    impl File {
%(TOKIO_FD)s
    }
%(TOKIO_OPEN)s
} }
"""

_ROOT = ['/repo']
TOK = dict(param='Tracked(hs): Tracked<&mut Host>', arg='Tracked(hs)')
OFFBV = 'proof { assert(offset > 0x7fff_ffff_ffff_ffffu64 ==> (offset as i64) < 0i64) by (bit_vector); assert(offset <= 0x7fff_ffff_ffff_ffffu64 ==> (offset as i64) as u64 == offset) by (bit_vector); }'


def _xfer_fn(scope, name, **kw):
    f = Fn(AF, scope, name, **kw)
    f.locate = FR.then(FR.plain_locate(scope, name), AFR.r80_std_paths, FR.r64_host_calls_by_name(['preadv64', 'pwritev64']))
    f.body_hooks = [AFR.r84_local_use, AFR.r81_iter_mut_loop, AFR.r65a_unsafe_one_call([r'sys::\w+', r'\w+\.set_size'])]
    f.ghost_token = dict(TOK, callees=['read_at', 'readv_at', 'write_at', 'writev_at'], path_callees=['preadv64', 'pwritev64', 'last_os_error'], free_callees=['preadv', 'pwritev'])
    return f


# ---------------------------------------------------------------------------------------------------------------------------- preadv / pwritev
def _c(rd):
    return 'HostCall { nr: %s, fd: fd as int, iov: bufs_iov(b0, %s), off: Some((offset as i64) as int), ret: 0int }' % ('295int' if rd else '296int', 'true' if rd else 'false')


IOV_LOOP = """while %(IOV)s_i < bufs.len()
        invariant %(IOV)s_i <= bufs@.len(), %(IOV)s@.len() == %(IOV)s_i, bufs@ == b0,
            forall|j: int| 0 <= j < %(IOV)s_i ==> %(base)s == buf_lo(b0[j], %(rd)s) && (#[trigger] %(IOV)s@[j]).b@.len() == buf_len(b0[j], %(rd)s), // [C20.asyncfile.%(n)s.loop.%(IOV)s_is_the_buffers]
        ensures %(ios)s(%(IOV)s@) =~= bufs_iov(b0, %(rd)s), // [C20.asyncfile.%(n)s.loop.%(IOV)s_is_the_buffers_exit]
        decreases bufs@.len() - %(IOV)s_i
    {"""
RETRY_LOOP = """loop
        invariant bufs@ == b0, hs.mem == m0, %(ios)s(%(IOV)s@) == bufs_iov(b0, %(rd)s), %(IOV)s@.len() == b0.len(),
            failed_attempts(c0, hs.calls, %(c)s), // [C20.asyncfile.%(n)s.loop.only_failed_attempts_so_far]
    {"""
DEAL_LOOP = """while %(BUF)s_i < bufs.len()
                invariant_except_break
                    %(COUNT)s == %(RES)s - psum(b0, true, %(BUF)s_i as int), // [C04.asyncfile.preadv.loop.count_is_what_is_left]
                    forall|j: int| 0 <= j < %(BUF)s_i ==> (#[trigger] bufs@[j]).size == b0[j].size + buf_len(b0[j], true), // [C04.asyncfile.preadv.loop.earlier_buffers_full]
                invariant
                    %(BUF)s_i <= bufs@.len(), bufs@.len() == b0.len(), 0 <= %(RES)s <= psum(b0, true, b0.len() as int),
                    forall|j: int| 0 <= j < b0.len() ==> (#[trigger] bufs@[j]).addr == b0[j].addr && bufs@[j].cap == b0[j].cap,
                    forall|j: int| %(BUF)s_i <= j < b0.len() ==> #[trigger] bufs@[j] == b0[j],
                ensures
                    %(COUNT)s == 0, // [C04.asyncfile.preadv.loop.everything_dealt_out]
                    sizes_after(b0, bufs@, %(RES)s as int, true), // [C04.asyncfile.preadv.loop.sizes_mark_filled_prefix]
                decreases bufs@.len() - %(BUF)s_i
            {"""
ENTRY = ('broadcast use lemma_psum_mono, lemma_cnt_iov_all; let ghost b0 = bufs@; let ghost m0 = hs.mem; let ghost c0 = hs.calls; ' + OFFBV +
         ' proof { lemma_psum_step(b0, %(rd)s); lemma_bcells_len(b0, %(rd)s); }')


def _locals(name):
    """the names the function gives its locals (the ghost text speaks about them): read from the function's own text, so that a renamed local does not
    lose the proof; a shape that is not recognised keeps the default name (and ends as ANCHOR-LOST / exit 2, never as an alarm)"""
    L = dict(IOV='iov', BUF='buf', RES='res', COUNT='count')
    try:
        body = X.mask(X.Source(_ROOT[0], AF).find_fn(None, name)['body'])
    except Exception:
        return L
    for (k, rx) in (('IOV', r'\blet\s+(\w+)\s*:\s*Vec\s*<\s*IoSlice(?:Mut)?\s*>'), ('BUF', r'\bfor\s+(\w+)\s+in\s+bufs\s*\.\s*iter_mut\s*\('),
                    ('RES', r'\blet\s+(\w+)\s*=\s*unsafe\s*\{\s*p(?:read|write)v64\b'), ('COUNT', r'\blet\s+mut\s+(\w+)\s*=\s*\w+\s+as\s+usize\s*;')):
        m = re.search(rx, body)
        if m:
            L[k] = m.group(1)
    return L


def preadv_fn():
    n = 'preadv'
    L = _locals(n)
    B0 = 'old(bufs)@'
    C = 'HostCall { nr: 295int, fd: fd as int, iov: bufs_iov(%s, true), off: Some((offset as i64) as int), ret: ret_of(r) }' % B0
    d = dict(n=n, rd='true', base='slice_base(&*%s@[j].b)' % L['IOV'], ios='ioslices_mut_iov', c=_c(True), **L)
    f = _xfer_fn(None, n, props=['C04'], canary=True,
                 attrs=['#[verifier::loop_isolation(false)]', '#[verifier::allow_complex_invariants]', '#[verifier::exec_allows_no_decreases_clause]'],
                 requires=['forall|i: int| 0 <= i < %s.len() ==> (#[trigger] %s[i]).wf() && %s[i].valid() // [C04.asyncfile.preadv.buffers_wf] size <= cap and the window does not wrap: what every constructor of FileVolatileBuf establishes' % (B0, B0, B0),
                           '%s.len() <= i32::MAX // [C04.asyncfile.preadv.iovcnt_representable] `iov.len() as c_int`' % B0],
                 ensures=['retried(*old(hs), *final(hs), %s) // [C20.asyncfile.preadv.host_call] every call is preadv64(fd, the free parts of the buffers in order, offset); only failed attempts are repeated' % C,
                          'r is Ok ==> r->Ok_0 <= bcells(%s, true).len() && final(hs).mem == old(hs).mem + in_ops(bcells(%s, true).take(r->Ok_0 as int), Some((offset as i64) as int)) // [C04.asyncfile.preadv.fills_reported_prefix]' % (B0, B0),
                          'r is Ok ==> sizes_after(%s, final(bufs)@, r->Ok_0 as int, true) // [C04.asyncfile.preadv.sizes_mark_filled_prefix]' % B0,
                          'r is Err ==> final(bufs)@ == %s && final(hs).mem == old(hs).mem // [C04.asyncfile.preadv.err_untouched]' % B0,
                          'final(bufs)@.len() == %s.len() // [C04.asyncfile.preadv.buffers_back]' % B0,
                          'r is Err ==> r->Err_0.os_code() == Some(final(hs).errno) // [C04.asyncfile.preadv.result]',
                          'r is Err ==> r->Err_0.skind() != ErrorKind::Interrupted // [C04.asyncfile.preadv.interrupted_is_retried]',
                          'offset > i64::MAX ==> r is Err // [C04.asyncfile.preadv.offset_beyond_off64] such an offset reaches the kernel negative: the call fails, nothing moves'],
                 body_resub=[(r'(\w+)\s*\.\s*as_ptr\(\)\s+as\s+\*const\s+libc::iovec', r'vx_ioslice_mut_array(&\1)',
                              'the `*const iovec` handed to the kernel -> the array of the IoSliceMut elements of `iov` (ABI of IoSliceMut = struct iovec: model)')],
                 splices=[('^', 'after', ENTRY % dict(rd='true')),
                          ('while %(IOV)s_i < bufs.len() {' % d, 'replace', IOV_LOOP % d),
                          ('loop {', 'replace', RETRY_LOOP % d),
                          ('while %(BUF)s_i < bufs.len() {' % d, 'replace', DEAL_LOOP % d)])
    f.rules = ('R23', 'R33')
    return f


def pwritev_fn():
    n = 'pwritev'
    L = _locals(n)
    B0 = 'bufs@'
    C = 'HostCall { nr: 296int, fd: fd as int, iov: bufs_iov(%s, false), off: Some((offset as i64) as int), ret: ret_of(r) }' % B0
    d = dict(n=n, rd='false', base='slice_base(%s@[j].b)' % L['IOV'], ios='ioslices_iov', c=_c(False), **L)
    f = _xfer_fn(None, n, props=['C04'], canary=True,
                 attrs=['#[verifier::loop_isolation(false)]', '#[verifier::allow_complex_invariants]', '#[verifier::exec_allows_no_decreases_clause]'],
                 requires=['forall|i: int| 0 <= i < %s.len() ==> (#[trigger] %s[i]).wf() // [C04.asyncfile.pwritev.buffers_wf]' % (B0, B0),
                           '%s.len() <= i32::MAX // [C04.asyncfile.pwritev.iovcnt_representable] `iov.len() as c_int`' % B0],
                 ensures=['retried(*old(hs), *final(hs), %s) // [C20.asyncfile.pwritev.host_call] every call is pwritev64(fd, the initialised parts of the buffers in order, offset); only failed attempts are repeated' % C,
                          'r is Ok ==> r->Ok_0 <= bcells(%s, false).len() && final(hs).mem == old(hs).mem + out_ops(bcells(%s, false).take(r->Ok_0 as int), Some((offset as i64) as int)) // [C04.asyncfile.pwritev.takes_reported_prefix]' % (B0, B0),
                          'r is Err ==> final(hs).mem == old(hs).mem // [C04.asyncfile.pwritev.err_untouched]',
                          'r is Err ==> r->Err_0.os_code() == Some(final(hs).errno) // [C04.asyncfile.pwritev.result]',
                          'r is Err ==> r->Err_0.skind() != ErrorKind::Interrupted // [C04.asyncfile.pwritev.interrupted_is_retried]',
                          'offset > i64::MAX ==> r is Err // [C04.asyncfile.pwritev.offset_beyond_off64]'],
                 body_resub=[(r'(\w+)\s*\.\s*as_ptr\(\)\s+as\s+\*const\s+libc::iovec', r'vx_ioslice_array(&\1)',
                              'the `*const iovec` handed to the kernel -> the array of the IoSlice elements of `iov` (ABI of IoSlice = struct iovec: model)')],
                 splices=[('^', 'after', ENTRY % dict(rd='false')),
                          ('while %(IOV)s_i < bufs.len() {' % d, 'replace', IOV_LOOP % d),
                          ('loop {', 'replace', RETRY_LOOP % d)])
    f.rules = ('R23', 'R33')
    return f


# ---------------------------------------------------------------------------------------------------------------------------- impl File: transfers
SIMPL = 'impl File'
AENTRY = 'broadcast use lemma_psum_mono; ' + OFFBV


def async_xfer_fns():
    out = []
    for (name, rd) in (('async_read_at', True), ('async_write_at', False)):
        R = 'true' if rd else 'false'
        X1 = 'buf_xfer_r(*old(hs), *final(hs), self.sfd(), buf, offset, r, %s)' % R
        req = ['buf.wf() // [C04.asyncfile.%s.buffer_wf] (the `requires` of the model unit filebuf assumes)' % name]
        if rd:
            req.append('buf.valid() // [C04.asyncfile.%s.buffer_valid] the window [addr, addr + cap) does not wrap around the address space (needed by io_slice_mut; NOT in filebuf\'s model)' % name)
        ens = ['self is Tokio && offset <= i64::MAX ==> %s // [C04.asyncfile.%s.tokio_same_transfer] filebuf\'s clause, modulo retries' % (X1, name),
               ('self is Uring && offset <= i64::MAX ==> (if buf.size < buf.cap { %s } else { r.0 == Ok::<usize, io::Error>(0) && r.1 == buf && *final(hs) == *old(hs) }) // [C20.asyncfile.%s.uring_same_transfer] the io_uring variant is the same transfer into the FREE part; a buffer without free space: nothing moves, Ok(0), no operation' % (X1, name)) if rd else
               'self is Uring && offset <= i64::MAX ==> %s // [C20.asyncfile.%s.uring_same_transfer] the io_uring variant is the same transfer' % (X1, name),
               'r.1.addr == buf.addr && r.1.cap == buf.cap // [C04.asyncfile.%s.buffer_back]' % name,
               # (read: a buffer WITHOUT free space may also be answered Ok(0) without asking the kernel - the io_uring variant after the A1 repair; nothing moves either way)
               'offset > i64::MAX ==> (r.0 is Err%s) && final(hs).mem == old(hs).mem && r.1.size == buf.size // [C04.asyncfile.%s.offset_beyond_off64] nothing moves' % (' || (r.0 == Ok::<usize, io::Error>(0) && buf.size == buf.cap)' if rd else '', name)]
        if rd:
            ens.append('buf.size == 0 && buf.cap > 0 && offset <= i64::MAX ==> %s // [C20.asyncfile.%s.empty_buffer_same_transfer] for an EMPTY buffer (of some capacity) both variants are filebuf\'s transfer' % (X1, name))
        f = _xfer_fn(SIMPL, name, props=['C20'], canary=True, requires=req, ensures=ens,
                     body_resub=[(r'\b(\w+)\s*\.\s*slice\(\s*(\w+)\s*\.\.\s*\)', r'\1.slice_from(\2)',
                                  'every: B.slice(E..) (tokio_uring::buf::IoBuf::slice, begin = E, end = bytes_total()) -> model call B.slice_from(E) whose preconditions are the asserts of slice()')],
                     splices=[('^', 'after', AENTRY.replace('broadcast use ', 'broadcast use lemma_single, lemma_iov_one_take, lemma_iov_one_len, '))])
        f.rules = ('R18', 'R23')
        out.append(f)
    for (name, rd) in (('async_readv_at', True), ('async_writev_at', False)):
        R = 'true' if rd else 'false'
        B0 = 'bufs0@' if rd else 'bufs@'
        X1 = 'vec_xfer_r(*old(hs), *final(hs), self.sfd(), %s, offset, r.0, r.1@, %s)' % (B0, R)
        req = ['forall|i: int| 0 <= i < %s.len() ==> (#[trigger] %s[i]).wf()%s // [C04.asyncfile.%s.buffers_wf]' % (B0, B0, (' && %s[i].valid()' % B0) if rd else '', name),
               '%s.len() <= i32::MAX // [C04.asyncfile.%s.iovcnt_representable]' % (B0, name)]
        ens = ['self is Tokio && offset <= i64::MAX ==> %s // [C04.asyncfile.%s.tokio_same_transfer]' % (X1, name),
               'self is Uring && offset <= i64::MAX ==> %s // [C20.asyncfile.%s.uring_same_transfer]' % (X1, name),
               'r.1@.len() == %s.len() && (forall|i: int| 0 <= i < %s.len() ==> (#[trigger] r.1@[i]).addr == %s[i].addr && r.1@[i].cap == %s[i].cap) // [C04.asyncfile.%s.buffers_back]' % (B0, B0, B0, B0, name),
               'offset > i64::MAX ==> r.0 is Err && final(hs).mem == old(hs).mem // [C04.asyncfile.%s.offset_beyond_off64]' % name]
        f = _xfer_fn(SIMPL, name, props=['C20'], canary=True, requires=req, ensures=ens,
                     sig_subst=[('mut bufs: Vec<FileVolatileBuf>', 'bufs0: Vec<FileVolatileBuf>')] if rd else [],
                     splices=[('^', 'after', AENTRY + (' let mut bufs = bufs0;' if rd else '') + ' proof { lemma_bcells_len(%s, %s); }' % (B0, R))])
        f.rules = ('R18', 'R23')
        out.append(f)
    return out


# ---------------------------------------------------------------------------------------------------------------------------- descriptors
# Second ghost token `Fds` (functions that create / wrap / borrow descriptors; disjoint from the transfer functions, which thread `Host`).
FDS_MODEL = r"""
// ===== descriptors as ghost state.  `open`: the descriptors open in the process; `owners[fd]`: how many Rust objects OWN fd, i.e. will close it when
// they are dropped (std::fs::File, tokio::fs::File, tokio_uring::fs::File; OwnedFd semantics); `calls`: the descriptor-related host calls made.
pub ghost struct OpenReq { pub path: int, pub read: bool, pub write: bool, pub create: bool, pub other: bool }
pub ghost enum FdCall { Dup { fd: int, ret: int }, Close { fd: int }, Fstat { fd: int, ok: bool }, Open { req: OpenReq, ret: int } }
pub tracked struct Fds { pub ghost open: Set<int>, pub ghost owners: Map<int, nat>, pub ghost calls: Seq<FdCall>, pub ghost errno: i32 }
pub open spec fn own(s: Fds, fd: int) -> nat { if s.owners.dom().contains(fd) { s.owners[fd] } else { 0 } }
// an object that owns descriptor fd: fd is open and it is the ONE owner
pub open spec fn owned_once(s: Fds, fd: int) -> bool { s.open.contains(fd) && s.owners.dom().contains(fd) && s.owners[fd] == 1 }
// a new descriptor nfd, owned by exactly one (new) object; everything else as before
pub open spec fn one_new_owned(o: Fds, n: Fds, nfd: int) -> bool {
    nfd >= 0 && !o.open.contains(nfd) && own(o, nfd) == 0 && n.open == o.open.insert(nfd) && n.owners == o.owners.insert(nfd, 1)
}
pub uninterp spec fn path_id<P>(p: P) -> int;      // which file-system path a path-like value names
pub trait AsRefPath {}                              // std `AsRef<Path>` (SIG substitution): a value that names a path
impl<T> AsRefPath for &T {}
// std::fs::Metadata: `of_fd()` = the descriptor whose object it describes
#[verifier::external_body] pub struct Metadata { _p: u8 }
impl Metadata { pub uninterp spec fn of_fd(&self) -> int; }
impl File {
    // std::os::fd::FromRawFd for std::fs::File.  Safety: "The fd passed in must be an owned file descriptor; in particular, it must be open."  The new
    // object is one more owner (whether that is ONE TOO MANY is what the callers' postconditions decide)
    #[verifier::external_body] pub unsafe fn from_raw_fd(fd: RawFd, Tracked(fds): Tracked<&mut Fds>) -> (r: File)
        requires old(fds).open.contains(fd as int), // [C15.asyncfile.from_raw_fd.descriptor_open]
        ensures r.sfd() == fd, final(fds).open == old(fds).open, final(fds).calls == old(fds).calls, final(fds).errno == old(fds).errno,
                final(fds).owners == old(fds).owners.insert(fd as int, own(*old(fds), fd as int) + 1)
    { unimplemented!() }
    // std::fs::File::metadata: fstat(2) / statx(2) on the descriptor (std/src/sys/fs/unix.rs: File::file_attr)
    #[verifier::external_body] pub fn metadata(&self, Tracked(fds): Tracked<&mut Fds>) -> (r: io::Result<Metadata>)
        requires old(fds).open.contains(self.sfd() as int), // [C15.asyncfile.std_metadata.descriptor_open]
        ensures final(fds).open == old(fds).open, final(fds).owners == old(fds).owners,
                final(fds).calls == old(fds).calls.push(FdCall::Fstat { fd: self.sfd() as int, ok: r is Ok }),
                r is Ok ==> r->Ok_0.of_fd() == self.sfd()
    { unimplemented!() }
}
// `impl Drop` of an owning file object (std::fs::File here; inserted by R53f where Rust drops the local): close(2), one owner less
#[verifier::external_body] pub fn vx_drop_file(f: File, Tracked(fds): Tracked<&mut Fds>)
    requires own(*old(fds), f.sfd() as int) >= 1,
    ensures final(fds).open == old(fds).open.remove(f.sfd() as int), final(fds).owners == old(fds).owners.insert(f.sfd() as int, (own(*old(fds), f.sfd() as int) - 1) as nat),
            final(fds).calls == old(fds).calls.push(FdCall::Close { fd: f.sfd() as int })
{ unimplemented!() }
pub mod stdm_fd { pub mod mem {
    use super::super::*;
    // std::mem::forget of an owning file object: "Takes ownership and forgets about the value without running its destructor": one owner less, NO close
    #[verifier::external_body] pub fn forget(f: File, Tracked(fds): Tracked<&mut Fds>)
        requires own(*old(fds), f.sfd() as int) >= 1,
        ensures final(fds).open == old(fds).open, final(fds).calls == old(fds).calls, final(fds).errno == old(fds).errno,
                final(fds).owners == old(fds).owners.insert(f.sfd() as int, (own(*old(fds), f.sfd() as int) - 1) as nat)
    { unimplemented!() }
} }
pub mod fsys {
    use super::*;
    // dup(2): -1 (errno set, nothing changes) or a NEW descriptor: the lowest-numbered one not open, owned by nobody yet
    #[verifier::external_body] pub fn dup(fd: c_int, Tracked(fds): Tracked<&mut Fds>) -> (r: c_int)
        ensures r >= -1, final(fds).owners == old(fds).owners, final(fds).calls == old(fds).calls.push(FdCall::Dup { fd: fd as int, ret: r as int }),
                r < 0 ==> final(fds).open == old(fds).open,
                r >= 0 ==> !old(fds).open.contains(r as int) && own(*old(fds), r as int) == 0 && final(fds).open == old(fds).open.insert(r as int)
    { unimplemented!() }
    #[verifier::external_body] pub fn last_os_error(Tracked(fds): Tracked<&mut Fds>) -> (r: io::Error)
        ensures *final(fds) == *old(fds), r.os_code() == Some(old(fds).errno)
    { unimplemented!() }
}
// RuntimeType (src/common/async_runtime.rs): the process-wide choice, made once (R83)
pub uninterp spec fn the_runtime_type() -> RuntimeType;
#[verifier::external_body] pub fn vx_runtime_type() -> (r: &'static RuntimeType) ensures *r == the_runtime_type() { unimplemented!() }
"""

# tokio-uring 0.4.0 / tokio 1: the descriptor side (ASSUMED, from their documentation / text)
URING_FD = r"""
        // impl FromRawFd (fs/file.rs: File::from_shared_fd(SharedFd::new(fd))): the object OWNS fd (closes it when the last clone of the SharedFd goes).
        // Ownership must be exclusive: the descriptor is open and nobody else owns it
        #[verifier::external_body] pub unsafe fn from_raw_fd(fd: RawFd, Tracked(fds): Tracked<&mut Fds>) -> (r: File)
            requires old(fds).open.contains(fd as int), // [C15.asyncfile.uring_from_raw_fd.descriptor_open]
                     own(*old(fds), fd as int) == 0, // [C15.asyncfile.uring_from_raw_fd.not_owned_yet] a descriptor is owned ONCE
            ensures r.sfd() == fd, final(fds).open == old(fds).open, final(fds).calls == old(fds).calls, final(fds).owners == old(fds).owners.insert(fd as int, 1)
        { unimplemented!() }
        // File::from_std(file) = from_shared_fd(SharedFd::new(file.into_raw_fd())): the same descriptor, ownership moves with the value
        #[verifier::external_body] pub fn from_std(file: super::super::File) -> (r: File) ensures r.sfd() == file.sfd() { unimplemented!() }
"""
TOKIO_FD = r"""
        // tokio::fs::File::from_std: "Converts a std::fs::File to a tokio::fs::File": the same descriptor, ownership moves with the value
        #[verifier::external_body] pub fn from_std(file: super::super::File) -> (r: File) ensures r.sfd() == file.sfd() { unimplemented!() }
        // tokio::fs::File::try_clone: "Creates a new File instance that shares the same underlying file handle" = std File::try_clone = dup (F_DUPFD_CLOEXEC)
        // of the descriptor; the new object owns the new descriptor
        #[verifier::external_body] pub fn try_clone(&self, Tracked(fds): Tracked<&mut Fds>) -> (r: io::Result<File>)
            requires old(fds).open.contains(self.sfd() as int),
            ensures match r {
                        Ok(c) => one_new_owned(*old(fds), *final(fds), c.sfd() as int) && final(fds).calls == old(fds).calls.push(FdCall::Dup { fd: self.sfd() as int, ret: c.sfd() as int }),
                        Err(_) => final(fds).open == old(fds).open && final(fds).owners == old(fds).owners && final(fds).calls == old(fds).calls.push(FdCall::Dup { fd: self.sfd() as int, ret: -1 }),
                    }
        { unimplemented!() }
"""
# OpenOptions of both crates: the builder is modelled BY VALUE (`self -> Self`; the crates take `&mut self -> &mut Self`): the same chain text sets the
# same options.  open(): Ok => ONE new descriptor owned by the returned object; the request is logged with exactly the options set.
OPENOPTS = r"""
    pub struct OpenOptions { pub read: bool, pub write: bool, pub create: bool, pub other: bool }
    impl OpenOptions {
        pub fn new() -> (r: OpenOptions) ensures r == (OpenOptions { read: false, write: false, create: false, other: false }) { OpenOptions { read: false, write: false, create: false, other: false } }
        pub fn read(self, v: bool) -> (r: OpenOptions) ensures r == (OpenOptions { read: v, ..self }) { OpenOptions { read: v, ..self } }
        pub fn write(self, v: bool) -> (r: OpenOptions) ensures r == (OpenOptions { write: v, ..self }) { OpenOptions { write: v, ..self } }
        pub fn create(self, v: bool) -> (r: OpenOptions) ensures r == (OpenOptions { create: v, ..self }) { OpenOptions { create: v, ..self } }
        // append / truncate / create_new / mode / custom_flags: any of them sets `other`
        pub fn append(self, v: bool) -> (r: OpenOptions) ensures r == (OpenOptions { other: self.other || v, ..self }) { OpenOptions { other: self.other || v, ..self } }
        pub fn truncate(self, v: bool) -> (r: OpenOptions) ensures r == (OpenOptions { other: self.other || v, ..self }) { OpenOptions { other: self.other || v, ..self } }
        pub fn create_new(self, v: bool) -> (r: OpenOptions) ensures r == (OpenOptions { other: self.other || v, ..self }) { OpenOptions { other: self.other || v, ..self } }
        #[verifier::external_body] pub fn open<P: AsRefPath>(self, path: P, Tracked(fds): Tracked<&mut Fds>) -> (r: io::Result<File>)
            ensures final(fds).calls == old(fds).calls.push(FdCall::Open { req: OpenReq { path: path_id(path), read: self.read, write: self.write, create: self.create, other: self.other },
                                                                             ret: match r { Ok(f) => f.sfd() as int, Err(_) => -1int } }),
                    match r { Ok(f) => one_new_owned(*old(fds), *final(fds), f.sfd() as int), Err(_) => final(fds).open == old(fds).open && final(fds).owners == old(fds).owners }
        { unimplemented!() }
    }
"""

FTOK = dict(param='Tracked(fds): Tracked<&mut Fds>', arg='Tracked(fds)')
OWNS = 'owned_once(*old(fds), self.sfd() as int) // [C15.asyncfile.%s.object_owns_its_descriptor] invariant of every File object: its descriptor is open and owned once (by it)'


def _fd_fn(name, hooks=(), **kw):
    f = Fn(AF, SIMPL, name, **kw)
    f.locate = FR.then(FR.plain_locate(SIMPL, name), AFR.r80_std_paths)
    f.body_hooks = [AFR.r83_runtime_type(_ROOT[0]), AFR.r82_map_variant, AFR.r51a_libc_calls(['dup'], 'fsys')] + list(hooks) + [AFR.r65a_unsafe_one_call([r'fsys::\w+', r'(?:\w+::)*File::from_raw_fd'])]
    f.ghost_token = dict(FTOK, callees=['metadata', 'try_clone', 'open'], path_callees=['from_raw_fd', 'forget', 'dup', 'last_os_error'], free_callees=[])
    f.rules = ('R23',)
    return f


def fd_fns():
    out = []
    # ---- metadata
    f = _fd_fn('metadata', props=['C15'], canary=True,
               hooks=[FH.r53f_file_drops([r'(?:stdm::fs::)?File::from_raw_fd'], dropfn='vx_drop_file', tok='Tracked(fds)')],
               requires=[OWNS % 'metadata'],
               ensures=['final(fds).open == old(fds).open && final(fds).owners =~= old(fds).owners // [C15.asyncfile.metadata.descriptor_kept] the borrowed descriptor is neither closed nor left with a second owner',
                        'final(fds).calls == old(fds).calls.push(FdCall::Fstat { fd: self.sfd() as int, ok: r is Ok }) // [C15.asyncfile.metadata.one_fstat_on_own_descriptor] and no close(2)',
                        'r is Ok ==> r->Ok_0.of_fd() == self.sfd() // [C15.asyncfile.metadata.describes_this_file]'],
)
    out.append(f)
    # ---- async_try_clone
    f = _fd_fn('async_try_clone', props=['C15'], canary=True,
               requires=[OWNS % 'async_try_clone'],
               ensures=['r is Ok ==> one_new_owned(*old(fds), *final(fds), r->Ok_0.sfd() as int) // [C15.asyncfile.async_try_clone.one_new_descriptor_owned_once]',
                        'r is Err ==> final(fds).open == old(fds).open && final(fds).owners == old(fds).owners // [C15.asyncfile.async_try_clone.err_nothing_new]',
                        'final(fds).calls == old(fds).calls.push(FdCall::Dup { fd: self.sfd() as int, ret: match r { Ok(c) => c.sfd() as int, Err(_) => -1int } }) // [C20.asyncfile.async_try_clone.dup_of_own_descriptor] both variants: ONE dup of the object\'s own descriptor',
                        'r is Ok ==> (r->Ok_0 is Tokio <==> self is Tokio) // [C20.asyncfile.async_try_clone.same_variant]'])
    f.rules = ('R18', 'R23')
    out.append(f)
    # ---- from_std_file (no token: ownership moves with the value)
    f = Fn(AF, SIMPL, 'from_std_file', props=['C15'], canary=True,
           ensures=['r.sfd() == file.sfd() // [C15.asyncfile.from_std_file.same_descriptor] the very descriptor of `file` (no dup, no close); ownership moves with the value',
                    'r is Tokio <==> the_runtime_type() is Tokio // [C20.asyncfile.from_std_file.variant_by_runtime]'])
    f.locate = FR.then(FR.plain_locate(SIMPL, 'from_std_file'), AFR.r80_std_paths)
    f.body_hooks = [AFR.r83_runtime_type(_ROOT[0])]
    out.append(f)
    # ---- async_open
    REQ = 'OpenReq { path: path_id(path), read: true, write: write, create: create, other: false }'
    f = _fd_fn('async_open', props=['C20'], canary=True,
               sig_subst=[('P: AsRef<Path>', 'P: AsRefPath')],
               ensures=['final(fds).calls == old(fds).calls.push(FdCall::Open { req: %s, ret: match r { Ok(f) => f.sfd() as int, Err(_) => -1int } }) // [C20.asyncfile.async_open.same_open_request] both variants: ONE open of `path` for reading, writing iff `write`, creating iff `create`, nothing else' % REQ,
                        'r is Ok ==> one_new_owned(*old(fds), *final(fds), r->Ok_0.sfd() as int) // [C15.asyncfile.async_open.one_new_descriptor_owned_once]',
                        'r is Err ==> final(fds).open == old(fds).open && final(fds).owners == old(fds).owners // [C15.asyncfile.async_open.err_nothing_new]',
                        'r is Ok ==> (r->Ok_0 is Tokio <==> the_runtime_type() is Tokio) // [C20.asyncfile.async_open.variant_by_runtime]'])
    f.rules = ('R18', 'R23')
    out.append(f)
    return out


# ---------------------------------------------------------------------------------------------------------------------------- async_runtime.rs
RT_MODEL = r"""
// src/common/async_runtime.rs: `Runtime` (enum over tokio::runtime::Runtime / Mutex<tokio_uring::Runtime>) is opaque here; Runtime::new is
// CONTRACT-ONLY (it builds the tokio / tokio-uring runtime objects and may panic by design: "# Panic: Panic if failed to create the Runtime object")
#[verifier::external_body] pub struct Runtime { _p: u8 }
impl Runtime { #[verifier::external_body] pub fn new() -> (r: Runtime) { unimplemented!() } }
pub uninterp spec fn io_uring_usable() -> bool;      // what the probe finds (ring creation, register_probe, FSYNC / READ / WRITE supported)
"""


def runtime_fns():
    probe = Fn(AR, 'impl RuntimeType', 'probe_io_uring', props=['C20'], external_body=True,
               ensures=['r == io_uring_usable() // [C20.asyncfile.probe_io_uring.contract_only] io-uring crate calls: not extracted'])
    new = Fn(AR, 'impl RuntimeType', 'new', props=['C20'], canary=True,
             ensures=['r is Uring <==> io_uring_usable() // [C20.asyncfile.runtime_type.uring_iff_probe] the io_uring file operations are chosen iff the probe succeeded'])
    wr = Fn(AR, None, 'with_runtime', props=['C20'], canary=True,
            requires=['forall|rt: &Runtime| f.requires((rt,)) // [C20.asyncfile.with_runtime.callback_callable]'],
            ensures=['exists|rt: &Runtime| f.ensures((rt,), r) // [C20.asyncfile.with_runtime.result_of_the_callback] the callback ran (once: FnOnce) on a runtime object and its result is handed on unchanged'])
    return [Raw(RT_MODEL), Group('impl RuntimeType {', [probe, new]), wr]


FILE_SPEC = r"""
    impl AsRawFd for File {
        // the descriptor of the wrapped object, whichever runtime it belongs to
        open spec fn sfd(&self) -> i32 { match self { File::Tokio(f) => f.sfd(), File::Uring(f) => f.sfd() } }
"""


def as_raw_fd_fn():
    f = Fn(AF, 'impl AsRawFd for File', 'as_raw_fd', props=['C20'])      # the trait-level contract: r == self.sfd()
    return f


def unit(root='/repo'):
    bfs = FBU.buf_fns()
    for f in bfs:
        f.canary = False       # verified (again) here as they are in unit filebuf; their vacuity copies are filebuf's business
        if f.name == 'set_size':
            f.requires = list(f.requires) + ['size <= old(self).cap // [C04.asyncfile.set_size.in_bounds] the safety condition of the `unsafe fn` ("Caller needs to ensure size is less than or equal to `cap`"): PROVED at every call']
    _ROOT[0] = root
    fill = dict(URING_FD=URING_FD, URING_OPEN=OPENOPTS, TOKIO_FD=TOKIO_FD, TOKIO_OPEN=OPENOPTS)
    items = [
        Raw(MODEL_HEAD),
        Copy(FB, r"pub struct FileVolatileSlice<'a>", prefix='#[derive(Clone, Copy)]'),
        Copy(FB, r'pub struct FileVolatileBuf', prefix='#[derive(Clone, Copy)]'),
        Raw(FBU.SPEC_FB),
        Group('impl FileVolatileBuf {', bfs),
        Raw(FBU.HOSTMODEL % dict(SYS=FBU._sys_model())),
        Raw(FBU.ASYNC_SPEC),
        Raw(AF_SPEC % dict(BUF_XFER_R=_buf_xfer_r())),
        Copy(AR, r'pub\(crate\) enum RuntimeType'),
        Raw(FDS_MODEL),
        Raw(URING_XFER % fill),
        Group('pub mod async_file {\n    use super::*;\n    use super::io::ErrorKind;', [
            Copy(AF, r'pub enum File'),
            Group(FILE_SPEC.rstrip('\n'), [as_raw_fd_fn()]),
            Group('impl File {', async_xfer_fns() + fd_fns()),
            preadv_fn(), pwritev_fn(),
        ]),
    ] + runtime_fns()
    u = Unit('asyncfile', items, preludes=['base.rs'])
    u.prelude_subst = [('pub mod libc {', 'pub mod libc {\n    // struct iovec (libc 0.2, <sys/uio.h>): iov_base: *mut c_void, iov_len: size_t\n    pub struct iovec { pub iov_base: *mut u8, pub iov_len: usize }')]
    # `e.kind() != ErrorKind::Interrupted`: the derived PartialEq of the fieldless enum ErrorKind is equality of the variants (model of derive(PartialEq))
    u.prelude_subst.append(('    pub type Result<T> = core::result::Result<T, Error>;',
                            '    impl vstd::std_specs::cmp::PartialEqSpecImpl for ErrorKind { open spec fn obeys_eq_spec() -> bool { true } open spec fn eq_spec(&self, other: &ErrorKind) -> bool { *self == *other } }\n'
                            '    pub type Result<T> = core::result::Result<T, Error>;'))
    u.cfg_features = {'async-io'}
    return u
