"""Unit `ovl_real` (C10): `RealInode` (src/overlayfs/mod.rs) - one inode of one layer.

Decided on the real text:
  * every RealInode mutator (create_whiteout, mkdir, create, mknod, link, symlink) answers EROFS and calls no layer operation that could
    change anything unless `in_upper_layer` is set; when it is set, the one mutating call goes to the upper layer object (invariant `wf`:
    in_upper_layer ==> layer is the upper layer, preserved by every RealInode the functions build) with exactly the caller's arguments
    under this directory's inode; the RealInode returned describes the entry the layer made.
  * lookup_child: the child descriptor (layer, in_upper_layer, inode, stat, whiteout, opaque) is what the layer's lookup / is_whiteout /
    is_opaque say: whiteout only for non-directories, opaque only for directories (`sp_child`).
  * readdir: ENOENT on a whiteout, ENOTDIR on a non-directory, no mutating call; the map returned holds exactly the listed names that
    lookup finds, each with its `sp_child` descriptor.
Not extracted: the paging loop of readdir over Layer::readdir (closure capturing `&mut`, passed as `&mut dyn FnMut`) - model call
`vx_list_names` (ABSTRACT, logged); Drop for RealInode (forget: not a modification)."""
from vx.api import Unit, Fn, Copy, Raw, Group
from vx import ovlrules as R
from vx.units import ovl_common as C

OVL = C.OVL
RI = 'impl RealInode'

EROFS = 'err_is(r->Err_0, 30)'


def _mut(op, cap_args, cap_cond, res_expr, extra_ens=(), stat_from='e'):
    """contract of a RealInode mutator: `op` = the layer operation it may issue"""
    return dict(
        requires=['self.wf()',
                  'forall|%s| #[trigger] (*self.layer).may_%s(%s) <==> (%s) // [C10.real.%s.args] the one call a RealInode::%s may make: this directory, the caller\'s arguments' % (cap_args[0], op, cap_args[1], cap_cond, op, op)],
        ensures=['!self.in_upper_layer ==> r is Err && %s // [C10.real.%s.erofs] not in the upper layer: EROFS (and no capability for any mutating call)' % (EROFS, op),
                 'r is Ok ==> self.in_upper_layer && (%s) is Ok // [C10.real.%s.result]' % (res_expr, op)] + list(extra_ens))


def _ri_of(entry, ri='r->Ok_0', wh='false', opq='!%s.opaque'):
    return ('%(ri)s.layer == self.layer && %(ri)s.in_upper_layer && %(ri)s.wf() && %(ri)s.inode == (%(e)s).inode && %(ri)s.stat == Some((%(e)s).attr) && %(ri)s.whiteout == %(wh)s'
            % dict(ri=ri, e=entry, wh=wh))


NAMEB = 'str_bytes(name@)'
REAL_CONTRACTS = {
    'new': dict(requires=['in_upper_layer ==> (*layer).is_upper()'],
                ensures=['r.layer == layer && r.in_upper_layer == in_upper_layer && r.inode == inode && r.whiteout == whiteout && r.opaque == opaque && r.wf()']),
    'stat64': dict(requires=[], ensures=[
        'self.inode == 0 ==> r is Err && err_is(r->Err_0, 2)',
        '({ let g = (*self.layer).s_getattr(*ctx, self.inode, None); self.inode != 0 ==> (r is Ok <==> g is Ok) && (r is Ok ==> r->Ok_0 == g->Ok_0.0) && (r is Err ==> r->Err_0 == g->Err_0) })',
        'self.stat is None ==> (r is Ok <==> self.sp_stat(*ctx) is Ok) && (r is Ok ==> r->Ok_0 == self.sp_stat(*ctx)->Ok_0)']),
    'stat64_ignore_enoent': dict(requires=[], ensures=[
        '({ let g = (*self.layer).s_getattr(*ctx, self.inode, None); r is Ok && r->Ok_0 is Some ==> self.inode != 0 && g is Ok && r->Ok_0->Some_0 == g->Ok_0.0 })',
        '({ let g = (*self.layer).s_getattr(*ctx, self.inode, None); self.inode != 0 && g is Ok ==> r == Ok::<Option<stat64>, Error>(Some(g->Ok_0.0)) })']),
    'lookup_child_ignore_enoent': dict(requires=[], ensures=[
        '({ let l = (*self.layer).s_lookup(*ctx, self.inode, %s); r is Ok && r->Ok_0 is Some ==> sp_present(l) && r->Ok_0->Some_0 == l->Ok_0 })' % NAMEB,
        '({ let l = (*self.layer).s_lookup(*ctx, self.inode, %s); r is Ok && r->Ok_0 is None ==> !sp_present(l) })' % NAMEB]),
    'lookup_child': dict(requires=[], ensures=[
        'self.whiteout ==> r is Ok && r->Ok_0 is None',
        'r is Ok && r->Ok_0 is Some ==> sp_child(*self, *ctx, name@, r->Ok_0->Some_0) // [C10.lookup_child.flags] whiteout <=> char device 0/0 (non-directories only), opaque <=> opaque xattr "y" (directories only), same layer',
        'r is Ok && r->Ok_0 is None && !self.whiteout ==> !sp_present((*self.layer).s_lookup(*ctx, self.inode, %s)) // [C10.lookup_child.absent]' % NAMEB,
        'r is Ok && r->Ok_0 is Some && self.wf() ==> r->Ok_0->Some_0.wf()']),
    'readdir': dict(requires=[], ensures=[
        'self.whiteout ==> r is Err && err_is(r->Err_0, 2) // [C10.real.readdir.whiteout] a whiteout has no entries',
        'r is Ok ==> self.sp_stat(*ctx) is Ok && sp_is_dir(self.sp_stat(*ctx)->Ok_0) // [C10.real.readdir.dir] only directories are listed',
        'r is Ok ==> (forall|n: Seq<char>| #[trigger] r->Ok_0@.contains_key(n) ==> sp_child(*self, *ctx, n, r->Ok_0@[n])) // [C10.real.readdir.children] every entry is the layer\'s child of that name, with the layer\'s whiteout / opaque marks',
        'r is Ok ==> (forall|n: Seq<char>| #[trigger] r->Ok_0@.contains_key(n) <==> (s_dirnames(&*self.layer, *ctx, self.inode).contains(n) && sp_present((*self.layer).s_lookup(*ctx, self.inode, str_bytes(n))))) // [C10.real.readdir.complete] exactly the listed names that exist',
        'r is Ok && self.wf() ==> (forall|n: Seq<char>| #[trigger] r->Ok_0@.contains_key(n) ==> r->Ok_0@[n].wf())',
        'r is Ok ==> r->Ok_0@ =~= sp_listing(*self, *ctx) // [C10.real.readdir.listing] the map returned is THE listing of this layer\'s directory (used by the union rules, unit ovl_merge)']),
    'create_whiteout': _mut('mknod', ('p: u64, n: Seq<u8>, m: u32, d: u32, u: u32', 'p, n, m, d, u'), 'false', 'Ok::<(), Error>(())'),
    'mkdir': _mut('mkdir', ('p: u64, n: Seq<u8>, m: u32, u: u32', 'p, n, m, u'), 'p == self.inode && n == %s && m == mode && u == umask' % NAMEB,
                  '(*self.layer).s_mkdir(*ctx, self.inode, %s, mode, umask)' % NAMEB,
                  ['r is Ok ==> !r->Ok_0.opaque && ' + _ri_of('(*self.layer).s_mkdir(*ctx, self.inode, %s, mode, umask)->Ok_0' % NAMEB)]),
    'create': _mut('create', ('p: u64, n: Seq<u8>, a: CreateIn', 'p, n, a'), 'p == self.inode && n == %s && a == args' % NAMEB,
                   '(*self.layer).s_create(*ctx, self.inode, %s, args)' % NAMEB,
                   ['r is Ok ==> !r->Ok_0.0.opaque && r->Ok_0.1 == (*self.layer).s_create(*ctx, self.inode, %s, args)->Ok_0.1 && ' % NAMEB
                    + _ri_of('(*self.layer).s_create(*ctx, self.inode, %s, args)->Ok_0.0' % NAMEB, ri='r->Ok_0.0')]),
    'mknod': _mut('mknod', ('p: u64, n: Seq<u8>, m: u32, d: u32, u: u32', 'p, n, m, d, u'), 'p == self.inode && n == %s && m == mode && d == rdev && u == umask' % NAMEB,
                  '(*self.layer).s_mknod(*ctx, self.inode, %s, mode, rdev, umask)' % NAMEB,
                  ['r is Ok ==> !r->Ok_0.opaque && ' + _ri_of('(*self.layer).s_mknod(*ctx, self.inode, %s, mode, rdev, umask)->Ok_0' % NAMEB)]),
    'link': _mut('link', ('i: u64, p: u64, n: Seq<u8>', 'i, p, n'), 'i == ino && p == self.inode && n == %s' % NAMEB,
                 '(*self.layer).s_link(*ctx, ino, self.inode, %s)' % NAMEB,
                 ['r is Ok ==> ' + _ri_of('(*self.layer).s_link(*ctx, ino, self.inode, %s)->Ok_0' % NAMEB)]),
    'symlink': _mut('symlink', ('t: Seq<u8>, p: u64, n: Seq<u8>', 't, p, n'), 't == str_bytes(link_name@) && p == self.inode && n == str_bytes(filename@)',
                    '(*self.layer).s_symlink(*ctx, str_bytes(link_name@), self.inode, str_bytes(filename@))',
                    ['r is Ok ==> !r->Ok_0.opaque && ' + _ri_of('(*self.layer).s_symlink(*ctx, str_bytes(link_name@), self.inode, str_bytes(filename@))->Ok_0')]),
}
# create_whiteout goes through Layer::create_whiteout: its capability is the Layer helper's own (proved in unit ovl_layer)
REAL_CONTRACTS['create_whiteout'] = dict(
    requires=['self.wf()',
              'forall|p: u64, n: Seq<u8>, m: u32, d: u32, u: u32| #[trigger] (*self.layer).may_mknod(p, n, m, d, u) <==> (p == self.inode && n == %s && sp_whiteout_node(m, d) && sp_absent((*self.layer).s_lookup(*ctx, self.inode, %s))) // [C10.real.create_whiteout.args] only a whiteout, only under that name in this directory, only where nothing exists' % (NAMEB, NAMEB)],
    ensures=['!self.in_upper_layer ==> r is Err && %s // [C10.real.create_whiteout.erofs]' % EROFS,
             'r is Ok ==> self.in_upper_layer && r->Ok_0.whiteout && !r->Ok_0.opaque && r->Ok_0.layer == self.layer && r->Ok_0.in_upper_layer && r->Ok_0.wf() // [C10.real.create_whiteout.result] the RealInode returned is marked as a whiteout of the upper layer'])

# the single layer call each mutator makes (callee-side capability at the call sites of unit ovl_ops)
CAP_CALL = {
    'mkdir': '(*self.layer).may_mkdir(self.inode, %s, mode, umask)' % NAMEB,
    'create': '(*self.layer).may_create(self.inode, %s, args)' % NAMEB,
    'mknod': '(*self.layer).may_mknod(self.inode, %s, mode, rdev, umask)' % NAMEB,
    'link': '(*self.layer).may_link(ino, self.inode, %s)' % NAMEB,
    'symlink': '(*self.layer).may_symlink(str_bytes(link_name@), self.inode, str_bytes(filename@))',
}

TO_CSTRING = (r'CString::new\(name\)\.map_err\(\|e\| Error::new\(ErrorKind::InvalidData, e\)\)', 'utils::to_cstring(name)',
              'the expression is the body of utils::to_cstring (contract only: CString::new + NulError -> io::Error)')
LIST_NAMES = (r'let mut child_names = vec!\[\];.*?\n        while more \{.*?\n        \}\n',
              'let child_names = vx_list_names(&self.layer, ctx, self.inode, handle)?;\n',
              'ABSTRACT the paging loop `while more { self.layer.readdir(.., &mut |d| {..})?; }` (closure capturing &mut more/offset/child_names, passed as &mut dyn FnMut) -> model call vx_list_names: the names the layer lists, without "." and ".."; dropped: offsets, termination, from_utf8_lossy')
UNWRAP_DEFAULT = (r'handle\.unwrap_or_default\(\)', 'opt_u64_or_default(handle)', 'Option<u64>::unwrap_or_default = the value or 0')

REAL_PRE = r'''
pub fn opt_u64_or_default(h: Option<u64>) -> (r: u64) ensures r == (match h { Some(v) => v, None => 0 }) { match h { Some(v) => v, None => 0 } }
'''


def utils_group(root):
    return Group('pub mod utils {\n    use super::*;', [
        Fn(C.UTILS, None, 'is_dir', props=['C10'], sig_subst=[('fn is_dir', 'pub fn is_dir')], ensures=['r == sp_is_dir(st) // [C10.utils.is_dir]']),
        Fn(C.UTILS, None, 'to_cstring', props=['C10'], external_body=True, sig_subst=[('fn to_cstring', 'pub fn to_cstring')], ensures=['r is Ok ==> r->Ok_0@ == str_bytes(name@)']),
    ])


def real_fns(root, external=False, only=None):
    out = []
    for name in ('new', 'stat64', 'stat64_ignore_enoent', 'lookup_child_ignore_enoent', 'lookup_child', 'readdir',
                 'create_whiteout', 'mkdir', 'create', 'mknod', 'link', 'symlink'):
        if only is not None and name not in only:
            continue
        c = REAL_CONTRACTS[name]
        f = Fn(OVL, RI, name, requires=c['requires'], ensures=c['ensures'], props=['C10'], external_body=external,
               canary=(not external and name not in ('new', 'stat64', 'stat64_ignore_enoent', 'lookup_child_ignore_enoent')),
               body_resub=[C.ARC_AS_REF])
        if name == 'lookup_child_ignore_enoent':
            f.body_resub = f.body_resub + [TO_CSTRING]
        if name == 'readdir' and not external:
            f.body_resub = f.body_resub + [LIST_NAMES, UNWRAP_DEFAULT]
            f.body_hooks = [R.r28_for_owned(r'\bfor\s+(name)\s+in\s+(child_names)\s*\{', 'vec_into_iter', 'names_it', header_extra='''
            invariant
                !self.whiteout, 0 <= k <= all_names.len(), names_it.rem() == all_names.skip(k),
                forall|n: Seq<char>| #[trigger] child_real_inodes@.contains_key(n) <==>
                    ((exists|i: int| 0 <= i < k && (#[trigger] all_names[i])@ == n) && sp_present((*self.layer).s_lookup(*ctx, self.inode, str_bytes(n)))),
                forall|n: Seq<char>| #[trigger] child_real_inodes@.contains_key(n) ==> sp_child(*self, *ctx, n, child_real_inodes@[n]) && (self.wf() ==> child_real_inodes@[n].wf()),
            ensures names_it.rem().len() == 0,
            decreases names_it.rem().len(),
        ''', body_prefix=' let ghost nm = name@; let ghost k0 = k; proof { k = k + 1; assert(all_names.skip(k0)[0] == all_names[k0]); assert(all_names.skip(k0).skip(1) =~= all_names.skip(k0 + 1)); }')]
            f.splices = [('let mut child_real_inodes = HashMap::new();', 'before', 'let ghost all_names = child_names@; let ghost mut k: int = 0;'),
                         ('child_real_inodes.insert(name, child);', 'after', 'proof { assert(all_names[k0]@ == nm); }'),
                         ('Ok(child_real_inodes)', 'before', 'proof { assert(all_names.skip(k).len() == all_names.len() - k); assert(k == all_names.len()); }')]
            f.attrs = []
        out.append(f)
    return out


def unit(root='/repo'):
    notes = []
    items = C.common_items(root, notes)
    items.append(Raw(C.COLL))
    items.append(Group('pub trait Layer: FileSystem {', [Raw('    fn root_inode(&self) -> u64;')] + C.layer_trait(root, external=True)))
    items.append(C.layer_impl())
    items.append(Copy(OVL, r'pub\(crate\) struct RealInode\b'))
    items.append(Raw(C.REAL_SPEC + REAL_PRE))
    items.append(Copy(OVL, r'pub const CURRENT_DIR\b', subst=C.STATIC_STR))
    items.append(Copy(OVL, r'pub const PARENT_DIR\b', subst=C.STATIC_STR))
    items.append(utils_group(root))
    items.append(Group('impl RealInode {', real_fns(root)))
    u = Unit('ovl_real', items, preludes=['base.rs', 'stdmodel.rs'], generic_tags=C.GENERIC_TAGS, notes='; '.join(notes))
    u.prelude_subst = [C.LIBC_EXTRA, C.NO_STD_HASHMAP]
    return u
