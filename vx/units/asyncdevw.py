"""Unit `asyncdevw` (C20): FuseDevWriter::async_commit (src/transport/fusedev/mod.rs, `mod async_io`) - the one async transport
function whose behaviour differs from its sync twin in a way the server-level argument depends on.

The abstract Writer of unit `asyncsrv` assumes for async_commit the contract chosen by `commit_gated(root)`:
  * gated   (text starts with `if !self.buffered { return Ok(0); }`, like the sync commit): the contract of the sync commit;
  * ungated (the text as of 60f75a4): ONE device write of own ++ other's bytes whenever there are any - also on a writer that is NOT
    buffered, i.e. whose bytes already went to the device with the preceding async_write / async_write_all.
Here the real text is verified against that choice with the device write as a capability (`dev_write_ok`, unit `fusedevw`): if the
probe said "gated" for a text that still writes when unbuffered, the [devwrite] obligation fails.  (The other direction - probe says
"ungated", text is gated - only makes the server-level contract stricter than necessary.)"""
import re

from vx.api import Unit, Fn, Copy, Raw, Group
from vx import extract as X
from vx.units import fusedevw as FW

F = FW.F
SC = "impl<'a, S: BitmapSlice> FuseDevWriter<'a, S>"


def commit_gated(root):
    """does FuseDevWriter::async_commit start with the sync commit's early return for an unbuffered writer?"""
    with X.features({'async-io'}):
        src = X.Source(root, F)
        src.find_item(r'(?m)^mod async_io \{')          # the module must be enabled under async-io
        d = src.find_fn(SC, 'async_commit')
    body = X.mask(d['body'])
    return re.match(r'\{\s*if !self\.buffered \{\s*return Ok\(0\);\s*\}', body) is not None


def unit(root='/repo'):
    gated = commit_gated(root)
    g = 'old(self).buffered && ' if gated else ''
    f = Fn(F, SC, 'async_commit',
           requires=[g + '(old(self).buf@ + other_bytes(other)).len() > 0 ==> dev_write_ok(old(self).fd, old(self).buf@ + other_bytes(other)) // [C20.async_commit.one_write]'],
           ensures=['final(self).buf@ == old(self).buf@ && final(self).buffered == old(self).buffered && final(self).fd == old(self).fd // [C20.async_commit.frame]',
                    ('!old(self).buffered || ' if gated else '') + '(old(self).buf@ + other_bytes(other)).len() == 0 ==> r == Ok::<usize, io::Error>(0usize) // [C20.async_commit.nothing]'],
           splices=[('^', 'after', 'reveal_with_fuel(ios_concat, 3);'),
                    ('let res = match (self.buf.len(), o.len()) {', 'before',
                     'proof { assert(o@ == other_bytes(other)); assert(self.buf@ + o@ =~= self.buf@ + other_bytes(other)); if self.buf@.len() == 0 { assert(self.buf@ + o@ =~= o@); } if o@.len() == 0 { assert(self.buf@ + o@ =~= self.buf@); } }'),
                    ('writev(self.fd, &bufs)', 'before', 'proof { assert(ios_concat(bufs@) =~= self.buf@ + o@) by { assert(bufs@.skip(1).skip(1).len() == 0); assert(bufs@.skip(1)[0] == bufs@[1]); } } // [C20.async_commit.order]')],
           # closure parameter / result types (Verus needs them written out); the closures only log and convert the error
           body_resub=[(r'(?<!res)\.map_err\(\|e\| \{', '.map_err(|e: Errno| -> (q: io::Error) {', 'every: closure types of the errno conversions'),
                       (r'res\.map_err\(\|e\| \{', 'res.map_err(|e: io::Error| -> (q: io::Error) {', 'closure types of the final logging closure')],
           props=['C20'], canary=True)
    f.rules = ('R18',)
    items = [
        Raw(FW.PRE),
        Raw('''
// nix::sys::uio::pwrite(fd, buf, 0) on the /dev/fuse descriptor: a device write like nix::unistd::write (same capability)
pub mod nix { pub mod sys { pub mod uio {
    use vstd::prelude::*;
    #[verifier::external_body] pub fn pwrite(fd: super::super::super::RawFd, buf: &[u8], off: i64) -> (r: core::result::Result<usize, super::super::super::Errno>)
        requires super::super::super::dev_write_ok(fd, buf@), // [devwrite]
    { unimplemented!() }
} } }
'''),
        Copy(F, r"pub struct FuseDevWriter<'a, S", subst=[('ManuallyDrop<Vec<u8>>', 'Vec<u8>'), ('S: BitmapSlice = ()', 'S: BitmapSlice')]),
        Copy('src/transport/mod.rs', r"pub enum Writer<'a, S", subst=[('S: BitmapSlice = ()', 'S: BitmapSlice')], prefix='#[verifier::reject_recursive_types(S)]'),
        Raw('''
pub open spec fn other_bytes<'a, S: BitmapSlice>(other: Option<&Writer<'a, S>>) -> Seq<u8> {
    match other { Some(Writer::FuseDev(w)) => w.buf@, _ => Seq::<u8>::empty() }
}
'''),
        Group("impl<'a, S: BitmapSlice> FuseDevWriter<'a, S> {", [f]),
    ]
    u = Unit('asyncdevw', items, preludes=['base.rs'], generic_tags={'devwrite': ['C20']},
             notes='async_commit model selected: %s' % ('gated (as sync commit)' if gated else 'UNGATED: writes own ++ other bytes whenever there are any, buffered or not'))
    u.cfg_features = {'async-io'}
    return u
