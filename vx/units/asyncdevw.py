"""Unit `asyncdevw` (C20, C04): the async half of FuseDevWriter (src/transport/fusedev/mod.rs, `mod async_io`): async_write, async_write2,
async_write3, async_write_all, async_write_from_at and async_commit, each against THE CONTRACT OF ITS SYNC TWIN as proved in unit
`fusedevw` (same clause text, built by the same functions: write / write_all / write_from_at / commit), with the same view of a writer
and the same ghost device log.  The accounting functions they call (check_available_space, account_written, ..) are assumed with the
contracts proved in `fusedevw`.

async_commit: the abstract Writer of unit `asyncsrv` assumes for it the contract chosen by `commit_gated(root)`:
  * gated   (text starts with `if !self.buffered { return Ok(0); }`, like the sync commit): the contract of the sync commit;
  * ungated (the text as of 60f75a4): ONE device write of own ++ other's bytes whenever there are any - also on a writer that is NOT
    buffered, i.e. whose bytes already went to the device with the preceding async_write / async_write_all.
Here the real text is verified against that choice with the device write as a capability (`dev_write_ok`) and as an entry of the ghost
device log: if the probe said "gated" for a text that still writes when unbuffered, the [devwrite] obligation fails.  (The other
direction - probe says "ungated", text is gated - only makes the server-level contract stricter than necessary.)"""
import re

from vx.api import Unit, Fn, Copy, Raw, Group
from vx import extract as X
from vx.units import fusedevw as FW

F = FW.F
SC = "impl<'a, S: BitmapSlice> FuseDevWriter<'a, S>"

ASYNC_MODEL = r'''
// nix::sys::uio::pwrite(fd, buf, 0) on the /dev/fuse descriptor: a device write like nix::unistd::write (same capability, same log entry)
pub mod nix { pub mod sys { pub mod uio {
    use vstd::prelude::*;
    use super::super::super::{RawFd, Errno, DevLog, DevWrite, dev_write_ok};
    #[verifier::external_body] pub fn pwrite(fd: RawFd, buf: &[u8], off: i64, Tracked(dl): Tracked<&mut DevLog>) -> (r: core::result::Result<usize, Errno>)
        requires dev_write_ok(fd, buf@), // [devwrite]
        ensures r is Ok ==> r->Ok_0 == buf@.len() && final(dl).log == old(dl).log.push(DevWrite { fd: fd, bytes: buf@ }),
                r is Err ==> final(dl).log == old(dl).log,
    { unimplemented!() }
} } }
// crate::file_buf::FileVolatileBuf: (address, bytes already valid, capacity) - an async read appends at address + size, up to capacity
#[verifier::external_body] pub struct FileVolatileBuf { _p: usize }
impl FileVolatileBuf {
    pub uninterp spec fn addr(&self) -> int;
    pub uninterp spec fn size(&self) -> nat;
    pub uninterp spec fn cap(&self) -> nat;
}
// `FileVolatileBuf::from_raw_ptr(V.as_mut_ptr()[.add(OFF)], SIZE, CAP)` (ABSTRACT, logged): a buffer of CAP bytes, OFF bytes into V's
// allocation, of which the first SIZE count as filled.  The reader may write [OFF+SIZE, OFF+CAP): inside the allocation, and behind the
// bytes V has accounted - both PROVED at the call (the same two obligations as for the sync window, vx_spare_slice).  `SIZE <= CAP` is the
// assert! of from_raw_ptr.
#[verifier::external_body] pub fn vx_spare_buf(off: usize, size: usize, cap: usize, v: &mut Vec<u8>) -> (r: FileVolatileBuf)
    requires size <= cap, // [C04.fdw.write_from.window_assert]
             off + cap <= spec_capacity(old(v)), // [C04.fdw.write_from.in_bounds]
             off + size >= old(v)@.len(), // [C04.fdw.write_from.behind_accounted]
    ensures final(v)@ == old(v)@, same_alloc(final(v), old(v)), r.addr() == vec_base(old(v)) + off, r.size() == size, r.cap() == cap,
{ unimplemented!() }
// crate::file_traits::AsyncFileReadWriteVolatile: a dependency.  ASSUMED: Ok(n) => n <= the room of the buffer, exactly the n bytes behind
// its valid part were filled and nothing else was touched
pub trait AsyncFileReadWriteVolatile {
    fn async_read_at_volatile(&self, buf: FileVolatileBuf, offset: u64) -> (r: (io::Result<usize>, FileVolatileBuf))
        ensures r.0 is Ok ==> r.0->Ok_0 + buf.size() <= buf.cap();
}
'''

CLOSURES = [(r'(?<!res)\.map_err\(\|e\| \{', '.map_err(|e: Errno| -> (q: io::Error) {', 'every: closure types of the errno conversions'),
            (r'res\.map_err\(\|e\| \{', 'res.map_err(|e: io::Error| -> (q: io::Error) {', 'every: closure types of the final logging closure'),
            (r'buf = &buf\[n\.\.\]', 'buf = vstd::slice::slice_subrange(buf, n, buf.len())', 'every: &buf[n..] -> vstd slice_subrange (same slice)'),
            (r'FileVolatileBuf::from_raw_ptr\(\s*self\.buf\.as_mut_ptr\(\)\.add\((.+?)\),\s*((?:[^,()]|\([^()]*\))+?),\s*((?:[^,()]|\([^()]*\))+?)\s*\)(?=\s*\})', r'vx_spare_buf(\1, \2, \3, &mut self.buf)',
             'every: raw window into the spare capacity -> model call (in bounds, behind the accounted bytes)'),
            (r'FileVolatileBuf::from_raw_ptr\(\s*self\.buf\.as_mut_ptr\(\),\s*((?:[^,()]|\([^()]*\))+?),\s*((?:[^,()]|\([^()]*\))+?)\s*\)(?=\s*\})', r'vx_spare_buf(0, \1, \2, &mut self.buf)',
             'every: raw window at the START of the buffer -> model call (in bounds, behind the accounted bytes)')]


def commit_gated(root):
    """The contract the abstract Writer of unit `asyncsrv` assumes for async_commit is ALWAYS the one of the sync commit (nothing is written by an
    unbuffered writer): that is what C20 demands.  The real text of async_commit is verified against it below; a text that still writes when
    unbuffered fails [devwrite] / [C20.async_commit.*] here.  (A first version chose the contract by probing the text for the early return;
    a harmless statement in front of it made the probe say "ungated" and raised a false alarm - found by the benign-edit probe tools_benign.py B1.)"""
    return True


def twin(f, rules=(), **kw):
    f = FW.tok(f, rules=('R18',) + tuple(rules), **kw)
    f.body_resub = list(f.body_resub) + CLOSURES + FW.EVERY
    return f


def unit(root='/repo'):
    gated = commit_gated(root)
    g = 'old(self).buffered && ' if gated else ''
    BYTES = 'old(self).buf@ + other_bytes(other)'
    commit = twin(Fn(F, SC, 'async_commit',
           requires=[g + '(%s).len() > 0 ==> dev_write_ok(old(self).fd, %s) // [C20.async_commit.one_write]' % (BYTES, BYTES)],
           ensures=['final(self).buf@ == old(self).buf@ && final(self).buffered == old(self).buffered && final(self).fd == old(self).fd // [C20.async_commit.frame]',
                    ('!old(self).buffered || ' if gated else '') + '(%s).len() == 0 ==> r == Ok::<usize, io::Error>(0usize) && %s // [C20.async_commit.nothing]' % (BYTES, FW.LOG_SAME),
                    # ONE device write of exactly own ++ other's bytes, or none at all when it fails
                    g + '''(%s).len() > 0 ==> match r {
                        Ok(n) => n == (%s).len() && final(dl).log == old(dl).log.push(DevWrite { fd: old(self).fd, bytes: %s }),
                        Err(_) => %s,
                    } // [C20.async_commit.device]''' % (BYTES, BYTES, BYTES, FW.LOG_SAME)],
           splices=[('^', 'after', 'reveal_with_fuel(ios_concat, 3);'),
                    ('let res = match (self.buf.len(), o.len()) {', 'before',
                     'proof { assert(o@ == other_bytes(other)); assert(self.buf@ + o@ =~= self.buf@ + other_bytes(other)); if self.buf@.len() == 0 { assert(self.buf@ + o@ =~= o@); } if o@.len() == 0 { assert(self.buf@ + o@ =~= self.buf@); } }'),
                    ('writev(self.fd, &bufs, Tracked(dl))', 'before', 'proof { assert(ios_concat(bufs@) =~= self.buf@ + o@) by { assert(bufs@.skip(1).skip(1).len() == 0); assert(bufs@.skip(1)[0] == bufs@[1]); } } // [C20.async_commit.order]')],
           props=['C20'], canary=True), free=['writev'], path=['pwrite'])
    ENTRY = ('^', 'after', 'broadcast use axiom_capacity_bound; broadcast use axiom_slice_len;')
    ENTRY2 = ('^', 'after', 'broadcast use axiom_capacity_bound; broadcast use axiom_slice_len; broadcast use lemma_ios_concat_2; broadcast use lemma_ios_concat_3;')
    D2, D3 = '(data@ + data2@)', '(data@ + data2@ + data3@)'
    twins = [
        twin(Fn(F, SC, 'async_write', splices=[ENTRY], props=['C20'], extra_props=['C20', 'C04'], canary=True, **FW.c_write('async_write')),
             path=['pwrite'], rules=('R43',)),
        twin(Fn(F, SC, 'async_write2', props=['C20'], extra_props=['C20', 'C04'], canary=True,
                splices=[ENTRY2,
                         ('Ok(len)', 'before', 'proof { assert(self.buf@ =~= old(self).buf@ + %s); assert(self.buf@.take(old(self).buf@.len() as int) =~= old(self).buf@); } // [C04.fdw.async_write2.order]' % D2)],
                **FW.c_write('async_write2', D2)), free=['writev'], rules=('R43',)),
        twin(Fn(F, SC, 'async_write3', props=['C20'], extra_props=['C20', 'C04'], canary=True,
                splices=[ENTRY2,
                         ('Ok(len)', 'before', 'proof { assert(self.buf@ =~= old(self).buf@ + %s); assert(self.buf@.take(old(self).buf@.len() as int) =~= old(self).buf@); } // [C04.fdw.async_write3.order]' % D3)],
                **(lambda c: dict(c, requires=c['requires'] + ['data@.len() + data2@.len() + data3@.len() <= usize::MAX // [C04.fdw.async_write3.total_representable]']))(FW.c_write('async_write3', D3))),
             free=['writev'], rules=('R43',)),
        twin(Fn(F, SC, 'async_write_all', props=['C20'], extra_props=['C20', 'C04'], canary=True,
                sig_subst=[('mut buf: &[u8]', 'data: &[u8]')],       # a `mut` parameter has no name for its initial value: rebound at entry
                attrs=['#[verifier::exec_allows_no_decreases_clause]', '#[verifier::loop_isolation(false)]'],
                splices=[('^', 'after', 'broadcast use axiom_capacity_bound; let mut buf = data; let ghost all = data@; ' + FW.WRITE_ALL_HINT),
                         ('while !buf.is_empty() {', 'replace', 'while !buf.is_empty()\n            ' + FW.WRITE_ALL_INV + '\n        {')],
                **FW.c_write_all('async_write_all')), callees=['async_write']),
        twin(Fn(F, SC, 'async_write_from_at', props=['C20'], extra_props=['C20', 'C04'], canary=True,
                splices=[('^', 'after', 'broadcast use axiom_capacity_bound;')],
                **FW.c_file_xfer('async_write_from_at')), path=['pwrite']),
    ]
    base = FW.base_fns(external=True)
    items = [
        Raw(FW.PRE_COMMON), Raw(FW.DEV_LOG), Raw(FW.MODEL), Raw(ASYNC_MODEL),
        Copy(F, r"pub struct FuseDevWriter<'a, S", subst=[('ManuallyDrop<Vec<u8>>', 'Vec<u8>'), ('S: BitmapSlice = ()', 'S: BitmapSlice')]),
        Copy('src/transport/mod.rs', r"pub enum Writer<'a, S", subst=[('S: BitmapSlice = ()', 'S: BitmapSlice')], prefix='#[verifier::reject_recursive_types(S)]'),
        Raw(FW.SPEC),
        # proved in unit `fusedevw` (same clause text), assumed here
        Group("impl<'a, S: BitmapSlice> FuseDevWriter<'a, S> {", base + twins + [commit]),
    ]
    u = Unit('asyncdevw', items, preludes=['base.rs'], generic_tags={'devwrite': ['C20']},
             notes='async_commit model selected: %s' % ('gated (as sync commit)' if gated else 'UNGATED: writes own ++ other bytes whenever there are any, buffered or not'))
    u.cfg_features = {'async-io'}
    return u
