"""Unit `filebuf` (C04): src/common/file_buf.rs (FileVolatileSlice, FileVolatileBuf, the tokio-uring IoBuf / IoBufMut impls) and
src/common/file_traits.rs (trait FileReadWriteVolatile: the four exact / all loops it provides; `volatile_impl!(File)`: the eight methods built
on read / write / readv / writev / pread64 / pwrite64 / preadv64 / pwritev64; the async-io part `impl AsyncFileReadWriteVolatile for File`).
Replaces the bounded Kani stand-in (kx group `file_buf`, lengths 0..4) by unbounded proofs of everything the crate's OWN text does; what
vm-memory, libc, the kernel and tokio-uring do is a model (ASSUMED, listed below), written from their text / documentation.

Vocabulary.  Memory and host are ghost state, threaded as one erased token `Tracked<&mut Host>` (rule R23):
    Host.mem    the log of every byte access, in order: Rd{a} / Wr{a, v} (a read / a store of byte v at address a by vm-memory on behalf of the
                code), In{a, pos} / Out{a, pos} (a byte stored at / taken from address a by a transfer from / to a file; `pos` = its file offset for
                positional calls) - the "ghost log of touched addresses" of units virtiofsw / readerrd, extended by the direction
    Host.calls  the host system calls made: (nr, fd, iovec list, offset, return value);  Host.errno  the thread's errno
A slice / buffer is its (address, length) pair; `fcells(bufs)` is the sequence of byte ADDRESSES a list of slices covers, in order (units
iobuffers / readerrd), `range(a, n)` = a, a+1, .., a+n-1.

Clauses (tags `C04.fbuf.<fn>.<aspect>` / `C04.ftraits.<fn>.<aspect>`):
 1. FileVolatileSlice: constructors / accessors are exact views [.view]; offset(c): Ok iff c <= len (and no wrap-around), then (addr + c, len - c)
    [.ok_iff] [.view] [.no_wrap]; every `Bytes<usize>` method: Ok(n) => n <= len - a [.in_bounds], the log grows by EXACTLY the accesses of
    [addr + a, addr + a + n) in order, of the right direction, with the right bytes [.exact], a failing call beyond the end touches nothing
    [.beyond_end] [.fail_no_access], reads deliver the bytes at these addresses and leave the rest of the destination alone [.delivered].
 2. FileVolatileBuf: invariant wf = size <= cap; constructors establish it (the two assert!s are PRECONDITIONS [.assert]), set_size keeps it
    [.keeps_wf]; io_slice = [addr, addr + size), io_slice_mut = [addr + size, addr + cap), every raw slice / pointer inside the window
    [addr, addr + cap) - proved precondition of the model call [.in_bounds]; IoBuf / IoBufMut: stable pointer = addr, init = size, total = cap.
 3. `impl FileReadWriteVolatile for File`: exactly ONE host call [.one_call] of the right kind [.kind] on the file's descriptor [.fd] with an
    iovec list that is exactly the given slices in order [.iov] (the array handed to the kernel in bounds [.iov_in_bounds]) and exactly the
    given offset [.offset]; Ok(n) for a result n >= 0, Err(errno) otherwise [.result]; with the kernel model: exactly the first n addresses of
    the slices are filled / read, in order, nothing on Err [.touched] [.err_untouched]; an empty list makes no call [.empty_no_call].
    The trait's default loops (read_exact_volatile / write_all_volatile / read_exact_at_volatile / write_all_at_volatile): Ok => every byte
    of the slice exactly once, in order, byte i from / to file offset off + i [.every_byte_once_in_order]; Err => a prefix [.err_prefix]; the
    `unwrap()`s cannot fire (given a slice that does not wrap the address space [.valid_slice]).
    `impl FileReadWriteVolatile for &mut T`: emitted as the real trait impl, every method meets the trait-level contract by ending in T's method
    (`decreases 0`: no recursive call) [mutref.*.ends_in_the_wrapped_object].
 4. async-io (feature on for this unit; R18 + R67: read sequentially).  `impl AsyncFileReadWriteVolatile for File` (crate::async_file::File, a model):
    async_read_at_volatile / async_write_at_volatile are the file's own positional transfer of that buffer at that offset, once, result unchanged
    [.same_transfer]; the two vectored functions, for buffers whose transfer length is their capacity (reads: empty, writes: full -
    [.buffers_empty] / [.buffers_full], see finding F4): the operations issued are buffer 0, 1, .. k-1, each once, in order, buffer i at file offset
    offset + (bytes of the buffers before it) [.ops_in_order]; the buffers come back with the same addresses / capacities [.buffers_back]; Ok(n) => n
    is what the operations up to and including the first short one moved [.reports]; no `+=` overflows [.offsets_representable] [.total_representable].
    `impl AsyncFileReadWriteVolatile for Arc<T>`: must end in T's method [arc.*.ends_in_the_wrapped_object] - FAILS on the pinned tree (finding F3:
    `self.m(..)` on `&Arc<T>` resolves to the forwarder itself; reproduced as a stack overflow in findings/repro_filebuf.rs).

Rules: R50 (macro instance), R33 (iter().map().collect() -> index loop), R23 (ghost token), R18 (async), R5 (assert! -> obligation), and the new
opt-in rules R64..R67 of vx/fbrules.py; ABSTRACT model calls (each precondition proved at every call site) are RESUB_BUF / RESUB_BUF_RO / RESUB_IOV;
SIG substitutions: `Self::E` -> `VError` (the impl's `type E`, checked), `mut slice` / `mut offset` / `mut bufs` parameters rebound to a local.
Trait impls that need canary copies (`impl Bytes<usize> for FileVolatileSlice`, `volatile_impl!(File)`, `impl AsyncFileReadWriteVolatile for File`) are
emitted as INHERENT methods (a trait impl cannot hold the `__canary` copy); for File a hand-written, verified `impl FileReadWriteVolatile for File`
whose bodies are the single calls of the extracted methods shows that they meet the trait-level contract the default loops rely on."""
import re

from vx.api import Unit, Fn, Copy, Raw, Group
from vx import extract as X
from vx import fbrules as FR
from vx import ptopsrules as PR

FB = 'src/common/file_buf.rs'
FT = 'src/common/file_traits.rs'

# =================================================================================================================================
# models (ASSUMED).  vm-memory 0.17.1 volatile_memory.rs / io.rs / bytes.rs, libc 0.2 (iovec, the eight calls), std::io::IoSlice(Mut),
# tokio-uring 0.4.0 buf::{IoBuf, IoBufMut}, Linux read(2) / readv(2) / pread(2) / preadv(2) and their write twins.
MODEL = r'''
pub type RawFd = i32;
#[allow(non_camel_case_types)] pub type c_int = i32;
#[allow(non_camel_case_types)] pub type size_t = usize;
#[allow(non_camel_case_types)] pub type off64_t = i64;
#[allow(non_camel_case_types)] pub type c_void = u8;      // an opaque pointee: `p as *mut c_void` keeps the address (all the code relies on)
pub enum Ordering { Relaxed, Release, Acquire, AcqRel, SeqCst }      // std::sync::atomic::Ordering (passed through, never inspected)

// ===== memory and host as ghost state
pub ghost enum MemOp {
    Rd { a: int },                          // one byte read at address a (vm-memory, on behalf of a Bytes method)
    Wr { a: int, v: u8 },                   // one byte v stored at address a
    In { a: int, pos: Option<int> },        // one byte stored at address a by a transfer FROM a file / stream (pos = its file offset, positional calls)
    Out { a: int, pos: Option<int> },       // one byte at address a taken by a transfer TO a file / stream
}
pub ghost struct IoVec { pub base: int, pub len: nat }
pub ghost struct HostCall { pub nr: int, pub fd: int, pub iov: Seq<IoVec>, pub off: Option<int>, pub ret: int }
pub tracked struct Host { pub ghost mem: Seq<MemOp>, pub ghost calls: Seq<HostCall>, pub ghost errno: i32 }

pub open spec fn range(a: int, n: nat) -> Seq<int> { Seq::new(n, |i: int| a + i) }
pub open spec fn minn(a: int, b: int) -> int { if a <= b { a } else { b } }
pub open spec fn pos_at(pos: Option<int>, i: int) -> Option<int> { match pos { Some(p) => Some(p + i), None => None } }
pub open spec fn rd_ops(s: Seq<int>) -> Seq<MemOp> { Seq::new(s.len(), |i: int| MemOp::Rd { a: s[i] }) }
pub open spec fn wr_ops(s: Seq<int>, d: Seq<u8>) -> Seq<MemOp> { Seq::new(s.len(), |i: int| MemOp::Wr { a: s[i], v: d[i] }) }
pub open spec fn in_ops(s: Seq<int>, pos: Option<int>) -> Seq<MemOp> { Seq::new(s.len(), |i: int| MemOp::In { a: s[i], pos: pos_at(pos, i) }) }
pub open spec fn out_ops(s: Seq<int>, pos: Option<int>) -> Seq<MemOp> { Seq::new(s.len(), |i: int| MemOp::Out { a: s[i], pos: pos_at(pos, i) }) }
// contents: THE byte a read of address a yields during one operation (a snapshot, as in unit readerrd)
pub uninterp spec fn guest_byte(a: int) -> u8;
pub open spec fn bytes_at(s: Seq<int>) -> Seq<u8> { Seq::new(s.len(), |i: int| guest_byte(s[i])) }
// the addresses an iovec list covers, in order
pub open spec fn iov_cells(v: Seq<IoVec>) -> Seq<int> decreases v.len() {
    if v.len() == 0 { Seq::<int>::empty() } else { range(v[0].base, v[0].len) + iov_cells(v.skip(1)) }
}
pub open spec fn one_iov(p: int, n: nat) -> Seq<IoVec> { seq![IoVec { base: p, len: n }] }
pub broadcast proof fn lemma_iov_one_take(p: int, l: nat, n: int)
    requires 0 <= n <= l
    ensures #[trigger] iov_cells(one_iov(p, l)).take(n) =~= range(p, n as nat), iov_cells(one_iov(p, l)).len() == l
{ assert(one_iov(p, l).skip(1) =~= Seq::<IoVec>::empty()); reveal_with_fuel(iov_cells, 2); }
pub broadcast proof fn lemma_iov_one_len(p: int, l: nat)
    ensures #[trigger] iov_cells(one_iov(p, l)).len() == l
{ assert(one_iov(p, l).skip(1) =~= Seq::<IoVec>::empty()); reveal_with_fuel(iov_cells, 2); }
// consecutive transfers add up: k bytes from position p, then n more from p + k
pub broadcast proof fn lemma_in_ops_append(a: int, k: nat, n: nat, p: Option<int>)
    ensures #[trigger] (in_ops(range(a, k), p) + in_ops(range(a + k, n), pos_at(p, k as int))) =~= in_ops(range(a, k + n), p)
{ }
pub broadcast proof fn lemma_out_ops_append(a: int, k: nat, n: nat, p: Option<int>)
    ensures #[trigger] (out_ops(range(a, k), p) + out_ops(range(a + k, n), pos_at(p, k as int))) =~= out_ops(range(a, k + n), p)
{ }

// ===== raw pointers and slices.  A pointer is known by its address (`p as usize`, a cast Verus supports).
// R66: `E as *mut u8` / `E as *const u8` - the pointer with address E
#[verifier::external_body] pub fn vx_ptr_at(a: usize) -> (r: *mut u8) ensures r as usize == a { a as *mut u8 }
#[verifier::external_body] pub fn vx_cptr_at(a: usize) -> (r: *const u8) ensures r as usize == a { a as *const u8 }
// where a slice lives; <[T]>::as_mut_ptr is the pointer to its first element (std)
pub uninterp spec fn slice_base<T>(s: &[T]) -> usize;
pub assume_specification<T> [<[T]>::as_mut_ptr] (s: &mut [T]) -> (r: *mut T)
    ensures r as usize == slice_base(&*old(s)), final(s)@ == old(s)@;
// ABSTRACT `(P).add(N)` inside FileVolatileBuf: <*mut u8>::add is undefined behaviour unless the result stays inside (or one past) the
// allocation; the allocation a FileVolatileBuf speaks for is its window [lo, hi) = [addr, addr + cap) (safety contract of its constructors)
#[verifier::external_body] pub fn vx_ptr_add(p: *mut u8, n: usize, Ghost(lo): Ghost<int>, Ghost(hi): Ghost<int>) -> (r: *mut u8)
    requires lo <= p as usize, p as usize + n <= hi, // [C04.fbuf.io_slice_mut.ptr_in_bounds]
             hi <= usize::MAX, // [C04.fbuf.io_slice_mut.valid_window] the window denotes memory: it does not wrap around the address space
    ensures r as usize == p as usize + n
{ unimplemented!() }
// ABSTRACT `unsafe { slice::from_raw_parts(P, N) }` / `from_raw_parts_mut(P, N)` inside FileVolatileBuf: the N bytes at P must lie inside the window
#[verifier::external_body] pub fn vx_window_slice<'b>(p: *const u8, n: usize, Ghost(lo): Ghost<int>, Ghost(hi): Ghost<int>) -> (r: &'b [u8])
    requires lo <= p as usize, p as usize + n <= hi, // [C04.fbuf.io_slice.in_bounds]
    ensures slice_base(r) == p as usize, r@.len() == n
{ unimplemented!() }
#[verifier::external_body] pub fn vx_window_slice_mut<'b>(p: *mut u8, n: usize, Ghost(lo): Ghost<int>, Ghost(hi): Ghost<int>) -> (r: &'b mut [u8])
    requires lo <= p as usize, p as usize + n <= hi, // [C04.fbuf.io_slice_mut.in_bounds]
    ensures slice_base(&*r) == p as usize, r@.len() == n
{ unimplemented!() }
// std::io::IoSlice / IoSliceMut: a borrowed byte slice (ABI of struct iovec: its address and its length)
pub struct IoSlice<'a> { pub b: &'a [u8] }
impl<'a> IoSlice<'a> { pub fn new(b: &'a [u8]) -> (r: IoSlice<'a>) ensures r.b == b { IoSlice { b } } }
pub struct IoSliceMut<'a> { pub b: &'a mut [u8] }
impl<'a> IoSliceMut<'a> {
    #[verifier::external_body] pub fn new(b: &'a mut [u8]) -> (r: IoSliceMut<'a>) ensures slice_base(&*r.b) == slice_base(&*old(b)), r.b@.len() == old(b)@.len() { IoSliceMut { b } }
}

// ===== vm-memory
pub trait BitmapSlice {}
impl BitmapSlice for () {}
pub trait ReadVolatile {}       // a source of bytes (File, &[u8], ..): used through the VolatileSlice model only
pub trait WriteVolatile {}
// AtomicAccess: the integer types with an atomic twin; `asize` = size_of::<T>(), `abytes` = the value's native-endian bytes
pub trait AtomicAccess: Sized + Copy { spec fn asize() -> nat; spec fn abytes(&self) -> Seq<u8>; }
pub uninterp spec fn atomic_aligned<T: AtomicAccess>(a: int) -> bool;      // address a is aligned for T's atomic twin (check_alignment)
#[verifier::external_body] #[derive(Debug)] pub struct VError { _p: u8 }      // vm_memory::volatile_memory::Error
#[verifier::external_body] pub struct PtrGuardMut { _p: u8 }
impl PtrGuardMut {
    pub uninterp spec fn gaddr(&self) -> int;
    #[verifier::external_body] pub fn as_ptr(&self) -> (r: *mut u8) ensures r as usize == self.gaddr() { unimplemented!() }
}
#[verifier::external_body] #[verifier::reject_recursive_types(S)]
pub struct VolatileSlice<'a, S> { _p: PhantomData<&'a S> }
impl<'a> VolatileSlice<'a, ()> {
    // `pub unsafe fn new(addr: *mut u8, size: usize) -> VolatileSlice<'a>`: the slice at that address with that length
    #[verifier::external_body] pub unsafe fn new(addr: *mut u8, size: usize) -> (r: VolatileSlice<'a, ()>) ensures r.addr() == addr as usize, r.slen() == size { unimplemented!() }
}
// how many bytes VolatileSlice::write / read move for a request of `want` bytes at offset `off` of the slice (A, L); None = error.
// Text: `if buf.is_empty() { return Ok(0) } if addr >= self.size { Err(OutOfBounds) } .. self.offset(addr)? (Overflow if A + addr wraps) ..
// total = buf.len().min(slice.len())`
pub open spec fn xfer_len(A: int, L: nat, want: nat, off: usize) -> Option<nat> {
    if want == 0 { Some(0nat) } else if off >= L || A + off > usize::MAX { None } else { Some(minn(want as int, L - off) as nat) }
}
impl<'a, S> VolatileSlice<'a, S> {
    pub uninterp spec fn addr(&self) -> int;
    pub uninterp spec fn slen(&self) -> nat;
    #[verifier::external_body] pub fn len(&self) -> (r: usize) ensures r == self.slen() { unimplemented!() }
    #[verifier::external_body] pub fn ptr_guard_mut(&self) -> (r: PtrGuardMut) ensures r.gaddr() == self.addr() { unimplemented!() }
%(VS_BYTES)s
}
'''

# ---- the Bytes<usize> contracts, ONE text for the vm-memory model (A, L = the VolatileSlice's) and for FileVolatileSlice (A, L = its fields):
# what is proved is that the adapter is the same view of the same bytes.  `tag(op, aspect)` -> trailing tag comment ('' for the model).
M0, M1 = 'old(hs).mem', 'final(hs).mem'


def bytes_contracts(A, L, tag):
    d = dict(A=A, L=L, M0=M0, M1=M1)
    XL = 'xfer_len(%(A)s, %(L)s, buf@.len(), addr)' % d
    XLO = 'xfer_len(%(A)s, %(L)s, old(buf)@.len(), addr)' % d
    n = 'r->Ok_0'
    C = {}
    C['write'] = dict(sig='(&self, buf: &[u8], addr: usize)', ret='Result<usize, VError>', ens=[
        'r is Ok <==> %s is Some %s' % (XL, tag('write', 'ok_iff')),
        'r is Ok ==> %s == %s->Some_0 %s' % (n, XL, tag('write', 'reports')),
        'r is Ok && %s > 0 ==> addr + %s <= %s && %s <= buf@.len() %s' % (n, n, L, n, tag('write', 'in_bounds')),
        'r is Ok ==> %s =~= %s + wr_ops(range(%s + addr, %s as nat), buf@.take(%s as int)) %s' % (M1, M0, A, n, n, tag('write', 'exact')),
        'r is Err ==> %s == %s %s' % (M1, M0, tag('write', 'fail_no_access')),
        'buf@.len() > 0 && addr >= %s ==> r is Err %s' % (L, tag('write', 'beyond_end'))])
    C['read'] = dict(sig='(&self, buf: &mut [u8], addr: usize)', ret='Result<usize, VError>', ens=[
        'final(buf)@.len() == old(buf)@.len()',
        'r is Ok <==> %s is Some %s' % (XLO, tag('read', 'ok_iff')),
        'r is Ok ==> %s == %s->Some_0 %s' % (n, XLO, tag('read', 'reports')),
        'r is Ok && %s > 0 ==> addr + %s <= %s && %s <= old(buf)@.len() %s' % (n, n, L, n, tag('read', 'in_bounds')),
        'r is Ok ==> %s =~= %s + rd_ops(range(%s + addr, %s as nat)) %s' % (M1, M0, A, n, tag('read', 'exact')),
        'r is Ok ==> final(buf)@ =~= bytes_at(range(%s + addr, %s as nat)) + old(buf)@.skip(%s as int) %s' % (A, n, n, tag('read', 'delivered')),
        'r is Err ==> %s == %s && final(buf)@ == old(buf)@ %s' % (M1, M0, tag('read', 'fail_no_access')),
        'old(buf)@.len() > 0 && addr >= %s ==> r is Err %s' % (L, tag('read', 'beyond_end'))])
    # write_slice / read_slice: `let len = self.write(buf, addr)?; if len != buf.len() { Err(PartialBuffer) }` - a request that straddles the end
    # fails AFTER the in-range prefix was transferred (vm-memory's documented Bytes contract; the Kani harness allowed exactly this)
    C['write_slice'] = dict(sig='(&self, buf: &[u8], addr: usize)', ret='Result<(), VError>', ens=[
        'r is Ok <==> %s == Some(buf@.len()) %s' % (XL, tag('write_slice', 'ok_iff')),
        '%s is Some ==> %s->Some_0 <= buf@.len() && (%s->Some_0 > 0 ==> addr + %s->Some_0 <= %s) %s' % (XL, XL, XL, XL, L, tag('write_slice', 'in_bounds')),
        '%s is Some ==> %s =~= %s + wr_ops(range(%s + addr, %s->Some_0), buf@.take(%s->Some_0 as int)) %s' % (XL, M1, M0, A, XL, XL, tag('write_slice', 'exact')),
        '%s is None ==> %s == %s %s' % (XL, M1, M0, tag('write_slice', 'fail_no_access')),
        'buf@.len() > 0 && addr >= %s ==> r is Err %s' % (L, tag('write_slice', 'beyond_end'))])
    C['read_slice'] = dict(sig='(&self, buf: &mut [u8], addr: usize)', ret='Result<(), VError>', ens=[
        'final(buf)@.len() == old(buf)@.len()',
        'r is Ok <==> %s == Some(old(buf)@.len()) %s' % (XLO, tag('read_slice', 'ok_iff')),
        '%s is Some ==> %s->Some_0 <= old(buf)@.len() && (%s->Some_0 > 0 ==> addr + %s->Some_0 <= %s) %s' % (XLO, XLO, XLO, XLO, L, tag('read_slice', 'in_bounds')),
        # a read NEVER stores into the slice's memory: the log grows by reads only (the clause defect D3 violated)
        '%s is Some ==> %s =~= %s + rd_ops(range(%s + addr, %s->Some_0)) %s' % (XLO, M1, M0, A, XLO, tag('read_slice', 'exact')),
        '%s is Some ==> final(buf)@ =~= bytes_at(range(%s + addr, %s->Some_0)) + old(buf)@.skip(%s->Some_0 as int) %s' % (XLO, A, XLO, XLO, tag('read_slice', 'delivered')),
        '%s is None ==> %s == %s && final(buf)@ == old(buf)@ %s' % (XLO, M1, M0, tag('read_slice', 'fail_no_access')),
        'old(buf)@.len() > 0 && addr >= %s ==> r is Err %s' % (L, tag('read_slice', 'beyond_end'))])
    # *_volatile_from / *_volatile_to: `self.offset(addr)?` (Err if addr > len or A + addr wraps), the sub-slice of min(len - addr, count) bytes is
    # offered to the stream.  ASSUMED of ReadVolatile / WriteVolatile: Ok(n) => exactly the first n offered bytes were filled / taken; Err => none.
    for (op, ops) in (('read_volatile_from', 'in_ops'), ('write_volatile_to', 'out_ops')):
        who = 'src: &mut F' if op.startswith('read') else 'dst: &mut F'
        C[op] = dict(sig='<F: %s>(&self, addr: usize, %s, count: usize)' % ('ReadVolatile' if op.startswith('read') else 'WriteVolatile', who), ret='Result<usize, VError>', ens=[
            'addr > %s || %s + addr > usize::MAX ==> r is Err %s' % (L, A, tag(op, 'beyond_end')),
            'r is Ok ==> %s <= count && addr + %s <= %s %s' % (n, n, L, tag(op, 'in_bounds')),
            'r is Ok ==> %s =~= %s + %s(range(%s + addr, %s as nat), None) %s' % (M1, M0, ops, A, n, tag(op, 'exact')),
            'r is Err ==> %s == %s %s' % (M1, M0, tag(op, 'fail_no_access'))])
    # *_exact / *_all: `self.get_slice(addr, count)?` (Err unless addr + count <= len), then the stream's exact / all loop: on Err a prefix may
    # have been transferred (UnexpectedEof / WriteZero after some progress)
    for (op, ops) in (('read_exact_volatile_from', 'in_ops'), ('write_all_volatile_to', 'out_ops')):
        who = 'src: &mut F' if op.startswith('read') else 'dst: &mut F'
        K = '(%s.len() - %s.len())' % (M1, M0)
        C[op] = dict(sig='<F: %s>(&self, addr: usize, %s, count: usize)' % ('ReadVolatile' if op.startswith('read') else 'WriteVolatile', who), ret='Result<(), VError>', ens=[
            'addr + count > %s ==> r is Err && %s == %s %s' % (L, M1, M0, tag(op, 'beyond_end')),
            '0 <= %s <= count && (%s > 0 ==> addr + count <= %s) %s' % (K, K, L, tag(op, 'in_bounds')),
            '%s =~= %s + %s(range(%s + addr, %s as nat), None) %s' % (M1, M0, ops, A, K, tag(op, 'exact')),
            'r is Ok ==> %s == count %s' % (K, tag(op, 'reports'))])
    # store / load: `get_atomic_ref::<T::A>(addr)` = get_slice(addr, size_of::<T>()) + check_alignment, then ONE atomic access of size_of::<T>() bytes
    C['store'] = dict(sig='<T: AtomicAccess>(&self, val: T, addr: usize, order: Ordering)', ret='Result<(), VError>', ens=[
        'r is Ok ==> addr + T::asize() <= %s %s' % (L, tag('store', 'in_bounds')),
        'addr + T::asize() > %s ==> r is Err %s' % (L, tag('store', 'beyond_end')),
        'addr + T::asize() <= %s && atomic_aligned::<T>(%s + addr) ==> r is Ok %s' % (L, A, tag('store', 'ok_iff')),
        'r is Ok ==> %s =~= %s + wr_ops(range(%s + addr, T::asize()), val.abytes()) %s' % (M1, M0, A, tag('store', 'exact')),
        'r is Err ==> %s == %s %s' % (M1, M0, tag('store', 'fail_no_access'))])
    C['load'] = dict(sig='<T: AtomicAccess>(&self, addr: usize, order: Ordering)', ret='Result<T, VError>', ens=[
        'r is Ok ==> addr + T::asize() <= %s %s' % (L, tag('load', 'in_bounds')),
        'addr + T::asize() > %s ==> r is Err %s' % (L, tag('load', 'beyond_end')),
        'addr + T::asize() <= %s && atomic_aligned::<T>(%s + addr) ==> r is Ok %s' % (L, A, tag('load', 'ok_iff')),
        'r is Ok ==> %s =~= %s + rd_ops(range(%s + addr, T::asize())) %s' % (M1, M0, A, tag('load', 'exact')),
        'r is Ok ==> r->Ok_0.abytes() =~= bytes_at(range(%s + addr, T::asize())) %s' % (A, tag('load', 'delivered')),
        'r is Err ==> %s == %s %s' % (M1, M0, tag('load', 'fail_no_access'))])
    return C


BYTES_OPS = ['write', 'read', 'write_slice', 'read_slice', 'read_volatile_from', 'read_exact_volatile_from', 'write_volatile_to', 'write_all_volatile_to', 'store', 'load']


def _vs_bytes_model():
    C = bytes_contracts('self.addr()', 'self.slen()', lambda op, a: '')
    out = []
    for op in BYTES_OPS:
        c = C[op]
        sig = c['sig']
        k = sig.rindex(')')
        out.append('    #[verifier::external_body] pub fn %s%s, Tracked(hs): Tracked<&mut Host>) -> (r: %s)\n        ensures %s\n    { unimplemented!() }'
                   % (op, sig[:k], c['ret'], ',\n                '.join(e.strip() for e in c['ens'])))
    return '\n'.join(out)


def fb_tag(op, aspect):
    return '// [C04.fbuf.%s.%s]' % (op, aspect)


# =================================================================================================================================
# src/common/file_buf.rs
SPEC_FB = r'''
impl<'a> FileVolatileSlice<'a> {
    pub open spec fn addr(&self) -> int { self.addr as int }
    pub open spec fn slen(&self) -> nat { self.size as nat }
    // the slice denotes existing memory: its range does not wrap around the address space (safety contract of from_raw_ptr / from_mut_slice)
    pub open spec fn valid(&self) -> bool { self.addr + self.size <= usize::MAX }
}
impl FileVolatileBuf {
    // the invariant of a buffer: the initialised part lies inside it.  Established by every constructor, kept by set_size; fields are private.
    pub open spec fn wf(&self) -> bool { self.size <= self.cap }
    // the window [addr, addr + cap) denotes existing memory (safety contract of the constructors): it does not wrap around the address space
    pub open spec fn valid(&self) -> bool { self.addr + self.cap <= usize::MAX }
}
// ASSUMED (Rust: an allocated object never wraps around the address space): a byte slice ends at or below usize::MAX
pub broadcast axiom fn axiom_slice_no_wrap(s: &[u8])
    ensures #[trigger] slice_base(s) + s@.len() <= usize::MAX;
// the iovec list / the addresses a list of slices stands for, in order
pub open spec fn slices_iov(b: Seq<FileVolatileSlice<'_>>) -> Seq<IoVec> { Seq::new(b.len(), |i: int| IoVec { base: b[i].addr(), len: b[i].slen() }) }
pub open spec fn fcells(b: Seq<FileVolatileSlice<'_>>) -> Seq<int> { iov_cells(slices_iov(b)) }
'''

SFS = "impl<'a> FileVolatileSlice<'a>"
SBY = "impl<'a> Bytes<usize> for FileVolatileSlice<'a>"
SFB = 'impl FileVolatileBuf'
TOK = dict(param='Tracked(hs): Tracked<&mut Host>', arg='Tracked(hs)')


def fb_fns(root):
    V = '// [C04.fbuf.%s.view]'
    fns = []

    def mk(scope, name, hooks=(), **kw):
        kw.setdefault('props', ['C04'])
        f = Fn(FB, scope, name, **kw)
        f.body_hooks = list(hooks)
        return f
    fns.append(mk(SFS, 'new', hooks=[FR.r66_int_to_ptr], ensures=['r.addr == addr as usize && r.size == size ' + V % 'new']))
    fns.append(mk(SFS, 'from_raw_ptr', canary=True, ensures=['r.addr == addr as usize && r.size == size ' + V % 'from_raw_ptr']))
    fns.append(mk(SFS, 'from_mut_slice', canary=True, ensures=['r.addr == slice_base(&*old(buf)) && r.size == old(buf)@.len() ' + V % 'from_mut_slice']))
    fns.append(mk(SFS, 'from_volatile_slice', canary=True, ensures=['r.addr() == s.addr() && r.slen() == s.slen() ' + V % 'from_volatile_slice']))
    fns.append(mk(SFS, 'as_volatile_slice', canary=True, ensures=['r.addr() == self.addr() && r.slen() == self.slen() ' + V % 'as_volatile_slice']))
    fns.append(mk(SFS, 'borrow_as_buf', canary=True,
                  ensures=['r.addr == self.addr && r.cap == self.size && r.size == (if inited { self.size } else { 0 }) ' + V % 'borrow_as_buf',
                           'r.wf() // [C04.fbuf.borrow_as_buf.wf]', 'self.valid() ==> r.valid() // [C04.fbuf.borrow_as_buf.no_wrap]']))
    fns.append(mk(SFS, 'as_ptr', hooks=[FR.r66_int_to_ptr], canary=True, ensures=['r as usize == self.addr ' + V % 'as_ptr']))
    fns.append(mk(SFS, 'len', canary=True, ensures=['r == self.size ' + V % 'len']))
    fns.append(mk(SFS, 'is_empty', canary=True, ensures=['r == (self.size == 0) ' + V % 'is_empty']))
    fns.append(mk(SFS, 'offset', hooks=[FR.r66_int_to_ptr], canary=True, ensures=[
        # "offset(count) is Ok iff count <= len" - for a slice that denotes memory; in general also iff the new address does not wrap
        'r is Ok <==> count <= self.size && self.addr + count <= usize::MAX // [C04.fbuf.offset.ok_iff]',
        'self.valid() ==> (r is Ok <==> count <= self.size) // [C04.fbuf.offset.ok_iff_valid]',
        'r is Ok ==> r->Ok_0.addr == self.addr + count && r->Ok_0.size == self.size - count // [C04.fbuf.offset.view]',
        'r is Ok && self.valid() ==> r->Ok_0.valid() // [C04.fbuf.offset.no_wrap]']))
    # ---- impl Bytes<usize> for FileVolatileSlice: emitted as inherent methods (a trait impl cannot hold the `__canary` copies); `Self::E` is
    # the `type E = VError;` of that impl (checked below)
    src = X.Source(root, FB)
    sc = src.scopes(SBY)
    if len(sc) != 1 or not re.search(r'\btype\s+E\s*=\s*VError\s*;', src.msk[sc[0][0]:sc[0][1]]):
        raise X.ExtractError('`type E = VError;` not found in `%s`' % SBY)
    C = bytes_contracts('self.addr()', 'self.slen()', fb_tag)
    for op in BYTES_OPS:
        f = mk(SBY, op, canary=True, ensures=C[op]['ens'], sig_subst=[('Self::E', 'VError')])
        f.rules = ('R23',)
        f.ghost_token = dict(TOK, callees=[], path_callees=BYTES_OPS, free_callees=[])
        fns.append(f)
    return fns


RESUB_BUF = [
    (r'\((vx_ptr_at\([^()]+\))\)\.add\(([^()]+)\)', r'vx_ptr_add(\1, \2, Ghost(self.addr as int), Ghost(self.addr + self.cap))',
     '<*mut u8>::add -> model call: the result must stay inside the window [addr, addr + cap] the buffer speaks for'),
    (r'slice::from_raw_parts_mut\(([^(),]+),\s*([^()]+?)\)', r'vx_window_slice_mut(\1, \2, Ghost(self.addr as int), Ghost(self.addr + self.cap))',
     'slice::from_raw_parts_mut(p, n) -> model call: [p, p + n) must lie inside the window [addr, addr + cap)'),
]
RESUB_BUF_RO = [
    (r'slice::from_raw_parts\(([^(),]+(?:\([^()]*\))?),\s*([^()]+?)\)', r'vx_window_slice(\1, \2, Ghost(self.addr as int), Ghost(self.addr + self.cap))',
     'slice::from_raw_parts(p, n) -> model call: [p, p + n) must lie inside the window [addr, addr + cap)'),
]


def buf_fns():
    V = '// [C04.fbuf.buf_%s.view]'
    SAME = 'final(self).addr == old(self).addr && final(self).cap == old(self).cap'

    def mk(scope, name, hooks=(), **kw):
        kw.setdefault('props', ['C04'])
        f = Fn(FB, scope, name, **kw)
        f.body_hooks = list(hooks)
        return f
    fns = [
        mk(SFB, 'new', canary=True, ensures=['r.addr == slice_base(&*old(buf)) && r.size == 0 && r.cap == old(buf)@.len() ' + V % 'new', 'r.wf() // [C04.fbuf.buf_new.wf]', 'r.valid() // [C04.fbuf.buf_new.no_wrap]'],
           splices=[('^', 'after', 'broadcast use axiom_slice_no_wrap;')]),
        mk(SFB, 'new_with_data', canary=True,
           requires=['size <= old(buf)@.len() // [C04.fbuf.buf_new_with_data.assert] the assert!(size <= buf.len()) is the caller\'s obligation'],
           ensures=['r.addr == slice_base(&*old(buf)) && r.size == size && r.cap == old(buf)@.len() ' + V % 'new_with_data', 'r.wf() // [C04.fbuf.buf_new_with_data.wf]', 'r.valid() // [C04.fbuf.buf_new_with_data.no_wrap]'],
           splices=[('^', 'after', 'broadcast use axiom_slice_no_wrap;')]),
        mk(SFB, 'from_raw_ptr', canary=True,
           requires=['size <= cap // [C04.fbuf.buf_from_raw_ptr.assert] the assert!(size <= cap) is the caller\'s obligation'],
           ensures=['r.addr == addr as usize && r.size == size && r.cap == cap ' + V % 'from_raw_ptr', 'r.wf() // [C04.fbuf.buf_from_raw_ptr.wf]', 'addr as usize + cap <= usize::MAX ==> r.valid() // [C04.fbuf.buf_from_raw_ptr.no_wrap]']),
        mk(SFB, 'io_slice', hooks=[FR.r66_int_to_ptr], canary=True, body_resub=RESUB_BUF_RO,
           requires=['self.wf()'],
           # the initialised part [addr, addr + size)
           ensures=['slice_base(r.b) == self.addr && r.b@.len() == self.size // [C04.fbuf.io_slice.initialised_part]']),
        mk(SFB, 'io_slice_mut', hooks=[FR.r66_int_to_ptr], canary=True, body_resub=RESUB_BUF,
           requires=['self.wf()', 'self.valid()'],
           # the free part [addr + size, addr + cap)
           ensures=['r.b@.len() == self.cap - self.size // [C04.fbuf.io_slice_mut.free_part_len]',
                    'slice_base(&*r.b) == self.addr + self.size // [C04.fbuf.io_slice_mut.free_part_addr]']),
        mk(SFB, 'cap', canary=True, ensures=['r == self.cap ' + V % 'cap']),
        mk(SFB, 'is_empty', canary=True, ensures=['r == (self.size == 0) ' + V % 'is_empty']),
        mk(SFB, 'len', canary=True, ensures=['r == self.size ' + V % 'len']),
        mk(SFB, 'set_size', canary=True, ensures=[
            'final(self).size == (if size <= old(self).cap { size } else { old(self).size }) // [C04.fbuf.set_size.exact]',
            SAME + ' // [C04.fbuf.set_size.frame]', 'old(self).valid() ==> final(self).valid()',
            'old(self).wf() ==> final(self).wf() // [C04.fbuf.set_size.keeps_wf]']),
    ]
    return fns


URING = r'''
// tokio_uring::buf::{IoBuf, IoBufMut} (0.4.0; `unsafe trait`s: the pointer must stay valid and stable, bytes_init <= bytes_total)
pub mod tokio_uring { pub mod buf {
    pub unsafe trait IoBuf { fn stable_ptr(&self) -> *const u8; fn bytes_init(&self) -> usize; fn bytes_total(&self) -> usize; }
    pub unsafe trait IoBufMut: IoBuf { fn stable_mut_ptr(&mut self) -> *mut u8; unsafe fn set_init(&mut self, pos: usize); }
} }
'''
SIOB = 'unsafe impl tokio_uring::buf::IoBuf for FileVolatileBuf'
SIOM = 'unsafe impl tokio_uring::buf::IoBufMut for FileVolatileBuf'


def uring_fns():
    def mk(scope, name, hooks=(), **kw):
        f = Fn(FB, scope, name, props=['C04'], **kw)
        f.body_hooks = list(hooks)
        return f
    a = [mk(SIOB, 'stable_ptr', hooks=[FR.r66_int_to_ptr], ensures=['r as usize == self.addr // [C04.fbuf.iobuf.stable_ptr]']),
         mk(SIOB, 'bytes_init', ensures=['r == self.size // [C04.fbuf.iobuf.bytes_init]']),
         mk(SIOB, 'bytes_total', ensures=['r == self.cap // [C04.fbuf.iobuf.bytes_total]'])]
    b = [mk(SIOM, 'stable_mut_ptr', hooks=[FR.r66_int_to_ptr], ensures=['r as usize == old(self).addr && *final(self) == *old(self) // [C04.fbuf.iobuf.stable_mut_ptr]']),
         mk(SIOM, 'set_init', ensures=['final(self).size == (if pos <= old(self).cap { pos } else { old(self).size }) && final(self).addr == old(self).addr && final(self).cap == old(self).cap // [C04.fbuf.iobuf.set_init]',
                                       'old(self).wf() ==> final(self).wf() // [C04.fbuf.iobuf.set_init_keeps_wf]'])]
    return a, b


# =================================================================================================================================
# src/common/file_traits.rs
NR = dict(read=0, write=1, pread64=17, pwrite64=18, readv=19, writev=20, preadv64=295, pwritev64=296)      # x86_64 syscall numbers, used as names only
INTO_MEM = dict(read=True, readv=True, pread64=True, preadv64=True, write=False, writev=False, pwrite64=False, pwritev64=False)

HOSTMODEL = r"""
// ===== std::fs::File / AsRawFd: a descriptor is known by its number (as in unit ptsize)
#[verifier::external_body] pub struct File { _p: u8 }
pub trait AsRawFd { spec fn sfd(&self) -> i32; fn as_raw_fd(&self) -> (r: RawFd) ensures r == self.sfd(); }
impl AsRawFd for File { uninterp spec fn sfd(&self) -> i32; #[verifier::external_body] fn as_raw_fd(&self) -> (r: RawFd) { unimplemented!() } }
impl io::Error {
    // `Error::from(ErrorKind::X)`: an error of that kind without an OS code (std `impl From<ErrorKind> for Error`)
    #[verifier::external_body] pub fn from_kind(k: io::ErrorKind) -> (r: io::Error) ensures r.skind() == k, r.os_code() is None { unimplemented!() }
}
// the iovec list an array of libc::iovec denotes
pub open spec fn iovs(s: Seq<libc::iovec>) -> Seq<IoVec> { Seq::new(s.len(), |i: int| IoVec { base: s[i].iov_base as usize as int, len: s[i].iov_len as nat }) }
// ABSTRACT `&V[I]` handed to the kernel as `*const iovec`: the array that starts at element I of V.  The index must be in bounds - PROVED.
#[verifier::external_body] pub struct IovArray<'a> { _p: PhantomData<&'a u8> }
impl IovArray<'_> { pub uninterp spec fn elems(&self) -> Seq<libc::iovec>; }
#[verifier::external_body] pub fn vx_iov_array<'a>(v: &'a Vec<libc::iovec>, i: usize) -> (r: IovArray<'a>)
    requires i < v@.len(), // [C04.ftraits.iov_index_in_bounds]
    ensures r.elems() == v@.skip(i as int), i == 0 ==> r.elems() == v@
{ unimplemented!() }
// ===== the kernel.  ASSUMED (read(2), readv(2), pread(2), preadv(2), write(2), writev(2), pwrite(2), pwritev(2); fs/read_write.c):
//   the return value is -1 (errno set) or the number n of bytes transferred, n <= the total length of the iovec list; exactly the FIRST n bytes
//   of the list, in order, are filled (reads) / taken (writes) - "readv() works just like read() except that multiple buffers are filled ..
//   buffers are processed in array order"; nothing is touched when the call fails; a successful call leaves errno alone (errno(3));
//   positional calls: the i-th byte transferred is the file's byte at offset off + i, off >= 0 and off + n <= i64::MAX (rw_verify_area).
pub open spec fn host_xfer(o: Host, n: Host, c: HostCall, into_mem: bool) -> bool {
    n.calls == o.calls.push(c)
    && -1 <= c.ret <= iov_cells(c.iov).len()
    && (c.ret >= 0 ==> n.errno == o.errno
            && n.mem == o.mem + (if into_mem { in_ops(iov_cells(c.iov).take(c.ret), c.off) } else { out_ops(iov_cells(c.iov).take(c.ret), c.off) })
            && (c.off is Some ==> 0 <= c.off->Some_0 && c.off->Some_0 + c.ret <= i64::MAX))
    && (c.ret < 0 ==> n.mem == o.mem)
}
pub open spec fn cnt_iov(a: Seq<libc::iovec>, cnt: c_int) -> Seq<IoVec> { iovs(a.take(if cnt >= 0 { cnt as int } else { 0 })) }
// the whole array: iovcnt = its length
pub broadcast proof fn lemma_cnt_iov_all(a: Seq<libc::iovec>, cnt: c_int)
    requires cnt == a.len()
    ensures #[trigger] cnt_iov(a, cnt) =~= iovs(a)
{ assert(a.take(cnt as int) =~= a); }
pub mod sys {
    use super::*;
%(SYS)s
    #[verifier::external_body] pub fn last_os_error(Tracked(hs): Tracked<&mut Host>) -> (r: io::Error)
        ensures *final(hs) == *old(hs), r.os_code() == Some(old(hs).errno)
    { unimplemented!() }
}
// ===== what the contracts of `impl FileReadWriteVolatile for File` say
// exactly one host call was made; `the_call` is that call
pub open spec fn one_call(o: Host, n: Host) -> bool { n.calls.len() == o.calls.len() + 1 && n.calls.take(o.calls.len() as int) =~= o.calls }
pub open spec fn the_call(n: Host) -> HostCall { n.calls.last() }
// Ok(n) for a non-negative result n, Err(errno) otherwise
pub open spec fn result_of(n: Host, r: io::Result<usize>) -> bool {
    (the_call(n).ret >= 0 ==> r == Ok::<usize, io::Error>(the_call(n).ret as usize))
    && (the_call(n).ret < 0 ==> r is Err && r->Err_0.os_code() == Some(n.errno))
}
"""


def _sys_model():
    L = []
    for n in ('read', 'write', 'pread64', 'pwrite64'):
        ptr = '*mut c_void' if INTO_MEM[n] else '*const c_void'
        off = ', offset: off64_t' if n.startswith('p') else ''
        offv = 'Some(offset as int)' if n.startswith('p') else 'None'
        L.append('    #[verifier::external_body] pub fn %s(fd: c_int, buf: %s, count: size_t%s, Tracked(hs): Tracked<&mut Host>) -> (r: isize)' % (n, ptr, off))
        L.append('        ensures host_xfer(*old(hs), *final(hs), HostCall { nr: %d, fd: fd as int, iov: one_iov(buf as usize as int, count as nat), off: %s, ret: r as int }, %s)'
                 % (NR[n], offv, 'true' if INTO_MEM[n] else 'false'))
        L.append('    { unimplemented!() }')
    for n in ('readv', 'writev', 'preadv64', 'pwritev64'):
        off = ', offset: off64_t' if n.startswith('p') else ''
        offv = 'Some(offset as int)' if n.startswith('p') else 'None'
        L.append('    #[verifier::external_body] pub fn %s(fd: c_int, iov: IovArray<\'_>, iovcnt: c_int%s, Tracked(hs): Tracked<&mut Host>) -> (r: isize)' % (n, off))
        L.append('        requires iovcnt <= iov.elems().len(), // [C04.ftraits.iov_in_bounds] the kernel reads iovcnt entries of the array: they must exist')
        L.append('        ensures host_xfer(*old(hs), *final(hs), HostCall { nr: %d, fd: fd as int, iov: cnt_iov(iov.elems(), iovcnt), off: %s, ret: r as int }, %s)'
                 % (NR[n], offv, 'true' if INTO_MEM[n] else 'false'))
        L.append('    { unimplemented!() }')
    return '\n'.join(L)


MEM0, MEM1 = 'old(hs).mem', 'final(hs).mem'


def trait_req(name):
    """trait-level contract of a REQUIRED method: what the default loops rely on, what `impl .. for File` is shown to meet"""
    ops = 'in_ops' if name.startswith('read') else 'out_ops'
    at = name.endswith('_at_volatile')
    pos = 'Some(offset as int)' if at else 'None'
    ens = ['r is Ok ==> r->Ok_0 <= slice.slen() && %s =~= %s + %s(range(slice.addr(), r->Ok_0 as nat), %s) // [C04.ftraits.trait.%s.touched]' % (MEM1, MEM0, ops, pos, name),
           'r is Err ==> %s == %s // [C04.ftraits.trait.%s.err_untouched]' % (MEM1, MEM0, name)]
    if at:
        ens.append('r is Ok ==> offset + r->Ok_0 <= i64::MAX // [C04.ftraits.trait.%s.file_offset_range] no file has a byte beyond offset i64::MAX (off64_t)' % name)
    return ens


def _cl(c):
    m = re.search(r'\s*(//\s*\[[^\n]*)$', c)
    return (c[:m.start()].rstrip() + ', ' + m.group(1)) if m else c.rstrip() + ','


def _trait_decl(name):
    at = name.endswith('_at_volatile')
    return ('    fn %s(&mut self, slice: FileVolatileSlice%s, Tracked(hs): Tracked<&mut Host>) -> (r: Result<usize>)\n        ensures\n            %s\n    ;'
            % (name, ', offset: u64' if at else '', '\n            '.join(_cl(c) for c in trait_req(name))))


REQUIRED = ['read_volatile', 'write_volatile', 'read_at_volatile', 'write_at_volatile']
# declared without their default bodies (`bufs.iter().find(..).map(..).unwrap_or(Ok(0))` / `bufs.first()`: File overrides all four)
REQUIRED_V = ['read_vectored_volatile', 'write_vectored_volatile', 'read_vectored_at_volatile', 'write_vectored_at_volatile']
DEFAULTS = ['read_exact_volatile', 'write_all_volatile', 'read_exact_at_volatile', 'write_all_at_volatile']
SMUT = 'impl<T: FileReadWriteVolatile + ?Sized> FileReadWriteVolatile for &mut T'


def trait_req_v(name):
    ops = 'in_ops' if name.startswith('read') else 'out_ops'
    at = '_at_' in name
    pos = 'Some(offset as int)' if at else 'None'
    G = 'bufs@.len() <= i32::MAX ==> '
    return [G + '(r is Ok ==> r->Ok_0 <= fcells(bufs@).len() && %s =~= %s + %s(fcells(bufs@).take(r->Ok_0 as int), %s)) // [C04.ftraits.trait.%s.touched]' % (MEM1, MEM0, ops, pos, name),
            G + '(r is Err ==> %s == %s) // [C04.ftraits.trait.%s.err_untouched]' % (MEM1, MEM0, name)]


def _trait_decl_v(name):
    at = '_at_' in name
    return ('    fn %s(&mut self, bufs: &[FileVolatileSlice]%s, Tracked(hs): Tracked<&mut Host>) -> (r: Result<usize>)\n        ensures\n            %s\n    ;'
            % (name, ', offset: u64' if at else '', '\n            '.join(_cl(c) for c in trait_req_v(name))))


def mut_fns():
    """`impl FileReadWriteVolatile for &mut T`: every method forwards to T's (`(**self).m(..)`); emitted as the real trait impl, so each is checked against
    the trait-level contract of m; `decreases 0` admits no recursive call (the forwarder must END in T's method - compare F3)"""
    out = []
    for name in REQUIRED + REQUIRED_V + DEFAULTS:
        f = Fn(FT, SMUT, name, props=['C04'], decreases='0int, // [C04.ftraits.mutref.%s.terminates]' % name,
               body_resub=[(r'(\.%s\((?:[^()]|\([^()]*\))*\))(?=[ \t]*\n)' % name, r'\1 // [C04.ftraits.mutref.%s.ends_in_the_wrapped_object]' % name,
                            'every: tag comment on the forwarding call (names the obligation; no code change)')])
        f.rules = ('R23',)
        f.ghost_token = dict(TOK, callees=REQUIRED + REQUIRED_V + DEFAULTS, path_callees=[], free_callees=[])
        out.append(f)
    return out
STRAIT = 'pub trait FileReadWriteVolatile'
FROM_KIND = (r'\bError::from\(ErrorKind::(\w+)\)', r'Error::from_kind(ErrorKind::\1)', 'every: Error::from(ErrorKind::X) -> Error::from_kind(ErrorKind::X) (std From<ErrorKind> for io::Error: an error of that kind)')
LOOP_INV = """while !slice.is_empty()
            invariant
                slice0.valid(), slice0.addr() <= slice.addr(), slice.addr() + slice.slen() == slice0.addr() + slice0.slen(), // [C04.ftraits.%(n)s.loop.rest_of_the_slice]
                %(offinv)shs.mem =~= m0 + %(ops)s(range(slice0.addr(), %(done)s as nat), %(pos)s), // [C04.ftraits.%(n)s.loop.each_byte_once_in_order]
            %(dec)s
        {"""


def default_loop(name):
    """the trait's provided exact / all loops: read_exact_volatile, write_all_volatile, read_exact_at_volatile, write_all_at_volatile"""
    ops = 'in_ops' if name.startswith('read') else 'out_ops'
    at = name.endswith('_at_volatile')
    pos = 'Some(offset0 as int)' if at else 'None'
    callee = {'read_exact_volatile': 'read_volatile', 'write_all_volatile': 'write_volatile', 'read_exact_at_volatile': 'read_at_volatile', 'write_all_at_volatile': 'write_at_volatile'}[name]
    K = '(%s.len() - %s.len())' % (MEM1, MEM0)
    done = '(slice.addr() - slice0.addr())'
    inv = LOOP_INV % dict(n=name, ops=ops, done=done, pos=pos, offinv=('offset == offset0 + %s, // [C04.ftraits.%s.loop.file_offset_follows]\n                ' % (done, name)) if at else '',
                          dec='' if at else 'decreases slice.slen(),')
    sig = [('mut slice: FileVolatileSlice', 'slice0: FileVolatileSlice')] + ([('mut offset: u64', 'offset0: u64')] if at else [])
    f = Fn(FT, STRAIT, name, props=['C04'], canary=True, sig_subst=sig,
           attrs=['#[verifier::loop_isolation(false)]'] + (['#[verifier::exec_allows_no_decreases_clause]'] if at else []),
           requires=['slice0.valid() // [C04.ftraits.%s.valid_slice] the slice denotes memory (safety contract of its constructor)' % name],
           ensures=['r is Ok ==> %s =~= %s + %s(range(slice0.addr(), slice0.slen()), %s) // [C04.ftraits.%s.every_byte_once_in_order]' % (MEM1, MEM0, ops, pos, name),
                    'r is Err ==> 0 <= %s <= slice0.slen() && %s =~= %s + %s(range(slice0.addr(), %s as nat), %s) // [C04.ftraits.%s.err_prefix]' % (K, MEM1, MEM0, ops, K, pos, name)],
           body_resub=[FROM_KIND],
           splices=[('^', 'after', 'broadcast use lemma_in_ops_append, lemma_out_ops_append; let mut slice = slice0; %slet ghost m0 = hs.mem; proof { assert(%s(range(slice0.addr(), 0nat), %s) =~= Seq::<MemOp>::empty()); }'
                     % ('let mut offset = offset0; ' if at else '', ops, pos)),
                    ('while !slice.is_empty() {', 'replace', inv)])
    f.rules = ('R23',)
    f.ghost_token = dict(TOK, callees=[callee], path_callees=[], free_callees=[])
    return f


SFILE = 'impl FileReadWriteVolatile for $ty'
RESUB_IOV = (r'&iovecs\[0\]', 'vx_iov_array(&iovecs, 0)', 'the `*const iovec` handed to the kernel -> the array starting at element 0 of `iovecs` (index in bounds: proved)')
IOV_LOOP = """while iovecs_i < bufs.len()
                invariant iovecs_i <= bufs@.len(), iovecs@.len() == iovecs_i,
                    forall|j: int| 0 <= j < iovecs_i ==> #[trigger] iovecs@[j].iov_base as usize == bufs@[j].addr() && iovecs@[j].iov_len == bufs@[j].slen(), // [C04.ftraits.%s.loop.iov_is_the_slices]
                ensures iovs(iovecs@) =~= slices_iov(bufs@), // [C04.ftraits.%s.loop.iov_is_the_slices_exit]
                decreases bufs@.len() - iovecs_i
            {"""


def file_fn(name):
    """one method of `volatile_impl!(File)`"""
    vectored = 'vectored' in name
    at = '_at_' in name
    rd = name.startswith('read')
    call = ('p' if at else '') + ('read' if rd else 'write') + ('v' if vectored else '') + ('64' if at else '')
    ops = 'in_ops' if rd else 'out_ops'

    def T(a):
        return '// [C04.ftraits.%s.%s]' % (name, a)
    N = '*final(hs)'
    pos = 'Some(offset as int)' if at else 'None'
    if vectored:
        G = '0 < bufs@.len() <= i32::MAX ==> '
        iov = 'slices_iov(bufs@)'
        cells = 'fcells(bufs@)'
        ens = ['bufs@.len() == 0 ==> r == Ok::<usize, Error>(0) && %s == *old(hs) %s' % (N, T('empty_no_call'))]
    else:
        G = ''
        iov = 'one_iov(slice.addr(), slice.slen())'
        cells = 'range(slice.addr(), slice.slen())'
        ens = []
    ens += [G + 'one_call(*old(hs), %s) %s' % (N, T('one_call')),
            G + 'the_call(%s).nr == %d %s %s(2)' % (N, NR[call], T('kind'), call),
            G + 'the_call(%s).fd == old(self).sfd() %s' % (N, T('fd')),
            G + 'the_call(%s).iov =~= %s %s' % (N, iov, T('iov'))]
    if at:
        ens.append(G + '(offset <= i64::MAX ==> the_call(%s).off == Some(offset as int)) %s' % (N, T('offset')))
    else:
        ens.append(G + 'the_call(%s).off is None %s' % (N, T('offset')))
    if at:
        # an offset that does not fit off64_t reaches the kernel as a NEGATIVE offset (`offset as off64_t` wraps): the call fails, nothing moves
        ens.append(G + '(offset > i64::MAX ==> the_call(%s).off is Some && the_call(%s).off->Some_0 < 0 && r is Err) %s' % (N, N, T('offset_beyond_off64')))
    moved = ('%s.take(r->Ok_0 as int)' % cells) if vectored else 'range(slice.addr(), r->Ok_0 as nat)'
    ens += [G + 'result_of(%s, r) %s' % (N, T('result')),
            G + '(r is Ok ==> r->Ok_0 <= %s.len() && %s =~= %s + %s(%s, %s)) %s' % (cells, MEM1, MEM0, ops, moved, pos, T('touched')),
            G + '(r is Err ==> %s == %s) %s' % (MEM1, MEM0, T('err_untouched'))]
    if at:
        ens.append(G + '(r is Ok ==> offset + r->Ok_0 <= i64::MAX) %s' % T('file_offset_range'))
    splices = [('^', 'after', 'broadcast use lemma_iov_one_take, lemma_iov_one_len, lemma_cnt_iov_all;' + (' proof { assert(offset > 0x7fff_ffff_ffff_ffffu64 ==> (offset as i64) < 0i64) by (bit_vector); }' if at else ''))]
    if vectored:
        splices.append(('while iovecs_i < bufs.len() {', 'replace', IOV_LOOP % (name, name)))
    f = Fn(FT, 'impl File', name, props=['C04'], canary=True, ensures=ens, splices=splices, body_resub=[RESUB_IOV] if vectored else [])
    f.locate = FR.then(PR.r50_locate('volatile_impl', 'File', SFILE, name), FR.r64_host_calls_by_name(sorted(NR)))
    f.body_hooks = [FR.r65_unsafe_is_one_host_call]
    f.rules = ('R23', 'R33') if vectored else ('R23',)
    f.ghost_token = dict(TOK, callees=[], path_callees=sorted(NR) + ['last_os_error'], free_callees=[])
    return f


FILE_FNS = ['read_volatile', 'read_vectored_volatile', 'write_volatile', 'write_vectored_volatile', 'read_at_volatile', 'read_vectored_at_volatile', 'write_at_volatile', 'write_vectored_at_volatile']

# `impl FileReadWriteVolatile for File`, the REQUIRED methods once more as the trait impl: each body is the one call of the extracted method
# (emitted above as an inherent method so that it can have a canary copy).  VERIFIED: File's methods meet the contract the default loops rely on.
REFINE = 'impl FileReadWriteVolatile for File {\n' + '\n'.join(
    '    fn %s(&mut self, slice: FileVolatileSlice%s, Tracked(hs): Tracked<&mut Host>) -> (r: Result<usize>) { File::%s(self, slice%s, Tracked(hs)) }'
    % (n, ', offset: u64' if n.endswith('_at_volatile') else '', n, ', offset' if n.endswith('_at_volatile') else '') for n in REQUIRED) + '\n' + '\n'.join(
    '    fn %s(&mut self, bufs: &[FileVolatileSlice]%s, Tracked(hs): Tracked<&mut Host>) -> (r: Result<usize>) { proof { assert(fcells(bufs@).take(0) =~= Seq::<int>::empty()); } File::%s(self, bufs%s, Tracked(hs)) }'
    % (n, ', offset: u64' if '_at_' in n else '', n, ', offset' if '_at_' in n else '') for n in REQUIRED_V) + '\n}\n'


def ftraits_items(root):
    return [
        Group('pub mod ftraits {\n    use super::*;\n    use super::io::{Error, ErrorKind, Result};', [
            Group('pub trait FileReadWriteVolatile {', [Raw('\n'.join([_trait_decl(n) for n in REQUIRED] + [_trait_decl_v(n) for n in REQUIRED_V]))]
                  + [default_loop(n) for n in DEFAULTS]),
            Group('impl File {', [file_fn(n) for n in FILE_FNS]),
            Raw(REFINE),
            Group('impl<T: FileReadWriteVolatile + ?Sized> FileReadWriteVolatile for &mut T {', mut_fns()),
        ]),
    ]


# =================================================================================================================================
# ASYNC (feature async-io): `impl AsyncFileReadWriteVolatile for File` (crate::async_file::File) and `.. for Arc<T>`, read sequentially (R18, R67)
ASYNC_SPEC = r"""
// ===== async-io: one positional transfer between a file and ONE FileVolatileBuf.
// read: the FREE part [addr + size, addr + cap) is filled; write: the INITIALISED part [addr, addr + size) is taken (io_slice_mut / io_slice)
pub open spec fn buf_lo(b: FileVolatileBuf, rd: bool) -> int { if rd { b.addr + b.size } else { b.addr as int } }
pub open spec fn buf_len(b: FileVolatileBuf, rd: bool) -> nat { if rd { (b.cap - b.size) as nat } else { b.size as nat } }
pub open spec fn buf_xfer(o: Host, n: Host, fd: i32, b: FileVolatileBuf, offset: u64, r: (io::Result<usize>, FileVolatileBuf), rd: bool) -> bool {
    &&& n.calls == o.calls.push(HostCall { nr: if rd { 295int } else { 296int }, fd: fd as int, iov: one_iov(buf_lo(b, rd), buf_len(b, rd)), off: Some(offset as int),
                                           ret: match r.0 { Ok(k) => k as int, Err(_) => -1int } })
    &&& r.1.addr == b.addr && r.1.cap == b.cap
    &&& match r.0 {
            Ok(k) => k <= buf_len(b, rd) && r.1.size == (if rd { b.size + k } else { b.size as int })
                        && n.mem == o.mem + (if rd { in_ops(range(buf_lo(b, rd), k as nat), Some(offset as int)) } else { out_ops(range(buf_lo(b, rd), k as nat), Some(offset as int)) }),
            Err(_) => r.1.size == b.size && n.mem == o.mem,
        }
}
// the bytes of the first i buffers
#[verifier::opaque] pub open spec fn psum(b: Seq<FileVolatileBuf>, rd: bool, i: int) -> int decreases i { if i <= 0 { 0 } else { psum(b, rd, i - 1) + buf_len(b[i - 1], rd) } }
pub broadcast proof fn lemma_psum_mono(b: Seq<FileVolatileBuf>, rd: bool, i: int, j: int)
    requires i <= j
    ensures #[trigger] psum(b, rd, i) <= #[trigger] psum(b, rd, j), 0 <= psum(b, rd, i)
    decreases j - i, i
{
    reveal_with_fuel(psum, 2);
    if i < j { lemma_psum_mono(b, rd, i, j - 1); }
    if i > 0 { lemma_psum_mono(b, rd, i - 1, i - 1); }
}
// psum is opaque (its unfolding together with the step fact below would be a matching loop); this is its definition, one step at a time
pub proof fn lemma_psum_step(b: Seq<FileVolatileBuf>, rd: bool)
    ensures psum(b, rd, 0) == 0, forall|i: int| #![trigger b[i]] 0 <= i < b.len() ==> psum(b, rd, i + 1) == psum(b, rd, i) + buf_len(b[i], rd)
{ reveal_with_fuel(psum, 2); }
// the k-th operation of a vectored transfer of the buffers `b` starting at file offset `off`: buffer k, once, at file offset off + (bytes of the buffers before it)
pub open spec fn planned_call(c: HostCall, fd: i32, b: Seq<FileVolatileBuf>, off: u64, rd: bool, k: int) -> bool {
    c.nr == (if rd { 295int } else { 296int }) && c.fd == fd && c.iov =~= one_iov(buf_lo(b[k], rd), buf_len(b[k], rd)) && c.off == Some(off + psum(b, rd, k))
}
pub open spec fn planned(o: Host, n: Host, fd: i32, b: Seq<FileVolatileBuf>, off: u64, rd: bool) -> bool {
    &&& o.calls.len() <= n.calls.len() <= o.calls.len() + b.len()
    &&& n.calls.take(o.calls.len() as int) =~= o.calls
    &&& forall|j: int| o.calls.len() <= j < n.calls.len() ==> planned_call(#[trigger] n.calls[j], fd, b, off, rd, j - o.calls.len())
}
// what a vectored transfer REPORTS: the bytes of the operations up to and including the first one that moved less than its buffer
// (`p == psum(.., i - 1)`: every operation before number i - 1 moved its whole buffer)
pub open spec fn rep(calls: Seq<HostCall>, l0: int, b: Seq<FileVolatileBuf>, rd: bool, i: int) -> int decreases i {
    if i <= 0 { 0 } else { let p = rep(calls, l0, b, rd, i - 1); if p == psum(b, rd, i - 1) { p + calls[l0 + i - 1].ret } else { p } }
}
pub proof fn lemma_rep_all_full(calls: Seq<HostCall>, l0: int, b: Seq<FileVolatileBuf>, rd: bool, i: int)
    requires forall|j: int| l0 <= j < l0 + i ==> (#[trigger] calls[j]).ret == buf_len(b[j - l0], rd)
    ensures rep(calls, l0, b, rd, i) == psum(b, rd, i)
    decreases i
{
    reveal_with_fuel(psum, 2);
    if i > 0 { lemma_rep_all_full(calls, l0, b, rd, i - 1); }
}
// once an operation moved less than its buffer the reported amount stays what it is
pub proof fn lemma_rep_stops(calls: Seq<HostCall>, l0: int, b: Seq<FileVolatileBuf>, rd: bool, k: int, m: int)
    requires 0 <= k <= m, rep(calls, l0, b, rd, k) < psum(b, rd, k)
    ensures rep(calls, l0, b, rd, m) == rep(calls, l0, b, rd, k)
    decreases m - k
{
    if k < m { lemma_rep_stops(calls, l0, b, rd, k, m - 1); lemma_psum_mono(b, rd, k, m - 1); }
}
"""

ASYNC_MODEL = r"""
    use super::tokio_uring::buf::IoBuf;
    // crate::async_file::File (enum Tokio | Uring) - ASSUMED, written from src/common/async_file.rs: async_read_at = preadv(fd, [io_slice_mut(buf)], offset)
    // with EINTR retried, then set_size(len + n); async_write_at = pwritev(fd, [io_slice(buf)], offset).  The io_uring variant (tokio-uring
    // read_at / write_at over stable_mut_ptr / bytes_total, then set_init(n)) is THE SAME transfer for a read into an empty buffer (len == 0).
    #[verifier::external_body] pub struct File { _p: u8 }
    impl File {
        pub uninterp spec fn sfd(&self) -> i32;
        #[verifier::external_body] pub fn async_read_at(&self, buf: FileVolatileBuf, offset: u64, Tracked(hs): Tracked<&mut Host>) -> (r: (Result<usize>, FileVolatileBuf))
            requires buf.wf(), // [C04.ftraits.async.buffer_wf]
            ensures buf_xfer(*old(hs), *final(hs), self.sfd(), buf, offset, r, true)
        { unimplemented!() }
        #[verifier::external_body] pub fn async_write_at(&self, buf: FileVolatileBuf, offset: u64, Tracked(hs): Tracked<&mut Host>) -> (r: (Result<usize>, FileVolatileBuf))
            requires buf.wf(), // [C04.ftraits.async.buffer_wf]
            ensures buf_xfer(*old(hs), *final(hs), self.sfd(), buf, offset, r, false)
        { unimplemented!() }
    }
    // trait AsyncFileReadWriteVolatile: every implementation has ITS transfer relation; a forwarder's relation is the wrapped object's
    pub trait AsyncFileReadWriteVolatile {
        spec fn xfer(&self, o: Host, n: Host, buf: FileVolatileBuf, offset: u64, r: (Result<usize>, FileVolatileBuf), rd: bool) -> bool;
        spec fn vxfer(&self, o: Host, n: Host, bufs: Vec<FileVolatileBuf>, offset: u64, r: (Result<usize>, Vec<FileVolatileBuf>), rd: bool) -> bool;
        fn async_read_at_volatile(&self, buf: FileVolatileBuf, offset: u64, Tracked(hs): Tracked<&mut Host>) -> (r: (Result<usize>, FileVolatileBuf))
            ensures self.xfer(*old(hs), *final(hs), buf, offset, r, true); // [C04.ftraits.trait.async_read_at_volatile.same_transfer]
        fn async_read_vectored_at_volatile(&self, bufs: Vec<FileVolatileBuf>, offset: u64, Tracked(hs): Tracked<&mut Host>) -> (r: (Result<usize>, Vec<FileVolatileBuf>))
            ensures self.vxfer(*old(hs), *final(hs), bufs, offset, r, true); // [C04.ftraits.trait.async_read_vectored_at_volatile.same_transfer]
        fn async_write_at_volatile(&self, buf: FileVolatileBuf, offset: u64, Tracked(hs): Tracked<&mut Host>) -> (r: (Result<usize>, FileVolatileBuf))
            ensures self.xfer(*old(hs), *final(hs), buf, offset, r, false); // [C04.ftraits.trait.async_write_at_volatile.same_transfer]
        fn async_write_vectored_at_volatile(&self, bufs: Vec<FileVolatileBuf>, offset: u64, Tracked(hs): Tracked<&mut Host>) -> (r: (Result<usize>, Vec<FileVolatileBuf>))
            ensures self.vxfer(*old(hs), *final(hs), bufs, offset, r, false); // [C04.ftraits.trait.async_write_vectored_at_volatile.same_transfer]
    }
"""
ARC_SPEC = r"""
        open spec fn xfer(&self, o: Host, n: Host, buf: FileVolatileBuf, offset: u64, r: (Result<usize>, FileVolatileBuf), rd: bool) -> bool { (**self).xfer(o, n, buf, offset, r, rd) }
        open spec fn vxfer(&self, o: Host, n: Host, bufs: Vec<FileVolatileBuf>, offset: u64, r: (Result<usize>, Vec<FileVolatileBuf>), rd: bool) -> bool { (**self).vxfer(o, n, bufs, offset, r, rd) }
"""
SAF = 'impl AsyncFileReadWriteVolatile for File'
SARC = 'impl<T: AsyncFileReadWriteVolatile + ?Sized> AsyncFileReadWriteVolatile for Arc<T>'
ASYNC_CALLEES = ['async_read_at', 'async_write_at', 'async_read_at_volatile', 'async_write_at_volatile', 'async_read_vectored_at_volatile', 'async_write_vectored_at_volatile']
ASYNC_LOOP = """while bufs.len() - pos >= 4
                invariant
                    pos <= bufs@.len(), bufs@.len() == b0.len(), hs.calls.len() == l0 + pos, hs.calls.take(l0) =~= c0,
                    // every operation so far is the planned one and moved its whole buffer
                    forall|j: int| l0 <= j < l0 + pos ==> planned_call(#[trigger] hs.calls[j], self.sfd(), b0, offset0, %(rd)s, j - l0) && hs.calls[j].ret == buf_len(b0[j - l0], %(rd)s), // [C04.ftraits.%(n)s.loop.ops_in_order]
                    offset == offset0 + psum(b0, %(rd)s, pos as int), // [C04.ftraits.%(n)s.loop.file_offset_follows]
                    count == psum(b0, %(rd)s, pos as int), // [C04.ftraits.%(n)s.loop.count]
                    forall|i: int| 0 <= i < b0.len() ==> (#[trigger] bufs@[i]).addr == b0[i].addr && bufs@[i].cap == b0[i].cap && bufs@[i].size <= bufs@[i].cap,
                    forall|i: int| pos <= i < b0.len() ==> #[trigger] bufs@[i] == b0[i],
                    // what the loop needs from the function's entry (loops are verified on their own)
                    ex == pos, b0 == bufs0@, l0 == c0.len(), c0 == old(hs).calls, psum(b0, %(rd)s, 0) == 0,
                    forall|i: int| #![trigger b0[i]] 0 <= i < b0.len() ==> psum(b0, %(rd)s, i + 1) == psum(b0, %(rd)s, i) + buf_len(b0[i], %(rd)s),
                    forall|i: int| 0 <= i < b0.len() ==> (#[trigger] b0[i]).wf(),
                    forall|i: int| 0 <= i < b0.len() ==> buf_len(#[trigger] b0[i], %(rd)s) == b0[i].cap, // [C04.ftraits.%(n)s.loop.transfer_length_is_capacity]
                    forall|i: int| 0 <= i <= b0.len() ==> 0 <= #[trigger] psum(b0, %(rd)s, i) <= psum(b0, %(rd)s, b0.len() as int),
                    offset0 + psum(b0, %(rd)s, b0.len() as int) <= u64::MAX, psum(b0, %(rd)s, b0.len() as int) <= usize::MAX,
                decreases bufs@.len() - pos
            {"""


def async_fns():
    def mk(scope, name, **kw):
        f = Fn(FT, scope, name, props=['C04'], **kw)
        f.rules = ('R18', 'R23')
        f.body_hooks = [FR.r67_join_sequential]
        f.ghost_token = dict(TOK, callees=ASYNC_CALLEES, path_callees=[], free_callees=[])
        return f
    out = []
    for (name, rd) in (('async_read_at_volatile', 'true'), ('async_write_at_volatile', 'false')):
        out.append(mk(SAF, name, canary=True, requires=['buf.wf() // [C04.ftraits.%s.buffer_wf]' % name],
                      ensures=['buf_xfer(*old(hs), *final(hs), self.sfd(), buf, offset, r, %s) // [C04.ftraits.%s.same_transfer] the file\'s own positional transfer of this buffer at this offset, once, result unchanged' % (rd, name)]))
    for (name, rd) in (('async_read_vectored_at_volatile', 'true'), ('async_write_vectored_at_volatile', 'false')):
        B = 'bufs0@'
        M = '(final(hs).calls.len() - old(hs).calls.len())'
        req = [
            # F4: the code advances the file offset by bytes_total() and detects a short transfer against bytes_total(): right only for buffers whose
            # transfer length IS their capacity - empty ones for a read, full ones for a write (the only shapes the crate's own callers build)
            'forall|i: int| 0 <= i < %s.len() ==> (#[trigger] %s[i]).wf() // [C04.ftraits.%s.buffers_wf]' % (B, B, name),
            'forall|i: int| 0 <= i < %s.len() ==> buf_len(#[trigger] %s[i], %s) == %s[i].cap // [C04.ftraits.%s.%s]' % (B, B, rd, B, name, 'buffers_empty' if rd == 'true' else 'buffers_full'),
            'offset0 + psum(%s, %s, %s.len() as int) <= u64::MAX // [C04.ftraits.%s.offsets_representable] the code adds with `+=` (debug build: panic)' % (B, rd, B, name),
            'psum(%s, %s, %s.len() as int) <= usize::MAX // [C04.ftraits.%s.total_representable]' % (B, rd, B, name)]
        ens = [
            'planned(*old(hs), *final(hs), self.sfd(), %s, offset0, %s) // [C04.ftraits.%s.ops_in_order] each buffer at most once, in order, buffer k at file offset offset + (bytes of the buffers before it)' % (B, rd, name),
            'r.1@.len() == %s.len() && (forall|i: int| 0 <= i < %s.len() ==> (#[trigger] r.1@[i]).addr == %s[i].addr && r.1@[i].cap == %s[i].cap && r.1@[i].wf()) // [C04.ftraits.%s.buffers_back]' % (B, B, B, B, name),
            'r.0 is Ok ==> r.0->Ok_0 == rep(final(hs).calls, old(hs).calls.len() as int, %s, %s, %s) // [C04.ftraits.%s.reports] what was moved up to and including the first short operation' % (B, rd, M, name),
            '%s.len() == 0 ==> r.0 == Ok::<usize, Error>(0) && *final(hs) == *old(hs) // [C04.ftraits.%s.empty_no_call]' % (B, name)]
        ghost = [
            (r'count \+= cnt;', 'count += cnt; proof { lemma_rep_all_full(hs.calls, l0, b0, %s, ex); assert(count == rep(hs.calls, l0, b0, %s, ex + 1)); ex = ex + 1; }' % (rd, rd),
             'every: GHOST text only, after each `count += cnt;`: one more result examined, `count` is what the operations examined so far report (one unfolding of `rep`)'),
            (r'return \(Ok\(count\), bufs\);', '{ proof { lemma_rep_stops(hs.calls, l0, b0, %s, ex, hs.calls.len() - l0); } return (Ok(count), bufs); }' % rd,
             'every: GHOST text only, before each `return (Ok(count), bufs);`: after a short operation the reported amount no longer changes (lemma)'),
            (r'\(Ok\(count\), bufs\)(\s*\}\s*)$', r'{ proof { lemma_rep_all_full(hs.calls, l0, b0, %s, ex); } (Ok(count), bufs) }\1' % rd,
             'GHOST text only, at the final `(Ok(count), bufs)`: every operation moved its whole buffer (lemma)'),
        ]
        f = mk(SAF, name, canary=True, requires=req, ensures=ens,
               sig_subst=[('mut bufs: Vec<FileVolatileBuf>', 'bufs0: Vec<FileVolatileBuf>'), ('mut offset: u64', 'offset0: u64')],
               attrs=['#[verifier::rlimit(300)]'], body_resub=ghost,
               splices=[('^', 'after', 'let ghost b0 = bufs0@; let ghost l0 = hs.calls.len() as int; let ghost c0 = hs.calls; let mut bufs = bufs0; let mut offset = offset0; let ghost mut ex: int = 0; '
                         'proof { reveal_with_fuel(rep, 2); lemma_psum_step(b0, %s); assert forall|i: int| 0 <= i <= b0.len() implies 0 <= #[trigger] psum(b0, %s, i) <= psum(b0, %s, b0.len() as int) by { lemma_psum_mono(b0, %s, i, b0.len() as int); } }' % (rd, rd, rd, rd)),
                        ('while bufs.len() - pos >= 4 {', 'replace', ASYNC_LOOP % dict(n=name, rd=rd))])
        out.append(f)
    return out


def arc_fns():
    out = []
    for name in ('async_read_at_volatile', 'async_read_vectored_at_volatile', 'async_write_at_volatile', 'async_write_vectored_at_volatile'):
        # the forwarder must END in the wrapped object's method: `decreases 0` admits no recursive call (F3: `self.m(..)` on `&Arc<T>` resolves to this very method)
        f = Fn(FT, SARC, name, props=['C04'], decreases='0int, // [C04.ftraits.arc.%s.terminates]' % name,
               body_resub=[(r'(\.%s\((?:[^()]|\([^()]*\))*\))(?=[ \t]*\n)' % name, r'\1 // [C04.ftraits.arc.%s.ends_in_the_wrapped_object]' % name,
                            'every: tag comment on the forwarding call (names the obligation; no code change)')])
        f.rules = ('R18', 'R23')
        f.ghost_token = dict(TOK, callees=ASYNC_CALLEES, path_callees=[], free_callees=[])
        out.append(f)
    return out


def async_items():
    return [
        Raw(ASYNC_SPEC),
        Group('pub mod ftraits_async {\n    use super::*;\n    use super::io::{Error, ErrorKind, Result};\n    use std::sync::Arc;' + ASYNC_MODEL, [
            Group('impl File {', async_fns()),
            Group('impl<T: AsyncFileReadWriteVolatile + ?Sized> AsyncFileReadWriteVolatile for Arc<T> {' + ARC_SPEC, arc_fns()),
        ]),
    ]


def unit(root='/repo'):
    items = [
        Raw(MODEL % dict(VS_BYTES=_vs_bytes_model())),
        Copy(FB, r"pub struct FileVolatileSlice<'a>", prefix='#[derive(Clone, Copy)]'),
        Copy(FB, r'pub struct FileVolatileBuf', prefix='#[derive(Clone, Copy)]'),
        Copy(FB, r'pub enum Error', prefix='#[derive(Debug)]'),
        Raw(SPEC_FB),
        Group("impl<'a> FileVolatileSlice<'a> {", fb_fns(root)),
        Group('impl FileVolatileBuf {', buf_fns()),
    ]
    a, b = uring_fns()
    items += [Raw(URING), Group('unsafe impl tokio_uring::buf::IoBuf for FileVolatileBuf {', a), Group('unsafe impl tokio_uring::buf::IoBufMut for FileVolatileBuf {', b)]
    items += [Raw(HOSTMODEL % dict(SYS=_sys_model()))] + ftraits_items(root) + async_items()
    u = Unit('filebuf', items, preludes=['base.rs'])
    u.prelude_subst = [('pub mod libc {', 'pub mod libc {\n    // struct iovec (libc 0.2, <sys/uio.h>): iov_base: *mut c_void, iov_len: size_t\n    pub struct iovec { pub iov_base: *mut u8, pub iov_len: usize }')]
    u.cfg_features = {'async-io'}
    return u
