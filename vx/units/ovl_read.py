"""Unit `ovl_read` (C10, the READ side of the overlay): which layer a read-side request is answered from, on the real text of
src/overlayfs/sync_io.rs and of the helpers in src/overlayfs/mod.rs:

  FileSystem for OverlayFs::{readlink, access, getxattr, listxattr, statfs, read, write}
  OverlayFs::{find_real_inode, do_statvfs, get_data, new, import},  BackendFileSystem for OverlayFs::mount,  RealInode::{stat64, stat64_ignore_enoent}

THE MODEL is the one of unit ovl_view (ghost token `LView`, threaded by rule R23 as `Tracked(vxv)`): its prelude items (types, VIEW, NODEM, struct copies) are
taken from `ovl_view.unit()` item by item, not copied; the functions ovl_view verifies and this unit calls (lookup_node, load_directory, do_lookup, insert_inode,
get_active_inode, root_inode) are imported as the SAME Fn objects with `external_body` set (textually the contracts ovl_view proves); copy_node_up is imported in
the same way from unit ovl_bk (its three clauses over the view), RealInode::new from unit ovl_real, Layer::is_opaque from unit ovl_layer.  The layer objects and
their capability-guarded methods are the model of unit ovl_common / ovl_ops (every MUTATING layer call requires `is_upper()` [upper] and `may_<op>(args)` [cap]).

ADDED to that model, mechanically and for this unit only (each addition is checked for its shape and raises ExtractError otherwise):
  * LView gets one more ghost component `asked: Seq<Ask>`: the log of the layer calls the functions UNDER CONTRACT HERE make themselves (layer object, operation,
    the layer's inode number, the layer's handle).  The model methods readlink / getxattr / listxattr / access / statfs / read / write of the generated layer model
    take the token and append their own record; every other model leaves the component as it finds it or (a directory load, a copy-up: they ask layers through
    models that do not log) does not constrain it.  "exactly ONE layer is asked" is then `final == asked_one(v1, layer, op, ino, fh)` over the view v1 the
    lookup left: one record more, NOTHING else changed; "no layer call" is `final == v1`.
  * cells made at run time (AtomicU64::new, AtomicBool::new, Mutex::new(vec![]), RwLock::new(InodeStore::new()), OverlayInode::new()) are NEW cells of the view
    with the given content (models new_cell / new_empty / new_blank below).

What is decided (tags [C10.read.<fn>.<aspect>]):
  1. readlink / access / getxattr / listxattr (`fwd_post`): the number is resolved by lookup_node(inode, "") (ovl_view: unknown number or whiteout node -> ENOENT,
     nothing changed); an error of that lookup is handed on, nothing else done; otherwise exactly ONE layer call: the operation of the same name on the layer of the
     node's FIRST (topmost) real inode, with that real inode's number and the client's other arguments; its answer is the handler's answer; the view is the one the
     lookup left plus that one record.  access / getxattr / listxattr resolve the number a second time through the store (find_real_inode): the clause says so
     (`via_store`) and the checked lemma `lemma_same_node` shows that it is the same node unless the store handed out a number in use (ghost `collided` of ovl_view).
     read / write (`rw_post`): the handle data is what get_data yields (`gd_post`): with opens, THE record of the handle table under that handle number provided its
     node carries the request's inode number (else ENOENT, nothing asked); in no_open mode the node's topmost real inode (after a copy-up iff the flags are not
     read-only, EROFS without upper layer) with handle 0 in a new cell.  Then exactly ONE layer call read / write on the RECORDED layer, with the recorded real
     inode number and the recorded real handle, the client's size / offset / lock owner / flags unchanged; the answer unchanged.  write: a handle that lives in a
     lower layer -> EBADF, nothing asked; the capability [upper] of the layer's write is met by the record's honesty (S-HANDLES, S-WF).
     No handler here is GIVEN any capability of a mutating layer call (no `is_upper()`, no `may_*` in any requires) except write (may_write for exactly the client's
     arguments and bytes) - and `may_copy_up()`, needed by get_data / read / write only in no_open mode for flags that are not read-only.
  2. statfs = do_statvfs (`sv_post`): WHAT THE CODE DOES: the number is looked up in the live table only (no lookup_node: nothing is loaded, the whiteout flag is NOT
     consulted); unknown -> ENOENT; a node without real inodes -> an error without errno; otherwise exactly ONE call: statfs of the layer of the node's FIRST real
     inode with that inode; its answer unchanged: block counts of ONE layer - the topmost one THAT NODE has (not the root's, not a combination).  Nothing modified.
  3. new: the layers are kept in the order given (upper as given), an empty store, no handles, every switch off.  import (`imp_post`): a node with NEW cells, number 1
     (FUSE_ROOT_ID), empty path and name, lookup count 2, whose real inodes are the root inodes of ALL layers in order, upper first (`roots_match`: each the
     layer's own `root_inode()`, `in_upper_layer` only for the upper layer, opaque as Layer::is_opaque says, never a whiteout), is entered into the store under 1 and
     its directory is loaded (`loaded_from` of ovl_view: the union of the root directories).  Failure: an is_opaque that fails leaves NOTHING registered; a
     load_directory that fails leaves the root REGISTERED, not loaded (what the code does; every later lookup loads it on demand).  mount = do_lookup(ctx0, 1, ""):
     the root's entry, one reference, with VFS_MAX_INO.

  4. RealInode::stat64 / stat64_ignore_enoent (the attributes every LOOKUP-like reply carries come from OverlayInode::stat64, which walks the node's real inodes top
     down through stat64_ignore_enoent): the clauses unit ovl_real proves, plus [C10.read.stat64_ignore_enoent.only_missing]: Ok(None) = "look further down" only for
     an object the layer does not have (inode 0, ENOENT, ENAMETOOLONG).

On the unchanged tree ONE obligation FAILS, genuine (findings/repro_overlay_read.rs::r1, r1b; candidate repair findings/overlay_stat64_ignore_enoent.patch):
  [C10.read.stat64_ignore_enoent.only_missing]   `raw_error != ENOENT || raw_error != ENAMETOOLONG` holds for every errno: ANY error of the topmost layer's getattr
                                                 is swallowed and LOOKUP answers with the attributes of a LOWER layer's directory (R1)
`VX_DROP_TAGS=C10.read.stat64_ignore_enoent.only_missing` (the framework's second pass behind known findings) gives STATUS ok.

Rewrites: R23 (token), R24, R2 (standard); body_resub / resub_hook entries with their `why` below; the handle-table hook of ovl_ops / ovl_view; R8 splices (incl.
r8_at_loop_end).  NEW, additive, opt-in (vx/ovlrules.py): R23n - the body part of R23 for a callee call nested in the argument list of another callee call
(`hd.layer.read(.., hd.handle.load(..), ..)`): the text is re-scanned after every insertion; same meaning as R23 (used by read and write only).

Assumptions (models): everything ovl_view assumes (S-STORE, S-SCAN, S-HEAP, A-WEAK, A-HASH-ORDER, locks never poisoned, sequential model) plus
  S-COPYUP   copy_node_up over the view: the three clauses unit ovl_bk proves (same view but real inodes / flags; afterwards in the upper layer; same node);
  S-WF       copy_node_up: the real inode it puts in front is honest about its layer (`wf`: [C10.ops.inv] of unit ovl_ops, restated over the view);
  S-HANDLES  (requires of get_data / read / write) every record of the handle table is honest about its layer (established by open / do_create: unit ovl_ops);
  A-RIS      (requires of every handler) every live node has a known, non-empty real-inode cell (`ris_ok`; `ninv` of unit ovl_ops; a node is only ever made from a
             non-empty list); the checked lemma `lemma_load_ris_ok` shows that a directory load keeps the non-emptiness;
  the models of the run-time cells named above; Layer::root_inode() is a function of the layer (`s_root`); `String::from("")` is the empty string;
  the layer's read needs the writer's cursor at the end of its data (artefact of the copy-up model of unit ovl_common, carried as a requires of `read`).
"""
import copy
import re

from vx.api import Unit, Fn, Copy, Raw, Group
from vx import ovlrules as R, extract as X
from vx.units import ovl_common as C
from vx.units import ovl_real as RL
from vx.units import ovl_view as V
from vx.units import ovl_bk as K
from vx.units import ovl_ops as O

OVL = C.OVL
OVLS = C.OVLS
OI = 'impl OverlayInode'
OF = 'impl OverlayFs'
FSI = 'impl FileSystem for OverlayFs'
BFS = 'impl BackendFileSystem for OverlayFs'
P = ['C10']
H0, H1 = '*old(vxv)', '*final(vxv)'

# the layer operations whose calls are logged, with their operation code
LOGGED = dict(readlink=1, getxattr=2, listxattr=3, access=4, statfs=5, read=6, write=7)

ASKED_OLD = 'pub ghost collided: bool,\n}'
ASKED_NEW = ('pub ghost collided: bool,\n'
             '    pub ghost asked: Seq<Ask>,      // unit ovl_read: the layer calls made by the functions under contract there (layer, operation, the layer\'s inode number, the layer\'s handle)\n}')


def log_layer_calls(T, I):
    """the generated layer model (ovl_common.gen_fs_model): the operations of LOGGED take the view token and append their record to `asked`; `me()` names the object"""
    for (a, b, txt) in (('    spec fn is_upper(&self) -> bool;', '\n    spec fn me(&self) -> LayerObj;      // this object (unit ovl_read: the call log records WHICH layer was asked)', 'T'),
                        ('    uninterp spec fn is_upper(&self) -> bool;', '\n    open spec fn me(&self) -> LayerObj { *self }', 'I')):
        src = T if txt == 'T' else I
        if src.count(a) != 1:
            raise X.ExtractError('ovl_read: layer model: %r occurs %d times' % (a, src.count(a)))
        k = src.index(a)
        e = src.index('\n', k)
        src = src[:e] + b + src[e:]
        if txt == 'T':
            T = src
        else:
            I = src
    for name, code in LOGGED.items():
        m = list(re.finditer(r'\n    fn %s\(&self, ([^\n]*?)\) -> \(res: ' % name, T))
        if len(m) != 1:
            raise X.ExtractError('ovl_read: layer model: declaration of %s not found' % name)
        m = m[0]
        fh = 'Some(handle)' if re.search(r'\bhandle: u64\b', m.group(1)) else 'None::<u64>'
        k = T.index(') -> (res: ', m.start())
        T = T[:k] + ', Tracked(vxv): Tracked<&mut LView>' + T[k:]
        e = T.index('\n        ensures ', m.start())
        nxt = T.find('\n    fn ', m.start() + 1)
        if nxt != -1 and e > nxt:
            raise X.ExtractError('ovl_read: layer model: %s has no ensures' % name)
        e += len('\n        ensures ')
        T = T[:e] + '*final(vxv) == asked_one(*old(vxv), self.me(), %d, inode, %s),\n            ' % (code, fh) + T[e:]
        (I, n) = re.subn(r'(#\[verifier::external_body\] fn %s\(&self, [^\n]*?)\) -> \(res: ' % name, r'\1, Tracked(vxv): Tracked<&mut LView>) -> (res: ', I)
        if n != 1:
            raise X.ExtractError('ovl_read: layer model: implementation of %s not found' % name)
    return T, I


READ = r'''
// =====================================================================================================================================
// unit ovl_read: the read side over the view of unit ovl_view
// ---- the call log: one record per layer call made by a function under contract in this unit.  op: %(OPS)s
pub ghost struct Ask { pub layer: LayerObj, pub op: int, pub ino: u64, pub fh: Option<u64> }
pub open spec fn asked_one(v: LView, l: LayerObj, op: int, ino: u64, fh: Option<u64>) -> LView { LView { asked: v.asked.push(Ask { layer: l, op: op, ino: ino, fh: fh }), ..v } }
pub open spec fn ctx0() -> Context { Context { uid: 0, gid: 0, pid: 0 } }
pub open spec fn empty_name() -> Seq<char> { Seq::<char>::empty() }

// ---- cells made at run time: NEW cells of the view with the given content
impl CounterCell {
    // AtomicU64::new(v)
    #[verifier::external_body] pub fn new_cell(v: u64, Tracked(vxv): Tracked<&mut LView>) -> (r: Self)
        ensures !old(vxv).ctr.contains_key(r.id()), *final(vxv) == (LView { ctr: old(vxv).ctr.insert(r.id(), v), ..*old(vxv) }) { unimplemented!() }
}
impl FlagCell {
    // AtomicBool::new(v)
    #[verifier::external_body] pub fn new_cell(v: bool, Tracked(vxv): Tracked<&mut LView>) -> (r: Self)
        ensures !old(vxv).flag.contains_key(r.id()), *final(vxv) == (LView { flag: old(vxv).flag.insert(r.id(), v), ..*old(vxv) }) { unimplemented!() }
}
impl RisCell {
    #[verifier::external_body] pub fn lock(&self) -> (r: core::result::Result<&RisCell, PoisonError>) ensures r is Ok && r->Ok_0.id() == self.id() { unimplemented!() }
    // <[RealInode]>::first through the guard
    #[verifier::external_body] pub fn first<'a>(&'a self, Tracked(vxv): Tracked<&mut LView>) -> (r: Option<&'a RealInode>)
        ensures *final(vxv) == *old(vxv), r is Some <==> old(vxv).ris[self.id()].len() > 0, r is Some ==> *r->Some_0 == old(vxv).ris[self.id()][0] { unimplemented!() }
    // <[RealInode]>::last through the guard (not used by the code as it is: keeps an edit that asks for the LAST real inode decidable)
    #[verifier::external_body] pub fn last<'a>(&'a self, Tracked(vxv): Tracked<&mut LView>) -> (r: Option<&'a RealInode>)
        ensures *final(vxv) == *old(vxv), r is Some <==> old(vxv).ris[self.id()].len() > 0, r is Some ==> *r->Some_0 == old(vxv).ris[self.id()].last() { unimplemented!() }
    // Mutex::new(vec![]): a NEW cell holding no real inode
    #[verifier::external_body] pub fn new_empty(Tracked(vxv): Tracked<&mut LView>) -> (r: Self)
        ensures !old(vxv).ris.contains_key(r.id()), *final(vxv) == (LView { ris: old(vxv).ris.insert(r.id(), Seq::<RealInode>::empty()), ..*old(vxv) }) { unimplemented!() }
    // Vec::push through the guard
    #[verifier::external_body] pub fn push(&self, ri: RealInode, Tracked(vxv): Tracked<&mut LView>)
        ensures *final(vxv) == (LView { ris: old(vxv).ris.insert(self.id(), old(vxv).ris[self.id()].push(ri)), ..*old(vxv) }) { unimplemented!() }
}
impl InodeStoreCell {
    // RwLock::new(InodeStore::new()): the store of the overlay under construction is empty (InodeStore::new: empty tables, no remembered path)
    #[verifier::external_body] pub fn new_empty(Tracked(vxv): Tracked<&mut LView>) -> (r: Self)
        ensures *final(vxv) == (LView { inodes: Map::<u64, Node>::empty(), deleted: Map::<u64, Node>::empty(), paths: Map::<Seq<char>, u64>::empty(), ..*old(vxv) }) { unimplemented!() }
}
impl HandlesCell {
    // Mutex::new(HashMap::new())
    #[verifier::external_body] pub fn new_empty() -> (r: Self) ensures forall|h: u64| (#[trigger] r.s_handle(h)) is None { unimplemented!() }
}
// OverlayInode::new() = OverlayInode::default(): a node all of whose cells are NEW (three flags: three cells), flags false, count 0, no children, no parent, no real inode
// (the values are the clause unit ovl_merge proves for `new`)
pub open spec fn blank_fresh(v: LView, n: OverlayInode) -> bool {
    &&& !v.flag.contains_key(n.whiteout.id()) && !v.flag.contains_key(n.loaded.id()) && !v.flag.contains_key(n.lower_exists.id())
    &&& n.whiteout.id() != n.loaded.id() && n.whiteout.id() != n.lower_exists.id() && n.loaded.id() != n.lower_exists.id()
    &&& !v.ctr.contains_key(n.lookups.id()) && !v.kids.contains_key(n.childrens.id()) && !v.par.contains_key(n.parent.id()) && !v.ris.contains_key(n.real_inodes.id())
}
pub open spec fn with_blank(v: LView, n: OverlayInode) -> LView {
    LView { flag: v.flag.insert(n.whiteout.id(), false).insert(n.loaded.id(), false).insert(n.lower_exists.id(), false), ctr: v.ctr.insert(n.lookups.id(), 0),
            kids: v.kids.insert(n.childrens.id(), Map::<Seq<char>, Node>::empty()), par: v.par.insert(n.parent.id(), None::<Node>), ris: v.ris.insert(n.real_inodes.id(), Seq::<RealInode>::empty()), ..v }
}
impl OverlayInode {
    #[verifier::external_body] pub fn new_blank(Tracked(vxv): Tracked<&mut LView>) -> (r: Self)
        ensures blank_fresh(*old(vxv), r), r.inode == 0 && r.path@.len() == 0 && r.name@.len() == 0, *final(vxv) == with_blank(*old(vxv), r) { unimplemented!() }
}
// the capability to copy a node up (the copy-up itself reaches only the upper layer: unit ovl_ops)
pub uninterp spec fn may_copy_up() -> bool;

// ---- assumptions about the pre-state (see the unit's doc string)
// A-RIS: every live node has a known, non-empty real-inode cell (and its `whiteout` and `loaded` flags are two cells)
pub open spec fn ris_ok(v: LView) -> bool {
    forall|i: u64| #[trigger] v.inodes.contains_key(i) ==> v.ris.contains_key(v.inodes[i].real_inodes.id()) && v.ris[v.inodes[i].real_inodes.id()].len() > 0
        && v.inodes[i].whiteout.id() != v.inodes[i].loaded.id()      // (two fields of the node: two cells)
}
pub open spec fn ris_len_ok(v: LView) -> bool { forall|i: u64| #[trigger] v.inodes.contains_key(i) ==> v.ris[v.inodes[i].real_inodes.id()].len() > 0 }
// every real inode of a live node is honest about its layer (RealInode::wf: in_upper_layer ==> the layer object is the upper layer)
pub open spec fn ris_wf(v: LView) -> bool { forall|i: u64, k: int| #[trigger] v.inodes.contains_key(i) && 0 <= k < v.ris[v.inodes[i].real_inodes.id()].len() ==> (#[trigger] v.ris[v.inodes[i].real_inodes.id()][k]).wf() }
// S-HANDLES: a record of the handle table is honest about its layer
pub open spec fn hd_honest(d: HandleData) -> bool { d.real_handle is Some && d.real_handle->Some_0.in_upper_layer ==> (*d.real_handle->Some_0.layer).is_upper() }
pub open spec fn handles_honest(hs: HandlesCell) -> bool { forall|h: u64| (#[trigger] hs.s_handle(h)) is Some ==> hd_honest(*hs.s_handle(h)->Some_0) }

// ---- clause 1: the handlers that resolve a NUMBER.  `ans(l, i)`: what layer l answers for its inode i to the operation with the client's other arguments
pub open spec fn fwd_post<T>(o: LView, n: LView, ctx: Context, inode: u64, op: int, via_store: bool, r: Result<T>, ans: spec_fn(LayerObj, u64) -> Result<T>) -> bool {
    exists|r0: Result<Node>, v1: LView| #[trigger] lookup_node_post(o, v1, ctx, inode, empty_name(), r0) && (match r0 {
        Err(e) => n == v1 && r == Err::<T, Error>(e),
        Ok(nd) =>
            if v1.flag[nd.whiteout.id()] { n == v1 && r is Err && err_is(r->Err_0, 2) }
            else if via_store && !v1.inodes.contains_key(inode) { n == v1 && r is Err && err_is(r->Err_0, 2) }
            else { let tn = if via_store { v1.inodes[inode] } else { nd }; let f = v1.ris[tn.real_inodes.id()][0];
                   n == asked_one(v1, *f.layer, op, f.inode, None::<u64>) && r == ans(*f.layer, f.inode) } })
}
// find_real_inode: the live table only
pub open spec fn fri_post(o: LView, inode: u64, r: Result<(Arc<BoxedLayer>, u64)>) -> bool {
    if !o.inodes.contains_key(inode) { r is Err && err_is(r->Err_0, 2) }
    else { let f = o.ris[o.inodes[inode].real_inodes.id()][0]; r is Ok && r->Ok_0.0 == f.layer && r->Ok_0.1 == f.inode }
}
// ---- clause 2: statfs
pub open spec fn sv_post(o: LView, n: LView, ctx: Context, inode: u64, r: Result<statvfs64>) -> bool {
    if !o.inodes.contains_key(inode) { n == o && r is Err && err_is(r->Err_0, 2) }
    else { let rs = o.ris[o.inodes[inode].real_inodes.id()];
           if rs.len() == 0 { n == o && r is Err && r->Err_0.os_code() is None }
           else { n == asked_one(o, *rs[0].layer, 5, rs[0].inode, None::<u64>) && r == (*rs[0].layer).s_statfs(ctx, rs[0].inode) } }
}
// what C10 can ask of STATFS (it speaks of the visible TREE and of the lower layers never changing, not of file-system statistics): the request changes
// nothing in the view and asks the layers for at most ONE thing, a statfs.  WHICH layer answers (`sv_post` above: the node's own topmost layer; the
// kernel's overlayfs reports the upper file system) is pinned behaviour under a `pin.` tag, which belongs to no property: a change of it is recorded in the
// evidence (obligations failing for no claimed property) and is not an alarm.
pub open spec fn sv_c10(o: LView, n: LView) -> bool { n == o || exists|l: LayerObj, i: u64| n == #[trigger] asked_one(o, l, 5, i, None::<u64>) }
// ---- get_data: which layer, real inode and real handle a handle-based request goes to
// what get_data takes as read-only: none of O_APPEND (0o2000), O_CREAT (0o100), O_TRUNC (0o1000), O_RDWR (2), O_WRONLY (1); such a word is harmless (sp_open_harmless)
pub open spec fn sp_gd_readonly(flags: u32) -> bool { flags & 0o3103u32 == 0 }
pub open spec fn hd_of(d: HandleData, nd: Node, f: RealInode, cell: int) -> bool {
    d.node == nd && d.real_handle is Some && ({ let rh = d.real_handle->Some_0; rh.layer == f.layer && rh.in_upper_layer == f.in_upper_layer && rh.inode == f.inode && rh.handle.id() == cell })
}
// no_open mode: a record made on the spot: the node, its FIRST real inode, real handle 0 in a new cell
pub open spec fn gd_fresh(v: LView, n: LView, nd: Node, r: Result<Arc<HandleData>>) -> bool {
    r is Ok && r->Ok_0.real_handle is Some && ({ let cell = r->Ok_0.real_handle->Some_0.handle.id();
        !v.ctr.contains_key(cell) && n == (LView { ctr: v.ctr.insert(cell, 0), ..v }) && hd_of(*r->Ok_0, nd, v.ris[nd.real_inodes.id()][0], cell) })
}
pub open spec fn gd_post(hs: HandlesCell, no_open: int, has_upper: bool, o: LView, n: LView, ctx: Context, handle: Option<u64>, inode: u64, flags: u32, r: Result<Arc<HandleData>>) -> bool {
    if !o.flag[no_open] {
        n == o && (if handle is Some && hs.s_handle(handle->Some_0) is Some && hs.s_handle(handle->Some_0)->Some_0.node.inode == inode { r == Ok::<Arc<HandleData>, Error>(hs.s_handle(handle->Some_0)->Some_0) }
                   else { r is Err && err_is(r->Err_0, 2) })
    } else {
        exists|r0: Result<Node>, v1: LView| #[trigger] lookup_node_post(o, v1, ctx, inode, empty_name(), r0) && (match r0 {
            Err(e) => n == v1 && r == Err::<Arc<HandleData>, Error>(e),
            Ok(nd) =>
                if v1.flag[nd.whiteout.id()] { n == v1 && r is Err && err_is(r->Err_0, 2) }
                else if sp_gd_readonly(flags) { gd_fresh(v1, n, nd, r) }
                else if !has_upper { n == v1 && r is Err && err_is(r->Err_0, 30) }
                else { exists|vc: LView| #[trigger] up_rel(v1, vc, *nd) && ((r is Err && n == vc) || (sp_in_upper(vc.ris[nd.real_inodes.id()]) && gd_fresh(vc, n, nd, r))) } })
    }
}
// READ (op 6) / WRITE (op 7): the record get_data yields, then ONE call on the recorded layer with the recorded inode and handle
pub open spec fn rw_post(hs: HandlesCell, no_open: int, has_upper: bool, o: LView, n: LView, ctx: Context, handle: u64, inode: u64, flags: u32, op: int, r: Result<usize>, ans: spec_fn(LayerObj, u64, u64) -> Result<usize>) -> bool {
    exists|rd: Result<Arc<HandleData>>, v2: LView| #[trigger] gd_post(hs, no_open, has_upper, o, v2, ctx, Some(handle), inode, flags, rd) && (match rd {
        Err(e) => n == v2 && r == Err::<usize, Error>(e),
        Ok(d) => match d.real_handle {
            None => n == v2 && r is Err && err_is(r->Err_0, 2),
            Some(rh) => if op == 7 && !rh.in_upper_layer { n == v2 && r is Err && err_is(r->Err_0, 9) }
                        else { n == asked_one(v2, *rh.layer, op, rh.inode, Some(v2.ctr[rh.handle.id()])) && r == ans(*rh.layer, rh.inode, v2.ctr[rh.handle.id()]) } } })
}

// ---- clause 3: import
// the layers in the order the overlay consults them: the upper layer (if any) first, then the lower layers as given
pub open spec fn sp_layers(up: Option<Arc<BoxedLayer>>, lows: Seq<Arc<BoxedLayer>>) -> Seq<(Arc<BoxedLayer>, bool)> {
    (match up { Some(u) => seq![(u, true)], None => Seq::<(Arc<BoxedLayer>, bool)>::empty() }) + Seq::new(lows.len(), |i: int| (lows[i], false))
}
// the root real inode of layer l: the layer's own root number, never a whiteout, opaque as the layer's opaque mark says
pub open spec fn root_ri(ri: RealInode, l: Arc<BoxedLayer>, up: bool) -> bool {
    ri.layer == l && ri.in_upper_layer == up && ri.inode == (*l).s_root() && !ri.whiteout && (ri.opaque <==> opaque_marked(&*l, ctx0(), ri.inode))
}
pub open spec fn roots_match(rs: Seq<RealInode>, ls: Seq<(Arc<BoxedLayer>, bool)>) -> bool { rs.len() == ls.len() && forall|k: int| 0 <= k < rs.len() ==> root_ri(#[trigger] rs[k], ls[k].0, ls[k].1) }
// the view after the root node `rt` was built (c0, r0: the counter / real-inode cells OverlayInode::new() made, which import replaces by cells of its own)
pub open spec fn root_view(o: LView, rt: Node, c0: int, r0: int, rs: Seq<RealInode>) -> LView { root_view_n(o, *rt, c0, r0, rs) }
pub open spec fn root_view_n(o: LView, rt: OverlayInode, c0: int, r0: int, rs: Seq<RealInode>) -> LView {
    LView { flag: o.flag.insert(rt.whiteout.id(), false).insert(rt.loaded.id(), false).insert(rt.lower_exists.id(), false),
            ctr: o.ctr.insert(c0, 0).insert(rt.lookups.id(), 2), kids: o.kids.insert(rt.childrens.id(), Map::<Seq<char>, Node>::empty()), par: o.par.insert(rt.parent.id(), None::<Node>),
            ris: o.ris.insert(r0, Seq::<RealInode>::empty()).insert(rt.real_inodes.id(), rs), ..o }
}
pub open spec fn root_fresh(o: LView, rt: OverlayInode, c0: int, r0: int) -> bool {
    !o.flag.contains_key(rt.whiteout.id()) && !o.flag.contains_key(rt.loaded.id()) && !o.flag.contains_key(rt.lower_exists.id()) && !o.ctr.contains_key(rt.lookups.id()) && !o.ctr.contains_key(c0)
        && !o.kids.contains_key(rt.childrens.id()) && !o.par.contains_key(rt.parent.id()) && !o.ris.contains_key(rt.real_inodes.id()) && !o.ris.contains_key(r0)
}
pub open spec fn imp_root(up: Option<Arc<BoxedLayer>>, lows: Seq<Arc<BoxedLayer>>, o: LView, rt: Node, c0: int, r0: int, rs: Seq<RealInode>) -> bool {
    &&& rt.inode == 1 && rt.path@.len() == 0 && rt.name@.len() == 0                                  // the FUSE root number, the empty path
    &&& root_fresh(o, *rt, c0, r0)                                                                   // every cell of the root is new
    &&& roots_match(rs, sp_layers(up, lows))                                                         // the root real inodes of ALL layers, in order, upper first
}
pub open spec fn imp_registered(va: LView, rt: Node) -> LView { LView { inodes: va.inodes.insert(1, rt), paths: va.paths.insert(rt.path@, 1), ..va } }
// nothing registered: store as before, every cell known before reads the same
pub open spec fn imp_nothing(o: LView, n: LView) -> bool { n.inodes == o.inodes && n.deleted == o.deleted && n.paths == o.paths && n.collided == o.collided && n.cells_kept(o) }
pub open spec fn imp_post(up: Option<Arc<BoxedLayer>>, lows: Seq<Arc<BoxedLayer>>, o: LView, n: LView, r: Result<()>) -> bool {
    ||| r is Err && imp_nothing(o, n)
    ||| exists|rt: Node, c0: int, r0: int, rs: Seq<RealInode>| #[trigger] imp_root(up, lows, o, rt, c0, r0, rs) && ({
            let vb = imp_registered(root_view(o, rt, c0, r0, rs), rt);
            if r is Ok { loaded_from(vb, n, rt, ctx0()) } else { n == vb || load_broken(vb, n, rt, ctx0()) } })
}

// =====================================================================================================================================
// CHECKED LEMMAS
// a directory load leaves the loaded directory's own real inodes and whiteout flag alone
pub proof fn lemma_load_self(o: LView, n: LView, d: Node, ctx: Context)
    requires loaded_from(o, n, d, ctx)
    ensures n.ris[d.real_inodes.id()] == o.ris[d.real_inodes.id()], n.flag[d.whiteout.id()] == o.flag[d.whiteout.id()] || d.whiteout.id() == d.loaded.id()
{
    reveal(load_parts);
}
pub proof fn lemma_ins_store_val(base: Map<u64, Node>, done: Seq<Node>, i: u64)
    requires ins_store(base, done).contains_key(i)
    ensures (base.contains_key(i) && ins_store(base, done)[i] == base[i]) || exists|j: int| 0 <= j < done.len() && ins_store(base, done)[i] == #[trigger] done[j]
    decreases done.len()
{
    if done.len() > 0 {
        let pre = done.drop_last(); let x = done.last();
        if i == x.inode { assert(ins_store(base, done)[i] == done[done.len() - 1]); }
        else {
            lemma_ins_store_val(base, pre, i);
            if !(base.contains_key(i) && ins_store(base, pre)[i] == base[i]) {
                let j = choose|j: int| 0 <= j < pre.len() && ins_store(base, pre)[i] == #[trigger] pre[j];
                assert(pre[j] == done[j]);
            }
        }
    }
}
// A-RIS is kept by a directory load as far as the handlers need it: every live node still has a real inode (a child is made from a non-empty candidate list),
// and the real inodes of the children are honest about their layers if those of the directory are (they are the layers' own children: lemma_cands_wf of unit ovl_merge)
pub proof fn lemma_load_ris_ok(o: LView, n: LView, d: Node, ctx: Context)
    requires loaded_from(o, n, d, ctx), ris_ok(o)
    ensures ris_len_ok(n), // [C10.read.lemma.load_keeps_real_inodes]
        ris_wf(o) && (forall|k: int| 0 <= k < o.ris[d.real_inodes.id()].len() ==> (#[trigger] o.ris[d.real_inodes.id()][k]).wf()) ==> ris_wf(n) // [C10.read.lemma.load_keeps_honesty]
{
    reveal(load_parts);
    let (done, sc, m) = choose|done: Seq<Node>, sc: Seq<OverlayInode>, m: LView| #[trigger] load_parts(o, n, d, ctx, done, sc, m, sc.len() as int, true);
    let rs0 = o.ris[d.real_inodes.id()];
    lemma_union_more_bound(rs0, ctx);
    assert forall|i: u64| #[trigger] n.inodes.contains_key(i) implies n.ris[n.inodes[i].real_inodes.id()].len() > 0
        && ((ris_wf(o) && (forall|k: int| 0 <= k < rs0.len() ==> (#[trigger] rs0[k]).wf())) ==> forall|k: int| 0 <= k < n.ris[n.inodes[i].real_inodes.id()].len() ==> (#[trigger] n.ris[n.inodes[i].real_inodes.id()][k]).wf()) by {
        lemma_ins_store_val(m.inodes, done, i);
        if m.inodes.contains_key(i) && n.inodes[i] == m.inodes[i] {
            assert(o.inodes.contains_key(i));
            assert(n.ris[n.inodes[i].real_inodes.id()] == o.ris[o.inodes[i].real_inodes.id()]);
        } else {
            let j = choose|j: int| 0 <= j < done.len() && ins_store(m.inodes, done)[i] == #[trigger] done[j];
            assert(finished(*done[j], sc[j]));
            let c = cands(rs0, ctx, union_more(rs0, ctx), sc[j].name@);
            assert(c.len() > 0 && m.ris[sc[j].real_inodes.id()] == c.take(union_len(c, ctx0()) as int));
            lemma_union_more_bound(c.skip(1), ctx0());
            if forall|k: int| 0 <= k < rs0.len() ==> (#[trigger] rs0[k]).wf() {
                lemma_cands_wf(rs0, ctx, union_more(rs0, ctx), sc[j].name@);
                assert forall|k: int| 0 <= k < n.ris[n.inodes[i].real_inodes.id()].len() implies (#[trigger] n.ris[n.inodes[i].real_inodes.id()][k]).wf() by {
                    assert(n.ris[n.inodes[i].real_inodes.id()][k] == c[k]);
                }
            }
        }
    }
}
// access / getxattr / listxattr resolve the number twice (lookup_node, then the store): the same node unless the store handed out a number in use
pub proof fn lemma_same_node(o: LView, v1: LView, ctx: Context, inode: u64, nd: Node)
    requires lookup_node_post(o, v1, ctx, inode, empty_name(), Ok::<Node, Error>(nd)), !v1.collided
    ensures o.inodes.contains_key(inode) && nd == o.inodes[inode], v1.inodes.contains_key(inode) && v1.inodes[inode] == nd, // [C10.read.lemma.same_node]
        v1.ris[nd.real_inodes.id()] == o.ris[nd.real_inodes.id()] // the lookup leaves the node's real inodes as they were: "topmost" is the same before and after [C10.read.lemma.same_real_inodes]
{
    reveal(lookup_node_post);
    if v1 != o {
        assert(loaded_from(o, v1, nd, ctx));
        lemma_load_self(o, v1, nd, ctx);
        reveal(load_parts);
        let (done, sc, m) = choose|done: Seq<Node>, sc: Seq<OverlayInode>, m: LView| #[trigger] load_parts(o, v1, nd, ctx, done, sc, m, sc.len() as int, true);
        lemma_ins_store_get(m.inodes, done);
        lemma_ins_store_dom(m.inodes, done);
        assert(m.inodes == o.inodes);
        assert(m.used(inode));
        assert(!(exists|j: int| 0 <= j < done.len() && (#[trigger] done[j]).inode == inode));
    }
}
// an unknown number or a whiteout node: ENOENT, the view (call log included) exactly as it was: no layer was asked, nothing was loaded
pub proof fn lemma_hidden<T>(o: LView, n: LView, ctx: Context, inode: u64, op: int, via_store: bool, r: Result<T>, ans: spec_fn(LayerObj, u64) -> Result<T>)
    requires fwd_post(o, n, ctx, inode, op, via_store, r, ans), !o.inodes.contains_key(inode) || o.flag[o.inodes[inode].whiteout.id()]
    ensures n == o && r is Err && err_is(r->Err_0, 2) // [C10.read.lemma.hidden_enoent]
{
    reveal(lookup_node_post);
}
// the handler's one call goes to the layer of the node's TOPMOST real inode as the view BEFORE the request has it (no collision)
pub proof fn lemma_fwd_topmost<T>(o: LView, n: LView, ctx: Context, inode: u64, op: int, via_store: bool, r: Result<T>, ans: spec_fn(LayerObj, u64) -> Result<T>)
    requires fwd_post(o, n, ctx, inode, op, via_store, r, ans), !n.collided, o.inodes.contains_key(inode), !o.flag[o.inodes[inode].whiteout.id()], s_stat(o.ris[o.inodes[inode].real_inodes.id()], ctx) is Ok
    ensures ({ let f = o.ris[o.inodes[inode].real_inodes.id()][0];
        (r is Ok ==> r == ans(*f.layer, f.inode)) && (n.asked.len() > 0 && n.asked != o.asked && r is Ok ==> n.asked.last() == (Ask { layer: *f.layer, op: op, ino: f.inode, fh: None::<u64> })) }) // [C10.read.lemma.topmost]
{
    let (r0, v1) = choose|r0: Result<Node>, v1: LView| #[trigger] lookup_node_post(o, v1, ctx, inode, empty_name(), r0) && (match r0 {
        Err(e) => n == v1 && r == Err::<T, Error>(e),
        Ok(nd) =>
            if v1.flag[nd.whiteout.id()] { n == v1 && r is Err && err_is(r->Err_0, 2) }
            else if via_store && !v1.inodes.contains_key(inode) { n == v1 && r is Err && err_is(r->Err_0, 2) }
            else { let tn = if via_store { v1.inodes[inode] } else { nd }; let f = v1.ris[tn.real_inodes.id()][0];
                   n == asked_one(v1, *f.layer, op, f.inode, None::<u64>) && r == ans(*f.layer, f.inode) } });
    if r0 is Ok { lemma_same_node(o, v1, ctx, inode, r0->Ok_0); }
}
// import, spelled out: on success (and unless the store handed out a number in use) the number 1 resolves to the root node, whose real inodes are the
// layers' roots in order, upper first, and whose directory is loaded; whatever happens no layer object has been given a mutating call (no capability)
pub proof fn lemma_import(up: Option<Arc<BoxedLayer>>, lows: Seq<Arc<BoxedLayer>>, o: LView, n: LView, r: Result<()>)
    requires imp_post(up, lows, o, n, r), r is Ok, !n.collided
    ensures n.inodes.contains_key(1) && n.inodes[1].inode == 1 && n.flag[n.inodes[1].loaded.id()] && roots_match(n.ris[n.inodes[1].real_inodes.id()], sp_layers(up, lows)) // [C10.read.lemma.import_root]
{
    let (rt, c0, r0, rs) = choose|rt: Node, c0: int, r0: int, rs: Seq<RealInode>| #[trigger] imp_root(up, lows, o, rt, c0, r0, rs) && ({
            let vb = imp_registered(root_view(o, rt, c0, r0, rs), rt);
            if r is Ok { loaded_from(vb, n, rt, ctx0()) } else { n == vb || load_broken(vb, n, rt, ctx0()) } });
    let vb = imp_registered(root_view(o, rt, c0, r0, rs), rt);
    lemma_load_self(vb, n, rt, ctx0());
    reveal(load_parts);
    let (done, sc, m) = choose|done: Seq<Node>, sc: Seq<OverlayInode>, m: LView| #[trigger] load_parts(vb, n, rt, ctx0(), done, sc, m, sc.len() as int, true);
    lemma_ins_store_get(m.inodes, done);
    lemma_ins_store_dom(m.inodes, done);
    assert(m.inodes == vb.inodes);
    assert(vb.inodes.contains_key(1) && vb.inodes[1] == rt);
    assert(m.used(1));
    assert(!(exists|j: int| 0 <= j < done.len() && (#[trigger] done[j]).inode == 1));
}
// mount on a registered root: the entry carries the number 1
pub proof fn lemma_mount(o: LView, n: LView, ctx: Context, re: Result<Entry>, at: Duration, et: Duration)
    requires dl_post(o, n, ctx, 1, empty_name(), re, at, et), o.inodes.contains_key(1), o.inodes[1].inode == 1, re is Ok
    ensures re->Ok_0.inode == 1 && re->Ok_0.generation == 0 // [C10.read.lemma.mount_root_number]
{
    reveal(lookup_node_post);
}
'''


def bk_slice(a, b):
    """a piece of unit ovl_bk's BKN text, between two of its comment markers (the copy-up relation `up_rel` and what it needs)"""
    if a not in K.BKN or b not in K.BKN:
        raise X.ExtractError('ovl_read: marker not found in ovl_bk.BKN')
    t = K.BKN[K.BKN.index(a):K.BKN.index(b)]
    return t


def shared_items(root):
    """the model of unit ovl_view: every item of ovl_view.unit() in front of its first group of functions, with the additions described in the doc string; the Fn objects it verifies"""
    base = V.unit(root)
    pre, fns, seen = [], {}, False

    def walk(items):
        for it in items:
            if isinstance(it, Group):
                walk(it.items)
            elif isinstance(it, Fn):
                fns[(it.scope, it.name)] = it
    for it in base.items:
        if isinstance(it, Group) and it.header.startswith('impl '):
            seen = True
        if seen:
            if isinstance(it, Group):
                walk([it])
        else:
            pre.append(it)
    out, marks = [], set()
    T = I = None
    for it in pre:
        if isinstance(it, Raw) and it.text == V.VIEW:
            if V.VIEW.count(ASKED_OLD) != 1:
                raise X.ExtractError('ovl_read: struct LView of unit ovl_view has another shape than expected')
            it = Raw(V.VIEW.replace(ASKED_OLD, ASKED_NEW))
            marks.add('view')
        elif isinstance(it, Raw) and 'pub proof fn lemma_loaded_children' in it.text:
            it = Raw(K.lemmas_as_given(it.text))
            marks.add('nodem')
        elif isinstance(it, Raw) and it.text.startswith('// ---- model of trait FileSystem for overlay layers'):
            T = it
            marks.add('T')
            out.append(None)
            continue
        elif isinstance(it, Raw) and it.text.startswith('impl FileSystem for LayerObj {'):
            I = it
            marks.add('I')
            out.append(None)
            continue
        out.append(it)
    if marks != {'view', 'nodem', 'T', 'I'}:
        raise X.ExtractError('ovl_read: model items of unit ovl_view not found (%s)' % sorted(marks))
    t2, i2 = log_layer_calls(T.text, I.text)
    k = [j for j, x in enumerate(out) if x is None]
    out[k[0]], out[k[1]] = Raw(t2), Raw(i2)
    return base, out, fns


def bk_fn(root, scope, name):
    u = K.unit(root)
    found = []

    def walk(items):
        for it in items:
            if isinstance(it, Group):
                walk(it.items)
            elif isinstance(it, Fn) and it.scope == scope and it.name == name and not it.external_body:
                found.append(it)
    walk(u.items)
    if len(found) != 1:
        raise X.ExtractError('ovl_read: %s of unit ovl_bk not found' % name)
    return found[0]


CALLEES = sorted(set(V.FS_CALLEES + ['find_real_inode', 'get_data', 'do_statvfs', 'copy_node_up'] + list(LOGGED)))
EMPTY = 'proof { reveal_strlit(""); assert(""@ =~= Seq::<char>::empty()); assert(""@ == empty_name()); }'
HGET = R.resub_hook(r'self\.handles\.lock\(\)\.unwrap\(\)\.get\(&(\w+)\)', r'self.handles.get_handle(&\1)', 'the handle table: model call (which record a handle number has)')


def tok(f, extra=(), nested=False):
    """R23; nested=True: the function has a callee call inside the argument list of another one (`hd.layer.read(.., hd.handle.load(..), ..)`): rule R23n
    (vx/ovlrules.py) threads the token into the method calls instead of the standard body part"""
    f.rules = tuple(getattr(f, 'rules', ())) + ('R23',)
    cs = sorted(set(CALLEES + list(extra)))
    if nested:
        f.ghost_token = dict(V.TOK, callees=[], path_callees=None)
        f.body_hooks = list(getattr(f, 'body_hooks', ())) + [R.r23n_nested_calls(cs, V.TOK['arg'])]
    else:
        f.ghost_token = dict(V.TOK, callees=cs, path_callees=None)
    return f


def unit(root='/repo'):
    if not C.has_lower_flag(root):
        raise X.ExtractError('ovl_read: struct OverlayInode has no `lower_exists` field in this tree')
    base, items, vf = shared_items(root)
    notes = [base.notes, 'ovl_read: LView extended by the call log `asked`; layer model: %s take the token and log their call' % ', '.join(sorted(LOGGED))]
    # ---- the Layer trait: root_inode as a function of the layer, the helpers with the contracts unit ovl_layer proves
    items.append(Group('pub trait Layer: FileSystem {', [Raw('    spec fn s_root(&self) -> u64;\n    fn root_inode(&self) -> (r: u64) ensures r == self.s_root();')] + C.layer_trait(root, external=True)))
    items.append(Raw('impl Layer for LayerObj { uninterp spec fn s_root(&self) -> u64; #[verifier::external_body] fn root_inode(&self) -> (r: u64) { unimplemented!() } }'))
    # RealInode::stat64 / stat64_ignore_enoent: on the real text, with the contracts unit ovl_real proves plus the clause that says WHICH errors may be ignored
    rst = RL.real_fns(root, external=False, only=['stat64', 'stat64_ignore_enoent'])
    for f in rst:
        if f.name == 'stat64_ignore_enoent':
            f.canary = True
            f.ensures = list(f.ensures) + [
                '({ let g = (*self.layer).s_getattr(*ctx, self.inode, None); r is Ok && r->Ok_0 is None ==> self.inode == 0 || (g is Err && (g->Err_0.os_code() == Some(2i32) || g->Err_0.os_code() == Some(36i32))) }) // "no attributes, look further down" is answered only for an object the layer does not have (ENOENT, ENAMETOOLONG): any other error of the topmost layer is an error, not a reason to show a lower layer\'s attributes [C10.read.stat64_ignore_enoent.only_missing]']
    items.append(Group('impl RealInode {', RL.real_fns(root, external=True, only=['new']) + rst))
    items.append(Raw(bk_slice('pub open spec fn sp_in_upper(', 'pub open spec fn sp_upper_only(') + bk_slice('// ---- clause 4: COPY-UP.', '// ---- what a directory node\'s table holds')))
    items.append(Copy('src/api/vfs/mod.rs', r'pub const VFS_MAX_INO\b'))
    items.append(Raw(READ.replace('%(OPS)s', ', '.join('%d = %s' % (c, n) for n, c in sorted(LOGGED.items(), key=lambda x: x[1])))))

    # ---- imported, contract only
    imp = [K.imported(vf, OF, n) for n in ('root_inode', 'insert_inode', 'get_active_inode', 'get_all_inode', 'load_directory', 'lookup_node', 'do_lookup')]
    cnu = copy.copy(bk_fn(root, OF, 'copy_node_up'))
    cnu.external_body, cnu.canary, cnu.splices, cnu.body_hooks, cnu.body_resub = True, False, [], [], []
    if cnu.requires != ['bk_grant()']:
        raise X.ExtractError('ovl_read: copy_node_up of unit ovl_bk has other requires than expected')
    cnu.requires = ['may_copy_up() // a copy-up happens only where the caller was given the right to have one [C10.read.copy_up.cap]']
    cnu.ensures = list(cnu.ensures) + ['r is Ok && ris_wf(%s) ==> final(vxv).ris[node.real_inodes.id()][0].wf() // S-WF ([C10.ops.inv] of unit ovl_ops restated over the view)' % H0]
    items.append(Group('impl OverlayFs {', imp + [cnu]))

    RIS = 'ris_ok(%s) // A-RIS: every live node has a real inode (first_layer_inode panics on a node without: "BUG: dangling OverlayInode")' % H0
    AFTER_LOOKUP = ('let ghost v1 = *vxv; proof { reveal(lookup_node_post); assert(lookup_node_post(*old(vxv), v1, *ctx, inode, empty_name(), Ok::<Node, Error>(node))); '
                    'if v1 != *old(vxv) { lemma_load_self(*old(vxv), v1, node, *ctx); lemma_load_ris_ok(*old(vxv), v1, node, *ctx); } }')
    LOOKUP = 'let node = self.lookup_node(ctx, inode, "", Tracked(vxv))?;'

    # ------------------------------------------------------------------------------------------------ find_real_inode, do_statvfs
    fri = tok(Fn(OVL, OF, 'find_real_inode', props=P, canary=True,
                 requires=['old(vxv).inodes.contains_key(inode) ==> old(vxv).ris[old(vxv).inodes[inode].real_inodes.id()].len() > 0 // the node has a real inode (first_layer_inode panics otherwise)'],
                 ensures=['%s == %s // [C10.read.find_real_inode.frame]' % (H1, H0),
                          'fri_post(%s, inode, r) // the live node of that number: the layer and the number of its FIRST real inode; ENOENT for a number the live table lacks [C10.read.find_real_inode.topmost]' % H0]))
    dsv = tok(Fn(OVL, OF, 'do_statvfs', props=P, canary=True, body_resub=[O.OTHERSTR],
                 ensures=['sv_c10(%s, %s) // nothing in the view changes, at most one layer is asked, for a statfs [C10.read.do_statvfs.frame]' % (H0, H1),
                          'sv_post(%s, %s, *ctx, inode, r) // what the code does (pinned, no property): the live table only; ONE statfs call, to the layer of the node\'s FIRST real inode with that inode; its answer unchanged [pin.read.do_statvfs.one_layer]' % (H0, H1)]),
              extra=['first', 'last'])
    items.append(Group('impl OverlayFs {', [fri, dsv]))

    # ------------------------------------------------------------------------------------------------ get_data
    BITS = 'proof { %s }' % O.const_or_hints(root, OVL, OF, 'get_data')
    GDP = 'gd_post(self.handles, self.no_open.id(), self.upper_layer is Some, %s, %s, *ctx, handle, inode, flags, r)' % (H0, H1)
    gd = tok(Fn(OVL, OF, 'get_data', props=P, canary=True,
                requires=[RIS, 'old(vxv).flag[self.no_open.id()] && !sp_gd_readonly(flags) ==> may_copy_up() // the right to copy up is needed only without opens and for flags that are not read-only [C10.read.get_data.copy_up_cap]',
                          'handles_honest(self.handles) // S-HANDLES', 'ris_wf(%s) // every real inode on record names its true layer' % H0],
                body_resub=[(r'AtomicU64::new\(0\)', 'CounterCell::new_cell(0, Tracked(vxv))', 'AtomicU64::new(0) for the RealHandle made on the spot -> a NEW counter cell holding 0 (model new_cell)'),
                            (r'return Ok\(Arc::new\(handle_data\)\);', 'let hd_arc = Arc::new(handle_data); return Ok(hd_arc);', 'the returned Arc bound to a name first: same evaluation, lets a ghost step speak about the value returned'),
                            (r'\|\| Error::from_raw_os_error\(libc::EROFS\)', '|| -> (q: Error) ensures q.os_code() == Some(libc::EROFS) { Error::from_raw_os_error(libc::EROFS) }', 'every: annotation only: the closure handed to ok_or_else gets its postcondition (the error it makes carries EROFS)')],
                ensures=[GDP + ' // with opens: THE record of the handle table, only if its node carries the request\'s number; without: the node\'s topmost real inode (after a copy-up iff the flags are not read-only), handle 0 [C10.read.get_data.post]',
                         'r is Ok ==> hd_honest(*r->Ok_0) // the record returned names its true layer [C10.read.get_data.honest]'],
                splices=[('^', 'after', 'broadcast use axiom_arc_cloned; ' + EMPTY + ' ' + BITS),
                         (LOOKUP, 'after', AFTER_LOOKUP + ' let ghost nd = node;'),
                         ('let (layer, in_upper_layer, inode) = node.first_layer_inode(Tracked(vxv));', 'before', 'let ghost vb = *vxv; proof { if readonly { assert(vb == v1); } }'),
                         ('return Ok(hd_arc);', 'before', 'proof { let cell = hd_arc.real_handle->Some_0.handle.id(); assert(hd_of(*hd_arc, nd, vb.ris[nd.real_inodes.id()][0], cell)); assert(!vb.ctr.contains_key(cell)); assert(*vxv == (LView { ctr: vb.ctr.insert(cell, 0), ..vb })); assert(gd_fresh(vb, *vxv, nd, Ok::<Arc<HandleData>, Error>(hd_arc))); }')]))
    gd.body_hooks = [HGET]
    items.append(Group('impl OverlayFs {', [gd]))

    # ------------------------------------------------------------------------------------------------ the handlers that resolve a number
    def fwd(name, op, via, ans, extra_splices=()):
        f = tok(Fn(OVLS, FSI, name, props=P, canary=True, requires=[RIS],
                   ensures=['fwd_post(%s, %s, *ctx, inode, %d, %s, r, |l: LayerObj, i: u64| %s) // an unknown number / a whiteout node: ENOENT, nothing asked; otherwise exactly ONE call: %s of the layer of the node\'s topmost real inode, that layer\'s own inode number, the client\'s other arguments; its answer unchanged; nothing else changes [C10.read.%s.topmost]'
                            % (H0, H1, op, 'true' if via else 'false', ans, name, name)],
                   splices=[('^', 'after', EMPTY), (LOOKUP, 'after', AFTER_LOOKUP)] + list(extra_splices)))
        return f
    h_readlink = fwd('readlink', LOGGED['readlink'], False, 'l.s_readlink(*ctx, i)')
    h_access = fwd('access', LOGGED['access'], True, 'l.s_access(*ctx, i, mask)')
    h_getxattr = fwd('getxattr', LOGGED['getxattr'], True, 'l.s_getxattr(*ctx, i, name@, size)')
    h_listxattr = fwd('listxattr', LOGGED['listxattr'], True, 'l.s_listxattr(*ctx, i, size)')
    h_statfs = tok(Fn(OVLS, FSI, 'statfs', props=P, canary=True,
                      ensures=['sv_c10(%s, %s) // [C10.read.statfs.frame]' % (H0, H1),
                               'sv_post(%s, %s, *ctx, inode, r) // STATFS = do_statvfs (pinned, no property) [pin.read.statfs.same]' % (H0, H1)]))
    items.append(Group('impl OverlayFs {', [h_readlink, h_access, h_getxattr, h_listxattr, h_statfs]))

    # ------------------------------------------------------------------------------------------------ read / write
    RWP = 'rw_post(self.handles, self.no_open.id(), self.upper_layer is Some, %s, %s, *ctx, handle, inode, flags, %%d, %%s, |l: LayerObj, i: u64, h: u64| %%s)' % (H0, H1)
    GD_REQ = [RIS, 'old(vxv).flag[self.no_open.id()] && !sp_gd_readonly(flags) ==> may_copy_up() // the right to copy up: only without opens and for flags that are not read-only',
              'handles_honest(self.handles) // S-HANDLES', 'ris_wf(%s)' % H0]
    AFTER_GD = 'let ghost v2 = *vxv; proof { assert(gd_post(self.handles, self.no_open.id(), self.upper_layer is Some, *old(vxv), v2, *ctx, Some(handle), inode, flags, Ok::<Arc<HandleData>, Error>(data))); }'
    h_read = tok(Fn(OVLS, FSI, 'read', props=P, canary=True, ret_name='res', sig_subst=[('w: &mut dyn ZeroCopyWriter', 'w: &mut File')],
                    requires=GD_REQ + ['old(w).pos() == old(w).data().len() // artefact of the layer model\'s read (written for copy-up through a temporary file)'],
                    ensures=[(RWP % (LOGGED['read'], 'res', 'l.s_read(*ctx, i, h, size, offset, lock_owner, flags)')) + ' // the record get_data yields for (handle, inode); then exactly ONE call: read of the RECORDED layer with the recorded real inode and real handle, size / offset / lock owner / flags as given; its answer unchanged [C10.read.read.recorded]'],
                    splices=[('match data.real_handle {', 'before', AFTER_GD)]), nested=True)
    h_write = tok(Fn(OVLS, FSI, 'write', props=P, canary=True, ret_name='res', sig_subst=[('r: &mut dyn ZeroCopyReader', 'r: &mut File')],
                     requires=GD_REQ + ['forall|l: LayerObj, i: u64, h: u64| #[trigger] l.may_write(i, h, size, offset, lock_owner, delayed_write, flags, fuse_flags, old(r).data().skip(old(r).pos() as int)) // the one mutating call WRITE may make carries exactly the client\'s size / offset / lock owner / flags and bytes [C10.read.write.args]'],
                     ensures=[(RWP % (LOGGED['write'], 'res', 'l.s_write(*ctx, i, h, size, offset, lock_owner, delayed_write, flags, fuse_flags)')) + ' // the record get_data yields; a record that lives in a lower layer: EBADF, nothing asked; otherwise exactly ONE call: write of the RECORDED layer with the recorded real inode and real handle; its answer unchanged [C10.read.write.recorded]'],
                     splices=[('match data.real_handle {', 'before', AFTER_GD)]), nested=True)
    items.append(Group('impl OverlayFs {', [h_read, h_write]))


    # ------------------------------------------------------------------------------------------------ new / import / mount
    NEWFS = 'r->Ok_0'
    new = tok(Fn(OVL, OF, 'new', props=P, canary=True,
                 body_resub=[(r'RwLock::new\(InodeStore::new\(\)\)', 'InodeStoreCell::new_empty(Tracked(vxv))', 'RwLock::new(InodeStore::new()) -> the store of the overlay under construction: empty (model new_empty)'),
                             (r'Mutex::new\(HashMap::new\(\)\)', 'HandlesCell::new_empty()', 'Mutex::new(HashMap::new()) -> a handle table without records (model new_empty)'),
                             (r'AtomicU64::new\((\w+)\)', r'CounterCell::new_cell(\1, Tracked(vxv))', 'every: AtomicU64::new(v) -> a NEW counter cell holding v (model new_cell)'),
                             (r'AtomicBool::new\((\w+)\)', r'FlagCell::new_cell(\1, Tracked(vxv))', 'every: AtomicBool::new(v) -> a NEW flag cell holding v (model new_cell)')],
                 ensures=['r is Ok // [C10.read.new.ok]',
                          '%s.upper_layer == upper && %s.lower_layers == lowers && %s.config == params // the layers are kept as given: the upper layer, the lower layers in their order [C10.read.new.layers]' % (NEWFS, NEWFS, NEWFS),
                          'final(vxv).inodes == Map::<u64, Node>::empty() && final(vxv).deleted == Map::<u64, Node>::empty() && final(vxv).paths == Map::<Seq<char>, u64>::empty() // no node yet (import() enters the root) [C10.read.new.empty_store]',
                          'forall|h: u64| (#[trigger] %s.handles.s_handle(h)) is None // [C10.read.new.no_handles]' % NEWFS,
                          '!final(vxv).flag[%s.writeback.id()] && !final(vxv).flag[%s.no_open.id()] && !final(vxv).flag[%s.no_opendir.id()] && !final(vxv).flag[%s.killpriv_v2.id()] && !final(vxv).flag[%s.perfile_dax.id()] // every negotiated switch starts off [C10.read.new.switches_off]' % ((NEWFS,) * 5),
                          'final(vxv).ctr[%s.next_handle.id()] == 1 // [C10.read.new.next_handle]' % NEWFS,
                          'final(vxv).cells_kept(%s) && final(vxv).kids == old(vxv).kids && final(vxv).par == old(vxv).par && final(vxv).ris == old(vxv).ris && final(vxv).collided == old(vxv).collided && final(vxv).asked == old(vxv).asked // no existing cell changes, no layer is asked [C10.read.new.frame]' % H0]))
    items.append(Group('impl OverlayFs {', [new]))

    UP, LOWS = 'self.upper_layer', 'self.lower_layers@'
    IMP_INV = """
            invariant
                lit.seq().len() == lows.len(), forall|i: int| 0 <= i < lows.len() ==> *lit.seq()[i] == lows[i], lows == self.lower_layers@,
                cell == root.real_inodes.id(), ctx == ctx0(), self.upper_layer is Some ==> (*self.upper_layer->Some_0).is_upper(),
                root.inode == 1 && root.path@.len() == 0 && root.name@.len() == 0, // the node under construction carries FUSE_ROOT_ID and the empty path [C10.read.import.root_number]
                root_fresh(*old(vxv), root, c0, r0),
                v0 == root_view_n(*old(vxv), root, c0, r0, Seq::<RealInode>::empty()),
                *vxv == (LView { ris: v0.ris.insert(cell, vxv.ris[cell]), ..v0 }),
                roots_match(vxv.ris[cell], sp_layers(self.upper_layer, lows.take(lit.index@ as int))), // so far: the upper root (if any), then the roots of the lower layers seen, in order [C10.read.import.loop]
        """
    IMP_BEFORE_LOOP = """let ghost lows = self.lower_layers@;
        proof {
            assert(vxv.ris =~= v0.ris.insert(cell, vxv.ris[cell]));
            assert(lows.take(0) =~= Seq::<Arc<BoxedLayer>>::empty());
            assert(sp_layers(self.upper_layer, lows.take(0)) =~= (match self.upper_layer { Some(u) => seq![(u, true)], None => Seq::<(Arc<BoxedLayer>, bool)>::empty() }));
        }"""
    IMP_BODY_PRE = """ let ghost k = lit.index@ as int; let ghost rs0 = vxv.ris[cell]; proof { assert(*layer == lows[k]); }"""
    IMP_LOOP_END = """proof {
                let a = sp_layers(self.upper_layer, lows.take(k)); let b = sp_layers(self.upper_layer, lows.take(k + 1)); let rs = vxv.ris[cell];
                assert(lows.take(k + 1).len() == k + 1 && lows.take(k).len() == k);
                assert(b.len() == a.len() + 1 && rs.len() == rs0.len() + 1);
                assert forall|j: int| 0 <= j < rs.len() implies root_ri(#[trigger] rs[j], b[j].0, b[j].1) by {
                    if j < a.len() { assert(rs[j] == rs0[j]); assert(a[j] == b[j]); } else { assert(b[j] == (lows[k], false)); }
                }
                assert(vxv.ris =~= v0.ris.insert(cell, rs));
            }"""
    IMP_ROOT = """let ghost va = *vxv; let ghost rsf = va.ris[cell];
        proof {
            assert(lows.take(lows.len() as int) =~= lows);
            assert(va.ris =~= old(vxv).ris.insert(r0, Seq::<RealInode>::empty()).insert(cell, rsf));
            assert(va == root_view(*old(vxv), root_node, c0, r0, rsf)); // [C10.read.import.root_cells]
            assert(imp_root(self.upper_layer, self.lower_layers@, *old(vxv), root_node, c0, r0, rsf)); // [C10.read.import.root]
        }"""
    imp_f = tok(Fn(OVL, OF, 'import', props=P, canary=True, attrs=['#[verifier::loop_isolation(false)]'],
                   requires=['self.upper_layer is Some ==> (*self.upper_layer->Some_0).is_upper() // the configured upper layer is THE upper layer (fs_wf of unit ovl_ops); no capability for any of its mutating calls is given'],
                   ensures=['imp_post(%s, %s, %s, %s, r) // the root: new cells, number 1, count 2, the root real inodes of ALL layers in order (upper first); entered into the store under 1; its directory loaded.  Err: nothing registered (is_opaque failed) or the root registered and not loaded (load_directory failed) [C10.read.import.post]' % (UP, LOWS, H0, H1)],
                   splices=[('let mut root = OverlayInode::new_blank(Tracked(vxv));', 'after', 'let ghost c0 = root.lookups.id(); let ghost r0 = root.real_inodes.id();'),
                            ('let ctx = Context::default();', 'before', 'let ghost v0 = *vxv; let ghost cell = root.real_inodes.id();'),
                            ('for layer in self.lower_layers.iter() {', 'replace', IMP_BEFORE_LOOP + '\n        for layer in lit: self.lower_layers.iter()' + IMP_INV + '{' + IMP_BODY_PRE),
                            ('let root_node = Arc::new(root);', 'after', IMP_ROOT)]),
                extra=['push'])
    imp_f.body_hooks = [R.resub_hook(r'OverlayInode::new\(\)', 'OverlayInode::new_blank(Tracked(vxv))', 'OverlayInode::new() -> a node all of whose cells are NEW cells of the view (model new_blank: the values unit ovl_merge proves for `new`)'),
                        R.resub_hook(r'AtomicU64::new\(2\)', 'CounterCell::new_cell(2, Tracked(vxv))', 'AtomicU64::new(2) -> a NEW counter cell holding 2 (model new_cell)'),
                        R.resub_hook(r'Mutex::new\(vec!\[\]\)', 'RisCell::new_empty(Tracked(vxv))', 'Mutex::new(vec![]) -> a NEW real-inode cell holding nothing (model new_empty)'),
                        R.resub_hook(r'String::from\(""\)', 'str_to_string("")', 'String::from(""): the empty string (model str_to_string: same characters)'),
                        R.resub_hook(r'\breal\b', 'real_ri', 'every: the local `real` renamed (`real` is the name of a built-in type of this Verus: `let real = ..` is read as a pattern)'),
                        R.r8_at_loop_end(r'for layer in self\.lower_layers\.iter\(\)\s*\{', IMP_LOOP_END)]
    imp_f.splices = [('^', 'after', EMPTY)] + imp_f.splices
    items.append(Group('impl OverlayFs {', [imp_f]))

    AT, ET = 'self.config.attr_timeout', 'self.config.entry_timeout'
    mnt = tok(Fn(OVL, BFS, 'mount', props=P, canary=True, splices=[('^', 'after', EMPTY)],
                 ensures=['exists|re: Result<Entry>| #[trigger] dl_post(%s, %s, Context { uid: 0, gid: 0, pid: 0 }, 1, Seq::<char>::empty(), re, %s, %s) && (match re { Ok(e) => r == Ok::<(Entry, u64), Error>((e, 0xff_ffff_ffff_ffffu64)), Err(e) => r == Err::<(Entry, u64), Error>(e) }) // mount = do_lookup(root context, FUSE_ROOT_ID, ""): the root node\'s entry (one reference taken) with VFS_MAX_INO; an error of the lookup handed on [C10.read.mount.root_entry]' % (H0, H1, AT, ET)]))
    items.append(Group('impl OverlayFs {', [mnt]))

    # ---- guard (clause 1, "holds no capability for a mutating layer call"): no function under contract here is GIVEN `is_upper()` or a `may_<op>` in its requires,
    # except: write (may_write for the client's arguments), import (the configured upper layer IS the upper layer: needed to build an honest RealInode; no may_*),
    # and the right to copy up.  The obligations [upper] / [cap] of the layer model then fail for any mutating call a handler makes.
    allowed = {'write': ('may_write',), 'import': ('is_upper',), 'get_data': (), 'read': ()}
    for g in items:
        for f in (g.items if isinstance(g, Group) else ()):
            if isinstance(f, Fn) and not f.external_body and f.file in (OVL, OVLS) and f.scope in (OF, FSI, BFS):
                for c in f.requires:
                    code = c.split('//')[0]
                    for cap in re.findall(r'\b(is_upper|may_[a-z]+)\b', code):
                        if cap == 'may_copy_up' and f.name in ('get_data', 'read', 'write'):
                            continue
                        if cap not in allowed.get(f.name, ()):
                            raise X.ExtractError('ovl_read: %s is given the capability %s' % (f.name, cap))
    u = Unit('ovl_read', items, preludes=['base.rs', 'stdmodel.rs'], generic_tags=dict(C.GENERIC_TAGS), notes='; '.join(n for n in notes if n))
    u.prelude_subst = [C.LIBC_EXTRA, C.NO_STD_HASHMAP, V.LIBC_VIEW]
    return u
