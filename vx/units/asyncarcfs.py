"""Unit `asyncarcfs` (C20): `impl<FS: AsyncFileSystem> AsyncFileSystem for Arc<FS>` (src/api/filesystem/async_io.rs) forwards every
async operation to THE SAME async operation of the inner filesystem with the same arguments - the async twin of unit `arcfs`.

Everything but the ten method bodies comes from unit `arcfs` (its items are reused, not copied): the model impl
`impl<FS: FileSystem> FileSystem for Arc<FS>` defines every capability / result spec function of Arc<FS> as the inner object's, and
the generated model of trait AsyncFileSystem (fsmodel.gen_async_trait) shares those spec functions with trait FileSystem.  Verus then
checks each extracted method body against the TRAIT contract of `async_<op>`:
    requires (**self).allowed_<op>(args)   |-   the one call in the body needs  inner.allowed_<op'>(args')  =>  op' = op, args' = args
    ensures  res (embedded) == (**self).res_<..>()                                                          =>  the inner result, unchanged
The methods are hand-desugared #[async_trait] (they return the inner future without awaiting it): rule R18b turns the signature
back into `fn async_<op>(&self, ..) -> T` (extract.r18b_sig); `self.deref()` on an Arc is `(**self)` as in arcfs.
The sync methods of Arc<FS> are emitted without body (their forwarding is proved in unit `arcfs`); they are not called here."""
import copy

from vx.api import Unit, Fn, Raw, Group
from vx import fsmodel
from vx import extract as X
from vx.units import arcfs as AR

AF = fsmodel.AFILE
ASC = 'impl<FS: AsyncFileSystem> AsyncFileSystem for Arc<FS>'
TAG = 'C20.arc.%s.forward'


def unit(root='/repo'):
    base = AR.unit(root)
    with X.features({'async-io'}):
        X.Source(root, AR.FSMOD).find_item(r'(?m)^mod async_io\s*;')      # the file is compiled only with feature async-io
    items = []
    for it in base.items:
        if isinstance(it, Group):
            fs = []
            for f in it.items:
                g = copy.copy(f)
                g.external_body, g.props, g.canary = True, ['C20'], False
                fs.append(g)
            items.append(Group(it.header, fs))
        else:
            items.append(it)
    notes = [base.notes]
    _, info, ms = fsmodel.gen_trait(root, [], server=True)
    atrait, ainfo = fsmodel.gen_async_trait(root, notes, info, ms, tag=TAG)
    SIGSUB = [('&mut (dyn AsyncZeroCopyWriter + Send)', '&mut ZW'), ('&mut (dyn AsyncZeroCopyReader + Send)', '&mut ZR'),
              ('fn async_read(', 'fn async_read<ZW: AsyncZeroCopyWriter>('), ('fn async_write(', 'fn async_write<ZR: AsyncZeroCopyReader>(')]
    fns = []
    for an in ainfo:            # exactly the methods of the trait: a method missing from the impl is "fn not found" (exit 2)
        f = Fn(AF, ASC, an, sig_subst=SIGSUB, lenient_sig=True, props=['C20'], ret_name='res',      # no canary: a renamed copy cannot live in a trait impl (as in arcfs); the contract is the trait's, over uninterpreted spec fns of an arbitrary FS
              
               body_subst=[('self.deref()', '(**self)')])
        f.rules = ('R18b',)
        fns.append(f)
    items += [Raw(atrait), Group('impl<FS: AsyncFileSystem> AsyncFileSystem for Arc<FS> {', fns)]
    u = Unit('asyncarcfs', items, preludes=list(base.preludes), generic_tags={'cap': ['C20'], 'touch': ['C20'], 'ids': ['C20']},
             notes='\n'.join(notes))
    u.cfg_features = {'async-io'}
    return u
