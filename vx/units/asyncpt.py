"""Unit `asyncpt` (C20): `impl AsyncFileSystem for PassthroughFs<S>` (src/passthrough/async_io.rs) - every async operation of the passthrough
file system is THE SAME operation as its synchronous twin: it calls `self.<op>` with the arguments it was given, once, and returns that result
(open / create: without the passthrough backing id, the component the async API cannot carry).

PassthroughFs is an opaque implementor of the generated FileSystem model here (fsmodel.gen_impl: every sync method needs the capability
`allowed_<op>(args)` and yields `res_<..>()`; what the sync methods do is decided in unit ptops); the generated model of trait AsyncFileSystem
(fsmodel.gen_async_trait) shares those specification functions, so the trait contract of `async_<op>` says exactly "the sync operation with
these arguments, its result".  Rule R18 (`async fn` -> `fn`); feature async-io on for this unit only."""
from vx.api import Unit, Fn, Raw, Group
from vx import fsmodel
from vx import extract as X
from vx.units import arcfs as AR

AP = 'src/passthrough/async_io.rs'
ASC = 'impl<S: BitmapSlice + Send + Sync> AsyncFileSystem for PassthroughFs<S>'
TAG = 'C20.pt.%s.forward'


def unit(root='/repo'):
    base = AR.unit(root)
    with X.features({'async-io'}):
        X.Source(root, AR.FSMOD).find_item(r'(?m)^mod async_io\s*;')      # compiled only with feature async-io
    items = [it for it in base.items if not isinstance(it, Group)]         # types and the FileSystem trait model; not the Arc<FS> impl
    notes = [base.notes]
    _, info, ms = fsmodel.gen_trait(root, [], server=True, dirsink='opaque')
    atrait, ainfo = fsmodel.gen_async_trait(root, notes, info, ms, tag=TAG, project=True)
    impl = fsmodel.gen_impl(root, 'PassthroughFs<S>', 'u64', 'u64', notes, generics='<S: BitmapSlice + Send + Sync>', server=True, dirsink='opaque')
    SIGSUB = [('libc::stat64', 'stat64'), ('<Self as FileSystem>::Inode', 'u64'), ('<Self as FileSystem>::Handle', 'u64'),
              ('&mut (dyn AsyncZeroCopyWriter + Send)', '&mut ZW'), ('&mut (dyn AsyncZeroCopyReader + Send)', '&mut ZR'),
              ('fn async_read(', 'fn async_read<ZW: AsyncZeroCopyWriter>('), ('fn async_write(', 'fn async_write<ZR: AsyncZeroCopyReader>(')]
    fns = []
    for an in ainfo:            # exactly the methods of the trait: a method missing from the impl is "fn not found" (exit 2)
        f = Fn(AP, ASC, an, sig_subst=SIGSUB, lenient_sig=True, props=['C20'], ret_name='res')
        f.rules = ('R18',)
        f.gtag_props = {'cap': ['C20'], 'touch': ['C20'], 'ids': ['C20']}
        fns.append(f)
    items += [Raw('pub trait BitmapSlice {}\npub struct PassthroughFs<S> { pub p: PhantomData<S> }\n'), Raw(impl), Raw(atrait),
              Group('impl<S: BitmapSlice + Send + Sync> AsyncFileSystem for PassthroughFs<S> {', fns)]
    u = Unit('asyncpt', items, preludes=list(base.preludes), generic_tags={'cap': ['C20'], 'touch': ['C20'], 'ids': ['C20']}, notes='\n'.join(n for n in notes if n))
    u.cfg_features = {'async-io'}
    return u
