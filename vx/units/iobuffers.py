"""Unit `iobuffers` (C04, C17): src/transport/mod.rs IoBuffers::{bytes_consumed, allocate_file_volatile_slice, mark_dirty, mark_used,
consume, consume_for_read, split_at} and src/transport/virtiofs/mod.rs IoBuffers::consume_for_write - the cursor every Reader and the
virtio-fs writer advance through the request / reply buffers, and the only place where the dirty bitmap is touched.

View: the buffer list is the sequence of the byte ADDRESSES it still covers (`cells`), in order.
Dirty tracking (C17): the bitmap is ghost state, a log `DirtyLog.marked` of the addresses handed to `Bitmap::mark_dirty`, threaded
as an erased `Tracked<&mut DirtyLog>` parameter from the entry points down to the `bitmap().mark_dirty(..)` call (rule R23).  The set
of dirty addresses is `marked.to_set()`; `marked' == marked + w` therefore means dirty' == dirty U w (lemma_log_union).

The contracts are module-level constants so that unit `virtiofsw` can assume exactly what is proved here."""
from vx.api import Unit, Fn, Copy, Raw, Group

T = 'src/transport/mod.rs'
V = 'src/transport/virtiofs/mod.rs'

# ---------------------------------------------------------------------------------------------------------------------------------
# models of the dependencies (ASSUMED; based on vm-memory 0.17.1 volatile_memory.rs / bitmap/mod.rs and src/common/file_buf.rs)
MODEL = r'''
use std::collections::VecDeque;
// ---- the dirty bitmap as ghost state: the log of every address handed to Bitmap::mark_dirty, in order
pub tracked struct DirtyLog { pub ghost marked: Seq<int> }
impl DirtyLog { pub open spec fn dirty(&self) -> Set<int> { self.marked.to_set() } }
// vm_memory::bitmap::{Bitmap, BitmapSlice}: `mark_dirty(offset, len)` marks the `len` bytes starting `offset` bytes after the
// position this slice of the bitmap starts at (`base`); nothing for len == 0 (AtomicBitmap::set_addr_range returns early).
// The real bitmap is page granular: the dirty PAGES are the pages of the addresses in the log (monotone image of this model).
pub trait BitmapSlice: Sized {
    spec fn base(&self) -> int;
    fn mark_dirty(&self, offset: usize, len: usize, Tracked(dm): Tracked<&mut DirtyLog>)
        ensures final(dm).marked =~= old(dm).marked + range(self.base() + offset, len as nat);
}
pub type Result<T> = core::result::Result<T, Error>;
// transport::Error: only the variants the extracted functions construct (the others wrap foreign error types)
pub enum Error { DescriptorChainOverflow, InvalidParameter, SplitOutOfBounds(usize), VolatileMemoryError(VolatileMemoryError), Other }
impl io::Error {
    #[verifier::external_body]
    pub fn new<E>(kind: io::ErrorKind, e: E) -> (r: io::Error) ensures r.os_code() is None, r.skind() == kind { unimplemented!() }
}
// vm_memory::VolatileSlice as (address, length); offset / subslice as documented in vm-memory 0.17.1 (volatile_memory.rs)
#[verifier::external_body]
#[verifier::reject_recursive_types(S)]
pub struct VolatileSlice<'a, S> { _p: PhantomData<&'a S> }
#[verifier::external_body] #[derive(Debug)] pub struct VolatileMemoryError { _p: u8 }
impl<'a, S> Clone for VolatileSlice<'a, S> {
    #[verifier::external_body] fn clone(&self) -> (r: Self) ensures r == *self { unimplemented!() }
}
impl<'a, S> VolatileSlice<'a, S> {
    pub uninterp spec fn addr(&self) -> int;
    pub uninterp spec fn slen(&self) -> nat;
    #[verifier::external_body] pub fn len(&self) -> (r: usize) ensures r == self.slen() { unimplemented!() }
    #[verifier::external_body] pub fn offset(&self, count: usize) -> (r: core::result::Result<VolatileSlice<'a, S>, VolatileMemoryError>)
        ensures match r { Ok(v) => count <= self.slen() && v.addr() == self.addr() + count && v.slen() == self.slen() - count, Err(_) => true },
                count <= self.slen() && self.addr() + count <= usize::MAX ==> r is Ok
    { unimplemented!() }
    // subslice(offset, count): Ok iff offset + count <= len (compute_end_offset); address + offset, length count
    #[verifier::external_body] pub fn subslice(&self, offset: usize, count: usize) -> (r: core::result::Result<VolatileSlice<'a, S>, VolatileMemoryError>)
        ensures match r { Ok(v) => offset + count <= self.slen() && v.addr() == self.addr() + offset && v.slen() == count, Err(_) => true },
                offset + count <= self.slen() ==> r is Ok
    { unimplemented!() }
}
impl<'a, S: BitmapSlice> VolatileSlice<'a, S> {
    // the bitmap slice a VolatileSlice carries starts at the slice's own first byte: GuestRegionMmap::get_slice, offset() and
    // subslice() all build `bitmap.slice_at(<the same offset the address was advanced by>)` (vm-memory invariant, ASSUMED)
    #[verifier::external_body] pub fn bitmap(&self) -> (r: &S) ensures r.base() == self.addr() { unimplemented!() }
}
// a VolatileSlice denotes existing memory: its range does not wrap around the address space (vm-memory invariant)
pub broadcast axiom fn axiom_vslice_range<'a, S>(v: VolatileSlice<'a, S>)
    ensures 0 <= #[trigger] v.addr(), v.addr() + v.slen() <= usize::MAX;
// crate::file_buf::FileVolatileSlice: (address, length) view without bitmap (KX harness group file_buf covers its accessors)
#[verifier::external_body] #[derive(Clone, Copy)] pub struct FileVolatileSlice<'a> { _p: PhantomData<&'a u8> }
impl<'a> FileVolatileSlice<'a> {
    pub uninterp spec fn addr(&self) -> int;
    pub uninterp spec fn slen(&self) -> nat;
    #[verifier::external_body] pub fn len(&self) -> (r: usize) ensures r == self.slen() { unimplemented!() }
    // from_volatile_slice: `Self::new(s.ptr_guard_mut().as_ptr(), s.len())` - same address, same length
    #[verifier::external_body] pub fn from_volatile_slice<S: BitmapSlice>(s: &VolatileSlice<'a, S>) -> (r: Self)
        ensures r.addr() == s.addr(), r.slen() == s.slen() { unimplemented!() }
}
'''

SPEC = r'''
// ---- specification: the bytes still to be consumed, as the sequence of their addresses
pub open spec fn range(a: int, n: nat) -> Seq<int> { Seq::new(n, |i: int| a + i) }
pub open spec fn cells<'a, S>(b: Seq<VolatileSlice<'a, S>>) -> Seq<int> decreases b.len() {
    if b.len() == 0 { Seq::<int>::empty() } else { range(b[0].addr(), b[0].slen()) + cells(b.skip(1)) }
}
pub open spec fn fcells(b: Seq<FileVolatileSlice<'_>>) -> Seq<int> decreases b.len() {
    if b.len() == 0 { Seq::<int>::empty() } else { range(b[0].addr(), b[0].slen()) + fcells(b.skip(1)) }
}
pub open spec fn minn(a: int, b: int) -> int { if a <= b { a } else { b } }
pub proof fn lemma_skip_concat(a: Seq<int>, b: Seq<int>, k: int)
    requires 0 <= k <= a.len()
    ensures (a + b).skip(k) =~= a.skip(k) + b, (a + b).skip(a.len() as int) =~= b
{ }
pub proof fn lemma_skip_skip(s: Seq<int>, i: int, j: int)
    requires 0 <= i, 0 <= j, i + j <= s.len()
    ensures s.skip(i).skip(j) =~= s.skip(i + j)
{ }
pub proof fn lemma_cells_push_front<'a, S>(v: VolatileSlice<'a, S>, rest: Seq<VolatileSlice<'a, S>>)
    ensures cells(seq![v] + rest) =~= range(v.addr(), v.slen()) + cells(rest)
{
    assert((seq![v] + rest).skip(1) =~= rest);
}
pub proof fn lemma_cells_concat<'a, S>(a: Seq<VolatileSlice<'a, S>>, b: Seq<VolatileSlice<'a, S>>)
    ensures cells(a + b) =~= cells(a) + cells(b)
    decreases a.len()
{
    if a.len() == 0 { assert(a + b =~= b); }
    else { assert((a + b).skip(1) =~= a.skip(1) + b); lemma_cells_concat(a.skip(1), b); }
}
pub proof fn lemma_cells_one<'a, S>(v: VolatileSlice<'a, S>)
    ensures cells(seq![v]) =~= range(v.addr(), v.slen())
{ assert(seq![v].skip(1) =~= Seq::<VolatileSlice<'a, S>>::empty()); reveal_with_fuel(cells, 2); }
pub proof fn lemma_cells_take_next<'a, S>(b: Seq<VolatileSlice<'a, S>>, i: int)
    requires 0 <= i < b.len()
    ensures cells(b.take(i + 1)) =~= cells(b.take(i)) + range(b[i].addr(), b[i].slen()),
            cells(b) =~= cells(b.take(i)) + cells(b.skip(i)),
            cells(b.skip(i)) =~= range(b[i].addr(), b[i].slen()) + cells(b.skip(i + 1)),
{
    assert(b.take(i + 1) =~= b.take(i) + seq![b[i]]);
    lemma_cells_concat(b.take(i), seq![b[i]]);
    lemma_cells_one(b[i]);
    assert(b =~= b.take(i) + b.skip(i));
    lemma_cells_concat(b.take(i), b.skip(i));
    assert(b.skip(i).skip(1) =~= b.skip(i + 1));
}
pub proof fn lemma_fcells_push(b: Seq<FileVolatileSlice<'_>>, v: FileVolatileSlice<'_>)
    ensures fcells(b.push(v)) =~= fcells(b) + range(v.addr(), v.slen())
    decreases b.len()
{
    if b.len() == 0 { assert(b.push(v).skip(1) =~= Seq::<FileVolatileSlice<'_>>::empty()); reveal_with_fuel(fcells, 2); }
    else { assert(b.push(v).skip(1) =~= b.skip(1).push(v)); lemma_fcells_push(b.skip(1), v); }
}
// appending to the log is union on the dirty set (what "dirty_after == dirty_before U written" means for the contracts below)
pub proof fn lemma_log_union(a: Seq<int>, w: Seq<int>)
    ensures (a + w).to_set() =~= a.to_set().union(w.to_set())
{
    assert forall|x: int| (a + w).contains(x) <==> (a.contains(x) || w.contains(x)) by {
        if a.contains(x) { let i = choose|i: int| 0 <= i < a.len() && a[i] == x; assert((a + w)[i] == x); }
        if w.contains(x) { let i = choose|i: int| 0 <= i < w.len() && w[i] == x; assert((a + w)[a.len() + i] == x); }
        if (a + w).contains(x) { let i = choose|i: int| 0 <= i < (a + w).len() && (a + w)[i] == x; if i < a.len() { assert(a[i] == x); } else { assert(w[i - a.len()] == x); } }
    }
}
'''

# ---------------------------------------------------------------------------------------------------------------------------------
# contracts (proved in this unit, assumed by unit virtiofsw)
TOK = dict(param='Tracked(dm): Tracked<&mut DirtyLog>', arg='Tracked(dm)')
OLDC = 'cells(old(self).buffers@)'
CB_REQ = ["forall|b: &[FileVolatileSlice<'_>]| f.requires((b,))",
          # the documented contract of the callback: it reports at most the bytes it was offered
          "forall|b: &[FileVolatileSlice<'_>], q: io::Result<usize>| f.ensures((b,), q) && q is Ok ==> q->Ok_0 <= fcells(b@).len()"]
ADVANCE = '''r is Ok ==> r->Ok_0 <= count && r->Ok_0 <= cells(old(self).buffers@).len() && final(self).bytes_consumed == old(self).bytes_consumed + r->Ok_0
                        && cells(final(self).buffers@) =~= cells(old(self).buffers@).skip(r->Ok_0 as int)'''
ERR_STAYS = 'r is Err ==> final(self).buffers@ == old(self).buffers@ && final(self).bytes_consumed == old(self).bytes_consumed'
# what the callback was offered and that the result is the callback's own: the first min(count, available) addresses, in order
CB_LINK = '''r is Ok ==> (minn(count as int, %s.len() as int) == 0 && r->Ok_0 == 0)
                        || (exists|b: &[FileVolatileSlice<'_>]| fcells(b@) =~= %s.subrange(0, minn(count as int, %s.len() as int)) && #[trigger] f.ensures((b,), r))''' % (OLDC, OLDC, OLDC)
NO_OVERFLOW = 'old(self).bytes_consumed + %s.len() <= usize::MAX' % OLDC     # chain-length invariant established by Reader/Writer::new
UNMARKED = 'final(dm).marked =~= old(dm).marked'

CONTRACTS = {
    'allocate_file_volatile_slice': dict(
        ensures=['fcells(r@) =~= cells(self.buffers@).subrange(0, minn(count as int, cells(self.buffers@).len() as int)) // [C04.allocate.prefix]']),
    'mark_dirty': dict(
        # exactly the first min(count, available) addresses of the cursor are marked, nothing else
        ensures=['final(dm).marked =~= old(dm).marked + cells(self.buffers@).subrange(0, minn(count as int, cells(self.buffers@).len() as int)) // [C17.mark_dirty.prefix_exactly]']),
    'mark_used': dict(
        ensures=[
            # "an operation that would exceed ... fails without writing": counter overflow is an error and nothing moves
            'r is Err ==> old(self).bytes_consumed + bytes_consumed > usize::MAX && final(self).buffers@ == old(self).buffers@ && final(self).bytes_consumed == old(self).bytes_consumed // [C04.mark_used.overflow]',
            'old(self).bytes_consumed + bytes_consumed <= usize::MAX ==> r is Ok',
            # "the bytes obtained from readers are exactly the request bytes in order with none skipped or repeated"
            '''r is Ok ==> final(self).bytes_consumed == old(self).bytes_consumed + bytes_consumed
                        && cells(final(self).buffers@) =~= cells(old(self).buffers@).skip(minn(bytes_consumed as int, cells(old(self).buffers@).len() as int)) // [C04.mark_used.advance]''']),
    'consume': dict(
        requires=CB_REQ,
        ensures=[ERR_STAYS + ' // [C04.consume.err_nothing_moves]',
                 ADVANCE + ' // [C04.consume.advance]',
                 CB_LINK + ' // [C04.consume.offered]',
                 # C17 (1)+(2): a write marks exactly the addresses the callback reported as filled - the consumed prefix - no more, no less
                 'r is Ok && mark_dirty ==> final(dm).marked =~= old(dm).marked + %s.subrange(0, r->Ok_0 as int) // [C17.consume.written_marked_exactly]' % OLDC,
                 # C17 (2): a read marks nothing, whatever happens
                 '!mark_dirty ==> %s // [C17.consume.read_unmarked]' % UNMARKED,
                 # C17 (2): a failed callback (nothing reported as written) marks nothing
                 'r is Err && %s ==> %s // [C17.consume.err_unmarked]' % (NO_OVERFLOW, UNMARKED)]),
    'consume_for_read': dict(
        requires=CB_REQ,
        ensures=[ERR_STAYS,
                 ADVANCE + ' // [C04.consume_for_read.advance]',
                 CB_LINK,
                 '%s // [C17.consume_for_read.unmarked]' % UNMARKED]),
    'consume_for_write': dict(
        requires=CB_REQ,
        ensures=[ERR_STAYS,
                 ADVANCE + ' // [C04.consume_for_write.advance]',
                 CB_LINK,
                 'r is Ok ==> final(dm).marked =~= old(dm).marked + %s.subrange(0, r->Ok_0 as int) // [C17.consume_for_write.written_marked_exactly]' % OLDC,
                 'r is Err && %s ==> %s // [C17.consume_for_write.err_unmarked]' % (NO_OVERFLOW, UNMARKED)]),
    'split_at': dict(
        ensures=[
            # "Returns an error if offset > self.available_bytes()" - and only then
            'r is Ok <==> offset <= %s.len() // [C04.split_at.bounds]' % OLDC,
            ERR_STAYS + ' // [C04.split_at.err_nothing_moves]',
            # the first cursor keeps exactly the first `offset` bytes, the second starts exactly `offset` bytes further
            'r is Ok ==> cells(final(self).buffers@) =~= %s.subrange(0, offset as int) && final(self).bytes_consumed == old(self).bytes_consumed // [C04.split_at.first]' % OLDC,
            'r is Ok ==> cells(r->Ok_0.buffers@) =~= %s.skip(offset as int) && r->Ok_0.bytes_consumed == 0 // [C04.split_at.second]' % OLDC]),
}

# loop annotations shared by allocate_file_volatile_slice and mark_dirty (same loop skeleton over `self.buffers`)
def _prefix_loop(acc, tag, acc0=''):
    """acc: the sequence built so far (fcells(bufs@) / the log delta), acc0: prefix term, tag: attribution of the invariants"""
    return '''for buf in it: self.buffers.iter()
            invariant_except_break
                rem <= count, it.index@ <= self.buffers@.len(),
                rem > 0 ==> %(acc)s =~= %(acc0)scells(self.buffers@.take(it.index@)) && rem + cells(self.buffers@.take(it.index@)).len() == count, // [%(tag)s.whole_segments]
                rem == 0 ==> count <= all.len() && %(acc)s =~= %(acc0)sall.subrange(0, count as int), // [%(tag)s.truncated_segment]
            invariant
                all == cells(self.buffers@), self.buffers@.take(self.buffers@.len() as int) =~= self.buffers@,
            ensures
                %(acc)s =~= %(acc0)sall.subrange(0, minn(count as int, all.len() as int)), // [%(tag)s.exit]
        {
            proof { lemma_cells_take_next(self.buffers@, it.index@); }''' % dict(acc=acc, acc0=acc0, tag=tag)


def iobuffers_fns(external=False):
    """the IoBuffers functions; external=True: signature + contract only (for unit virtiofsw, which assumes what this unit proves)"""
    SC = "impl<S: BitmapSlice> IoBuffers<'_, S>"
    C = CONTRACTS

    def mk(file, name, rules=(), callees=(), **kw):
        c = C.get(name, {})
        if external:
            kw = dict(props=kw.get('props', ()), attrs=())
        f = Fn(file, SC, name, requires=c.get('requires', ()), ensures=c.get('ensures', ()), external_body=external, **kw)
        f.rules = tuple(rules)
        if 'R23' in rules:
            f.ghost_token = dict(TOK, callees=list(callees))
        return f
    INIT = 'let ghost all = cells(self.buffers@); proof { assert(self.buffers@.take(0) =~= Seq::empty()); assert(self.buffers@.take(self.buffers@.len() as int) =~= self.buffers@); }'
    fns = [
        mk(T, 'allocate_file_volatile_slice', rules=('R21',), props=['C04'], canary=True,
           splices=[('let mut bufs: Vec<FileVolatileSlice> = Vec::with_capacity(self.buffers.len());', 'after', INIT),
                    ('for buf in self.buffers.iter() {', 'replace', _prefix_loop('fcells(bufs@)', 'C04.allocate.loop')),
                    ('bufs.push(local_buf);', 'before', 'let ghost b0 = bufs@;'),
                    ('rem -= local_buf.len();', 'before', 'proof { lemma_fcells_push(b0, local_buf); }')]),
        mk(T, 'mark_dirty', rules=('R21', 'R23'), callees=['mark_dirty'], props=['C17'], canary=True,
           splices=[('let mut rem = count;', 'after', INIT + ' let ghost m0 = dm.marked;'),
                    ('for buf in self.buffers.iter() {', 'replace', _prefix_loop('dm.marked', 'C17.mark_dirty.loop', 'm0 + '))]),
        mk(T, 'mark_used', props=['C04'], canary=True,
           attrs=['#[verifier::exec_allows_no_decreases_clause]'],
           splices=[('let mut rem = bytes_consumed;', 'after', 'let ghost all = cells(self.buffers@);'),
                    ('while let Some(buf) = self.buffers.pop_front() {', 'replace', '''while let Some(buf) = self.buffers.pop_front()
            invariant_except_break
                rem <= bytes_consumed, (bytes_consumed - rem) <= all.len(), cells(self.buffers@) =~= all.skip(bytes_consumed - rem),
            invariant
                self.bytes_consumed == old(self).bytes_consumed, all == cells(old(self).buffers@),
            ensures
                cells(self.buffers@) =~= all.skip(minn(bytes_consumed as int, all.len() as int)),
        {
            broadcast use axiom_vslice_range;
            let ghost c0 = bytes_consumed - rem; let ghost rest0 = self.buffers@;
            proof {
                reveal_with_fuel(cells, 2);
                assert(all.skip(c0) =~= range(buf.addr(), buf.slen()) + cells(self.buffers@));
                lemma_skip_concat(range(buf.addr(), buf.slen()), cells(self.buffers@), minn(rem as int, buf.slen() as int));
                if rem >= buf.slen() { lemma_skip_skip(all, c0, buf.slen() as int); } else { lemma_skip_skip(all, c0, rem as int); }
            }'''),
                    # anchored on the `break` that follows the push (not on the push statement itself: a version that pushes something else back is then
                    # still extracted and fails the loop's exit clause / these asserts instead of losing the anchor)
                    ('break;', 'before',
                     '''proof {
                    let nb = self.buffers@[0];
                    assert(self.buffers@.skip(1) =~= rest0);
                    assert(self.buffers@ =~= seq![nb] + self.buffers@.skip(1));
                    lemma_cells_push_front(nb, self.buffers@.skip(1));
                    assert(range(nb.addr(), nb.slen()) =~= range(buf.addr(), buf.slen()).skip(rem as int));
                    assert(cells(self.buffers@) =~= range(buf.addr(), buf.slen()).skip(rem as int) + cells(self.buffers@.skip(1)));
                    assert(all.skip(c0).skip(rem as int) =~= range(buf.addr(), buf.slen()).skip(rem as int) + cells(rest0));
                    assert(cells(self.buffers@) =~= all.skip(bytes_consumed as int));
                }''')]),
        mk(T, 'consume', rules=('R23',), callees=['mark_dirty'], props=['C04'], canary=True,
           # witness for [C04.consume.offered]: the slice the callback was called with
           splices=[('let bytes_consumed = f(&bufs)?;', 'after',
                     "proof { assert(exists|b: &[FileVolatileSlice<'_>]| b@ == bufs@ && #[trigger] f.ensures((b,), Ok::<usize, io::Error>(bytes_consumed))); }")]),
        mk(T, 'consume_for_read', rules=('R23',), callees=['consume'], props=['C04'], canary=True),
        mk(V, 'consume_for_write', rules=('R23',), callees=['consume'], props=['C17'], canary=True),
        mk(T, 'split_at', rules=('R22',), props=['C04'], canary=True,
           splices=[('^', 'after', 'broadcast use axiom_vslice_range;'),
                    ('let mut rem = offset;', 'after', 'let ghost bs = self.buffers@; proof { assert(bs.take(0) =~= Seq::empty()); assert(bs.take(bs.len() as int) =~= bs); }'),
                    ('while pos_i < self.buffers.len() {', 'replace', '''while pos_i < self.buffers.len()
            invariant_except_break
                pos is None, pos_i <= bs.len(), rem + cells(bs.take(pos_i as int)).len() == offset, // [C04.split_at.position]
            invariant
                self.buffers@ == bs, rem <= offset, bs.take(bs.len() as int) =~= bs,
            ensures
                pos is Some ==> pos->Some_0 < bs.len() && rem < bs[pos->Some_0 as int].slen() && rem + cells(bs.take(pos->Some_0 as int)).len() == offset,
                pos is None ==> rem + cells(bs).len() == offset,
            decreases bs.len() - pos_i
        {
            proof { lemma_cells_take_next(bs, pos_i as int); }'''),
                    ('if let Some(at) = pos {', 'after', 'proof { lemma_cells_take_next(bs, at as int); }'),
                    # all hints for the `if rem > 0 { .. }` block sit after it (anchors independent of the block's text)
                    # single-line anchor: the field initialiser `buffers: other,` becomes the block `{ proof {..} other }` (same value)
                    ('buffers: other,', 'replace', '''buffers: ({ proof {
                if self.buffers@.len() == at { assert(self.buffers@ =~= bs.take(at as int)); assert(other@ =~= bs.skip(at as int)); }
                if self.buffers@.len() == at + 1 && other@.len() >= 1 {
                    let a = self.buffers@[at as int]; let b = other@[0];
                    assert(self.buffers@ =~= bs.take(at as int) + seq![a]);
                    lemma_cells_concat(bs.take(at as int), seq![a]); lemma_cells_one(a);
                    assert(other@ =~= seq![b] + other@.skip(1));
                    lemma_cells_concat(seq![b], other@.skip(1)); lemma_cells_one(b);
                    if other@.skip(1) =~= bs.skip(at + 1) && a.addr() == bs[at as int].addr() && b.addr() == a.addr() + a.slen() && a.slen() + b.slen() == bs[at as int].slen() {
                        assert(range(bs[at as int].addr(), bs[at as int].slen()) =~= range(a.addr(), a.slen()) + range(b.addr(), b.slen()));
                    }
                }
            } other }),''')]),
    ]
    if not external:
        fns.insert(0, Fn(T, SC, 'bytes_consumed', ensures=['r == self.bytes_consumed'], props=['C04']))
    return fns


FD = 'src/transport/fusedev/mod.rs'
FUSEBUF = r"""
// the memory a FuseBuf borrows (`&'a mut [u8]`): its address range; as_mut_ptr / len as for slices
#[verifier::external_body] pub struct FuseMem<'a> { _p: PhantomData<&'a u8> }
pub struct MemPtr { pub addr: Ghost<int> }
impl<'a> FuseMem<'a> {
    pub uninterp spec fn addr(&self) -> int;
    pub uninterp spec fn mlen(&self) -> nat;
    #[verifier::external_body] pub fn as_mut_ptr(&self) -> (r: MemPtr) ensures r.addr@ == self.addr() { unimplemented!() }
    #[verifier::external_body] pub fn len(&self) -> (r: usize) ensures r == self.mlen() { unimplemented!() }
}
#[verifier::external_body] pub fn vx_with_bitmap<'a, S>(p: MemPtr, len: usize) -> (r: VolatileSlice<'a, S>) ensures r.addr() == p.addr@, r.slen() == len { unimplemented!() }
"""


def unit(root='/repo'):
    items = [
        Raw(MODEL),
        # std::cmp::{min, max} on usize (the file imports `std::cmp`): verified definitions, so that a version of the code that uses them is still in reach
        Raw('pub mod cmp {\n    use super::*;\n    pub fn min(a: usize, b: usize) -> (r: usize) ensures r == (if a <= b { a } else { b }) { if a <= b { a } else { b } }\n'
            '    pub fn max(a: usize, b: usize) -> (r: usize) ensures r == (if a >= b { a } else { b }) { if a >= b { a } else { b } }\n}'),
        Copy(T, r"struct IoBuffers<'a, S>", prefix='#[verifier::reject_recursive_types(S)]'),
        Raw(SPEC),
        Group("impl<'a, S: BitmapSlice> IoBuffers<'a, S> {", iobuffers_fns()),
        # ---- the /dev/fuse Reader is built over exactly the request buffer: one slice, its first byte, its whole length, nothing consumed yet
        Raw(FUSEBUF),
        Copy(T, r"pub struct Reader<'a, S = \(\)>", subst=[('S = ()', 'S')], prefix='#[verifier::reject_recursive_types(S)]'),
        Copy(FD, r"pub struct FuseBuf<'a>", subst=[("mem: &'a mut [u8],", "mem: FuseMem<'a>,")]),
        Group("impl<'a, S: BitmapSlice + Default> Reader<'a, S> {", [
            Fn(FD, "impl<'a, S: BitmapSlice + Default> Reader<'a, S>", 'from_fuse_buffer', props=['C04'], canary=True, extra_props=['C01'],
               body_resub=[(r'unsafe\s*\{\s*VolatileSlice::with_bitmap\(([^,]+),\s*([^,]+),\s*S::default\(\),\s*None\)\s*\}', r'vx_with_bitmap(\1, \2)',
                            'VolatileSlice::with_bitmap(ptr, len, ..) -> model call: the slice at that address with that length (vm-memory, as documented)')],
               ensures=['r is Ok // [C04.reader.new.ok]',
                        'r is Ok ==> cells(r->Ok_0.buffers.buffers@) =~= range(buf.mem.addr(), buf.mem.mlen()) && r->Ok_0.buffers.bytes_consumed == 0 // [C04.reader.new.whole_buffer] every byte of the request buffer, once, in order'],
               splices=[('Ok(Reader {', 'before', 'proof { let b = buffers@; assert(b.len() == 1); lemma_cells_one(b[0]); assert(b =~= seq![b[0]]); }')]),
        ]),
    ]
    return Unit('iobuffers', items, preludes=['base.rs'])
