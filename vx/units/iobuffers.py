"""Unit `iobuffers` (C04): src/transport/mod.rs IoBuffers::{bytes_consumed, mark_used, consume, consume_for_read} - the cursor
every Reader (and the virtio-fs writer) advances through the request / reply buffers.
View: the buffer list is the sequence of the byte ADDRESSES it still covers (`cells`), in order."""
from vx.api import Unit, Fn, Copy, Raw, Group

T = 'src/transport/mod.rs'

PRE = r'''
use std::collections::VecDeque;
pub trait BitmapSlice {}
pub type Result<T> = core::result::Result<T, Error>;
// transport::Error: only the variants the extracted functions construct (the others wrap foreign error types)
pub enum Error { DescriptorChainOverflow, InvalidParameter, SplitOutOfBounds(usize), Other }
impl io::Error {
    #[verifier::external_body]
    pub fn new<E>(kind: io::ErrorKind, e: E) -> (r: io::Error) ensures r.os_code() is None, r.skind() == kind { unimplemented!() }
}
// vm_memory::VolatileSlice as (address, length); offset / subslice as documented in vm-memory 0.17.1 (volatile_memory.rs)
#[verifier::external_body]
#[verifier::reject_recursive_types(S)]
pub struct VolatileSlice<'a, S> { _p: PhantomData<&'a S> }
#[verifier::external_body] #[derive(Debug)] pub struct VolatileMemoryError { _p: u8 }
impl<'a, S> VolatileSlice<'a, S> {
    pub uninterp spec fn addr(&self) -> int;
    pub uninterp spec fn slen(&self) -> nat;
    #[verifier::external_body] pub fn len(&self) -> (r: usize) ensures r == self.slen() { unimplemented!() }
    #[verifier::external_body] pub fn offset(&self, count: usize) -> (r: core::result::Result<VolatileSlice<'a, S>, VolatileMemoryError>)
        ensures match r { Ok(v) => count <= self.slen() && v.addr() == self.addr() + count && v.slen() == self.slen() - count, Err(_) => true },
                count <= self.slen() && self.addr() + count <= usize::MAX ==> r is Ok
    { unimplemented!() }
}
// a VolatileSlice denotes existing memory: its range does not wrap around the address space (vm-memory invariant)
pub broadcast axiom fn axiom_vslice_range<'a, S>(v: VolatileSlice<'a, S>)
    ensures 0 <= #[trigger] v.addr(), v.addr() + v.slen() <= usize::MAX;
#[verifier::external_body] pub struct FileVolatileSlice<'a> { _p: PhantomData<&'a u8> }
impl<'a> FileVolatileSlice<'a> {
    pub uninterp spec fn addr(&self) -> int;
    pub uninterp spec fn slen(&self) -> nat;
}
// ---- specification: the bytes still to be consumed, as the sequence of their addresses
pub open spec fn range(a: int, n: nat) -> Seq<int> { Seq::new(n, |i: int| a + i) }
pub open spec fn cells<'a, S>(b: Seq<VolatileSlice<'a, S>>) -> Seq<int> decreases b.len() {
    if b.len() == 0 { Seq::<int>::empty() } else { range(b[0].addr(), b[0].slen()) + cells(b.skip(1)) }
}
pub open spec fn fcells(b: Seq<FileVolatileSlice<'_>>) -> Seq<int> decreases b.len() {
    if b.len() == 0 { Seq::<int>::empty() } else { range(b[0].addr(), b[0].slen()) + fcells(b.skip(1)) }
}
pub open spec fn minn(a: int, b: int) -> int { if a <= b { a } else { b } }
pub proof fn lemma_skip_concat(a: Seq<int>, b: Seq<int>, k: int)
    requires 0 <= k <= a.len()
    ensures (a + b).skip(k) =~= a.skip(k) + b, (a + b).skip(a.len() as int) =~= b
{ }
pub proof fn lemma_skip_skip(s: Seq<int>, i: int, j: int)
    requires 0 <= i, 0 <= j, i + j <= s.len()
    ensures s.skip(i).skip(j) =~= s.skip(i + j)
{ }
pub proof fn lemma_cells_push_front<'a, S>(v: VolatileSlice<'a, S>, rest: Seq<VolatileSlice<'a, S>>)
    ensures cells(seq![v] + rest) =~= range(v.addr(), v.slen()) + cells(rest)
{
    assert((seq![v] + rest).skip(1) =~= rest);
}
impl<'a, S: BitmapSlice> IoBuffers<'a, S> {
    // IoBuffers::allocate_file_volatile_slice iterates `for buf in &self.buffers` (VecDeque iterator, no Verus specification):
    // contract only (assumed): the returned slices are the first min(count, available) bytes, in order
    #[verifier::external_body]
    fn allocate_file_volatile_slice(&self, count: usize) -> (r: Vec<FileVolatileSlice<'_>>)
        ensures fcells(r@) =~= cells(self.buffers@).subrange(0, minn(count as int, cells(self.buffers@).len() as int)),
    { unimplemented!() }
    #[verifier::external_body]
    fn mark_dirty(&self, count: usize) { unimplemented!() }     // dirty-bitmap effect on &self (C17): not modelled
}
'''


def unit(root='/repo'):
    SC = "impl<S: BitmapSlice> IoBuffers<'_, S>"
    items = [
        Raw(PRE.split('// ---- specification')[0]),
        Copy(T, r"struct IoBuffers<'a, S>", prefix='#[verifier::reject_recursive_types(S)]'),
        Raw('// ---- specification' + PRE.split('// ---- specification')[1]),
        Group("impl<'a, S: BitmapSlice> IoBuffers<'a, S> {", [
            Fn(T, SC, 'bytes_consumed', ensures=['r == self.bytes_consumed'], props=['C04']),
            Fn(T, SC, 'mark_used',
               ensures=[
                   # "an operation that would exceed ... fails without writing": counter overflow is an error and nothing moves
                   'r is Err ==> old(self).bytes_consumed + bytes_consumed > usize::MAX && final(self).buffers@ == old(self).buffers@ && final(self).bytes_consumed == old(self).bytes_consumed // [C04.mark_used.overflow]',
                   'old(self).bytes_consumed + bytes_consumed <= usize::MAX ==> r is Ok',
                   # "the bytes obtained from readers are exactly the request bytes in order with none skipped or repeated"
                   '''r is Ok ==> final(self).bytes_consumed == old(self).bytes_consumed + bytes_consumed
                        && cells(final(self).buffers@) =~= cells(old(self).buffers@).skip(minn(bytes_consumed as int, cells(old(self).buffers@).len() as int)) // [C04.mark_used.advance]'''],
               attrs=['#[verifier::exec_allows_no_decreases_clause]'],
               splices=[('let mut rem = bytes_consumed;', 'after', 'let ghost all = cells(self.buffers@);'),
                        ('while let Some(buf) = self.buffers.pop_front() {', 'replace', '''while let Some(buf) = self.buffers.pop_front()
            invariant_except_break
                rem <= bytes_consumed, (bytes_consumed - rem) <= all.len(), cells(self.buffers@) =~= all.skip(bytes_consumed - rem),
            invariant
                self.bytes_consumed == old(self).bytes_consumed, all == cells(old(self).buffers@),
            ensures
                cells(self.buffers@) =~= all.skip(minn(bytes_consumed as int, all.len() as int)),
        {
            broadcast use axiom_vslice_range;
            let ghost c0 = bytes_consumed - rem; let ghost rest0 = self.buffers@;
            proof {
                reveal_with_fuel(cells, 2);
                assert(all.skip(c0) =~= range(buf.addr(), buf.slen()) + cells(self.buffers@));
                lemma_skip_concat(range(buf.addr(), buf.slen()), cells(self.buffers@), minn(rem as int, buf.slen() as int));
                if rem >= buf.slen() { lemma_skip_skip(all, c0, buf.slen() as int); } else { lemma_skip_skip(all, c0, rem as int); }
            }'''),
                        ('self.buffers.push_front(buf.offset(rem).unwrap());', 'after',
                         '''proof {
                    let nb = self.buffers@[0];
                    assert(self.buffers@.skip(1) =~= rest0);
                    assert(self.buffers@ =~= seq![nb] + self.buffers@.skip(1));
                    lemma_cells_push_front(nb, self.buffers@.skip(1));
                    assert(range(nb.addr(), nb.slen()) =~= range(buf.addr(), buf.slen()).skip(rem as int));
                    assert(cells(self.buffers@) =~= range(buf.addr(), buf.slen()).skip(rem as int) + cells(self.buffers@.skip(1)));
                    assert(all.skip(c0).skip(rem as int) =~= range(buf.addr(), buf.slen()).skip(rem as int) + cells(rest0));
                    assert(cells(self.buffers@) =~= all.skip(bytes_consumed as int));
                }''')],
               props=['C04'], canary=True),
            Fn(T, SC, 'consume',
               requires=['forall|b: &[FileVolatileSlice<\'_>]| f.requires((b,))',
                         # the documented contract of the callback: it reports at most the bytes it was offered
                         'forall|b: &[FileVolatileSlice<\'_>], q: io::Result<usize>| f.ensures((b,), q) && q is Ok ==> q->Ok_0 <= fcells(b@).len()'],
               ensures=[
                   'r is Err ==> final(self).buffers@ == old(self).buffers@ && final(self).bytes_consumed == old(self).bytes_consumed // [C04.consume.err_nothing_moves]',
                   '''r is Ok ==> r->Ok_0 <= count && r->Ok_0 <= cells(old(self).buffers@).len() && final(self).bytes_consumed == old(self).bytes_consumed + r->Ok_0
                        && cells(final(self).buffers@) =~= cells(old(self).buffers@).skip(r->Ok_0 as int) // [C04.consume.advance]'''],
               props=['C04'], canary=True),
            Fn(T, SC, 'consume_for_read',
               requires=['forall|b: &[FileVolatileSlice<\'_>]| f.requires((b,))',
                         'forall|b: &[FileVolatileSlice<\'_>], q: io::Result<usize>| f.ensures((b,), q) && q is Ok ==> q->Ok_0 <= fcells(b@).len()'],
               ensures=[
                   'r is Err ==> final(self).buffers@ == old(self).buffers@ && final(self).bytes_consumed == old(self).bytes_consumed',
                   '''r is Ok ==> r->Ok_0 <= count && final(self).bytes_consumed == old(self).bytes_consumed + r->Ok_0
                        && cells(final(self).buffers@) =~= cells(old(self).buffers@).skip(r->Ok_0 as int) // [C04.consume_for_read.advance]'''],
               props=['C04']),
        ]),
    ]
    return Unit('iobuffers', items, preludes=['base.rs'])
