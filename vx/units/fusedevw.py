"""Unit `fusedevw` (C04): the space accounting of FuseDevWriter (src/transport/fusedev/mod.rs) that the abstract Writer of the
server unit assumes: available = capacity - written, the space check fails iff the request exceeds it and never mutates,
and its assert! is exactly `buffered || nothing written yet`."""
from vx.api import Unit, Fn, Copy, Raw, Group

F = 'src/transport/fusedev/mod.rs'

PRE = r'''
pub trait BitmapSlice {}
pub type RawFd = i32;
impl io::Error {
    #[verifier::external_body]
    pub fn new<E>(kind: io::ErrorKind, e: E) -> (r: io::Error) ensures r.os_code() is None, r.skind() == kind { unimplemented!() }
}
#[verifier::external_body] pub fn fmt_opaque() -> String { unimplemented!() }
pub struct IoSlice<'a> { pub b: &'a [u8] }
impl<'a> IoSlice<'a> { pub fn new(b: &'a [u8]) -> (r: IoSlice<'a>) ensures r.b@ == b@ { IoSlice { b } } }
pub open spec fn ios_concat(s: Seq<IoSlice<'_>>) -> Seq<u8> decreases s.len() {
    if s.len() == 0 { Seq::<u8>::empty() } else { s[0].b@ + ios_concat(s.skip(1)) }
}
// nix::unistd::write / nix::sys::uio::writev on the /dev/fuse descriptor: THE device write.  Capability: only the byte
// string the caller's contract names may be written (DESIGN 3.4b); result unconstrained (the kernel may refuse it)
#[repr(i32)] #[derive(Clone, Copy)] pub enum Errno { UnknownErrno = 0, EPERM = 1, EIO = 5, EINVAL = 22 }
pub uninterp spec fn dev_write_ok(fd: RawFd, b: Seq<u8>) -> bool;
#[verifier::external_body] pub fn write(fd: RawFd, buf: &[u8]) -> (r: core::result::Result<usize, Errno>)
    requires dev_write_ok(fd, buf@), // [devwrite]
{ unimplemented!() }
#[verifier::external_body] pub fn writev(fd: RawFd, iov: &[IoSlice<'_>]) -> (r: core::result::Result<usize, Errno>)
    requires dev_write_ok(fd, ios_concat(iov@)), // [devwrite]
{ unimplemented!() }
#[verifier::external_body] #[verifier::reject_recursive_types(S)] pub struct VirtioFsWriter<'a, S> { _p: PhantomData<&'a S> }
// Vec::capacity: at least the length (std guarantee)
pub uninterp spec fn spec_capacity<T, A: core::alloc::Allocator>(v: &Vec<T, A>) -> nat;
pub assume_specification<T, A: core::alloc::Allocator> [std::vec::Vec::<T, A>::capacity] (v: &Vec<T, A>) -> (r: usize)
    ensures r == spec_capacity(v), r >= v@.len();
'''


def unit(root='/repo'):
    SC = "impl<'a, S: BitmapSlice> FuseDevWriter<'a, S>"
    items = [
        Raw(PRE),
        # ManuallyDrop<Vec<u8>> only suppresses the destructor (the Vec is built over borrowed memory): modelled as the Vec itself
        Copy(F, r"pub struct FuseDevWriter<'a, S", subst=[('ManuallyDrop<Vec<u8>>', 'Vec<u8>'), ('S: BitmapSlice = ()', 'S: BitmapSlice')]),
        Copy('src/transport/mod.rs', r"pub enum Writer<'a, S", subst=[('S: BitmapSlice = ()', 'S: BitmapSlice')], prefix='#[verifier::reject_recursive_types(S)]'),
        Raw('''
pub open spec fn other_bytes<'a, S: BitmapSlice>(other: Option<&Writer<'a, S>>) -> Seq<u8> {
    match other { Some(Writer::FuseDev(w)) => w.buf@, _ => Seq::<u8>::empty() }
}
'''),
        Group("impl<'a, S: BitmapSlice> FuseDevWriter<'a, S> {", [
            Fn(F, SC, 'commit',
               # refinement of the abstract Writer::commit (prelude/transport.rs): buffered => ONE device write of own ++ other's
               # bytes (none if there are none); unbuffered => nothing
               requires=['old(self).buffered && (old(self).buf@ + other_bytes(other)).len() > 0 ==> dev_write_ok(old(self).fd, old(self).buf@ + other_bytes(other)) // [C04.commit.one_write]'],
               ensures=['final(self).buf@ == old(self).buf@ && final(self).buffered == old(self).buffered && final(self).fd == old(self).fd',
                        '!old(self).buffered || (old(self).buf@ + other_bytes(other)).len() == 0 ==> r == Ok::<usize, io::Error>(0usize) // [C04.commit.nothing]'],
               splices=[('^', 'after', 'reveal_with_fuel(ios_concat, 3);'),
                        ('let res = match (self.buf.len(), o.len()) {', 'before',
                         'proof { assert(o@ == other_bytes(other)); assert(self.buf@ + o@ =~= self.buf@ + other_bytes(other)); if self.buf@.len() == 0 { assert(self.buf@ + o@ =~= o@); } if o@.len() == 0 { assert(self.buf@ + o@ =~= self.buf@); } }'),
                        ('writev(self.fd, &bufs)', 'before', 'proof { assert(ios_concat(bufs@) =~= self.buf@ + o@) by { assert(bufs@.skip(1).skip(1).len() == 0); assert(bufs@.skip(1)[0] == bufs@[1]); } } // [C04.commit.order]'),
                        ('|e|', 'closure', '|e: Errno| -> (q: io::Error)')],
               props=['C04'], canary=True),
            Fn(F, SC, 'bytes_written', ensures=['r == self.buf@.len() // [C04.writer.written]'], props=['C04']),
            Fn(F, SC, 'available_bytes', ensures=['r + self.buf@.len() == spec_capacity(&self.buf) // [C04.writer.available]'], props=['C04'],
               sig_subst=[]),
            Fn(F, SC, 'check_available_space',
               # the run-time assert!(self.buffered || self.buf.is_empty()) becomes this precondition (R5): the abstract Writer
               # of the server unit carries the same clause, so no handler can trip it
               requires=['self.buffered || self.buf@.len() == 0 // [C04.writer.assert]'],
               ensures=['r is Ok <==> sz + self.buf@.len() <= spec_capacity(&self.buf) // [C04.writer.space]',
                        'r is Err ==> r->Err_0.os_code() is None'],
               props=['C04'], canary=True),
        ]),
    ]
    return Unit('fusedevw', items, preludes=['base.rs'])
