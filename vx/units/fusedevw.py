"""Unit `fusedevw` (C04, C01 refinement): the whole of FuseDevWriter (src/transport/fusedev/mod.rs) - new, split_at, commit, the space
accounting (bytes_written / available_bytes / check_available_space / account_written), `impl Write` (write, write_vectored, flush; the
std default `write_all` on top of `write`), write_obj, the file transfers (write_from, write_from_at, write_all_from) and do_write.

View of a writer: `buf@` (the bytes accounted so far), `spec_capacity(&buf)` (its share of the reply buffer), `vec_base(&buf)` (where that
share starts inside the reply buffer), `buffered`, `fd`.  The device is ghost state: `DevLog.log`, the sequence of (fd, bytes) of every
SUCCESSFUL `write(2)` / `writev(2)` on a /dev/fuse descriptor, threaded as an erased `Tracked<&mut DevLog>` (rule R23) from the entry
points down to the two system-call models; in addition every device write needs the capability `dev_write_ok(fd, bytes)` (DESIGN A.3).

C04, per operation `op`:
  [C04.fdw.<op>.exceeds_fails]   the request exceeds `available_bytes()`  =>  Err, and buf / capacity / flags / device log are as before;
  [C04.fdw.<op>.amount]          Ok(n) => `bytes_written()` grew by exactly n (and n is what was asked / what the file reported);
  [C04.fdw.<op>.order]           the bytes are appended at the end of `buf`, in order (write_vectored: the concatenation of the slices);
  [C04.fdw.<op>.device]          unbuffered: exactly ONE device write of exactly these bytes; buffered: the device log is untouched;
  [C04.fdw.*.in_bounds]          memory safety of the raw operations, PROVED at every call: `set_len(n)` needs n <= capacity,
                                 `extend_from_slice` must fit the capacity (the Vec is built over borrowed memory: a reallocation would
                                 free memory it does not own), `as_mut_ptr().add(len)` + `from_raw_ptr(.., count)` needs len + count <= capacity,
                                 `Vec::from_raw_parts(ptr.add(o), len, cap)` needs o + cap within the allocation `ptr` came from.
C01 (refinement of the abstract Writer of prelude/transport.rs, which unit `server` ASSUMES): section REFINE below - for every Writer
operation a wrapper whose contract is the abstract contract (generated from the prelude text) and whose body is the one call of the real
function; see `refinement_items`."""
import os
import re

from vx.api import Unit, Fn, Copy, Raw, Group
from vx import extract as X

F = 'src/transport/fusedev/mod.rs'
SC = "impl<'a, S: BitmapSlice> FuseDevWriter<'a, S>"
SNEW = "impl<'a, S: BitmapSlice + Default> FuseDevWriter<'a, S>"
SWIO = "impl<S: BitmapSlice> Write for FuseDevWriter<'_, S>"

PRE_COMMON = r'''
// vm_memory::bitmap::BitmapSlice: `Bitmap + Clone + Debug + ..` (only Clone is used: split_at clones the slice into the second writer)
pub trait BitmapSlice: Clone {}
pub type RawFd = i32;
impl io::Error {
    #[verifier::external_body]
    pub fn new<E>(kind: io::ErrorKind, e: E) -> (r: io::Error) ensures r.os_code() is None, r.skind() == kind { unimplemented!() }
}
#[verifier::external_body] pub fn fmt_opaque() -> String { unimplemented!() }
// std::io::IoSlice: a borrowed byte slice (`Deref<Target = [u8]>`; len / is_empty are the slice's, reached through the deref)
pub struct IoSlice<'a> { pub b: &'a [u8] }
impl<'a> IoSlice<'a> {
    pub fn new(b: &'a [u8]) -> (r: IoSlice<'a>) ensures r.b@ == b@ { IoSlice { b } }
    pub fn len(&self) -> (r: usize) ensures r == self.b@.len() { self.b.len() }
    pub fn is_empty(&self) -> (r: bool) ensures r == (self.b@.len() == 0) { self.b.len() == 0 }
}
impl<'a> std::ops::Deref for IoSlice<'a> {
    type Target = [u8];
    fn deref(&self) -> (r: &[u8]) ensures r@ == self.b@ { self.b }
}
pub open spec fn ios_concat(s: Seq<IoSlice<'_>>) -> Seq<u8> decreases s.len() {
    if s.len() == 0 { Seq::<u8>::empty() } else { s[0].b@ + ios_concat(s.skip(1)) }
}
#[repr(i32)] #[derive(Clone, Copy)] pub enum Errno { UnknownErrno = 0, EPERM = 1, EIO = 5, EINVAL = 22 }
// capability of a device write: only the byte string the caller's contract names may be written (DESIGN 3.4b)
pub uninterp spec fn dev_write_ok(fd: RawFd, b: Seq<u8>) -> bool;
#[verifier::external_body] #[verifier::reject_recursive_types(S)] pub struct VirtioFsWriter<'a, S> { _p: PhantomData<&'a S> }
// Vec::capacity: at least the length (std guarantee)
pub uninterp spec fn spec_capacity<T, A: core::alloc::Allocator>(v: &Vec<T, A>) -> nat;
pub assume_specification<T, A: core::alloc::Allocator> [std::vec::Vec::<T, A>::capacity] (v: &Vec<T, A>) -> (r: usize)
    ensures r == spec_capacity(v), r >= v@.len();
'''

# nix::unistd::write / nix::sys::uio::writev on the /dev/fuse descriptor: THE device write, capability only (unit asyncdevw)
DEV_CAP = r'''
#[verifier::external_body] pub fn write(fd: RawFd, buf: &[u8]) -> (r: core::result::Result<usize, Errno>)
    requires dev_write_ok(fd, buf@), // [devwrite]
{ unimplemented!() }
#[verifier::external_body] pub fn writev(fd: RawFd, iov: &[IoSlice<'_>]) -> (r: core::result::Result<usize, Errno>)
    requires dev_write_ok(fd, ios_concat(iov@)), // [devwrite]
{ unimplemented!() }
'''
PRE = PRE_COMMON + DEV_CAP          # what unit asyncdevw imports (unchanged meaning)

# the same two system calls with the device as ghost state.  ASSUMED (kernel, fs/fuse/dev.c fuse_dev_do_write): a write on /dev/fuse
# consumes the whole message or fails (`return nbytes` / negative errno) - Ok(n) => n == bytes offered; a failed write delivers nothing.
DEV_LOG = r'''
pub ghost struct DevWrite { pub fd: RawFd, pub bytes: Seq<u8> }
pub tracked struct DevLog { pub ghost log: Seq<DevWrite> }
#[verifier::external_body] pub fn write(fd: RawFd, buf: &[u8], Tracked(dl): Tracked<&mut DevLog>) -> (r: core::result::Result<usize, Errno>)
    requires dev_write_ok(fd, buf@), // [devwrite]
    ensures r is Ok ==> r->Ok_0 == buf@.len() && final(dl).log == old(dl).log.push(DevWrite { fd: fd, bytes: buf@ }),
            r is Err ==> final(dl).log == old(dl).log,
{ unimplemented!() }
#[verifier::external_body] pub fn writev(fd: RawFd, iov: &[IoSlice<'_>], Tracked(dl): Tracked<&mut DevLog>) -> (r: core::result::Result<usize, Errno>)
    requires dev_write_ok(fd, ios_concat(iov@)), // [devwrite]
    ensures r is Ok ==> r->Ok_0 == ios_concat(iov@).len() && final(dl).log == old(dl).log.push(DevWrite { fd: fd, bytes: ios_concat(iov@) }),
            r is Err ==> final(dl).log == old(dl).log,
{ unimplemented!() }
'''

MODEL = r'''
pub type Result<T> = core::result::Result<T, Error>;
// transport::Error: only the variant FuseDevWriter constructs (the others wrap foreign error types)
pub enum Error { SplitOutOfBounds(usize), Other }

// ---- Vec<u8> over borrowed memory (`Vec::from_raw_parts(data_buf.as_mut_ptr(), 0, data_buf.len())` inside ManuallyDrop): besides its view
// and capacity, WHERE its allocation starts, as an offset into the address space (`vec_base`); [base, base + capacity) is its share
pub uninterp spec fn vec_base<T, A: core::alloc::Allocator>(v: &Vec<T, A>) -> int;
pub open spec fn same_alloc(a: &Vec<u8>, b: &Vec<u8>) -> bool { spec_capacity(a) == spec_capacity(b) && vec_base(a) == vec_base(b) }
// no allocation is larger than the address space (std: capacity <= isize::MAX bytes)
pub broadcast axiom fn axiom_capacity_bound(v: &Vec<u8>)
    ensures v@.len() <= #[trigger] spec_capacity(v) <= usize::MAX;
// Vec::set_len (unsafe fn; std "Safety: new_len must be less than or equal to capacity(); the elements at old_len..new_len must be
// initialized"): the length changes, nothing else; the first min(old, new) elements are the old ones, the others are whatever the memory holds
pub assume_specification<T, A: core::alloc::Allocator> [std::vec::Vec::<T, A>::set_len] (v: &mut Vec<T, A>, new_len: usize)
    requires new_len <= spec_capacity(old(v)), // [C04.fdw.set_len.in_bounds]
    ensures final(v)@.len() == new_len,
            forall|i: int| 0 <= i < new_len && i < old(v)@.len() ==> final(v)@[i] == old(v)@[i],
            new_len >= old(v)@.len() ==> final(v)@.take(old(v)@.len() as int) == old(v)@,      // (the line above, for Seq::take)
            spec_capacity(final(v)) == spec_capacity(old(v)), vec_base(final(v)) == vec_base(old(v));
// `V.extend_from_slice(D)` on such a Vec (ABSTRACT, logged): D must fit the capacity - otherwise the Vec would reallocate, i.e. hand memory
// it does not own to the allocator - and then (std: no reallocation when the capacity suffices) only view and length change
#[verifier::external_body] pub fn vx_extend_from_slice(v: &mut Vec<u8>, d: &[u8])
    requires old(v)@.len() + d@.len() <= spec_capacity(old(v)), // [C04.fdw.extend.in_bounds]
    ensures final(v)@ == old(v)@ + d@, same_alloc(final(v), old(v)),
            final(v)@.take(old(v)@.len() as int) == old(v)@,      // (consequence of the first clause, stated for Seq::take)
{ unimplemented!() }
// `&V[..N]` (ABSTRACT, logged): the first N elements; N <= len or the index panics
#[verifier::external_body] pub fn vx_vec_prefix(v: &Vec<u8>, n: usize) -> (r: &[u8])
    requires n <= v@.len(), // [C04.fdw.prefix.in_bounds]
    ensures r@ == v@.take(n as int), n == v@.len() ==> r@ == v@,
{ unimplemented!() }

// ---- raw pointers into the reply buffer (ABSTRACT, logged): a pointer knows its address, how many bytes remain up to the end of the
// allocation it was derived from (`room`: pointer arithmetic and accesses beyond it are undefined behaviour) and the initialised bytes
// that lay at its address when it was taken (`mem`; valid while nothing is written through another path in between - in split_at only
// field assignments happen between `as_mut_ptr()` and the two `from_raw_parts`)
#[verifier::external_body] #[derive(Clone, Copy)] pub struct BufPtr { _p: usize }
impl BufPtr {
    pub uninterp spec fn addr(&self) -> int;
    pub uninterp spec fn room(&self) -> nat;
    pub uninterp spec fn mem(&self) -> Seq<u8>;
    // <*mut u8>::add
    #[verifier::external_body] pub fn add(self, n: usize) -> (r: BufPtr)
        requires n <= self.room(), // [C04.fdw.ptr_add.in_bounds]
        ensures r.addr() == self.addr() + n, r.room() == self.room() - n,
                r.mem() == (if n <= self.mem().len() { self.mem().skip(n as int) } else { Seq::<u8>::empty() }),
    { unimplemented!() }
}
// Vec::as_mut_ptr / <[u8]>::as_mut_ptr
#[verifier::external_body] pub fn vx_vec_as_mut_ptr(v: &mut Vec<u8>) -> (r: BufPtr)
    ensures final(v)@ == old(v)@, same_alloc(final(v), old(v)), r.addr() == vec_base(old(v)), r.room() == spec_capacity(old(v)), r.mem() == old(v)@,
{ unimplemented!() }
pub uninterp spec fn slice_base(s: &[u8]) -> int;
#[verifier::external_body] pub fn vx_slice_as_mut_ptr(s: &mut [u8]) -> (r: BufPtr)
    ensures final(s)@ == old(s)@, r.addr() == slice_base(&*old(s)), r.room() == old(s)@.len(), r.mem() == old(s)@,
{ unimplemented!() }
// Vec::from_raw_parts(ptr, length, capacity) (unsafe fn; std "Safety": capacity bytes at ptr belong to one allocation, length <= capacity,
// the first length elements are initialised)
#[verifier::external_body] pub fn vx_vec_from_raw_parts(p: BufPtr, length: usize, capacity: usize) -> (r: Vec<u8>)
    requires length <= capacity, capacity <= p.room(), // [C04.fdw.from_raw_parts.in_bounds]
             length <= p.mem().len(), // [C04.fdw.from_raw_parts.initialised]
    ensures r@ == p.mem().take(length as int), spec_capacity(&r) == capacity, vec_base(&r) == p.addr(),
{ unimplemented!() }

// ---- crate::file_buf::FileVolatileSlice as (address, length) (the view of units iobuffers / virtiofsw; KX group file_buf covers its accessors)
#[verifier::external_body] #[derive(Clone, Copy)] pub struct FileVolatileSlice<'a> { _p: PhantomData<&'a u8> }
impl<'a> FileVolatileSlice<'a> {
    pub uninterp spec fn addr(&self) -> int;
    pub uninterp spec fn slen(&self) -> nat;
    #[verifier::external_body] pub fn len(&self) -> (r: usize) ensures r == self.slen() { unimplemented!() }
}
pub open spec fn fv_total(b: Seq<FileVolatileSlice<'_>>) -> nat decreases b.len() {
    if b.len() == 0 { 0 } else { b[0].slen() + fv_total(b.skip(1)) }
}
// `FileVolatileSlice::from_raw_ptr(V.as_mut_ptr().add(OFF), COUNT)` (ABSTRACT, logged): a window of COUNT bytes, OFF bytes into V's
// allocation.  Safe only inside the allocation, and only behind the accounted bytes (it hands out write access: bytes already accounted
// must not be overwritten) - both PROVED at the call.  Whoever holds the window may change the spare memory: nothing is promised about it.
#[verifier::external_body] pub fn vx_spare_slice<'b>(off: usize, count: usize, v: &mut Vec<u8>) -> (r: FileVolatileSlice<'b>)
    requires off + count <= spec_capacity(old(v)), // [C04.fdw.write_from.in_bounds]
             off >= old(v)@.len(), // [C04.fdw.write_from.behind_accounted]
    ensures final(v)@ == old(v)@, same_alloc(final(v), old(v)), r.addr() == vec_base(old(v)) + off, r.slen() == count,
{ unimplemented!() }
// crate::file_traits::FileReadWriteVolatile: a dependency.  ASSUMED (as in unit virtiofsw): Ok(n) => n <= the bytes offered, exactly the
// first n offered bytes were filled and nothing else was touched (readv / preadv semantics)
pub trait FileReadWriteVolatile {
    fn read_vectored_volatile(&mut self, bufs: &[FileVolatileSlice]) -> (r: io::Result<usize>) ensures r is Ok ==> r->Ok_0 <= fv_total(bufs@);
    fn read_vectored_at_volatile(&mut self, bufs: &[FileVolatileSlice], offset: u64) -> (r: io::Result<usize>) ensures r is Ok ==> r->Ok_0 <= fv_total(bufs@);
}
// `impl<T: FileReadWriteVolatile + ?Sized> FileReadWriteVolatile for &mut T` (file_traits.rs): forwards to T
impl<T: FileReadWriteVolatile> FileReadWriteVolatile for &mut T {
    #[verifier::external_body] fn read_vectored_volatile(&mut self, bufs: &[FileVolatileSlice]) -> (r: io::Result<usize>) { unimplemented!() }
    #[verifier::external_body] fn read_vectored_at_volatile(&mut self, bufs: &[FileVolatileSlice], offset: u64) -> (r: io::Result<usize>) { unimplemented!() }
}
// vm_memory::ByteValued: plain old data whose memory image is `sbytes`
pub trait ByteValued: Sized + Copy {
    spec fn sbytes(&self) -> Seq<u8>;
    spec fn ssize() -> nat;
    fn as_slice(&self) -> (r: &[u8]) ensures r@ == self.sbytes(), r@.len() == Self::ssize();
}
pub broadcast axiom fn axiom_sbytes_len<T: ByteValued>(x: T)
    ensures #[trigger] x.sbytes().len() == T::ssize();

// ---- specification vocabulary
pub proof fn lemma_ios_concat_append(a: Seq<IoSlice<'_>>, b: Seq<IoSlice<'_>>)
    ensures ios_concat(a + b) =~= ios_concat(a) + ios_concat(b)
    decreases a.len()
{
    if a.len() == 0 { assert(a + b =~= b); }
    else { assert((a + b).skip(1) =~= a.skip(1) + b); lemma_ios_concat_append(a.skip(1), b); }
}
pub proof fn lemma_ios_take_next(s: Seq<IoSlice<'_>>, i: int)
    requires 0 <= i < s.len()
    ensures ios_concat(s.take(i + 1)) =~= ios_concat(s.take(i)) + s[i].b@,
            ios_concat(s.take(i)).len() + s[i].b@.len() <= ios_concat(s).len(),
{
    assert(s.take(i + 1) =~= s.take(i) + seq![s[i]]);
    lemma_ios_concat_append(s.take(i), seq![s[i]]);
    assert(seq![s[i]].skip(1) =~= Seq::<IoSlice<'_>>::empty());
    reveal_with_fuel(ios_concat, 2);
    assert(ios_concat(seq![s[i]]) =~= s[i].b@);
    assert(s =~= s.take(i + 1) + s.skip(i + 1));
    lemma_ios_concat_append(s.take(i + 1), s.skip(i + 1));
}
// the concatenation of a two- / three-element slice array (async_write2 / async_write3 build one for writev)
pub broadcast proof fn lemma_ios_concat_2(s: Seq<IoSlice<'_>>)
    requires s.len() == 2
    ensures #[trigger] ios_concat(s) =~= s[0].b@ + s[1].b@
{ reveal_with_fuel(ios_concat, 3); assert(s.skip(1).skip(1).len() == 0); assert(s.skip(1)[0] == s[1]); }
pub broadcast proof fn lemma_ios_concat_3(s: Seq<IoSlice<'_>>)
    requires s.len() == 3
    ensures #[trigger] ios_concat(s) =~= s[0].b@ + s[1].b@ + s[2].b@
{ reveal_with_fuel(ios_concat, 4); assert(s.skip(1).skip(1).skip(1).len() == 0); assert(s.skip(1)[0] == s[1]); assert(s.skip(1).skip(1)[0] == s[2]); }
'''

SPEC = r'''
impl<'a, S: BitmapSlice> FuseDevWriter<'a, S> {
    pub open spec fn cap(&self) -> nat { spec_capacity(&self.buf) }
    // everything but the bytes: descriptor, mode, and the share of the reply buffer
    pub open spec fn frame_same(&self, o: &Self) -> bool { self.fd == o.fd && self.buffered == o.buffered && same_alloc(&self.buf, &o.buf) }
    pub open spec fn unchanged(&self, o: &Self) -> bool { self.frame_same(o) && self.buf@ == o.buf@ }
    // `n` bytes were appended behind the bytes of `o`
    pub open spec fn grew_by(&self, o: &Self, n: nat) -> bool { self.buf@.len() == o.buf@.len() + n && self.buf@.take(o.buf@.len() as int) == o.buf@ }
}
pub open spec fn other_bytes<'a, S: BitmapSlice>(other: Option<&Writer<'a, S>>) -> Seq<u8> {
    match other { Some(Writer::FuseDev(w)) => w.buf@, _ => Seq::<u8>::empty() }
}
'''

# std::io::Write::write_all - the DEFAULT method FuseDevWriter inherits (library/std/src/io/mod.rs, `default_write_all`), copied by hand
# (TRUSTED copy of std text; `e.is_interrupted()` written out as `e.kind() == ErrorKind::Interrupted`).  VERIFIED against its contract on
# top of the extracted `write`.
def std_write_all():
    c = c_write_all('write_all')
    return '''
    #[verifier::exec_allows_no_decreases_clause] #[verifier::loop_isolation(false)]
    fn write_all(&mut self, data: &[u8], Tracked(dl): Tracked<&mut DevLog>) -> (r: io::Result<()>)     // std: `mut buf: &[u8]` (rebound below: a `mut` parameter has no name for its initial value)
        requires
            %s
        ensures
            %s
    {
        broadcast use axiom_capacity_bound;
        let mut buf = data; let ghost all = data@;
        %s
        while !buf.is_empty()
            %s
        {
            match self.write(buf, Tracked(dl)) {
                Ok(0) => { return Err(io::Error::new(io::ErrorKind::WriteZero, "failed to write whole buffer")); }
                Ok(n) => { buf = vstd::slice::slice_subrange(buf, n, buf.len()); /* std: buf = &buf[n..] */ }
                Err(ref e) if e.kind() == io::ErrorKind::Interrupted => { }
                Err(e) => { return Err(e); }
            }
        }
        Ok(())
    }
''' % (_clauses(c['requires']), _clauses(c['ensures']), WRITE_ALL_HINT, WRITE_ALL_INV)


def _clauses(cs):
    out = []
    for c in cs:
        m = re.search(r'\s*(//\s*\[[^\n]*)$', c)
        out.append((c[:m.start()].rstrip() + ', ' + m.group(1)) if m else c.rstrip() + ',')
    return '\n            '.join(out)


def wv_shape(root):
    """which text shape has the buffered branch of write_vectored?  'fold' = `.filter(..).fold(..)` appending with extend_from_slice (the
    text as of the pinned tree), 'for' = a `for b in bufs.iter().filter(..)` loop adding up `count` (appending by any means).  The loop
    annotations (ghost text) differ; the CONTRACT is the same.  Any other shape loses an anchor (exit 2)."""
    d = X.Source(root, F).find_fn(SWIO, 'write_vectored')
    b = X.mask(d['body'])
    has_sum = re.search(r'\.\s*fold\s*\(\s*0\s*,\s*\|\s*acc\s*,\s*x\s*\|', b) is not None      # the up-front sum: a loop to annotate only if it is there
    if re.search(r'\bfor\s+b\s+in\s+bufs\s*\.\s*iter\s*\(\s*\)\s*\.\s*filter\s*\(', b) and re.search(r'\blet\s+mut\s+count\b', b):
        return 'for', has_sum
    return 'fold', has_sum


TOK = dict(param='Tracked(dl): Tracked<&mut DevLog>', arg='Tracked(dl)')
LOG_SAME = 'final(dl).log == old(dl).log'
ASSERT_PRE = 'old(self).buffered || old(self).buf@.len() == 0 // [C04.writer.assert]'
CLOSURE_E = '|e: Errno| -> (q: io::Error) ensures q.os_code() is None'
EVERY = [
    (r'ManuallyDrop::new\(((?:[^()]|\((?:[^()]|\([^()]*\))*\))*)\)', r'\1', 'every: ManuallyDrop::new(x) -> x (ManuallyDrop<T> is T whose destructor does not run)'),
    (r'Vec::from_raw_parts\(', 'vx_vec_from_raw_parts(', 'every: Vec::from_raw_parts -> model call (in-bounds precondition, view = the initialised bytes at the pointer)'),
    (r'self\.buf\.as_mut_ptr\(\)(?!\s*\.add)', 'vx_vec_as_mut_ptr(&mut self.buf)', 'every: Vec::as_mut_ptr -> model pointer (address, room, bytes)'),
    (r'data_buf\.as_mut_ptr\(\)', 'vx_slice_as_mut_ptr(data_buf)', 'every: <[u8]>::as_mut_ptr -> model pointer (address, room, bytes)'),
    (r'self\.buf\.extend_from_slice\(', 'vx_extend_from_slice(&mut self.buf, ', 'every: Vec::extend_from_slice on a Vec over borrowed memory -> model call that must fit the capacity'),
    (r'&self\.buf\[\.\.(\w+)\]', r'vx_vec_prefix(&self.buf, \1)', 'every: &v[..n] -> model call (n <= len)'),
    (r'FileVolatileSlice::from_raw_ptr\(\s*self\.buf\.as_mut_ptr\(\)\.add\((.+?)\),\s*([^,;]+?),?\s*\)\]', r'vx_spare_slice(\1, \2, &mut self.buf)]',
     'every: raw window into the spare capacity -> model call stating it covers buf[off .. off+count) (in bounds, behind the accounted bytes)'),
    (r'io::Error::other\("', 'io::Error::other_str("', 'every: Error::other("lit") -> Error::other_str("lit")'),
]


def tok(f, callees=(), path=(), free=(), rules=()):
    f.rules = ('R23',) + tuple(rules)
    f.ghost_token = dict(TOK, callees=list(callees), path_callees=list(path), free_callees=list(free))
    return f


def space(op, amount, extra=''):
    """[exceeds_fails]: the request exceeds what is available => Err and NOTHING changed"""
    return ('old(self).buf@.len() + %s > old(self).cap() ==> r is Err && final(self).unchanged(old(self)) && %s%s // [C04.fdw.%s.exceeds_fails]'
            % (amount, LOG_SAME, extra, op))


def c_write(op, data='data@'):
    """contract of a one-shot write of the byte string `data` (write / async_write / async_write2 / async_write3)"""
    d = dict(op=op, D=data, same=LOG_SAME)
    return dict(
        requires=[ASSERT_PRE,
                  '!old(self).buffered && %(D)s.len() <= old(self).cap() ==> dev_write_ok(old(self).fd, %(D)s) // [C04.fdw.%(op)s.one_write]' % d],
        ensures=['final(self).frame_same(old(self))',
                 space(op, '%(D)s.len()' % d),
                 'r is Ok ==> r->Ok_0 == %(D)s.len() && final(self).grew_by(old(self), %(D)s.len()) // [C04.fdw.%(op)s.amount]' % d,
                 'r is Ok && old(self).buffered ==> final(self).buf@ == old(self).buf@ + %(D)s && %(same)s // [C04.fdw.%(op)s.order]' % d,
                 'r is Ok && !old(self).buffered ==> final(dl).log == old(dl).log.push(DevWrite { fd: old(self).fd, bytes: %(D)s }) // [C04.fdw.%(op)s.device]' % d,
                 'r is Err ==> final(self).unchanged(old(self)) && %(same)s // [C04.fdw.%(op)s.err_nothing]' % d,
                 'old(self).buffered && old(self).buf@.len() + %(D)s.len() <= old(self).cap() ==> r is Ok' % d])


def c_write_all(op, data='data@'):
    """contract of write_all / async_write_all (loops over the one-shot write until everything is written)"""
    d = dict(op=op, D=data, same=LOG_SAME)
    return dict(
        requires=['%(D)s.len() > 0 ==> old(self).buffered || old(self).buf@.len() == 0 // [C04.writer.assert]' % d,
                  '%(D)s.len() > 0 && !old(self).buffered && %(D)s.len() <= old(self).cap() ==> dev_write_ok(old(self).fd, %(D)s) // [C04.fdw.%(op)s.one_write]' % d],
        ensures=['final(self).frame_same(old(self)) // [C04.fdw.%(op)s.frame]' % d,
                 space(op, '%(D)s.len()' % d),
                 'r is Ok ==> final(self).grew_by(old(self), %(D)s.len()) // [C04.fdw.%(op)s.amount]' % d,
                 'r is Ok && old(self).buffered ==> final(self).buf@ == old(self).buf@ + %(D)s && %(same)s // [C04.fdw.%(op)s.order]' % d,
                 'r is Ok && !old(self).buffered && %(D)s.len() > 0 ==> final(dl).log == old(dl).log.push(DevWrite { fd: old(self).fd, bytes: %(D)s }) // [C04.fdw.%(op)s.device]' % d,
                 'r is Ok && %(D)s.len() == 0 ==> %(same)s // [C04.fdw.%(op)s.device]' % d,
                 'r is Err ==> final(self).unchanged(old(self)) && %(same)s // [C04.fdw.%(op)s.err_nothing]' % d,
                 'old(self).buffered && old(self).buf@.len() + %(D)s.len() <= old(self).cap() ==> r is Ok // [C04.fdw.%(op)s.fits_ok]' % d])


# loop annotation shared by the std write_all and async_write_all (`buf` = what is left, `all` = the whole request)
WRITE_ALL_INV = '''invariant
                buf@ == all || (buf@.len() == 0 && all.len() > 0),
                buf@.len() == 0 && all.len() > 0 ==> self.grew_by(old(self), all.len()) && self.frame_same(old(self))
                    && (old(self).buffered ==> self.buf@ == old(self).buf@ + all && dl.log == old(dl).log)
                    && (!old(self).buffered ==> dl.log == old(dl).log.push(DevWrite { fd: old(self).fd, bytes: all })), // [C04.fdw.write_all.loop.done]
                buf@.len() == all.len() ==> self.unchanged(old(self)) && dl.log == old(dl).log, // [C04.fdw.write_all.loop.nothing_yet]'''
WRITE_ALL_HINT = 'proof { assert(old(self).buf@.take(old(self).buf@.len() as int) =~= old(self).buf@); assert(all.len() == 0 ==> old(self).buf@ + all =~= old(self).buf@); }'


def c_file_xfer(op):
    """contract of a transfer of at most `count` bytes from a file (write_from / write_from_at / async_write_from_at)"""
    return dict(
        requires=[ASSERT_PRE,
                  # the bytes come from the file: whatever it delivers (at most `count` bytes) may go to the device
                  '!old(self).buffered ==> forall|b: Seq<u8>| b.len() <= count ==> dev_write_ok(old(self).fd, b) // [C04.fdw.%s.one_write]' % op],
        ensures=['final(self).frame_same(old(self))',
                 space(op, 'count'),
                 'r is Ok ==> r->Ok_0 <= count && final(self).grew_by(old(self), r->Ok_0 as nat) // [C04.fdw.%s.amount]' % op,
                 'old(self).buffered ==> %s // [C04.fdw.%s.device]' % (LOG_SAME, op),
                 '''r is Ok && !old(self).buffered ==> final(dl).log == old(dl).log.push(DevWrite { fd: old(self).fd, bytes: final(self).buf@ }) // [C04.fdw.%s.device]''' % op,
                 'r is Err && old(self).buffered ==> final(self).unchanged(old(self)) // [C04.fdw.%s.err_nothing]' % op])


def base_fns(external=False):
    """the accounting functions every writer operation is built on; external=True: signature + contract only (unit asyncdevw, which
    assumes what this unit proves - same clause text)"""
    kw = lambda **k: (dict(external_body=True, props=k.get('props', ())) if external else k)
    return [
        Fn(F, SC, 'bytes_written', ensures=['r == self.buf@.len() // [C04.writer.written]'], **kw(props=['C04'])),
        Fn(F, SC, 'available_bytes', ensures=['r + self.buf@.len() == spec_capacity(&self.buf) // [C04.writer.available]'], **kw(props=['C04'])),
        Fn(F, SC, 'check_available_space',
           # the run-time assert!(self.buffered || self.buf.is_empty()) becomes this precondition (R5): the abstract Writer
           # of the server unit carries the same clause, so no handler can trip it
           requires=['self.buffered || self.buf@.len() == 0 // [C04.writer.assert]'],
           ensures=['r is Ok <==> sz + self.buf@.len() <= spec_capacity(&self.buf) // [C04.writer.space]',
                    'r is Err ==> r->Err_0.os_code() is None'],
           **kw(props=['C04'], canary=True)),
        Fn(F, SC, 'account_written',
           requires=['old(self).buf@.len() + count <= old(self).cap() // [C04.fdw.account_written.in_bounds]'],
           ensures=['final(self).frame_same(old(self))',
                    'final(self).grew_by(old(self), count as nat) // [C04.fdw.account_written.amount]'],
           **kw(splices=[('^', 'after', 'broadcast use axiom_capacity_bound;')], props=['C04'], canary=True)),
    ]



def writer_fns(root):
    shape, has_sum = wv_shape(root)
    TOTAL = 'ios_concat(bufs@).len()'
    WV_ENTRY = 'broadcast use axiom_capacity_bound; proof { assert(bufs@.take(0) =~= Seq::<IoSlice<\'_>>::empty()); assert(bufs@.take(bufs@.len() as int) =~= bufs@); assert(self.buf@.take(self.buf@.len() as int) =~= self.buf@); }'
    SUM_LOOP = '''for x in it: bufs.iter()
            invariant ios_concat(bufs@).len() <= usize::MAX, bufs@.take(bufs@.len() as int) =~= bufs@,
                acc == ios_concat(bufs@.take(it.index@ as int)).len(), // [C04.fdw.write_vectored.sum]
        { proof { lemma_ios_take_next(bufs@, it.index@ as int); }'''
    APPEND_INV = '''ios_concat(bufs@).len() <= usize::MAX, bufs@.take(bufs@.len() as int) =~= bufs@,
                self.frame_same(old(self)) && self.buffered && dl.log == old(dl).log, // [C04.fdw.write_vectored.loop.frame]
                %(n)s == ios_concat(bufs@.take(it.index@ as int)).len(), // [C04.fdw.write_vectored.loop.amount]
                self.buf@ =~= old(self).buf@ + ios_concat(bufs@.take(it.index@ as int)), // [C04.fdw.write_vectored.loop.order]
                self.buf@.take(old(self).buf@.len() as int) =~= old(self).buf@, // [C04.fdw.write_vectored.loop.order]'''
    if shape == 'fold':
        wv_splices = [('^', 'after', WV_ENTRY),
                      ('for x in bufs.iter() {', 'replace', SUM_LOOP),
                      ('for b in bufs.iter() {', 'replace', '''for b in it: bufs.iter()
            invariant old(self).buf@.len() + ios_concat(bufs@).len() <= old(self).cap(), // [C04.fdw.write_vectored.loop.space]
                ''' + APPEND_INV % dict(n='acc') + '''
        { proof { lemma_ios_take_next(bufs@, it.index@ as int); }'''),
                      ('|e|', 'closure', CLOSURE_E)]
    else:
        # the loop of the 'for' shape: nothing is known up front about the space (that is the point of [exceeds_fails])
        wv_splices = [('^', 'after', WV_ENTRY),
                      ('for x in bufs.iter() {', 'replace', SUM_LOOP),
                      ('for b in bufs.iter() {', 'replace', '''for b in it: bufs.iter()
            invariant
                ''' + APPEND_INV % dict(n='count') + '''
        { proof { lemma_ios_take_next(bufs@, it.index@ as int); }'''),
                      ('|e|', 'closure', CLOSURE_E)]
    if not has_sum:
        wv_splices = [sp for sp in wv_splices if sp[0] != 'for x in bufs.iter() {']
    fns = [
        tok(Fn(F, SC, 'commit',
               # refinement of the abstract Writer::commit (prelude/transport.rs): buffered => ONE device write of own ++ other's
               # bytes (none if there are none); unbuffered => nothing
               requires=['old(self).buffered && (old(self).buf@ + other_bytes(other)).len() > 0 ==> dev_write_ok(old(self).fd, old(self).buf@ + other_bytes(other)) // [C04.commit.one_write]'],
               ensures=['final(self).unchanged(old(self))',
                        '!old(self).buffered || (old(self).buf@ + other_bytes(other)).len() == 0 ==> r == Ok::<usize, io::Error>(0usize) && %s // [C04.commit.nothing]' % LOG_SAME,
                        '''old(self).buffered && (old(self).buf@ + other_bytes(other)).len() > 0 ==> match r {
                            Ok(n) => n == (old(self).buf@ + other_bytes(other)).len()
                                && final(dl).log == old(dl).log.push(DevWrite { fd: old(self).fd, bytes: old(self).buf@ + other_bytes(other) }),
                            Err(e) => final(dl).log == old(dl).log && e.os_code() is Some,
                        } // [C04.commit.device]'''],
               splices=[('^', 'after', 'reveal_with_fuel(ios_concat, 3);'),
                        ('let res = match (self.buf.len(), o.len()) {', 'before',
                         'proof { assert(o@ == other_bytes(other)); assert(self.buf@ + o@ =~= self.buf@ + other_bytes(other)); if self.buf@.len() == 0 { assert(self.buf@ + o@ =~= o@); } if o@.len() == 0 { assert(self.buf@ + o@ =~= self.buf@); } }'),
                        ('writev(self.fd, &bufs, Tracked(dl))', 'before', 'proof { assert(ios_concat(bufs@) =~= self.buf@ + o@) by { assert(bufs@.skip(1).skip(1).len() == 0); assert(bufs@.skip(1)[0] == bufs@[1]); } } // [C04.commit.order]'),
                        ('|e|', 'closure', '|e: Errno| -> (q: io::Error) ensures q.os_code() is Some')],
               props=['C04'], canary=True), free=['write', 'writev']),
    ] + base_fns() + [
        tok(Fn(F, SC, 'do_write',
               requires=['dev_write_ok(fd, data@) // [C04.fdw.do_write.one_write]'],
               ensures=['r is Ok ==> r->Ok_0 == data@.len() && final(dl).log == old(dl).log.push(DevWrite { fd: fd, bytes: data@ }) // [C04.fdw.do_write.device]',
                        'r is Err ==> %s && r->Err_0.os_code() is None // [C04.fdw.do_write.err_nothing]' % LOG_SAME],
               splices=[('|e|', 'closure', CLOSURE_E)],
               props=['C04'], canary=True), free=['write']),
        tok(Fn(F, SWIO, 'write', splices=[('^', 'after', 'broadcast use axiom_capacity_bound;')], props=['C04'], canary=True, **c_write('write')),
            path=['do_write'], rules=('R31',)),
        tok(Fn(F, SWIO, 'write_vectored',
               requires=[ASSERT_PRE,
                         # the total must be a usize: the real fold adds with `+` (debug build: panic, release build: wrap-around)
                         '%s <= usize::MAX // [C04.fdw.write_vectored.total_representable]' % TOTAL,
                         '!old(self).buffered && bufs@.len() > 0 && %s <= old(self).cap() ==> dev_write_ok(old(self).fd, ios_concat(bufs@)) // [C04.fdw.write_vectored.one_write]' % TOTAL],
               ensures=['final(self).frame_same(old(self))',
                        space('write_vectored', TOTAL),
                        'r is Ok ==> r->Ok_0 == %s && final(self).grew_by(old(self), %s) // [C04.fdw.write_vectored.amount]' % (TOTAL, TOTAL),
                        'r is Ok && old(self).buffered ==> final(self).buf@ == old(self).buf@ + ios_concat(bufs@) && %s // [C04.fdw.write_vectored.order]' % LOG_SAME,
                        'r is Ok && !old(self).buffered && bufs@.len() > 0 ==> final(dl).log == old(dl).log.push(DevWrite { fd: old(self).fd, bytes: ios_concat(bufs@) }) // [C04.fdw.write_vectored.device]',
                        'r is Ok && !old(self).buffered && bufs@.len() == 0 ==> %s // [C04.fdw.write_vectored.device]' % LOG_SAME,
                        'r is Err ==> final(self).unchanged(old(self)) && %s // [C04.fdw.write_vectored.err_nothing]' % LOG_SAME,
                        'old(self).buffered && old(self).buf@.len() + %s <= old(self).cap() ==> r is Ok' % TOTAL],
               splices=wv_splices,
               props=['C04'], canary=True), callees=['write'], free=['writev'], rules=('R31', 'R40', 'R41', 'R42')),
        Fn(F, SWIO, 'flush', ensures=['r is Err && final(self).unchanged(old(self)) // [C04.fdw.flush.nothing]'], props=['C04']),
        tok(Fn(F, SC, 'write_obj',
               requires=['old(self).buffered || old(self).buf@.len() == 0 || val.sbytes().len() == 0 // [C04.writer.assert]',
                         'val.sbytes().len() > 0 && !old(self).buffered && val.sbytes().len() <= old(self).cap() ==> dev_write_ok(old(self).fd, val.sbytes()) // [C04.fdw.write_obj.one_write]'],
               ensures=['final(self).frame_same(old(self))',
                        space('write_obj', 'val.sbytes().len()'),
                        'r is Ok ==> final(self).grew_by(old(self), val.sbytes().len()) // [C04.fdw.write_obj.amount]',
                        'r is Ok && old(self).buffered ==> final(self).buf@ == old(self).buf@ + val.sbytes() && %s // [C04.fdw.write_obj.order]' % LOG_SAME,
                        'r is Ok && !old(self).buffered && val.sbytes().len() > 0 ==> final(dl).log == old(dl).log.push(DevWrite { fd: old(self).fd, bytes: val.sbytes() }) // [C04.fdw.write_obj.device]',
                        'r is Err ==> final(self).unchanged(old(self)) && %s // [C04.fdw.write_obj.err_nothing]' % LOG_SAME],
               props=['C04'], canary=True), callees=['write_all']),
    ]
    for op, at in (('write_from', False), ('write_from_at', True)):
        fns.append(tok(Fn(F, SC, op, props=['C04'], canary=True,
                          splices=[('^', 'after', 'broadcast use axiom_capacity_bound; reveal_with_fuel(fv_total, 2);'),
                                   ('self.account_written(cnt);', 'before', 'proof { assert(cnt <= count); } // [C04.fdw.%s.amount]' % op)],
                          **c_file_xfer(op)), path=['do_write']))
    fns.append(tok(Fn(F, SC, 'write_all_from',
                      # a second round on an UNBUFFERED writer would trip the assert! of check_available_space (the first round has
                      # accounted bytes) after a partial message went to the device: only a buffered writer may be used (finding F1)
                      requires=['old(self).buffered // [C04.fdw.write_all_from.buffered_only]'],
                      ensures=['final(self).frame_same(old(self))',
                               space('write_all_from', 'count'),
                               LOG_SAME + ' // [C04.fdw.write_all_from.device]',
                               # Ok only when every byte asked for was appended
                               'r is Ok ==> final(self).grew_by(old(self), count as nat) // [C04.fdw.write_all_from.amount]',
                               'final(self).buf@.len() >= old(self).buf@.len() && final(self).buf@.take(old(self).buf@.len() as int) == old(self).buf@ // [C04.fdw.write_all_from.order]'],
                      attrs=['#[verifier::exec_allows_no_decreases_clause]', '#[verifier::loop_isolation(false)]'],
                      splices=[('while count > 0 {', 'replace', '''let ghost count0 = count; proof { assert(self.buf@.take(self.buf@.len() as int) =~= self.buf@); }
        while count > 0
            invariant
                count <= count0,
                self.frame_same(old(self)) && self.buffered && dl.log == old(dl).log, // [C04.fdw.write_all_from.loop.frame]
                old(self).buf@.len() + count0 <= old(self).cap(), // [C04.fdw.write_all_from.loop.space]
                self.grew_by(old(self), (count0 - count) as nat), // [C04.fdw.write_all_from.loop.amount]
        {
            let ghost before = self.buf@;'''),
                               ('Ok(n) => count -= n,', 'replace', 'Ok(n) => { proof { assert(self.buf@.take(old(self).buf@.len() as int) =~= before.take(old(self).buf@.len() as int)); } count -= n },')],
                      props=['C04'], canary=True), callees=['write_from']))
    for f in fns:
        f.body_resub = list(f.body_resub) + EVERY
    return fns


def split_new_fns():
    OLDB = 'old(self).buf@'
    split = Fn(F, SC, 'split_at',
               ensures=[
                   # "Returns an error if offset > capacity" - and only then; nothing moves
                   'r is Err <==> offset > old(self).cap() // [C04.fdw.split_at.bounds]',
                   'r is Err ==> final(self).unchanged(old(self)) // [C04.fdw.split_at.err_nothing_moves]',
                   # the two shares partition the old one: [base, base+offset) and [base+offset, base+cap)
                   '''r is Ok ==> final(self).fd == old(self).fd && final(self).buffered && final(self).cap() == offset && vec_base(&final(self).buf) == vec_base(&old(self).buf)
                        && r->Ok_0.fd == old(self).fd && r->Ok_0.buffered && r->Ok_0.cap() == old(self).cap() - offset
                        && vec_base(&r->Ok_0.buf) == vec_base(&old(self).buf) + offset // [C04.fdw.split_at.partition]''',
                   # every accounted byte stays where it is: the parent keeps the first min(len, offset), the rest belongs to the child
                   '''r is Ok ==> final(self).buf@ + r->Ok_0.buf@ =~= %s && final(self).buf@.len() == (if %s.len() > offset { offset as nat } else { %s.len() }) // [C04.fdw.split_at.bytes]''' % (OLDB, OLDB, OLDB)],
               splices=[('^', 'after', 'broadcast use axiom_capacity_bound;')],
               props=['C04'], canary=True)
    split.body_resub = list(EVERY)
    new = Fn(F, SNEW, 'new',
             ensures=['''r is Ok && r->Ok_0.fd == fd && !r->Ok_0.buffered && r->Ok_0.buf@.len() == 0 && r->Ok_0.cap() == old(data_buf)@.len()
                        && vec_base(&r->Ok_0.buf) == slice_base(&*old(data_buf)) // [C04.fdw.new.whole_buffer]'''],
             props=['C04'], canary=True)
    new.body_resub = list(EVERY)
    return split, new


def unit(root='/repo'):
    split, new = split_new_fns()
    items = [
        Raw(PRE_COMMON), Raw(DEV_LOG), Raw(MODEL),
        # ManuallyDrop<Vec<u8>> only suppresses the destructor (the Vec is built over borrowed memory): modelled as the Vec itself
        Copy(F, r"pub struct FuseDevWriter<'a, S", subst=[('ManuallyDrop<Vec<u8>>', 'Vec<u8>'), ('S: BitmapSlice = ()', 'S: BitmapSlice')]),
        Copy('src/transport/mod.rs', r"pub enum Writer<'a, S", subst=[('S: BitmapSlice = ()', 'S: BitmapSlice')], prefix='#[verifier::reject_recursive_types(S)]'),
        Raw(SPEC),
        Group("impl<'a, S: BitmapSlice + Default> FuseDevWriter<'a, S> {", [new]),
        Group("impl<'a, S: BitmapSlice> FuseDevWriter<'a, S> {", [split] + writer_fns(root) + [Raw(std_write_all())]),
    ] + refinement_items()
    return Unit('fusedevw', items, preludes=['base.rs'], generic_tags={'devwrite': ['C04']})


# =====================================================================================================================================
# REFINE (C01): the abstract Writer of prelude/transport.rs - whose contracts unit `server` ASSUMES - is refined by FuseDevWriter.
#
# The abstract struct, its spec functions and `commit_bytes` are COPIED from the prelude text (type renamed AbsWriter); every contract
# `requires R ensures E` of an abstract operation is turned MECHANICALLY into two spec functions abs_<op>_req(pre, args) / abs_<op>_ens(pre,
# post, args, r) (`old(self)` -> pre, `final(self)` -> post; clause text otherwise unchanged).  For every operation a wrapper
#       refine_<op>(w, args, dl, Ghost(a0)) -> (r, Ghost(a1))
#           requires rel(a0, old(w)), link(a0, old(w).fd), abs_<op>_req(a0, args)
#           ensures  rel(a1, final(w)), abs_<op>_ens(a0, a1, args, r), log_grew(old(dl).log, final(dl).log, fd, a0.emitted, a1.emitted)
# whose body is the ONE call of the real (verified) function is VERIFIED: the abstract precondition implies the real one, the real
# postcondition implies the abstract one, and the device log grows by exactly the byte strings the abstract writer records as emitted,
# one device write each.  `rel` = same length / capacity / mode, and the same BYTES when buffered; `link` interprets the device
# capability at the server level: a device write of b is allowed when [once], [noreply], [frame] and [emit] hold for b.
# Preconditions a wrapper needs IN ADDITION to the abstract contract are tagged [C01.refine.gap.*] - they are the places where the
# abstract model promises more than the real writer delivers.

def _split_clauses(txt):
    """top-level comma split; `::<..>` (turbofish) counts as a bracket"""
    out, cur, d, ang, i = [], '', 0, 0, 0
    while i < len(txt):
        c = txt[i]
        if c in '([{':
            d += 1
        elif c in ')]}':
            d -= 1
        elif c == '<' and (ang or txt[max(0, i - 2):i] == '::'):
            ang += 1
        elif c == '>' and ang and txt[i - 1] not in '-=':
            ang -= 1
        if c == ',' and d == 0 and ang == 0:
            out.append(cur)
            cur = ''
        else:
            cur += c
        i += 1
    out.append(cur)
    return [re.sub(r'\s+', ' ', c).strip() for c in out if c.strip()]


def abstract_writer_text():
    """(copied items, generated spec functions, [op names]) from vx/prelude/transport.rs"""
    t = open(os.path.join(os.path.dirname(os.path.dirname(os.path.abspath(__file__))), 'prelude', 'transport.rs')).read()
    msk = X.mask(t)

    def ren(s):
        s = re.sub(r"\bWriter<", 'AbsWriter<', s)
        return s.replace('transport::Result<', 'Result<')
    # the model of IoSlice / ios_concat must be the one this unit verifies against
    m = re.search(r'pub open spec fn ios_concat.*?\n\}', t, re.S)
    if not m or X.norm_ws(m.group(0)) not in X.norm_ws(PRE_COMMON):
        raise X.ExtractError('REFINE: ios_concat of prelude/transport.rs differs from the one of unit fusedevw')
    m = re.search(r"pub struct Writer<'a, S> \{.*?\n\}", t, re.S)
    if not m:
        raise X.ExtractError('REFINE: abstract Writer struct not found in prelude/transport.rs')
    copied = [ren(m.group(0))]
    for name in ('emit_ok', 'may_reply', 'is_notify'):
        mm = re.search(r'pub uninterp spec fn %s\([^)]*\) -> bool;' % name, t)
        if not mm:
            raise X.ExtractError('REFINE: %s not found in prelude/transport.rs' % name)
        copied.append(mm.group(0))
    mm = re.search(r'pub const MAX_REPLY_CAP: usize = [^;]*;', t)
    copied.append(mm.group(0))
    mm = re.search(r"pub open spec fn commit_bytes<'a, S>.*?\n\}", t, re.S)
    if not mm:
        raise X.ExtractError('REFINE: commit_bytes not found')
    commit_bytes = ren(mm.group(0))
    j = t.index("impl<'a, S: BitmapSlice> Writer<'a, S> {")
    ob = t.index('{', j)
    cb = X.match_close(msk, ob)
    body, bmsk = t[ob + 1:cb], msk[ob + 1:cb]
    specs = []
    for sm in re.finditer(r'pub open spec fn \w+', bmsk):
        k = bmsk.index('{', sm.start())
        specs.append(body[sm.start():X.match_close(bmsk, k) + 1])
    copied.append("impl<'a, S: BitmapSlice> AbsWriter<'a, S> {\n    " + '\n    '.join(ren(s) for s in specs) + '\n}')
    copied.append(commit_bytes)
    gen, ops = [], []
    for fm in re.finditer(r'pub fn (\w+)\s*(<[^>(]*>)?\s*\(\s*(&mut self|&self)\s*(?:,\s*([^)]*?))?\)\s*->\s*\(r:\s*(.*?)\)\s*(?=requires\b|ensures\b|\{)', bmsk, re.S):
        name, gens, recv = fm.group(1), fm.group(2), fm.group(3)
        params = body[fm.start(4):fm.end(4)].strip() if fm.group(4) else ''
        ret = body[fm.start(5):fm.end(5)].strip()
        e = bmsk.index('{ unimplemented!() }', fm.end())
        hdr = re.sub(r'//[^\n]*', '', body[fm.end():e])
        rq = re.search(r'\brequires\b(.*?)(?=\bensures\b|$)', hdr, re.S)
        en = re.search(r'\bensures\b(.*)$', hdr, re.S)

        def conv(cl):
            cl = cl.replace('old(self)', 'pre').replace('final(self)', 'post')
            cl = re.sub(r'\bself\b', 'pre', cl)
            return ren(cl)
        reqs = [conv(c) for c in _split_clauses(rq.group(1))] if rq else []
        enss = [conv(c) for c in _split_clauses(en.group(1))] if en else []
        g = "<'a, S: BitmapSlice%s>" % ((', ' + gens.strip()[1:-1]) if gens else '')
        ps = ren(params)
        sep = ', ' if ps else ''
        gen.append("pub open spec fn abs_%s_req%s(pre: &AbsWriter<'a, S>%s%s) -> bool {\n    %s\n}" % (
            name, g, sep, ps, '\n    '.join('&&& (%s)' % c for c in reqs) if reqs else 'true'))
        post = '' if recv == '&self' else "post: &AbsWriter<'a, S>, "
        gen.append("pub open spec fn abs_%s_ens%s(pre: &AbsWriter<'a, S>, %s%s%sr: %s) -> bool {\n    %s\n}" % (
            name, g, post, ps, sep, ren(ret), '\n    '.join('&&& (%s)' % c for c in enss) if enss else 'true'))
        ops.append(name)
    want = ['bytes_written', 'available_bytes', 'write', 'write_all', 'write_obj', 'write_vectored', 'split_at', 'commit']
    if ops != want:
        raise X.ExtractError('REFINE: operations of the abstract Writer are %r, the wrappers cover %r' % (ops, want))
    return copied, gen, ops


REFINE_HAND = r'''
// [frame] of the server level: its definition (header length / unique / error sign) plays no role in the refinement
pub uninterp spec fn wire_ok(id: int, b: Seq<u8>) -> bool;
// ---- abstraction relation
pub open spec fn rel<'a, S: BitmapSlice>(a: &AbsWriter<'a, S>, w: &FuseDevWriter<'a, S>) -> bool {
    a.buf@.len() == w.buf@.len() && (w.buffered ==> a.buf@ == w.buf@) && a.cap@ == w.cap() && a.buffered@ == w.buffered
}
pub open spec fn link<'a, S: BitmapSlice>(a: &AbsWriter<'a, S>, fd: RawFd) -> bool {
    forall|b: Seq<u8>| a.emit_pre_once() && may_reply(a.id@) && wire_ok(a.id@, b) && emit_ok(a.id@, b) ==> #[trigger] dev_write_ok(fd, b)
}
pub open spec fn dev_writes(fd: RawFd, e: Seq<Seq<u8>>) -> Seq<DevWrite> { Seq::new(e.len(), |i: int| DevWrite { fd: fd, bytes: e[i] }) }
// the device log grows by exactly the byte strings the abstract writer records as emitted, ONE device write on `fd` for each
pub open spec fn log_grew(l0: Seq<DevWrite>, l1: Seq<DevWrite>, fd: RawFd, e0: Seq<Seq<u8>>, e1: Seq<Seq<u8>>) -> bool {
    e0.len() <= e1.len() && e1.take(e0.len() as int) =~= e0 && l1 =~= l0 + dev_writes(fd, e1.skip(e0.len() as int))
}
pub open spec fn abs_other<'b, 'a, S: BitmapSlice>(ao: &'b Option<AbsWriter<'a, S>>) -> Option<&'b AbsWriter<'a, S>> {
    match ao { Some(x) => Some(x), None => None }
}
// the second writer handed to commit: the abstract one stands for a FuseDev writer with the same bytes; a virtio-fs writer (which the
// real commit ignores) has no abstract counterpart
pub open spec fn rel_other<'a, S: BitmapSlice>(ao: &Option<AbsWriter<'a, S>>, other: Option<&Writer<'a, S>>) -> bool {
    match other { Some(Writer::FuseDev(cw)) => ao is Some && ao->Some_0.buf@ == cw.buf@, _ => ao is None }
}
pub proof fn lemma_log_same(l: Seq<DevWrite>, fd: RawFd, e: Seq<Seq<u8>>) ensures log_grew(l, l, fd, e, e)
{ assert(e.skip(e.len() as int) =~= Seq::<Seq<u8>>::empty()); assert(dev_writes(fd, e.skip(e.len() as int)) =~= Seq::<DevWrite>::empty()); }
pub proof fn lemma_log_push(l: Seq<DevWrite>, fd: RawFd, e: Seq<Seq<u8>>, b: Seq<u8>) ensures log_grew(l, l.push(DevWrite { fd: fd, bytes: b }), fd, e, e.push(b))
{ assert(e.push(b).skip(e.len() as int) =~= seq![b]); assert(dev_writes(fd, seq![b]) =~= seq![DevWrite { fd: fd, bytes: b }]); assert(e.push(b).take(e.len() as int) =~= e); }

pub fn refine_bytes_written<'a, S: BitmapSlice>(w: &FuseDevWriter<'a, S>, Ghost(a0): Ghost<AbsWriter<'a, S>>) -> (r: usize)
    requires rel(&a0, w), abs_bytes_written_req(&a0),
    ensures abs_bytes_written_ens(&a0, r), // [C01.refine.bytes_written]
{ w.bytes_written() }
pub fn refine_available_bytes<'a, S: BitmapSlice>(w: &FuseDevWriter<'a, S>, Ghost(a0): Ghost<AbsWriter<'a, S>>) -> (r: usize)
    requires rel(&a0, w), abs_available_bytes_req(&a0),
    ensures abs_available_bytes_ens(&a0, r), // [C01.refine.available_bytes]
{ broadcast use axiom_capacity_bound; w.available_bytes() }

pub fn refine_write<'a, S: BitmapSlice>(w: &mut FuseDevWriter<'a, S>, data: &[u8], Tracked(dl): Tracked<&mut DevLog>, Ghost(a0): Ghost<AbsWriter<'a, S>>)
    -> (res: (io::Result<usize>, Ghost<AbsWriter<'a, S>>))
    requires rel(&a0, old(w)), link(&a0, old(w).fd), abs_write_req(&a0, data),
    ensures rel(&res.1@, final(w)), // [C01.refine.write.rel]
            abs_write_ens(&a0, &res.1@, data, res.0), // [C01.refine.write.contract]
            log_grew(old(dl).log, final(dl).log, old(w).fd, a0.emitted@, res.1@.emitted@), // [C01.refine.write.device]
{
    let r = w.write(data, Tracked(dl));
    let ghost a1 = AbsWriter { id: a0.id, buf: Ghost(if r is Ok { a0.buf@ + data@ } else { a0.buf@ }), cap: a0.cap, buffered: a0.buffered, primary: a0.primary,
        emitted: Ghost(if r is Ok && !a0.buffered@ { a0.emitted@.push(data@) } else { a0.emitted@ }), p: PhantomData };
    proof { lemma_log_same(old(dl).log, old(w).fd, a0.emitted@); lemma_log_push(old(dl).log, old(w).fd, a0.emitted@, data@); }
    (r, Ghost(a1))
}
pub fn refine_write_all<'a, S: BitmapSlice>(w: &mut FuseDevWriter<'a, S>, data: &[u8], Tracked(dl): Tracked<&mut DevLog>, Ghost(a0): Ghost<AbsWriter<'a, S>>)
    -> (res: (io::Result<()>, Ghost<AbsWriter<'a, S>>))
    requires rel(&a0, old(w)), link(&a0, old(w).fd), abs_write_all_req(&a0, data),
    ensures rel(&res.1@, final(w)), // [C01.refine.write_all.rel]
            abs_write_all_ens(&a0, &res.1@, data, res.0), // [C01.refine.write_all.contract]
            log_grew(old(dl).log, final(dl).log, old(w).fd, a0.emitted@, res.1@.emitted@), // [C01.refine.write_all.device]
{
    let r = w.write_all(data, Tracked(dl));
    let ghost a1 = AbsWriter { id: a0.id, buf: Ghost(if r is Ok { a0.buf@ + data@ } else { a0.buf@ }), cap: a0.cap, buffered: a0.buffered, primary: a0.primary,
        emitted: Ghost(if r is Ok && !a0.buffered@ && data@.len() > 0 { a0.emitted@.push(data@) } else { a0.emitted@ }), p: PhantomData };
    proof { lemma_log_same(old(dl).log, old(w).fd, a0.emitted@); lemma_log_push(old(dl).log, old(w).fd, a0.emitted@, data@); }
    (r, Ghost(a1))
}
pub fn refine_write_obj<'a, S: BitmapSlice, T: ByteValued>(w: &mut FuseDevWriter<'a, S>, val: T, Tracked(dl): Tracked<&mut DevLog>, Ghost(a0): Ghost<AbsWriter<'a, S>>)
    -> (res: (io::Result<()>, Ghost<AbsWriter<'a, S>>))
    requires rel(&a0, old(w)), link(&a0, old(w).fd), abs_write_obj_req(&a0, val),
    ensures rel(&res.1@, final(w)), // [C01.refine.write_obj.rel]
            abs_write_obj_ens(&a0, &res.1@, val, res.0), // [C01.refine.write_obj.contract]
            log_grew(old(dl).log, final(dl).log, old(w).fd, a0.emitted@, res.1@.emitted@), // [C01.refine.write_obj.device]
{
    broadcast use axiom_sbytes_len;
    let r = w.write_obj(val, Tracked(dl));
    let ghost a1 = AbsWriter { id: a0.id, buf: Ghost(if r is Ok { a0.buf@ + val.sbytes() } else { a0.buf@ }), cap: a0.cap, buffered: a0.buffered, primary: a0.primary,
        emitted: a0.emitted, p: PhantomData };
    proof { lemma_log_same(old(dl).log, old(w).fd, a0.emitted@); }
    (r, Ghost(a1))
}
pub fn refine_write_vectored<'a, S: BitmapSlice>(w: &mut FuseDevWriter<'a, S>, bufs: &[IoSlice<'_>], Tracked(dl): Tracked<&mut DevLog>, Ghost(a0): Ghost<AbsWriter<'a, S>>)
    -> (res: (io::Result<usize>, Ghost<AbsWriter<'a, S>>))
    requires rel(&a0, old(w)), link(&a0, old(w).fd), abs_write_vectored_req(&a0, bufs),
             // NOT in the abstract contract: the real code adds the slice lengths up in a usize
             ios_concat(bufs@).len() <= usize::MAX, // [C01.refine.gap.write_vectored.total_representable]
    ensures rel(&res.1@, final(w)), // [C01.refine.write_vectored.rel]
            abs_write_vectored_ens(&a0, &res.1@, bufs, res.0), // [C01.refine.write_vectored.contract]
            log_grew(old(dl).log, final(dl).log, old(w).fd, a0.emitted@, res.1@.emitted@), // [C01.refine.write_vectored.device]
{
    let r = w.write_vectored(bufs, Tracked(dl));
    let ghost a1 = AbsWriter { id: a0.id, buf: Ghost(if r is Ok { a0.buf@ + ios_concat(bufs@) } else { a0.buf@ }), cap: a0.cap, buffered: a0.buffered, primary: a0.primary,
        emitted: Ghost(if r is Ok && !a0.buffered@ && bufs@.len() > 0 { a0.emitted@.push(ios_concat(bufs@)) } else { a0.emitted@ }), p: PhantomData };
    proof { lemma_log_same(old(dl).log, old(w).fd, a0.emitted@); lemma_log_push(old(dl).log, old(w).fd, a0.emitted@, ios_concat(bufs@)); }
    (r, Ghost(a1))
}
pub fn refine_split_at<'a, S: BitmapSlice>(w: &mut FuseDevWriter<'a, S>, offset: usize, Ghost(a0): Ghost<AbsWriter<'a, S>>)
    -> (res: (Result<FuseDevWriter<'a, S>>, Ghost<AbsWriter<'a, S>>, Ghost<Result<AbsWriter<'a, S>>>))
    requires rel(&a0, old(w)), abs_split_at_req(&a0, offset),
             // NOT in the abstract contract: after an UNBUFFERED write the real buffer holds the right number of bytes but not the data
             // (set_len over memory that was never written), and split_at makes both halves buffered
             old(w).buffered || old(w).buf@.len() == 0, // [C01.refine.gap.split_at.after_unbuffered_write]
    ensures rel(&res.1@, final(w)), // [C01.refine.split_at.rel]
            abs_split_at_ens(&a0, &res.1@, offset, res.2@), // [C01.refine.split_at.contract]
            res.0 is Ok <==> res.2@ is Ok,
            res.0 is Ok ==> rel(&res.2@->Ok_0, &res.0->Ok_0) && res.0->Ok_0.fd == old(w).fd, // [C01.refine.split_at.rel]
{
    let r = w.split_at(offset);
    let ghost lo = if a0.buf@.len() > offset { a0.buf@.subrange(0, offset as int) } else { a0.buf@ };
    let ghost hi = if a0.buf@.len() > offset { a0.buf@.subrange(offset as int, a0.buf@.len() as int) } else { Seq::<u8>::empty() };
    let ghost a1 = if r is Ok { AbsWriter { id: a0.id, buf: Ghost(lo), cap: Ghost(offset as nat), buffered: Ghost(true), primary: Ghost(a0.primary@ && offset != 0), emitted: a0.emitted, p: PhantomData } } else { a0 };
    let ghost ar: Result<AbsWriter<'a, S>> = if r is Ok {
        Ok(AbsWriter { id: a0.id, buf: Ghost(hi), cap: Ghost((a0.cap@ - offset) as nat), buffered: Ghost(true), primary: Ghost(a0.primary@ && offset == 0), emitted: Ghost(Seq::empty()), p: PhantomData })
    } else { Err(r->Err_0) };
    proof {
        if r is Ok {
            let p = w.buf@; let c = r->Ok_0.buf@;
            assert(p + c =~= old(w).buf@);
            assert(p =~= (p + c).subrange(0, p.len() as int));
            assert(c =~= (p + c).subrange(p.len() as int, (p + c).len() as int));
            assert(a0.buf@ =~= old(w).buf@);
            assert(p =~= lo); assert(c =~= hi);
        }
    }
    (r, Ghost(a1), Ghost(ar))
}
pub fn refine_commit<'a, S: BitmapSlice>(w: &mut FuseDevWriter<'a, S>, other: Option<&Writer<'a, S>>, Tracked(dl): Tracked<&mut DevLog>,
                                          Ghost(a0): Ghost<AbsWriter<'a, S>>, Ghost(ao): Ghost<Option<AbsWriter<'a, S>>>)
    -> (res: (io::Result<usize>, Ghost<AbsWriter<'a, S>>))
    requires rel(&a0, old(w)), link(&a0, old(w).fd), rel_other(&ao, other), abs_commit_req(&a0, abs_other(&ao)),
    ensures rel(&res.1@, final(w)), // [C01.refine.commit.rel]
            abs_commit_ens(&a0, &res.1@, abs_other(&ao), res.0), // [C01.refine.commit.contract]
            log_grew(old(dl).log, final(dl).log, old(w).fd, a0.emitted@, res.1@.emitted@), // [C01.refine.commit.device]
{
    proof { assert(old(w).buffered ==> commit_bytes(&a0, abs_other(&ao)) =~= old(w).buf@ + other_bytes(other)); }
    let r = w.commit(other, Tracked(dl));
    let ghost cbytes = commit_bytes(&a0, abs_other(&ao));
    let ghost a1 = AbsWriter { id: a0.id, buf: a0.buf, cap: a0.cap, buffered: a0.buffered, primary: a0.primary,
        emitted: Ghost(if r is Ok && a0.buffered@ && cbytes.len() > 0 { a0.emitted@.push(cbytes) } else { a0.emitted@ }), p: PhantomData };
    proof { lemma_log_same(old(dl).log, old(w).fd, a0.emitted@); lemma_log_push(old(dl).log, old(w).fd, a0.emitted@, cbytes); }
    (r, Ghost(a1))
}
'''


def refinement_items():
    copied, gen, ops = abstract_writer_text()
    return [Raw('// ===== REFINE (C01): abstract Writer copied from prelude/transport.rs (renamed AbsWriter)\n' + '\n'.join(copied)),
            Raw('// ===== REFINE: abstract contracts as spec functions (generated from the prelude text)\n' + '\n'.join(gen)),
            Raw(REFINE_HAND)]
