"""Unit `fhandle` (C15 + C05): src/passthrough/file_handle.rs and src/passthrough/mount_fd.rs on their real text.

C15 (descriptors)  every descriptor these two files open is handed to the caller (OpenableFileHandle::open), kept as THE one long-lived
                   descriptor of its mount id (the `file` of the MountFd the table entry points to), kept as the table's own mountinfo
                   descriptor (MountFds::new), or closed again on every path including every error path (the O_PATH probe of MountFds::get:
                   defect D14).  At most one live MountFd per mount id; the table entry disappears with the last Arc<MountFd>.
C05 (host calls)   FileHandle::from_name_at = name_to_handle_at(dirfd, name, buffer of 0 bytes, &mount id, AT_EMPTY_PATH), then - only on
                   EOVERFLOW - once more with a buffer of exactly the size the kernel asked for; EOPNOTSUPP -> Ok(None), any other errno ->
                   Err(that errno); the handle returned is what the kernel wrote.  OpenableFileHandle::open = open_by_handle_at(the mount's
                   descriptor, exactly that handle, exactly the flags) once.  MountFds::get = open(mount root, O_PATH), statx of THAT
                   descriptor, mount id compared, only regular files / directories, re-open through the callback with exactly
                   O_RDONLY | O_NOFOLLOW | O_CLOEXEC and the st_mode statx reported.  Raw buffer code: every place that hands the
                   flexible-array struct to the kernel or slices it proves handle_bytes <= allocated bytes.

MODEL (everything below is an ASSUMPTION visible in the generated file / assumption scan)
  Host token (ghost, rule R23)  `open`: the descriptors open in this process; `errno`; `calls`: the host calls of this request (number, return
        value, errno, what the kernel wrote); the HEAP as far as the MountFds table is concerned: `tbl` = contents of MountFds::map (mount id
        -> allocation id the stored Weak<MountFd> points to), `tbl_alive` (a strong reference to the table exists), `strong` (strong count of
        every MountFd allocation ever made).  `heap_val::<MountFd>(a)` = the immutable contents of allocation a.
        INVARIANT `inv`: every entry points to a live MountFd of exactly that mount id whose descriptor is open; every live MountFd is THE
        entry of its mount id (=> at most one long-lived descriptor per mount id); no descriptor is owned by two live MountFds.
  H1 host calls (module `sys`, File::open, the re-open callback): a successful opening call returns a descriptor that was NOT open and adds it,
     nothing else changes `open`; a failing call changes only errno; errno(3).  name_to_handle_at(2): returns 0 or -1; on success handle_bytes
     is at most the size passed and the mount id is non-negative; a failed call leaves handle_type and f_handle alone.  NOT assumed (K1): that
     the size reported on EOVERFLOW is at most MAX_HANDLE_SZ - see the finding in the report.  File drop = close(2) of exactly its descriptor.
  H2 Arc<T> / Weak<T> (own model types, Deref to the contents): allocation identity `aid`, contents `val`; Weak::upgrade succeeds iff the strong
     count is > 0 and then adds one; Weak::strong_count reads it; Arc::new_mountfd = fresh allocation with count 1; Arc::into_inner = std's
     (count - 1, the value iff it was the last).  There is ONE table (the MountFds of the server): every RwLock<HashMap<MountId, Weak<MountFd>>>
     and every Weak to it denote that table.  RwLock / Mutex never poisoned; no lock ordering.
  H2r sequential EXCEPT for one interference (raced_insert): while the request did not hold the lock, a concurrent MountFds::get for the SAME mount id
     (`focus`), which had no live entry, completed and placed its own fresh live MountFd; it becomes visible when the write lock is taken, at most
     once per request.  These are the two windows the comments of MountFds::get and Drop::drop discuss; without it the re-check under the write lock
     and the strong_count test of Drop would be dead code for the proof.  All other interleavings are out of scope.
  H3 D1 "Rust calls <MountFd as Drop>::drop and then drops the fields when the last Arc<MountFd> goes away" is the BODY of the verified wrapper
     vx_drop_arc_mountfd (Arc::into_inner, drop, drop of `file`); its effect on table and descriptors is proved, not assumed.
  H4 FamStructWrapper<CFileHandleInner> (vmm-sys-util): view = (allocated f_handle bytes, handle_bytes, handle_type, bytes); new(n) is Ok iff
     n <= max_len() (the last argument of generate_fam_struct_impl!, read from the macro invocation by the unit) and allocates n zeroed bytes.
     __IncompleteArrayField::{as_ptr, as_slice} (raw pointer casts): contract-only, as_slice(len) REQUIRES len <= allocated bytes.
  H5 contract-only: MountFds::get_mount_root (mountinfo parsing: Mutex<File> + Seek/Read + str::split / find_map / parse / nth / strip_prefix -
     no Verus specifications for the str and iterator adapters): touches no descriptor, Ok(s) => s is "the mount root of that id"
     (uninterpreted `root_path`); statx (src/passthrough/statx.rs, its translation is unit ptstatx): one statx call on the given descriptor.
  H6 rules R53f, R55f, R51f, R58-R63 (vx/fhrules.py), R51 (vx/ptopsrules.py) preserve meaning; unwinding is not modelled.
"""
import os
import re

from vx.api import Unit, Fn, Copy, Raw, Group
from vx import extract as X
from vx import ptopsrules as PR
from vx import fhrules as FR

FH = 'src/passthrough/file_handle.rs'
MFD = 'src/passthrough/mount_fd.rs'
UTIL = 'src/passthrough/util.rs'
STATX = 'src/passthrough/statx.rs'
HERE = os.path.dirname(os.path.abspath(__file__))

TOK = dict(param='Tracked(hs): Tracked<&mut Host>', arg='Tracked(hs)')
NR_N2H, NR_OBH, NR_OPEN, NR_STATX, NR_CB, NR_FOPEN = 1, 2, 3, 4, 5, 6


def _slice(text, start, end, what):
    a = text.find(start)
    b = text.find(end, a + 1) if a >= 0 else -1
    if a < 0 or b < 0:
        raise X.ExtractError('model text %s not found (markers %r .. %r)' % (what, start, end))
    return text[a:b]


def _stdmodel():
    return open(os.path.join(os.path.dirname(HERE), 'prelude', 'stdmodel.rs')).read()


def fam_macro_args(root):
    """the arguments of `vmm_sys_util::generate_fam_struct_impl!(..)` in file_handle.rs: the model of FamStructWrapper<CFileHandleInner> is
    generated from them (length field, max_len)"""
    src = X.Source(root, FH)
    ms = list(re.finditer(r'\bgenerate_fam_struct_impl!\s*\(', src.msk))
    if len(ms) != 1:
        raise X.ExtractError('generate_fam_struct_impl! invoked %d times in %s' % (len(ms), FH))
    ob = ms[0].end() - 1
    cb = X.match_close(src.msk, ob)
    args = [X.norm_ws(a) for a in X.split_top(src.src[ob + 1:cb]) if a.strip()]
    if len(args) != 6 or args[0] != 'CFileHandleInner' or args[2] != 'f_handle' or args[4] != 'handle_bytes':
        raise X.ExtractError('generate_fam_struct_impl! has unexpected arguments: %r' % (args,))
    if not re.match(r'^[A-Z_][A-Z0-9_]*$|^\d+$', args[5]):
        raise X.ExtractError('generate_fam_struct_impl!: max_len is not a constant: %r' % args[5])
    return args


PRE = r'''
use std::ops::Deref;
use std::cmp::Ordering;
pub type RawFd = i32;
%(CSTR)s
%(STAT)s
// ===== descriptors: a File is known by its descriptor number
#[verifier::external_body] pub struct File { _p: u8 }
#[verifier::external_body] pub struct BorrowedFd<'a> { _p: PhantomData<&'a u8> }
pub trait AsRawFd {
    spec fn sfd(&self) -> i32;
    fn as_raw_fd(&self) -> (r: RawFd) ensures r == self.sfd();
}
impl AsRawFd for File {
    uninterp spec fn sfd(&self) -> i32;
    #[verifier::external_body] fn as_raw_fd(&self) -> (r: RawFd) { unimplemented!() }
}
impl<'a> AsRawFd for BorrowedFd<'a> {
    uninterp spec fn sfd(&self) -> i32;
    #[verifier::external_body] fn as_raw_fd(&self) -> (r: RawFd) { unimplemented!() }
}
impl AsRawFd for i32 {                              // std: `impl AsRawFd for RawFd`
    open spec fn sfd(&self) -> i32 { *self }
    fn as_raw_fd(&self) -> (r: RawFd) { *self }
}
pub trait AsFd {
    spec fn fd_spec(&self) -> i32;
    fn as_fd(&self) -> (r: BorrowedFd<'_>) ensures r.sfd() == self.fd_spec();
}
impl AsFd for File {
    open spec fn fd_spec(&self) -> i32 { self.sfd() }
    #[verifier::external_body] fn as_fd(&self) -> (r: BorrowedFd<'_>) { unimplemented!() }
}
// ===== what the kernel keeps in / writes to a `struct file_handle` buffer
pub ghost struct FhView { pub cap: nat, pub handle_bytes: u32, pub handle_type: i32, pub bytes: Seq<i8> }     // cap = bytes allocated for f_handle[]
// ===== the host as THIS request sees it (ghost token, rule R23)
pub ghost struct Ret { pub nr: int, pub ret: int, pub errno: i32, pub out: FhView, pub mnt: i32, pub stx_mnt: u64, pub stx_mode: u32, pub code: Option<i32> }
pub tracked struct Host {
    pub ghost open: Set<int>,                 // descriptors open in this process
    pub ghost errno: i32,                     // the thread's errno
    pub ghost calls: Seq<Ret>,                // the host calls of this request so far
    pub ghost tbl: Map<u64, int>,             // MountFds::map: mount id -> allocation the stored Weak<MountFd> points to
    pub ghost tbl_alive: bool,                // the table itself (Arc<RwLock<HashMap>>) has a strong reference: the MountFds value exists
    pub ghost strong: Map<int, nat>,          // strong count of every MountFd allocation ever made
    pub ghost raced: bool,                    // a concurrent MountFds::get placed an entry between two lock acquisitions of this request (H2r)
    pub ghost focus: u64,                     // the mount id this request works on: the only key the modelled interference touches (H2r)
}
pub uninterp spec fn heap_val<T>(aid: int) -> T;               // the (immutable) contents of allocation `aid`
pub open spec fn mid_of(a: int) -> u64 { heap_val::<MountFd>(a).mount_id }
pub open spec fn fd_of(a: int) -> int { heap_val::<MountFd>(a).file.sfd() as int }
impl Host {
    pub open spec fn sc(&self, a: int) -> nat { if self.strong.contains_key(a) { self.strong[a] } else { 0nat } }
    // INVARIANT of the mount-fd table (at rest, i.e. outside Drop):
    pub open spec fn inv(&self) -> bool {
        self.tbl_alive
        // every entry points to a LIVE MountFd of exactly that mount id whose descriptor is open
        && (forall|k: u64| #[trigger] self.tbl.contains_key(k) ==> self.strong.contains_key(self.tbl[k]) && self.strong[self.tbl[k]] > 0 && mid_of(self.tbl[k]) == k && self.open.contains(fd_of(self.tbl[k])))
        // every live MountFd is THE entry of its mount id: at most one long-lived descriptor per mount id
        && (forall|a: int| #[trigger] self.strong.contains_key(a) && self.strong[a] > 0 ==> self.tbl.contains_key(mid_of(a)) && self.tbl[mid_of(a)] == a)
        // no descriptor is owned by two live MountFds
        && (forall|a: int, b: int| #[trigger] self.strong.contains_key(a) && #[trigger] self.strong.contains_key(b) && self.strong[a] > 0 && self.strong[b] > 0 && a != b ==> fd_of(a) != fd_of(b))
    }
}
pub open spec fn heap_same(o: Host, n: Host) -> bool { n.tbl == o.tbl && n.tbl_alive == o.tbl_alive && n.strong == o.strong && n.raced == o.raced && n.focus == o.focus }
// a model operation that changes only the strong counts / only the table
pub open spec fn only_strong(o: Host, n: Host) -> bool { n.tbl == o.tbl && n.tbl_alive == o.tbl_alive && n.raced == o.raced && n.focus == o.focus && n.open == o.open && n.calls == o.calls && n.errno == o.errno }
pub open spec fn only_tbl(o: Host, n: Host) -> bool { n.strong == o.strong && n.tbl_alive == o.tbl_alive && n.raced == o.raced && n.focus == o.focus && n.open == o.open && n.calls == o.calls && n.errno == o.errno }
// H2r THE ONE INTERFERENCE MODELLED: while this request did not hold the table's lock, a concurrent MountFds::get(k) of another thread completed for the very
// mount id k this request works on (`focus`), which had no live entry: it placed a fresh live MountFd x (with its own, newly opened descriptor) under k.  It
// becomes visible when the WRITE lock is taken.  These are the two windows the comments in MountFds::get and <MountFd as Drop>::drop discuss.  At most once
// per request; everything else is sequential.
pub open spec fn raced_insert(o: Host, n: Host, k: u64) -> bool {
    let x = n.tbl[k];
    !o.raced && n.raced && (!o.tbl.contains_key(k) || o.sc(o.tbl[k]) == 0)
    && n.tbl == o.tbl.insert(k, x) && !o.strong.contains_key(x) && n.strong == o.strong.insert(x, n.strong[x]) && n.strong[x] > 0
    && mid_of(x) == k && !o.open.contains(fd_of(x)) && n.open == o.open.insert(fd_of(x))
    && n.tbl_alive == o.tbl_alive && n.calls == o.calls && n.errno == o.errno && n.focus == o.focus
}
pub open spec fn fds_same(o: Host, n: Host) -> bool { n.open == o.open }
// a host call: recorded with its result; a successful call leaves errno alone (errno(3)), a failing one sets it
pub open spec fn step(o: Host, n: Host, nr: int, r: int) -> bool {
    n.calls == o.calls.push(n.calls.last()) && n.calls.last().nr == nr && n.calls.last().ret == r && n.calls.last().errno == n.errno
    && (r >= 0 ==> n.errno == o.errno) && heap_same(o, n)
}
// an opening call: on success the descriptor returned was not open before and is the only change
pub open spec fn opened(o: Host, n: Host, r: int) -> bool {
    if r >= 0 { !o.open.contains(r) && n.open == o.open.insert(r) } else { n.open == o.open }
}
pub uninterp spec fn cstr_at(p: *const i8) -> Seq<u8>;          // the C string stored at p
impl CStr { #[verifier::external_body] pub fn as_ptr(&self) -> (r: *const i8) ensures cstr_at(r) == self@ { unimplemented!() } }
#[verifier::external_body] pub fn empty_cstr() -> (r: &'static CStr) ensures r@ =~= Seq::<u8>::empty() { unimplemented!() }     // b"\0"
#[verifier::external_body] pub struct CString { _p: u8 }
#[verifier::external_body] #[derive(Debug)] pub struct NulError { _p: u8 }
pub uninterp spec fn str_bytes(s: String) -> Seq<u8>;
impl CString {
    pub uninterp spec fn view(&self) -> Seq<u8>;
    #[verifier::external_body] pub fn new(s: String) -> (r: core::result::Result<CString, NulError>) ensures r is Ok ==> r->Ok_0@ == str_bytes(s) { unimplemented!() }
    #[verifier::external_body] pub fn as_ptr(&self) -> (r: *const i8) ensures cstr_at(r) == self@ { unimplemented!() }
}
#[verifier::external_body] pub fn vx_string_clone(s: &String) -> (r: String) ensures r == *s { unimplemented!() }
#[verifier::external_body] pub fn fmt_opaque() -> String { unimplemented!() }
impl io::Error {
    #[verifier::external_body] pub fn from_kind(k: io::ErrorKind) -> (r: io::Error) ensures r.skind() == k, r.os_code() is None { unimplemented!() }     // impl From<ErrorKind> for Error
}
// ===== capabilities: which host call a function may make (granted by the `requires` of the function under contract)
pub uninterp spec fn n2h_ok(dirfd: i32, path: Seq<u8>, buf_bytes: u32, flags: i32, before: Seq<Ret>) -> bool;
pub uninterp spec fn obh_ok(mount_fd: i32, handle: FhView, flags: i32, before: Seq<Ret>) -> bool;
pub uninterp spec fn open_ok(path: Seq<u8>, flags: i32, before: Seq<Ret>) -> bool;
pub uninterp spec fn statx_ok(fd: i32, before: Seq<Ret>) -> bool;
pub uninterp spec fn reopen_cb_ok(fd: i32, flags: i32, mode: u32, before: Seq<Ret>) -> bool;
pub uninterp spec fn file_open_ok(path: Seq<char>) -> bool;
pub mod sys {
    use super::*;
    // name_to_handle_at(2).  The kernel takes handle_bytes as the size of f_handle[]: that many bytes must be allocated.
    #[verifier::external_body] pub fn name_to_handle_at(dirfd: i32, pathname: *const i8, file_handle: &mut CFileHandleWrapper, mount_id: &mut i32, flags: i32, Tracked(hs): Tracked<&mut Host>) -> (r: i32)
        requires n2h_ok(dirfd, cstr_at(pathname), old(file_handle)@.handle_bytes, flags, old(hs).calls), // [C05.hostcall.name_to_handle_at] only the call(s) from_name_at prescribes, with exactly these arguments
                 old(file_handle)@.handle_bytes as nat <= old(file_handle)@.cap, // [C05.fh.buf.n2h_in_bounds] the kernel may write handle_bytes bytes behind the header
        ensures r == 0 || r == -1, step(*old(hs), *final(hs), %(NR_N2H)d, r as int), fds_same(*old(hs), *final(hs)),
                final(hs).calls.last().out == final(file_handle)@, final(hs).calls.last().mnt == *final(mount_id),
                final(file_handle)@.cap == old(file_handle)@.cap,
                r == 0 ==> final(file_handle)@.handle_bytes <= old(file_handle)@.handle_bytes && *final(mount_id) >= 0,
                r == -1 ==> final(file_handle)@.handle_type == old(file_handle)@.handle_type && final(file_handle)@.bytes == old(file_handle)@.bytes,
                %(K1_CLAUSE)s
    { unimplemented!() }
    // open_by_handle_at(2): reads handle_bytes bytes of f_handle
    #[verifier::external_body] pub fn open_by_handle_at(mount_fd: i32, file_handle: &CFileHandleWrapper, flags: i32, Tracked(hs): Tracked<&mut Host>) -> (r: i32)
        requires obh_ok(mount_fd, file_handle@, flags, old(hs).calls), // [C05.hostcall.open_by_handle_at] the mount's descriptor, exactly that handle, exactly the flags given
                 file_handle@.handle_bytes as nat <= file_handle@.cap, // [C05.fh.buf.obh_in_bounds] the kernel reads handle_bytes bytes behind the header
                 old(hs).open.contains(mount_fd as int), // [C15.fh.open.mount_fd_is_open] the mount descriptor is still open
        ensures step(*old(hs), *final(hs), %(NR_OBH)d, r as int), opened(*old(hs), *final(hs), r as int), r >= -1,
    { unimplemented!() }
    #[verifier::external_body] pub fn open(path: *const i8, flags: i32, Tracked(hs): Tracked<&mut Host>) -> (r: i32)
        requires open_ok(cstr_at(path), flags, old(hs).calls), // [C05.hostcall.open] the mount point, O_PATH
        ensures step(*old(hs), *final(hs), %(NR_OPEN)d, r as int), opened(*old(hs), *final(hs), r as int), r >= -1,
    { unimplemented!() }
    // close(2): the descriptor is gone whatever close returns (close(2), "Dealing with error returns from close()")
    #[verifier::external_body] pub fn close(fd: i32, Tracked(hs): Tracked<&mut Host>) -> (r: i32)
        requires old(hs).open.contains(fd as int), // [C15.fh.close.is_open] a descriptor is closed once
        ensures final(hs).open == old(hs).open.remove(fd as int), heap_same(*old(hs), *final(hs)), final(hs).calls == old(hs).calls,
    { unimplemented!() }
    #[verifier::external_body] pub fn last_os_error(Tracked(hs): Tracked<&mut Host>) -> (r: io::Error)
        ensures *final(hs) == *old(hs), r.os_code() == Some(old(hs).errno),
    { unimplemented!() }
}
impl File {
    #[verifier::external_body] pub fn from_raw_fd(fd: RawFd) -> (r: File) ensures r.sfd() == fd { unimplemented!() }
    #[verifier::external_body] pub fn into_raw_fd(self) -> (r: RawFd) ensures r == self.sfd() { unimplemented!() }        // IntoRawFd: gives the descriptor up WITHOUT closing it
    #[verifier::external_body] pub fn open(path: &str, Tracked(hs): Tracked<&mut Host>) -> (r: io::Result<File>)
        requires file_open_ok(path@), // [C05.hostcall.file_open]
        ensures step(*old(hs), *final(hs), %(NR_FOPEN)d, if r is Ok { r->Ok_0.sfd() as int } else { -1int }), opened(*old(hs), *final(hs), if r is Ok { r->Ok_0.sfd() as int } else { -1int }),
                r is Ok ==> r->Ok_0.sfd() >= 0, r is Err ==> r->Err_0.os_code() == Some(final(hs).errno),
    { unimplemented!() }
}
// scope exit of a File value: close(2) of exactly its descriptor (made explicit by rule R53f)
#[verifier::external_body] pub fn vx_drop_file(f: File, Tracked(hs): Tracked<&mut Host>)
    requires old(hs).open.contains(f.sfd() as int), // [C15.fh.close.is_open] a descriptor is closed once
    ensures final(hs).open == old(hs).open.remove(f.sfd() as int), heap_same(*old(hs), *final(hs)), final(hs).calls == old(hs).calls, final(hs).errno == old(hs).errno,
{ unimplemented!() }
pub fn drop<T>(_x: T) {}                       // std::mem::drop of a value that owns no descriptor
// the FnOnce(RawFd, c_int, u32) -> io::Result<File> callback of MountFds::get / into_openable (rule R61)
pub trait ReopenFd: Sized {
    fn call_once(self, fd: RawFd, flags: i32, mode: u32, Tracked(hs): Tracked<&mut Host>) -> (r: io::Result<File>)
        requires reopen_cb_ok(fd, flags, mode, old(hs).calls), // [C05.hostcall.reopen_cb] re-open of the probed mount point: that descriptor, exactly O_RDONLY | O_NOFOLLOW | O_CLOEXEC, the mode statx reported
                 old(hs).open.contains(fd as int), // [C15.fh.reopen.fd_is_open] the descriptor handed to the callback is open
        ensures step(*old(hs), *final(hs), %(NR_CB)d, if r is Ok { r->Ok_0.sfd() as int } else { -1int }), opened(*old(hs), *final(hs), if r is Ok { r->Ok_0.sfd() as int } else { -1int }),
                r is Ok ==> r->Ok_0.sfd() >= 0, r is Err ==> r->Err_0.os_code() == final(hs).calls.last().code,
    ;
}
// src/passthrough/statx.rs::statx(fd, None): one statx(2) on the descriptor itself (contract-only here)
#[verifier::external_body] pub fn statx<D: AsRawFd>(dir: &D, path: Option<&CStr>, Tracked(hs): Tracked<&mut Host>) -> (r: io::Result<StatExt>)
    requires path is None, statx_ok(dir.sfd(), old(hs).calls), // [C05.hostcall.statx] statx of the descriptor just opened
             old(hs).open.contains(dir.sfd() as int), // [C15.fh.statx.fd_is_open]
    ensures step(*old(hs), *final(hs), %(NR_STATX)d, if r is Ok { 0int } else { -1int }), fds_same(*old(hs), *final(hs)),
            r is Ok ==> r->Ok_0.mnt_id == final(hs).calls.last().stx_mnt && r->Ok_0.st.st_mode == final(hs).calls.last().stx_mode,
            r is Err ==> r->Err_0.os_code() == Some(final(hs).errno),
{ unimplemented!() }
// ===== Arc / Weak: allocation identity + immutable contents (H2)
#[verifier::external_body] #[verifier::accept_recursive_types(T)] pub struct Arc<T> { _p: PhantomData<T> }
#[verifier::external_body] #[verifier::accept_recursive_types(T)] pub struct Weak<T> { _p: PhantomData<T> }
#[verifier::external_body] #[verifier::accept_recursive_types(T)] pub struct RwLock<T> { _p: PhantomData<T> }
#[verifier::external_body] #[verifier::accept_recursive_types(T)] pub struct Mutex<T> { _p: PhantomData<T> }
#[verifier::external_body] #[verifier::accept_recursive_types(K)] #[verifier::accept_recursive_types(V)] pub struct HashMap<K, V> { _p: PhantomData<(K, V)> }
#[verifier::external_body] #[verifier::accept_recursive_types(K)] pub struct HashSet<K> { _p: PhantomData<K> }
#[verifier::external_body] #[derive(Debug)] pub struct PoisonError { _p: u8 }
impl<T> Arc<T> {
    pub uninterp spec fn aid(&self) -> int;
    pub uninterp spec fn val(&self) -> T;
    #[verifier::external_body] pub fn new(v: T) -> (r: Self) ensures r.val() == v { unimplemented!() }
    #[verifier::external_body] pub fn downgrade(this: &Arc<T>) -> (r: Weak<T>) ensures r.aid() == this.aid() { unimplemented!() }
}
impl<T> Deref for Arc<T> {
    type Target = T;
    #[verifier::external_body] fn deref(&self) -> (r: &T) ensures *r == self.val() { unimplemented!() }
}
impl<T> Weak<T> { pub uninterp spec fn aid(&self) -> int; }
impl<T> core::default::Default for Arc<T> { #[verifier::external_body] fn default() -> (r: Self) { unimplemented!() } }     // a new, empty table / set
impl<T> Mutex<T> {
    pub uninterp spec fn val(&self) -> T;
    #[verifier::external_body] pub fn new(v: T) -> (r: Self) ensures r.val() == v { unimplemented!() }
}
impl Arc<MountFd> {
    // Arc::new of a MountFd (rule R60): a fresh allocation with strong count 1
    #[verifier::external_body] pub fn new_mountfd(v: MountFd, Tracked(hs): Tracked<&mut Host>) -> (r: Arc<MountFd>)
        ensures r.val() == v, heap_val::<MountFd>(r.aid()) == v, !old(hs).strong.contains_key(r.aid()), final(hs).strong == old(hs).strong.insert(r.aid(), 1nat),
                only_strong(*old(hs), *final(hs)),
    { unimplemented!() }
    // std Arc::into_inner: "Returns the inner value, if the Arc has exactly one strong reference. Otherwise None is returned and the Arc is dropped."
    #[verifier::external_body] pub fn into_inner(this: Arc<MountFd>, Tracked(hs): Tracked<&mut Host>) -> (r: Option<MountFd>)
        requires old(hs).sc(this.aid()) > 0,
        ensures final(hs).strong == old(hs).strong.insert(this.aid(), (old(hs).sc(this.aid()) - 1) as nat), r is Some <==> old(hs).sc(this.aid()) == 1, r is Some ==> r->Some_0 == this.val(),
                only_strong(*old(hs), *final(hs)),
    { unimplemented!() }
}
impl Weak<MountFd> {
    #[verifier::external_body] pub fn upgrade(&self, Tracked(hs): Tracked<&mut Host>) -> (r: Option<Arc<MountFd>>)
        ensures r is Some <==> old(hs).sc(self.aid()) > 0,
                r is Some ==> r->Some_0.aid() == self.aid() && r->Some_0.val() == heap_val::<MountFd>(self.aid()) && final(hs).strong == old(hs).strong.insert(self.aid(), old(hs).sc(self.aid()) + 1),
                r is None ==> final(hs).strong == old(hs).strong,
                only_strong(*old(hs), *final(hs)),
    { unimplemented!() }
    #[verifier::external_body] pub fn strong_count(&self, Tracked(hs): Tracked<&mut Host>) -> (r: usize)
        ensures r as nat == old(hs).sc(self.aid()), *final(hs) == *old(hs),
    { unimplemented!() }
}
impl Weak<RwLock<HashMap<MountId, Weak<MountFd>>>> {
    #[verifier::external_body] pub fn upgrade(&self, Tracked(hs): Tracked<&mut Host>) -> (r: Option<Arc<RwLock<HashMap<MountId, Weak<MountFd>>>>>)
        ensures r is Some <==> old(hs).tbl_alive, *final(hs) == *old(hs),
    { unimplemented!() }
}
// the table behind its lock: the guards are capabilities, the contents live in the token
#[verifier::external_body] pub struct TblRead<'a> { _p: PhantomData<&'a u8> }
#[verifier::external_body] pub struct TblWrite<'a> { _p: PhantomData<&'a u8> }
impl RwLock<HashMap<MountId, Weak<MountFd>>> {
    #[verifier::external_body] pub fn read(&self, Tracked(hs): Tracked<&mut Host>) -> (r: core::result::Result<TblRead<'_>, PoisonError>) ensures r is Ok, *final(hs) == *old(hs) { unimplemented!() }
    // taking the write lock is where the work of a concurrent get on the same mount id becomes visible (H2r)
    #[verifier::external_body] pub fn write(&self, Tracked(hs): Tracked<&mut Host>) -> (r: core::result::Result<TblWrite<'_>, PoisonError>)
        ensures r is Ok, *final(hs) == *old(hs) || raced_insert(*old(hs), *final(hs), old(hs).focus) { unimplemented!() }
}
impl<'a> TblRead<'a> {
    #[verifier::external_body] pub fn get(&self, k: &MountId, Tracked(hs): Tracked<&mut Host>) -> (r: Option<&Weak<MountFd>>)
        ensures *final(hs) == *old(hs), r is Some <==> old(hs).tbl.contains_key(*k), r is Some ==> r->Some_0.aid() == old(hs).tbl[*k] { unimplemented!() }
}
impl<'a> TblWrite<'a> {
    #[verifier::external_body] pub fn get(&self, k: &MountId, Tracked(hs): Tracked<&mut Host>) -> (r: Option<&Weak<MountFd>>)
        ensures *final(hs) == *old(hs), r is Some <==> old(hs).tbl.contains_key(*k), r is Some ==> r->Some_0.aid() == old(hs).tbl[*k] { unimplemented!() }
    #[verifier::external_body] pub fn insert(&mut self, k: MountId, v: Weak<MountFd>, Tracked(hs): Tracked<&mut Host>) -> (r: Option<Weak<MountFd>>)
        ensures final(hs).tbl == old(hs).tbl.insert(k, v.aid()), only_tbl(*old(hs), *final(hs)) { unimplemented!() }
    #[verifier::external_body] pub fn remove(&mut self, k: &MountId, Tracked(hs): Tracked<&mut Host>) -> (r: Option<Weak<MountFd>>)
        ensures final(hs).tbl == old(hs).tbl.remove(*k), only_tbl(*old(hs), *final(hs)) { unimplemented!() }
}
// the set of mount ids an error was already logged for (no contract: it only decides whether an error is marked silent)
#[verifier::external_body] pub struct SetRead<'a> { _p: PhantomData<&'a u8> }
#[verifier::external_body] pub struct SetWrite<'a> { _p: PhantomData<&'a u8> }
impl RwLock<HashSet<MountId>> {
    #[verifier::external_body] pub fn read(&self) -> (r: core::result::Result<SetRead<'_>, PoisonError>) ensures r is Ok { unimplemented!() }
    #[verifier::external_body] pub fn write(&self) -> (r: core::result::Result<SetWrite<'_>, PoisonError>) ensures r is Ok { unimplemented!() }
}
impl<'a> SetRead<'a> { #[verifier::external_body] pub fn contains(&self, k: &MountId) -> (r: bool) { unimplemented!() } }
impl<'a> SetWrite<'a> { #[verifier::external_body] pub fn insert(&mut self, k: MountId) -> (r: bool) { unimplemented!() } }
// ===== vmm-sys-util FamStructWrapper<CFileHandleInner> (H4)
#[verifier::external_body] #[verifier::reject_recursive_types(T)] pub struct FamStructWrapper<T> { _p: PhantomData<T> }
#[derive(Debug)] pub enum FamError { SizeLimitExceeded }
#[verifier::external_body] #[verifier::reject_recursive_types(T)] pub struct __IncompleteArrayField<T> { _p: PhantomData<T> }
impl<T> __IncompleteArrayField<T> {
    pub uninterp spec fn room(&self) -> nat;                // bytes allocated behind the header
    pub uninterp spec fn data(&self) -> Seq<T>;
    pub uninterp spec fn addr(&self) -> int;
    // `unsafe fn as_ptr(&self)`: the address of the array (a cast of `self`): contract-only
    #[verifier::external_body] pub fn as_ptr(&self) -> (r: *const T) ensures r as int == self.addr() { unimplemented!() }
    // `unsafe fn as_slice(&self, len)` = slice::from_raw_parts(self.as_ptr(), len): contract-only, with its in-bounds condition as precondition
    #[verifier::external_body] pub fn as_slice(&self, len: usize) -> (r: &[T])
        requires len as nat <= self.room(), // [C05.fh.buf.slice_in_bounds] the slice lies inside the allocation
        ensures r@ == self.data().take(len as int) { unimplemented!() }
}
pub open spec fn zeros(n: nat) -> Seq<i8> { Seq::new(n, |i: int| 0i8) }
impl FamStructWrapper<CFileHandleInner> {
    pub uninterp spec fn view(&self) -> FhView;
    pub uninterp spec fn addr(&self) -> int;
    #[verifier::external_body] pub fn new(num_elements: usize) -> (r: core::result::Result<Self, FamError>)
        ensures r is Ok <==> num_elements <= %(FAM_MAX)s,
                r is Ok ==> r->Ok_0@ == (FhView { cap: num_elements as nat, handle_bytes: num_elements as u32, handle_type: 0, bytes: zeros(num_elements as nat) }),
    { unimplemented!() }
    #[verifier::external_body] pub fn as_fam_struct_ref(&self) -> (r: &CFileHandleInner)
        ensures r.handle_bytes == self@.handle_bytes, r.handle_type == self@.handle_type, r.f_handle.room() == self@.cap, r.f_handle.data() == self@.bytes, r.f_handle.addr() == self.addr(),
    { unimplemented!() }
}
impl FileHandle {
    // the handle can be handed to the kernel / compared: the bytes it claims are allocated
    pub open spec fn wf(&self) -> bool { self.handle.wrapper@.handle_bytes as nat <= self.handle.wrapper@.cap }
}
// ===== error sources of MPRError::from (signature abstraction of `E: ToString + Into<io::Error>`: the two methods used)
pub trait MprSource: Sized {
    spec fn code(&self) -> Option<i32>;
    fn to_string(&self) -> (r: String);
    fn into(self) -> (r: io::Error) ensures r.os_code() == self.code();
}
impl MprSource for io::Error {
    open spec fn code(&self) -> Option<i32> { self.os_code() }
    #[verifier::external_body] fn to_string(&self) -> (r: String) { unimplemented!() }
    fn into(self) -> (r: io::Error) { self }
}
impl MprSource for NulError {
    open spec fn code(&self) -> Option<i32> { None }                 // std: From<NulError> for io::Error = InvalidInput, no OS code
    #[verifier::external_body] fn to_string(&self) -> (r: String) { unimplemented!() }
    #[verifier::external_body] fn into(self) -> (r: io::Error) { unimplemented!() }
}
impl MountFds {
    pub uninterp spec fn root_path(&self, id: MountId) -> Seq<u8>;     // "the mount root of mount id `id`" as /proc/self/mountinfo gives it (H5)
}
pub open spec fn safe_mode(mode: u32) -> bool { mode & 0o170000u32 == 0o100000u32 || mode & 0o170000u32 == 0o040000u32 }   // S_IFREG or S_IFDIR (stat(2))
'''

# D1: what Rust does when an Arc<MountFd> goes out of scope, spelled out and VERIFIED against the contract of the extracted Drop::drop
DROP_GLUE = r'''
// drop glue of Arc<MountFd> (H3): release one strong reference; the last one runs <MountFd as Drop>::drop and then drops the fields
fn vx_drop_arc_mountfd(a: Arc<MountFd>, Tracked(hs): Tracked<&mut Host>)
    requires old(hs).inv(), old(hs).sc(a.aid()) > 0, a.val() == heap_val::<MountFd>(a.aid()), old(hs).focus == a.val().mount_id,
    ensures final(hs).inv(), // [C15.fh.last_arc.inv] the table invariant survives the release of a reference, also when a concurrent get replaced the dying entry
            final(hs).sc(a.aid()) == old(hs).sc(a.aid()) - 1,
            final(hs).raced == old(hs).raced ==> forall|b: int| b != a.aid() ==> final(hs).sc(b) == old(hs).sc(b),
            old(hs).sc(a.aid()) > 1 ==> final(hs).open == old(hs).open && final(hs).tbl == old(hs).tbl && final(hs).raced == old(hs).raced, // [C15.fh.arc.not_last] not the last reference: nothing is closed, nothing removed
            old(hs).sc(a.aid()) == 1 && final(hs).raced == old(hs).raced ==> final(hs).tbl == old(hs).tbl.remove(a.val().mount_id) // [C15.fh.last_arc.entry_gone] the table entry disappears with the last Arc<MountFd>
                && final(hs).open == old(hs).open.remove(a.val().file.sfd() as int), // [C15.fh.last_arc.fd_closed] ... and so does the mount's long-lived descriptor, and nothing else
            old(hs).sc(a.aid()) == 1 && final(hs).raced != old(hs).raced ==> final(hs).tbl.contains_key(a.val().mount_id) && final(hs).tbl[a.val().mount_id] != a.aid() // [C15.fh.last_arc.replacement_stays] an entry placed concurrently for the same mount id is NOT removed
                && final(hs).open == old(hs).open.insert(fd_of(final(hs).tbl[a.val().mount_id])).remove(a.val().file.sfd() as int), // [C15.fh.last_arc.fd_closed_raced] ... and the dying MountFd's own descriptor is closed all the same
            final(hs).calls == old(hs).calls && final(hs).focus == old(hs).focus,
{
    match Arc::into_inner(a, Tracked(hs)) {
        Some(m) => {
            let mut m = m;
            m.drop(Tracked(hs));
            vx_drop_file(m.file, Tracked(hs));
        }
        None => {}
    }
}
'''

SCENARIOS = r'''
// ---- descriptor balance over histories (client code against the CONTRACTS above; nothing here is assumed)
// "also after failed operations": a failed get leaves no descriptor and no entry; a successful one exactly one descriptor, which goes with the last reference
fn scenario_get_release<F: ReopenFd>(fds: &MountFds, id: MountId, cb: F, Tracked(hs): Tracked<&mut Host>)
    requires old(hs).inv(), old(hs).calls.len() == 0, !old(hs).tbl.contains_key(id), !old(hs).raced, old(hs).focus == id, GET_CAPS
{
    let ghost open0 = hs.open;
    let ghost tbl0 = hs.tbl;
    match fds.get(id, cb, Tracked(hs)) {
        Ok(a) => {
            assert(hs.open == open0.insert(a.val().file.sfd() as int) && !open0.contains(a.val().file.sfd() as int)); // [C15.fh.scenario.one_descriptor] exactly one descriptor more, raced or not
            vx_drop_arc_mountfd(a, Tracked(hs));
            assert(!hs.raced ==> hs.open =~= open0); // [C15.fh.scenario.balance] every inode of the mount forgotten: no more descriptors than before
            assert(!hs.raced ==> hs.tbl =~= tbl0); // [C15.fh.scenario.entry_gone]
        }
        Err(e) => {
            assert(hs.open =~= open0); // [C15.fh.scenario.failed_get_balance]
            assert(hs.tbl =~= tbl0); // [C15.fh.scenario.failed_get_no_entry]
        }
    }
}
// two inodes on one mount: the second get re-uses the entry (no host call, no new descriptor); the descriptor lives until BOTH are gone
fn scenario_two_refs<F: ReopenFd, G: ReopenFd>(fds: &MountFds, id: MountId, cb1: F, cb2: G, Tracked(hs): Tracked<&mut Host>)
    requires old(hs).inv(), old(hs).calls.len() == 0, !old(hs).tbl.contains_key(id), !old(hs).raced, old(hs).focus == id, GET_CAPS
{
    let ghost open0 = hs.open;
    let ghost tbl0 = hs.tbl;
    if let Ok(a) = fds.get(id, cb1, Tracked(hs)) {
        let ghost open1 = hs.open;
        let ghost calls1 = hs.calls;
        proof { hs.calls = Seq::empty(); }           // the next request
        let r2 = fds.get(id, cb2, Tracked(hs));
        assert(r2 is Ok); // [C15.fh.scenario.second_get_ok]
        if let Ok(b) = r2 {
            assert(b.aid() == a.aid()); // [C15.fh.scenario.same_mountfd] one MountFd per mount id
            assert(hs.open =~= open1 && hs.calls.len() == 0); // [C15.fh.scenario.no_second_descriptor]
            vx_drop_arc_mountfd(a, Tracked(hs));
            assert(hs.open =~= open1 && hs.tbl.contains_key(id)); // [C15.fh.scenario.kept_while_referenced]
            vx_drop_arc_mountfd(b, Tracked(hs));
            assert(!hs.raced ==> hs.open =~= open0); // [C15.fh.scenario.balance_two]
            assert(!hs.raced ==> hs.tbl =~= tbl0); // [C15.fh.scenario.entry_gone_two]
        }
    }
}
// a freshly started server: empty table, the invariant holds
proof fn scenario_fresh(hs: Host)
    requires hs.tbl == Map::<u64, int>::empty(), hs.strong == Map::<int, nat>::empty(), hs.tbl_alive
    ensures hs.inv() // [C15.fh.scenario.fresh_inv]
{}
'''


# K1 "the size name_to_handle_at reports on EOVERFLOW never exceeds MAX_HANDLE_SZ (128)" is NOT part of the kernel model: name_to_handle_at(2) calls
# MAX_HANDLE_SZ "not a guaranteed upper limit", fs/fhandle.c bounds handle_bytes only on input, and NFS needs 144 bytes for a 128-byte server handle.
# VX_FH_K1=1 adds it (diagnostic only: shows that [C05.fh.cfh_new.fits] at from_name_at is the ONLY obligation that depends on it).
K1_ON = os.environ.get('VX_FH_K1') == '1'
K1_CLAUSE = ('final(file_handle)@.handle_bytes <= 128,        // K1 (diagnostic switch VX_FH_K1=1): MAX_HANDLE_SZ' if K1_ON
             else '// (no bound on the size the kernel reports: K1 is not assumed)')


def unit(root='/repo'):
    fam = fam_macro_args(root)
    pre = PRE % dict(
        CSTR=_slice(_stdmodel(), '// std::ffi::CStr', '// std::time::Duration', 'CStr (vx/prelude/stdmodel.rs)'),
        STAT=_slice(_stdmodel(), '// libc::stat64', 'pub open spec fn stat_no_ids', 'stat64 (vx/prelude/stdmodel.rs)'),
        FAM_MAX=fam[5], K1_CLAUSE=K1_CLAUSE, NR_N2H=NR_N2H, NR_OBH=NR_OBH, NR_OPEN=NR_OPEN, NR_STATX=NR_STATX, NR_CB=NR_CB, NR_FOPEN=NR_FOPEN)

    N = 'final(hs).calls.len()'
    C = lambda i: 'final(hs).calls[%d]' % i
    S0 = 'old(hs).calls.len() == 0'
    EOVERFLOW, EOPNOTSUPP, EIO = 75, 95, 5

    def hooks(*extra):
        return list(extra) + [FR.r59_map_err_try, FR.r58_option_path_adapter, FR.r55f_pointer_args, FR.r51f_extern_calls(['name_to_handle_at', 'open_by_handle_at']),
                              PR.r51_syscalls(['open', 'close']), FR.r60_arc_new_mountfd,
                              FR.r53f_file_drops([r'File::from_raw_fd', r'File::open', r'\w+\s*\.\s*call_once'])]

    def F(file, scope, name, tok=True, callees=(), path_callees=(), free_callees=(), locate=None, **kw):
        kw.setdefault('ret_name', 'res')
        f = Fn(file, scope, name, **kw)
        f.body_hooks = hooks()
        if locate:
            f.locate = locate
        if tok:
            f.rules = ('R23',)
            f.ghost_token = dict(param=TOK['param'], arg=TOK['arg'], callees=list(callees), path_callees=list(path_callees), free_callees=list(free_callees))
        return f

    FRAME = 'heap_same(*old(hs), *final(hs))'

    # ------------------------------------------------------------------------------------------------ file_handle.rs
    N2H_CAP = ('forall|d: i32, p: Seq<u8>, hb: u32, fl: i32, rs: Seq<Ret>| #[trigger] n2h_ok(d, p, hb, fl, rs) <==> (d == %s.sfd() && p == %s && fl == 0x1000i32 '
               '&& ((rs.len() == 0 && hb == 0) || (rs.len() == 1 && rs[0].nr == %d && rs[0].ret == -1 && rs[0].errno == %d && hb == rs[0].out.handle_bytes))) '
               '// [C05.fh.%s.calls] name_to_handle_at(dirfd, name, empty buffer, &mount id, AT_EMPTY_PATH); after EOVERFLOW once more with a buffer of exactly the size the kernel asked for')

    def n2h_contract(op, fd, path):
        return dict(
            requires=[S0, N2H_CAP % (fd, path, NR_N2H, EOVERFLOW, op)],
            ensures=[
                '1 <= %s <= 2 && (forall|i: int| 0 <= i < %s ==> #[trigger] final(hs).calls[i].nr == %d) // [C05.fh.%s.only_n2h] one or two name_to_handle_at calls, nothing else' % (N, N, NR_N2H, op),
                '%s.ret == -1 && %s.errno == %d ==> %s == 1 && res is Ok && res->Ok_0 is None // [C05.fh.%s.eopnotsupp] EOPNOTSUPP: the file system has no file handles -> Ok(None), no retry' % (C(0), C(0), EOPNOTSUPP, N, op),
                '%s.ret == -1 && %s.errno != %d && %s.errno != %d ==> %s == 1 && res is Err && res->Err_0.os_code() == Some(%s.errno) // [C05.fh.%s.errno] any other errno of the size query is returned as it is' % (C(0), C(0), EOPNOTSUPP, C(0), EOVERFLOW, N, C(0), op),
                '%s.ret != -1 ==> %s == 1 && res is Err // [C05.fh.%s.size_query_must_fail] a size query that succeeds is an error (InvalidData), no retry' % (C(0), N, op),
                '%s.ret == -1 && %s.errno == %d && %s.out.handle_bytes <= MAX_HANDLE_SIZE ==> %s == 2 // [C05.fh.%s.retry] EOVERFLOW: exactly one retry' % (C(0), C(0), EOVERFLOW, C(0), N, op),
                '%s.ret == -1 && %s.errno == %d && %s.out.handle_bytes > MAX_HANDLE_SIZE ==> res is Ok && res->Ok_0 is None // [C05.fh.from_name_at.oversize] documented: a file handle larger than we can store -> Ok(None)' % (C(0), C(0), EOVERFLOW, C(0)),
                '%s == 2 && %s.ret == -1 ==> res is Err && res->Err_0.os_code() == Some(%s.errno) // [C05.fh.%s.retry_errno] a failing retry is returned with its errno' % (N, C(1), C(1), op),
                '''%s == 2 && %s.ret != -1 ==> res is Ok && res->Ok_0 is Some && res->Ok_0->Some_0.handle.wrapper@ == %s.out
                    && %s.mnt >= 0 && res->Ok_0->Some_0.mnt_id == %s.mnt as u64 // [C05.fh.%s.result] handle bytes, type, length and mount id are exactly what the kernel wrote''' % (N, C(1), C(1), C(1), C(1), op),
                'res is Ok && res->Ok_0 is Some ==> res->Ok_0->Some_0.wf() // [C05.fh.%s.wf] the handle returned claims no more bytes than are allocated' % op,
                'final(hs).open == old(hs).open && %s // [C15.fh.%s.no_descriptor] creating a file handle opens nothing' % (FRAME, op),
            ])
    G_CFH = Group('impl CFileHandle {', [
        F(FH, 'impl CFileHandle', 'new', tok=False, ret_name='r', props=['C05'], canary=True,
          requires=['size <= MAX_HANDLE_SIZE // [C05.fh.cfh_new.fits] FamStructWrapper::new(size).unwrap() cannot fail: the size fits the wrapper\'s limit'],
          # the same fact once more as a tagged assertion: when the tag is neutralised (second pass behind a known finding: requires -> true, assert -> assume)
          # the body still verifies and every caller is checked as if the size always fitted
          splices=[('^', 'after', 'proof {\n    assert(size <= MAX_HANDLE_SIZE); // [C05.fh.cfh_new.fits]\n}')],
          ensures=['r.wrapper@ == (FhView { cap: size as nat, handle_bytes: size as u32, handle_type: 0, bytes: zeros(size as nat) }) // [C05.fh.cfh_new.buffer] exactly `size` zeroed bytes, handle_bytes = size']),
    ])
    G_CMP = Group('impl CFileHandle {  // impl Ord for CFileHandle', [
        F(FH, 'impl Ord for CFileHandle', 'cmp', tok=False, ret_name='r', props=['C05'], canary=True,
          requires=['self.wrapper@.handle_bytes as nat <= self.wrapper@.cap && other.wrapper@.handle_bytes as nat <= other.wrapper@.cap // both handles are well formed (FileHandle::wf): they came from from_name_at / CFileHandle::new'],
          ensures=[]),
    ])
    G_FH = Group('impl FileHandle {', [
        F(FH, 'impl FileHandle', 'from_name_at', props=['C05'], canary=True, locate=FR.r63_locate('impl FileHandle', 'from_name_at'),
          body_resub=[(r'io::Error::from\(io::ErrorKind::InvalidData\)', 'io::Error::from_kind(io::ErrorKind::InvalidData)', 'From<io::ErrorKind> for io::Error named (model io::Error::from_kind: that kind, no OS code)')],
          path_callees=['name_to_handle_at', 'last_os_error'], **n2h_contract('from_name_at', 'dir_fd', 'path@')),
        F(FH, 'impl FileHandle', 'from_fd', props=['C05'], canary=True, locate=FR.r63_locate('impl FileHandle', 'from_fd'),
          path_callees=['from_name_at'], **n2h_contract('from_fd', 'fd', 'Seq::<u8>::empty()')),
        F(FH, 'impl FileHandle', 'into_openable', props=['C15'], canary=True, locate=FR.r61_locate('impl FileHandle', 'into_openable'),
          callees=['get'],
          requires=['old(hs).inv()', S0, 'old(hs).focus == self.mnt_id', 'GET_CAPS'],
          ensures=['final(hs).inv() // [C15.fh.into_openable.inv]', 'final(hs).focus == old(hs).focus',
                   'res is Err ==> final(hs).open == old(hs).open && %s // [C15.fh.into_openable.err_balance] a failed conversion leaves no descriptor and no entry behind' % FRAME,
                   '''res is Ok ==> res->Ok_0.handle.val() == self && res->Ok_0.mount_fd.val().mount_id == self.mnt_id && res->Ok_0.mount_fd.val() == heap_val::<MountFd>(res->Ok_0.mount_fd.aid())
                       && final(hs).tbl.contains_key(self.mnt_id) && final(hs).tbl[self.mnt_id] == res->Ok_0.mount_fd.aid()
                       && (final(hs).raced == old(hs).raced ==> final(hs).sc(res->Ok_0.mount_fd.aid()) == old(hs).sc(res->Ok_0.mount_fd.aid()) + 1) // [C15.fh.into_openable.mount_fd] the openable handle holds one reference to THE MountFd of the handle's mount id''',
                   'old(hs).tbl.contains_key(self.mnt_id) ==> res is Ok && final(hs).open == old(hs).open // [C15.fh.into_openable.reuse] no second descriptor for a mount that has one']),
        F(FH, 'impl Default for FileHandle', 'default', tok=False, ret_name='r', props=['C05'],
          ensures=['r.mnt_id == 0 && r.wf()']),
    ])
    G_OFH = Group('impl OpenableFileHandle {', [
        F(FH, 'impl OpenableFileHandle', 'open', props=['C05'], canary=True,
          path_callees=['open_by_handle_at', 'last_os_error'],
          requires=[S0, 'self.handle.val().wf() // the handle came from from_name_at',
                    'old(hs).open.contains(self.mount_fd.val().file.sfd() as int) // the MountFd is referenced by self.mount_fd, hence live (table invariant)',
                    'forall|m: i32, v: FhView, fl: i32, rs: Seq<Ret>| #[trigger] obh_ok(m, v, fl, rs) <==> (rs.len() == 0 && m == self.mount_fd.val().file.sfd() && v == self.handle.val().handle.wrapper@ && fl == flags) '
                    '// [C05.fh.open.call] open_by_handle_at(the mount\'s descriptor, exactly this handle, exactly the flags given), once'],
          ensures=['%s == 1 && %s.nr == %d // [C05.fh.open.once] exactly one open_by_handle_at' % (N, C(0), NR_OBH),
                   '%s.ret >= 0 ==> res is Ok && res->Ok_0.sfd() == %s.ret // [C05.fh.open.fd] the File returned is the descriptor the kernel returned' % (C(0), C(0)),
                   '%s.ret < 0 ==> res is Err && res->Err_0.os_code() == Some(%s.errno) // [C05.fh.open.errno]' % (C(0), C(0)),
                   'res is Ok ==> !old(hs).open.contains(res->Ok_0.sfd() as int) && final(hs).open == old(hs).open.insert(res->Ok_0.sfd() as int) // [C15.fh.open.handed_over] the one new descriptor is owned by the File handed to the caller',
                   'res is Err ==> final(hs).open == old(hs).open // [C15.fh.open.err_balance]', FRAME]),
        F(FH, 'impl OpenableFileHandle', 'file_handle', tok=False, ret_name='r', props=['C05'], ensures=['*r == self.handle']),
    ])
    # ------------------------------------------------------------------------------------------------ mount_fd.rs
    GET_CAPS = ('''(forall|p: Seq<u8>, fl: i32, rs: Seq<Ret>| #[trigger] open_ok(p, fl, rs) <==> (rs.len() == 0 && p == FDS.root_path(ID) && fl == 0o10000000i32)) // [C05.fh.get.open_call] open(the mount root of this id, O_PATH)
            && (forall|fd: i32, rs: Seq<Ret>| #[trigger] statx_ok(fd, rs) <==> (rs.len() == 1 && rs[0].nr == %d && rs[0].ret >= 0 && fd == rs[0].ret)) // [C05.fh.get.statx_call] statx of the descriptor just opened
            && (forall|fd: i32, fl: i32, m: u32, rs: Seq<Ret>| #[trigger] reopen_cb_ok(fd, fl, m, rs) <==> (rs.len() == 2 && rs[0].nr == %d && fd == rs[0].ret && rs[1].nr == %d && rs[1].ret == 0
                    && rs[1].stx_mnt == ID && safe_mode(rs[1].stx_mode) && m == rs[1].stx_mode && fl == 0o2400000i32)) // [C05.fh.get.reopen_call] re-open only a mount point whose mount id matched and that is a regular file / directory: that descriptor, O_RDONLY | O_NOFOLLOW | O_CLOEXEC, the mode statx reported'''
                % (NR_OPEN, NR_OPEN, NR_STATX))
    caps = lambda fds, mid: GET_CAPS.replace('FDS', fds).replace('ID', mid)
    IOE = 'res->Err_0.io.os_code()'
    GET = F(MFD, 'impl MountFds', 'get', props=['C15'], canary=True, locate=FR.r61_locate('impl MountFds', 'get'),
            callees=['read', 'write', 'get', 'insert', 'remove', 'upgrade', 'strong_count', 'call_once', 'validate_mount_id'],
            path_callees=['open', 'close', 'last_os_error'],
            body_resub=[(r'\bmount_point\.clone\(\)', 'vx_string_clone(&mount_point)', 'String::clone: an equal string (model vx_string_clone)')],
            requires=['old(hs).inv()', S0, 'old(hs).focus == mount_id // H2r: the interference modelled concerns this mount id', caps('self', 'mount_id')],
            splices=[('^', 'after', 'proof { assert(forall|m: u32| #![auto] (m & 0o170000u32) & 0o170000u32 == m & 0o170000u32) by (bit_vector); assert(0i32 | 0o400000i32 | 0o2000000i32 == 0o2400000i32) by (bit_vector); }      // masking with S_IFMT twice is masking once; the value of O_RDONLY | O_NOFOLLOW | O_CLOEXEC')],
            ensures=[
                'final(hs).inv() // [C15.fh.get.inv] the table invariant is kept: live MountFd <=> THE entry of its mount id, its descriptor open',
                'final(hs).focus == old(hs).focus && final(hs).tbl_alive == old(hs).tbl_alive',
                '''res is Ok ==> res->Ok_0.val().mount_id == mount_id && res->Ok_0.val() == heap_val::<MountFd>(res->Ok_0.aid())
                    && final(hs).tbl.contains_key(mount_id) && final(hs).tbl[mount_id] == res->Ok_0.aid()
                    && (final(hs).raced == old(hs).raced ==> final(hs).sc(res->Ok_0.aid()) == old(hs).sc(res->Ok_0.aid()) + 1) // [C15.fh.get.entry] the caller gets exactly one more reference to THE MountFd of this mount id''',
                'final(hs).raced != old(hs).raced ==> res is Ok && !old(hs).tbl.contains_key(mount_id) && !old(hs).strong.contains_key(res->Ok_0.aid()) && final(hs).sc(res->Ok_0.aid()) >= 2 // [C15.fh.get.raced] lost the race against a concurrent get: the other thread\'s MountFd is used (and the one_new_fd clause says: our own two descriptors are closed)',
                'forall|a: int| !(res is Ok && a == res->Ok_0.aid()) ==> #[trigger] final(hs).sc(a) == old(hs).sc(a) // [C15.fh.get.other_refs] no other reference count changes',
                'forall|k: u64| k != mount_id ==> (#[trigger] final(hs).tbl.contains_key(k) <==> old(hs).tbl.contains_key(k)) && (old(hs).tbl.contains_key(k) ==> final(hs).tbl[k] == old(hs).tbl[k]) // [C15.fh.get.other_entries] no other entry changes',
                'old(hs).tbl.contains_key(mount_id) ==> res is Ok && final(hs).open == old(hs).open && final(hs).tbl == old(hs).tbl && %s == 0 // [C15.fh.get.reuse] at most one long-lived descriptor per mount id: an existing entry is re-used, nothing is opened' % N,
                '''res is Ok && !old(hs).tbl.contains_key(mount_id) ==> !old(hs).open.contains(res->Ok_0.val().file.sfd() as int)
                    && final(hs).open == old(hs).open.insert(res->Ok_0.val().file.sfd() as int) // [C15.fh.get.one_new_fd] a new entry costs exactly one descriptor, the one kept in the MountFd: the O_PATH probe is closed again (D14)''',
                'res is Err ==> final(hs).open == old(hs).open && %s // [C15.fh.get.err_balance] every error path closes what it opened and leaves the table alone' % FRAME,
                'res is Ok && !old(hs).tbl.contains_key(mount_id) ==> %s == 3 && %s.nr == %d && %s.ret >= 0 && (final(hs).raced == old(hs).raced ==> res->Ok_0.val().file.sfd() == %s.ret) // [C05.fh.get.fd_is_reopened] the long-lived descriptor is the one the re-open callback returned' % (N, C(2), NR_CB, C(2), C(2)),
                '%s <= 3 && (%s >= 1 ==> %s.nr == %d) && (%s >= 2 ==> %s.nr == %d) && (%s == 3 ==> %s.nr == %d) // [C05.fh.get.sequence] open, statx, re-open - in this order, each at most once' % (N, N, C(0), NR_OPEN, N, C(1), NR_STATX, N, C(2), NR_CB),
                '%s == 1 ==> %s.ret < 0 && res is Err && %s == Some(%s.errno) // [C05.fh.get.open_errno] a mount point that cannot be opened: that errno' % (N, C(0), IOE, C(0)),
                '%s == 2 && %s.ret < 0 ==> res is Err && %s == Some(%s.errno) // [C05.fh.get.statx_errno]' % (N, C(1), IOE, C(1)),
                '%s == 2 && %s.ret == 0 ==> res is Err && %s == Some(%di32) && (%s.stx_mnt != mount_id || !safe_mode(%s.stx_mode)) // [C05.fh.get.refused] wrong mount id or a mount root that is neither a regular file nor a directory: EIO, never re-opened' % (N, C(1), IOE, EIO, C(1), C(1)),
                '%s == 3 && %s.ret < 0 ==> res is Err && %s == %s.code // [C05.fh.get.reopen_errno] the callback\'s error is returned' % (N, C(2), IOE, C(2)),
            ])
    VALIDATE = F(MFD, 'impl MountFds', 'validate_mount_id', props=['C05'], canary=True, locate=FR.r63_locate('impl MountFds', 'validate_mount_id'),
                 free_callees=['statx'],
                 requires=['statx_ok(mount_point_fd.sfd(), old(hs).calls) // [C05.fh.validate.call] statx(the probe descriptor, "", ..)', 'old(hs).open.contains(mount_point_fd.sfd() as int)'],
                 ensures=['final(hs).calls == old(hs).calls.push(final(hs).calls.last()) && final(hs).calls.last().nr == %d // [C05.fh.validate.once] exactly one statx' % NR_STATX,
                          'res is Ok ==> final(hs).calls.last().ret == 0 && final(hs).calls.last().stx_mnt == mount_id && res->Ok_0 == final(hs).calls.last().stx_mode // [C05.fh.validate.mount_id] Ok only if the mount id statx reports is the expected one; the mode is statx\'s',
                          'final(hs).calls.last().ret < 0 ==> res is Err && %s == Some(final(hs).calls.last().errno) // [C05.fh.validate.errno]' % IOE,
                          'final(hs).calls.last().ret == 0 && final(hs).calls.last().stx_mnt != mount_id ==> res is Err && %s == Some(%di32) // [C05.fh.validate.mismatch] a mount point of another mount: EIO' % (IOE, EIO),
                          'final(hs).calls.last().ret == 0 && final(hs).calls.last().stx_mnt == mount_id ==> res is Ok // [C05.fh.validate.match] a matching mount id is accepted',
                          'final(hs).open == old(hs).open && %s' % FRAME])
    DROP = F(MFD, 'impl Drop for MountFd', 'drop', props=['C15'], canary=True, ret_name='r',
             callees=['upgrade', 'write', 'get', 'remove', 'strong_count'],
             requires=['old(hs).focus == old(self).mount_id // H2r'],
             ensures=['''final(hs).raced == old(hs).raced ==> final(hs).tbl == (if old(hs).tbl_alive && old(hs).tbl.contains_key(old(self).mount_id) && old(hs).sc(old(hs).tbl[old(self).mount_id]) == 0 { old(hs).tbl.remove(old(self).mount_id) } else { old(hs).tbl })
                         // [C15.fh.drop.entry] Drop removes the entry of its mount id iff the table still exists and the entry is dead''',
                      'final(hs).raced == old(hs).raced ==> final(hs).open == old(hs).open && final(hs).strong == old(hs).strong // [C15.fh.drop.frame] nothing else changes (the `file` field is closed by the drop glue afterwards)',
                      'final(hs).raced != old(hs).raced ==> old(hs).tbl_alive && raced_insert(*old(hs), *final(hs), old(self).mount_id) // [C15.fh.drop.replacement_stays] an entry a concurrent get placed for this mount id in the meantime is live and is NOT removed',
                      'final(hs).tbl_alive == old(hs).tbl_alive && final(hs).calls == old(hs).calls && final(hs).focus == old(hs).focus', '*final(self) == *old(self)'])
    G_MFDS = Group('impl MountFds {', [
        F(MFD, 'impl MountFds', 'new', props=['C15'], canary=True, path_callees=['open'],
          requires=[S0, 'forall|p: Seq<char>| #[trigger] file_open_ok(p) <==> p == MOUNT_INFO_FILE@ // [C05.fh.new.call] File::open("/proc/self/mountinfo")'],
          ensures=['res is Ok ==> !old(hs).open.contains(res->Ok_0.mount_info.val().sfd() as int) && final(hs).open == old(hs).open.insert(res->Ok_0.mount_info.val().sfd() as int) // [C15.fh.new.kept] the one descriptor opened is the table\'s own mountinfo file',
                   'res is Err ==> final(hs).open == old(hs).open // [C15.fh.new.err_balance]', FRAME]),
        F(MFD, 'impl MountFds', 'with_mount_info_file', tok=False, ret_name='r', props=['C15'],
          ensures=['r.mount_info.val() == mount_info // [C15.fh.with_file.kept] the descriptor is kept in the table value']),
        GET, VALIDATE,
        F(MFD, 'impl MountFds', 'get_mount_root', tok=False, ret_name='r', props=['C05'], external_body=True,
          ensures=['r is Ok ==> str_bytes(r->Ok_0) == self.root_path(mount_id)']),
        F(MFD, 'impl MountFds', 'error_for_nolookup', tok=False, ret_name='r', props=['C05'],
          sig_subst=[('E: ToString + Into<io::Error>', 'E: MprSource')],
          ensures=['r.io.os_code() == err.code() // [C05.fh.error_for_nolookup.errno] the error keeps its errno']),
        F(MFD, 'impl MountFds', 'error_for', tok=False, ret_name='r', props=['C05'],
          sig_subst=[('E: ToString + Into<io::Error>', 'E: MprSource')],
          ensures=['r.io.os_code() == err.code() // [C05.fh.error_for.errno] the error keeps its errno']),
    ])
    KEEP = lambda f: ['r.io == self.io // [C05.fh.mprerror.%s] the wrapped io::Error is untouched' % f]
    G_ERR = Group('impl MPRError {', [
        F(MFD, 'impl<E: ToString + Into<io::Error>> From<E> for MPRError', 'from', tok=False, ret_name='r', props=['C05'],
          sig_subst=[('fn from(err: E)', 'fn from<E: MprSource>(err: E)')],
          ensures=['r.io.os_code() == err.code() && !r.silent && r.fs_mount_id is None && r.fs_mount_root is None // [C05.fh.mprerror.from]']),
        F(MFD, 'impl MPRError', 'set_desc', tok=False, locate=FR.r62_locate('impl MPRError', 'set_desc'), ret_name='r', props=['C05'], ensures=KEEP('set_desc')),
        F(MFD, 'impl MPRError', 'prefix', tok=False, ret_name='r', props=['C05'], ensures=KEEP('prefix')),
        F(MFD, 'impl MPRError', 'set_mount_id', tok=False, locate=FR.r62_locate('impl MPRError', 'set_mount_id'), ret_name='r', props=['C05'], ensures=KEEP('set_mount_id')),
        F(MFD, 'impl MPRError', 'set_mount_root', tok=False, locate=FR.r62_locate('impl MPRError', 'set_mount_root'), ret_name='r', props=['C05'], ensures=KEEP('set_mount_root')),
        F(MFD, 'impl MPRError', 'silence', tok=False, locate=FR.r62_locate('impl MPRError', 'silence'), ret_name='r', props=['C05'], ensures=KEEP('silence') + ['r.silent']),
        F(MFD, 'impl MPRError', 'silent', tok=False, ret_name='r', props=['C05'], ensures=['r == self.silent']),
        F(MFD, 'impl MPRError', 'into_inner', tok=False, ret_name='r', props=['C05'], ensures=['r == self.io // [C05.fh.mprerror.into_inner]']),
    ])
    GLUE = Raw(DROP_GLUE)
    ctext = DROP_GLUE.replace('fn vx_drop_arc_mountfd(', 'fn vx_drop_arc_mountfd__canary(').replace('            final(hs).calls == old(hs).calls && final(hs).focus == old(hs).focus,\n{', '            final(hs).calls == old(hs).calls && final(hs).focus == old(hs).focus,\n            false, // [canary]\n{')
    if ctext.count('false, // [canary]') != 1 or ctext.count('__canary') != 1:
        raise X.ExtractError('canary copy of vx_drop_arc_mountfd could not be built')
    GLUE.canary = dict(name='vx_drop_arc_mountfd', text=ctext, props=['C15'])
    items = [
        Copy(FH, r'pub const MAX_HANDLE_SIZE\b'),
        Copy(FH, r'pub struct CFileHandleInner\b'),
        Copy(FH, r'type CFileHandleWrapper\b'),
        Copy(FH, r'struct CFileHandle\b'),
        Copy(FH, r'pub struct FileHandle\b'),
        Copy(FH, r'pub struct OpenableFileHandle\b'),
        Copy(MFD, r'const MOUNT_INFO_FILE\b', make_pub=True, subst=[(': &str', ": &'static str")]),      # elided 'static of a const made explicit (Verus turns the const into a function)
        Copy(MFD, r'pub type MountId\b'),
        Copy(MFD, r'pub struct MountFd\b'),
        Copy(MFD, r'pub struct MountFds\b'),
        Copy(MFD, r'pub struct MPRError\b'),
        Copy(MFD, r'pub type MPRResult\b'),
        Copy(STATX, r'pub struct StatExt\b', subst=[('libc::stat64', 'stat64')]),
        Raw(pre),
        Fn(UTIL, None, 'einval', ensures=['r.os_code() == Some(22i32)'], props=['C05']),
        Fn(UTIL, None, 'is_safe_inode', ensures=['r == safe_mode(mode) // [C05.fh.is_safe_inode] regular files and directories only'], props=['C05']),
        G_ERR, G_CFH, G_CMP,
        Group('impl AsFd for MountFd {\n    open spec fn fd_spec(&self) -> i32 { self.file.sfd() }', [
            F(MFD, 'impl AsFd for MountFd', 'as_fd', tok=False, ret_name='r', props=['C05']),
        ]),
        Group('impl MountFd {', [DROP]),
        GLUE,
        G_MFDS, G_FH, G_OFH,
        Raw(SCENARIOS.replace('GET_CAPS', caps('fds', 'id'))),
    ]
    # GET_CAPS inside contracts of into_openable
    for g in (G_FH,):
        for it in g.items:
            it.requires = [c.replace('GET_CAPS', caps('mount_fds', 'self.mnt_id')) for c in it.requires]
    u = Unit('fhandle', items, preludes=['base.rs'], generic_tags={})
    u.prelude_subst = [('pub mod libc {', '''pub mod libc {
    // unit fhandle: further libc items of x86_64-linux-gnu
    #[allow(non_camel_case_types)] pub type c_uint = u32;
    #[allow(non_camel_case_types)] pub type c_char = i8;''')]
    return u
