"""Unit `inodes` (C08): passthrough InodeStore (src/passthrough/inode_store.rs) and PassthroughFs::forget_one.
Specification from the property: references never below zero, the number stops resolving exactly when the count reaches
zero, the root can never be forgotten, an inode number keeps denoting the same file (id -> number mapping is kept when
numbers are allocated rather than taken from the host)."""
from vx.api import Unit, Fn, Copy, Raw, Group

STORE = 'src/passthrough/inode_store.rs'
PT = 'src/passthrough/mod.rs'
FH = 'src/passthrough/file_handle.rs'

PRE = r'''
use std::sync::Arc;
pub type Inode = u64;
pub mod fuse { pub const ROOT_ID: u64 = 1; }
pub mod libc2 { }
pub trait BitmapSlice {}
// std::collections::BTreeMap as a map (sequential model; only the operations the store uses)
#[verifier::external_body] #[verifier::reject_recursive_types(K)] #[verifier::reject_recursive_types(V)]
pub struct BTreeMap<K, V> { _k: core::marker::PhantomData<(K, V)> }
impl<K, V> BTreeMap<K, V> {
    pub uninterp spec fn view(&self) -> Map<K, V>;
    #[verifier::external_body] pub fn get(&self, k: &K) -> (r: Option<&V>)
        ensures match r { Some(v) => self@.contains_key(*k) && *v == self@[*k], None => !self@.contains_key(*k) } { unimplemented!() }
    #[verifier::external_body] pub fn remove(&mut self, k: &K) -> (r: Option<V>)
        ensures final(self)@ == old(self)@.remove(*k), match r { Some(v) => old(self)@.contains_key(*k) && v == old(self)@[*k], None => !old(self)@.contains_key(*k) } { unimplemented!() }
    #[verifier::external_body] pub fn insert(&mut self, k: K, v: V) -> (r: Option<V>)
        ensures final(self)@ == old(self)@.insert(k, v) { unimplemented!() }
    #[verifier::external_body] pub fn clear(&mut self)
        ensures final(self)@ == Map::<K, V>::empty() { unimplemented!() }
}
// std::sync::atomic::AtomicU64: values other threads may change at any time => loads are unconstrained; the write
// (compare_exchange) is guarded by a capability that the caller's contract must grant (DESIGN 3.4b)
pub enum Ordering { Relaxed, Release, Acquire, AcqRel, SeqCst }
#[verifier::external_body] pub struct AtomicU64 { _p: u8 }
pub uninterp spec fn cas_allowed(a: &AtomicU64, cur: u64, new: u64) -> bool;
impl AtomicU64 {
    #[verifier::external_body] pub fn load(&self, o: Ordering) -> (r: u64) { unimplemented!() }
    #[verifier::external_body] pub fn compare_exchange(&self, cur: u64, new: u64, s: Ordering, f: Ordering) -> (r: Result<u64, u64>)
        requires cas_allowed(self, cur, new), // [cas]
    { unimplemented!() }
}
#[verifier::external_body] pub struct FileHandle { _p: u8 }
#[verifier::external_body] pub struct MountFd { _p: u8 }
#[verifier::external_body] pub struct File { _p: u8 }
pub struct Config { pub use_host_ino: bool }                       // the one configuration switch forget_one reads
pub struct PassthroughFs<S> { pub cfg: Config, pub phantom: PhantomData<S> }

impl InodeStore {
    // representation invariant: every live inode is reachable by its id, and by its file handle if it has one
    pub open spec fn wf(&self) -> bool {
        forall|i: Inode| #[trigger] self.data@.contains_key(i) ==> self.data@[i].inode == i && self.by_id@.contains_key(self.data@[i].id) && self.by_id@[self.data@[i].id] == i
            && (self.data@[i].handle is Handle ==> self.by_handle@.contains_key(self.data@[i].handle->Handle_0.handle) && self.by_handle@[self.data@[i].handle->Handle_0.handle] == i)
    }
}
'''


def unit(root='/repo'):
    S = 'impl InodeStore'
    items = [
        Raw(PRE),
        Copy(PT, r'const MAX_HOST_INO\b'),
        Copy(STORE, r'pub struct InodeId\b', prefix='#[derive(Clone, Copy, PartialEq, Eq)]', subst=[('libc::ino64_t', 'u64'), ('libc::dev_t', 'u64')]),
        Copy(PT, r'pub struct InodeData\b'),
        Copy(PT, r'enum InodeHandle\b'),
        Copy(FH, r'pub struct OpenableFileHandle\b'),
        Copy(STORE, r'pub struct InodeStore\b'),
        Group('impl OpenableFileHandle {', [Fn(FH, 'impl OpenableFileHandle', 'file_handle', ensures=['*r == self.handle'], props=['C08'])]),
        Group('impl InodeStore {', [
            Fn(STORE, S, 'insert',
               ensures=['final(self).data@ == old(self).data@.insert(data.inode, data) // [C08.store.insert]',
                        'final(self).by_id@ == old(self).by_id@.insert(data.id, data.inode)',
                        'data.handle is Handle ==> final(self).by_handle@ == old(self).by_handle@.insert(data.handle->Handle_0.handle, data.inode)',
                        '!(data.handle is Handle) ==> final(self).by_handle@ == old(self).by_handle@'],
               props=['C08'], canary=True),
            Fn(STORE, S, 'remove',
               ensures=['final(self).data@ == old(self).data@.remove(*inode) // [C08.store.remove.exact]',
                        'r == (if old(self).data@.contains_key(*inode) { Some(old(self).data@[*inode]) } else { None::<Arc<InodeData>> })',
                        # "a file looked up again after being forgotten gets the same number": keep = the id -> number record survives
                        'remove_data_only ==> final(self).by_id@ == old(self).by_id@ && final(self).by_handle@ == old(self).by_handle@ // [C08.store.remove.keep]',
                        '''!remove_data_only && old(self).data@.contains_key(*inode) ==> ({ let d = old(self).data@[*inode];
                            final(self).by_id@ == old(self).by_id@.remove(d.id)
                            && final(self).by_handle@ == (if d.handle is Handle { old(self).by_handle@.remove(d.handle->Handle_0.handle) } else { old(self).by_handle@ }) }) // [C08.store.remove.release]''',
                        '!remove_data_only && !old(self).data@.contains_key(*inode) ==> final(self).by_id@ == old(self).by_id@ && final(self).by_handle@ == old(self).by_handle@'],
               props=['C08'], canary=True),
            Fn(STORE, S, 'clear', ensures=['final(self).data@ == Map::<Inode, Arc<InodeData>>::empty()', 'final(self).by_id@ == Map::<InodeId, Inode>::empty()',
                                           'final(self).by_handle@ == Map::<Arc<FileHandle>, Inode>::empty()'], props=['C08']),
            Fn(STORE, S, 'get', ensures=['match r { Some(v) => self.data@.contains_key(*inode) && *v == self.data@[*inode], None => !self.data@.contains_key(*inode) } // [C08.store.get]'], props=['C08']),
            Fn(STORE, S, 'inode_by_id', ensures=['match r { Some(v) => self.by_id@.contains_key(*id) && *v == self.by_id@[*id], None => !self.by_id@.contains_key(*id) }'], props=['C08']),
            Fn(STORE, S, 'get_by_id',
               ensures=['''match r { Some(v) => self.by_id@.contains_key(*id) && self.data@.contains_key(self.by_id@[*id]) && *v == self.data@[self.by_id@[*id]],
                                      None => !self.by_id@.contains_key(*id) || !self.data@.contains_key(self.by_id@[*id]) } // [C08.store.by_id]'''], props=['C08']),
        ]),
        Group('impl<S: BitmapSlice + Send + Sync> PassthroughFs<S> {', [
            Fn(PT, 'impl<S: BitmapSlice + Send + Sync> PassthroughFs<S>', 'forget_one',
               attrs=['#[verifier::exec_allows_no_decreases_clause]'],
               requires=[
                   # the only value the reference count may be set to: current minus forgotten, never below zero
                   '''forall|a: &AtomicU64, c: u64, n: u64| #[trigger] cas_allowed(a, c, n) <==>
                        old(inodes).data@.contains_key(inode) && *a == old(inodes).data@[inode].refcount && n == (if c >= count { (c - count) as u64 } else { 0u64 }) // [C08.forget.saturating]'''],
               ensures=[
                   'inode == 1 ==> *final(inodes) == *old(inodes) // [C08.forget.root]',
                   'final(inodes).data@ == old(inodes).data@ || final(inodes).data@ == old(inodes).data@.remove(inode) // [C08.forget.only_this]',
                   # numbers allocated by the server (not host inode numbers) are remembered across forget
                   '!self.cfg.use_host_ino ==> final(inodes).by_id@ == old(inodes).by_id@ && final(inodes).by_handle@ == old(inodes).by_handle@ // [C08.forget.same_number]',
                   'final(inodes).data@ != old(inodes).data@ && old(inodes).data@[inode].id.ino > 0x7fff_ffff_ffffu64 ==> final(inodes).by_id@ == old(inodes).by_id@ // [C08.forget.virtual_ino]',
               ],
               splices=[('let keep_mapping = ', 'before', 'assert(new == 0 && cas_allowed(&data.refcount, curr, new)); // [C08.forget.remove_at_zero]'),
                        ('loop {', 'replace', '''loop
                invariant_except_break
                    *inodes == *old(inodes),
                invariant
                    inode != 1, // [C08.forget.root] the root is never forgotten: forget_one itself refuses inode 1
                    old(inodes).data@.contains_key(inode), *data == old(inodes).data@[inode],
                    forall|a: &AtomicU64, c: u64, n: u64| #[trigger] cas_allowed(a, c, n) <==>
                        old(inodes).data@.contains_key(inode) && *a == old(inodes).data@[inode].refcount && n == (if c >= count { (c - count) as u64 } else { 0u64 }),
                ensures
                    inodes.data@ == old(inodes).data@ || inodes.data@ == old(inodes).data@.remove(inode),
                    !self.cfg.use_host_ino ==> inodes.by_id@ == old(inodes).by_id@ && inodes.by_handle@ == old(inodes).by_handle@,
                    inodes.data@ != old(inodes).data@ && old(inodes).data@[inode].id.ino > 0x7fff_ffff_ffffu64 ==> inodes.by_id@ == old(inodes).by_id@,
            {''')],
               props=['C08'], canary=True),
        ]),
    ]
    return Unit('inodes', items, preludes=['base.rs'], generic_tags={'cas': ['C08']})
