"""Mechanical model of a `bitflags! { pub struct NAME: TY { const A = EXPR; .. } }` block of /repo.

The referenced top-level consts are copied (Copy items, made `pub`), every `const A = EXPR;` line of the block becomes
`pub const A: NAME = NAME { bits: EXPR };`, and the bitflags 1.x methods the extracted code uses are given their documented
meaning (bits / empty / is_empty / contains / from_bits_truncate / remove / insert / & / | / &= / |=)."""
import re

from . import extract as X
from .api import Copy, Raw


def parse_block(root, file, name):
    src = X.Source(root, file)
    m = re.search(r'pub struct %s\s*:\s*(\w+)\s*\{' % re.escape(name), src.msk)
    if not m:
        raise X.ExtractError('bitflags block %s not found' % name)
    ob = m.end() - 1
    cb = X.match_close(src.msk, ob)
    ty = m.group(1)
    body = src.msk[ob + 1:cb]
    real = src.src[ob + 1:cb]
    consts = []
    for cm in re.finditer(r'\bconst\s+(\w+)\s*=\s*([^;]+);', body):
        consts.append((cm.group(1), X.norm_ws(real[cm.start(2):cm.end(2)])))
    return ty, consts, src.line_of(m.start())


def items(root, file, name, copy_consts=True, assign_ops=False):
    ty, consts, line = parse_block(root, file, name)
    out = []
    seen = set()
    if copy_consts:
        for (_, expr) in consts:
            for ident in re.findall(r'\b[A-Z][A-Z0-9_]+\b', expr):
                if ident not in seen:
                    seen.add(ident)
                    out.append(Copy(file, r'(?m)^(?:pub )?const %s\s*:' % re.escape(ident), make_pub=True))
    allbits = ' | '.join('(%s)' % e for (_, e) in consts) or '0'
    L = ['// ---- model of bitflags type %s (generated from %s:%d, %d flags)' % (name, file, line, len(consts)),
         '#[derive(Clone, Copy, PartialEq, Eq)]', 'pub struct %s { pub bits: %s }' % (name, ty), 'impl %s {' % name]
    for (c, e) in consts:
        L.append('    pub const %s: %s = %s { bits: %s };' % (c, name, name, e))
    L.append('    pub open spec fn all_bits() -> %s { %s }' % (ty, allbits))
    L.append('    pub fn bits(&self) -> (r: %s) ensures r == self.bits { self.bits }' % ty)
    L.append('    pub fn empty() -> (r: Self) ensures r.bits == 0 { %s { bits: 0 } }' % name)
    L.append('    pub fn is_empty(&self) -> (r: bool) ensures r == (self.bits == 0) { self.bits == 0 }')
    L.append('    pub fn contains(&self, o: Self) -> (r: bool) ensures r == (self.bits & o.bits == o.bits) { self.bits & o.bits == o.bits }')
    L.append('    pub fn intersects(&self, o: Self) -> (r: bool) ensures r == (self.bits & o.bits != 0) { self.bits & o.bits != 0 }')
    L.append('    pub fn from_bits_truncate(b: %s) -> (r: Self) ensures r.bits == b & Self::all_bits() { %s { bits: b & (%s) } }' % (ty, name, allbits))
    L.append('    pub fn remove(&mut self, o: Self) ensures final(self).bits == old(self).bits & !o.bits { self.bits = self.bits & !o.bits; }')
    L.append('    pub fn insert(&mut self, o: Self) ensures final(self).bits == old(self).bits | o.bits { self.bits = self.bits | o.bits; }')
    L.append('}')
    for (tr, m, op) in (('BitAnd', 'bitand', '&'), ('BitOr', 'bitor', '|')):
        L.append('impl core::ops::%s for %s { type Output = %s; fn %s(self, o: %s) -> (r: %s) ensures r.bits == self.bits %s o.bits { %s { bits: self.bits %s o.bits } } }'
                 % (tr, name, name, m, name, name, op, name, op))
        L.append('impl vstd::std_specs::ops::%sSpecImpl<%s> for %s {' % (tr, name, name))
        L.append('    open spec fn obeys_%s_spec() -> bool { true }' % m)
        L.append('    open spec fn %s_req(self, o: %s) -> bool { true }' % (m, name))
        L.append('    open spec fn %s_spec(self, o: %s) -> %s { %s { bits: self.bits %s o.bits } }' % (m, name, name, name, op))
        L.append('}')
    if assign_ops:
        L.append('impl core::ops::BitAndAssign for %s { fn bitand_assign(&mut self, o: %s) ensures *final(self) == (%s { bits: old(self).bits & o.bits }) { *self = %s { bits: self.bits & o.bits }; } }' % (name, name, name, name))
    out.append(Raw('\n'.join(L)))
    return out
