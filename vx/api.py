"""Unit description API for engine VX (see DESIGN.md section 3)."""
import re


class Fn:
    """A function whose text is taken from /repo on every run.

    file, scope, name : where it lives (scope = normalised header of the enclosing impl/trait/mod, None = top level)
    requires/ensures  : lists of clause strings; a clause may end in a tag comment `// [C02.getattr.cap]`
    splices           : ghost text (proof blocks, loop invariants, closure ensures) spliced at anchors: (anchor, mode, text)
    props             : properties an *untagged* failure inside this function is attributed to
    canary            : verify once more with `ensures false` appended; that run must fail in this function
    sig_subst         : list of (old, new) literal substitutions on the *signature* only (signature abstraction, logged)
    external_body     : keep only the signature+contract; body replaced by unimplemented!() (assumed contract, listed)
    rules             : opt-in rewrite rules for this function only, set after construction (`fn.rules = ('R18',)`);
                        R18 = `async fn` -> `fn`, `EXPR.await` -> `EXPR` (extract.r18_sig / r18_await)
                        R21 = `for P in &E {` -> `for P in E.iter() {`; R22 = `let P = E.iter().position(|X| {B});` -> index loop;
                        R23 = ghost token: `fn.ghost_token = dict(param=, arg=, callees=[..])` appended to the signature and to
                        every `.callee(..)` call (extract.r21_* / r22_* / r23_*)
                        R24 = `if C { B }` without else -> `if C { B } else { }` (extract.r24_explicit_else; works around a Verus
                        mis-resolution of `&mut`-holding values moved in an else-less if)
                        R31 = `CALL(..).inspect(|&x| {B})` by definition (Fn form: parenthesised block); R40 = `E.iter().fold(I, |acc, x| B)` ->
                        accumulator loop; R41 = `.filter(|p| C).fold(..)` -> loop with `if`; R42 = `for x in E.iter().filter(|p| C) {B}` ->
                        `for` + `if`; R43 = `CALL(..).map(|x| {B})` -> match (extract.r31_* / r40_* / r41_r42_* / r43_*; units fusedevw, asyncdevw);
                        R23 `ghost_token['free_callees']`: token appended to free-function calls (extract.r23_ghost_token_free_calls)
    """
    rules = ()

    def __init__(self, file, scope, name, requires=(), ensures=(), splices=(), props=(), canary=False,
                 sig_subst=(), body_subst=(), external_body=False, decreases=None, ret_name='r', attrs=(), emit_name=None,
                 no_unwind=False, lenient_sig=False, gtag_props=None, body_resub=(), extra_props=()):
        self.file, self.scope, self.name = file, scope, name
        self.requires, self.ensures = list(requires), list(ensures)
        self.splices = list(splices)
        self.props = list(props)
        self.canary = canary
        self.sig_subst = list(sig_subst)
        self.body_subst = list(body_subst)
        self.external_body = external_body
        self.decreases = decreases
        self.ret_name = ret_name
        self.attrs = list(attrs)
        self.emit_name = emit_name
        self.no_unwind = no_unwind
        self.extra_props = list(extra_props)   # properties every failure located in this function also belongs to
        self.body_resub = list(body_resub)   # (regex, replacement, why): abstraction of an unsupported expression by a model call; must match exactly once
        self.gtag_props = gtag_props or {}   # per-function override of Unit.generic_tags (which property a generic tag belongs to here)
        self.lenient_sig = lenient_sig      # sig_subst entries that do not occur are skipped


class Copy:
    """A non-function item (struct / const / enum) copied mechanically from /repo: regex on masked source locating its start.
    subst: literal substitutions applied to the copied text (logged)."""

    def __init__(self, file, regex, subst=(), prefix='', strip_attrs=True, make_pub=False, array_const=False):
        self.file, self.regex, self.subst, self.prefix, self.strip_attrs = file, regex, list(subst), prefix, strip_attrs
        self.array_const = array_const      # R10: `const X: [T; N] = [..];` -> exec const with its elements as ensures
        self.make_pub = make_pub            # visibility only: `const X` -> `pub const X` (logged)


class Lifted:
    """R17 closure lifting: the `nth` closure literal (`&mut |params| { BODY }`) inside function (file, scope, name) is emitted as
    a standalone function `sig { BODY' }`, where BODY' is BODY with its final continuation call `cont(args)` replaced by
    `Ok((args))` - i.e. the function returns what the closure would hand to the continuation.  The captured variables
    become parameters (listed in `sig`, hand-written); everything else is the closure's own text after R1..R13.

    Opt-in, set after construction (unit ptlookup): `rules = ('R31',)` (Result::inspect -> its definition, extract.r31_result_inspect),
    `body_resub = [(regex, replacement, why)]` (logged ABSTRACT rule, exactly one match), `ghost_token = dict(arg=, callees=[..])`
    (R23 on the closure's text; the token parameter itself is written in `sig`), `cont_param = 'name'` (R17', extract.r17_cont_as_param:
    the continuation is not the final expression; its result becomes the parameter `name` of the lifted function)."""
    rules = ()
    body_resub = ()
    ghost_token = None
    cont_param = None

    def __init__(self, file, scope, name, nth, sig, cont, requires=(), ensures=(), splices=(), props=(), canary=False, key=None):
        self.file, self.scope, self.name, self.nth, self.sig, self.cont = file, scope, name, nth, sig, cont
        self.requires, self.ensures, self.splices, self.props, self.canary = list(requires), list(ensures), list(splices), list(props), canary
        self.key = key or ('%s#closure%d' % (name, nth))


class ByteConst:
    """R11: `pub const NAME: &[u8] = b"...";` copied from /repo as an external_body exec const whose `ensures` lists the
    literal's bytes, computed mechanically from the literal text (Verus does not evaluate byte-string literals)."""

    def __init__(self, file, name):
        self.file, self.name = file, name


class Raw:
    """Hand-written Verus text (models, spec functions, lemmas) emitted verbatim; part of the trusted/assumed prelude
    unless it is a proof fn (which Verus checks).

    Opt-in, set after construction (unit readerrd): `canary = dict(name=, text=, props=[..])` - for a hand-written exec function that
    is verified (hand copy of a std default method): `text` is its vacuity copy `<name>__canary` with `false // [canary]` as last
    ensures clause, emitted in the canary run only and required to FAIL there (build.generate)."""
    canary = None

    def __init__(self, text):
        self.text = text


class Group:
    """An `impl ... {` / `mod ... {` wrapper (hand-written header) around extracted functions."""

    def __init__(self, header, items):
        self.header, self.items = header, list(items)


class Unit:
    prelude_subst = ()     # opt-in: (old, new) literal substitutions applied to the prelude texts for this unit only (e.g. to replace a model type by a variant)
    cfg_features = ()      # opt-in: features evaluated as ON in #[cfg(feature = ..)] for this unit only (`unit.cfg_features = {'async-io'}`)

    def __init__(self, name, items, preludes=(), generic_tags=None, file_attrs=(), notes=''):
        self.name = name
        self.items = list(items)
        self.preludes = list(preludes)
        self.generic_tags = generic_tags or {}
        self.file_attrs = list(file_attrs)
        self.notes = notes


# `[Cnn.a.b]` names a clause of property Cnn; `[pin.a.b]` names PINNED behaviour that belongs to no property (what the code does where the property is silent):
# a failing pin clause is recorded in the evidence as failing for no claimed property and is never an alarm
TAG_RE = re.compile(r'\[((?:C\d\d|pin)(?:\.[A-Za-z0-9_\-]+)*)\]')
GTAG_RE = re.compile(r'\[([a-z][a-z0-9_\-]*)\]')
