"""Rewrite rules introduced for unit `ptcore` (C06 / C08 / C15 / C05: the not yet covered parts of src/passthrough/mod.rs, util.rs, sync_io.rs).
Opt-in per function through the hooks of vx/build.py (`fn.locate`, `fn.body_hooks`: body -> body, run after the standard rules and BEFORE the
ghost-token rule R23).  Every rule logs what it did in `rules_fired`; a shape it does not recognise raises ExtractError (exit 2, never an alarm).
Newline counts are preserved (X._pad).  Additive: no existing unit uses this module.

R70  `unsafe { CStr::from_bytes_with_nul_unchecked(B) }` -> `vx_cstr_unchecked(B)`: a model call whose PRECONDITION is the safety condition of the
     unsafe function (std: "the bytes must be NUL terminated and must not contain interior NULs"), i.e. it is PROVED at every site (from the
     bytes of the constant, R11); the result is the string before the NUL.  Dropped: nothing.
R71  drop flag of a conditionally moved `File` local made explicit.  A local NAME (listed by the unit) that holds a File and is moved on some paths
     only cannot be handled by R53f (its branches disagree and the if-chain is not the last statement).  What rustc generates for such a local is a
     DROP FLAG: a hidden boolean "still owns its value", tested where the local goes out of scope.  The flag and the value together are an
     Option<File>:
        * behind the statement that binds NAME:   `let mut NAME__slot: Option<File> = Some(NAME);`
        * a later MOVE of NAME (use as a value)  -> `vx_slot_take(&mut NAME__slot)`   (requires the slot to be full: a use after move cannot verify)
        * a later BORROW (`&NAME`, `NAME.f(..)`) -> `vx_slot_ref(&NAME__slot)`        (likewise)
        * every later `E?` / `return E` of the binding block -> the same exit preceded by `vx_drop_slot(NAME__slot, TOKEN);` (ptopsrules._rw_exits)
        * the end of the binding block -> `{ let scope_val = TAIL; vx_drop_slot(NAME__slot, TOKEN); scope_val }`
     `vx_drop_slot` is a hand-written VERIFIED function (drop glue of Option<File>: close iff Some).  The binding statement must be a direct
     statement of the function's outermost block; NAME must not be re-bound; closures must not mention it.  Dropped: nothing; ADDED: the hidden
     flag and the drop Rust inserts.  Other locals dropped at the same points own no descriptor.  Unwinding is not modelled.
R72  the raw buffer of `readlinkat` (and only these shapes):  `Vec::with_capacity(N)` -> `vx_vec_with_capacity(N)` (std: "capacity at least N", length 0);
     `V.as_mut_ptr() as *mut libc::c_char` -> `vx_vec_as_mut_ptr(&mut V)` (model pointer: address, room = capacity; the model of fusedevw);
     `unsafe { V.set_len(N) };` -> `vx_set_len_filled(&mut V, N, TOKEN);` - Vec::set_len with BOTH halves of its safety condition as preconditions
     (N <= capacity; the first N bytes at the vector's address were initialised - by the kernel, recorded in the token), PROVED at the site.
     `V.shrink_to_fit()` keeps the contents (std).  Dropped: the address arithmetic (none is performed).
R73  a closure literal handed to a callee as the re-open callback is lifted to a method (R17 / R26 for an anonymous closure argument):
     `RECV.into_openable(ARG, |P1, P2, P3| { BODY })` -> `RECV.into_openable(ARG, ProcReopen { fs: self })`, and
     `fn reopen_cb(&self, P1: RawFd, P2: libc::c_int, P3: u32) -> io::Result<File> { BODY }` is emitted and verified next to the function.
     `ProcReopen` implements the model trait of the callback (ReopenFd::call_once) with, as its contract, TEXTUALLY the contract the lifted
     function is verified against (the link "calling the closure = calling the lifted function" is the assumption of R17).  Captures: `self` only.
R74  `E?` where E's error type differs from the function's: `(match E { Ok(v) => v, Err(e) => return Err(From::from(e)) })` with the conversion
     named (`io::Error::from_nul(e)` for NulError: std `impl From<NulError> for io::Error` = InvalidInput, no OS code).  Definition of `?`.
R32v R32 (`RECV.unwrap_or_else(|| EXPR)` -> `match RECV { Some(v) => v, None => { EXPR } }`, definition of Option::unwrap_or_else) for a receiver
     that is a variable / field path instead of a call expression.  Nothing is dropped.
R55c R55 for a MaybeUninit out-parameter of any name (listed by the unit): `NAME.as_mut_ptr()` -> `&mut NAME` (the cell the kernel fills, named by its owner),
     `unsafe { NAME.assume_init() }` -> `NAME.assume_init()` (model cell: the value the kernel stored).  Dropped: nothing is computed by the accessor.
R53m R53f inside match arms.  R53f reasons per BLOCK (a block is a scope: its File locals die at its end and at every exit that leaves it) but only descends into
     if / else chains.  R53m applies an R53f hook to the block of every match arm `PAT => { .. }` that declares a File local, as if that block were a
     function body (no File local of an enclosing block may be alive: checked - a constructor `let` outside the arms is refused).  Same added calls as R53f.
R77  tail `E.map(Arc::new).map_err(|e| B)` -> `match E { Ok(ok_v) => Ok(Arc::new(ok_v)), Err(e) => Err(B) }` (definitions of Result::map and Result::map_err,
     B verbatim).  Reason: the function handed to `map` is a path (no closure to annotate) and B's result (an errno) must be visible to the proof.
R78  `E.or_else(|| F).unwrap_or(V)` -> `(match E { Some(oe_v) => oe_v, None => (match F { Some(oe_w) => oe_w, None => V }) })`: the definitions of
     Option::or_else ("returns the option if it contains a value, otherwise calls f and returns the result") and Option::unwrap_or.  F stops being a closure, so
     it may use the ghost token.  V is evaluated eagerly by unwrap_or: it must be a literal.  Nothing is dropped.
R8e  ghost text placed at the END of a function that returns `()` (its last statement ends in `;`): the counterpart of the `^` splice of R8.
R76  ghost argument on constructors that create shared state the token describes: `RwLock::new(X)` / `HandleMap::new()` (R56 shape).
"""
import re

from . import extract as X
from . import ptopsrules as PR
from . import fhrules as FR


# ------------------------------------------------------------------------------------------------------------------- R70
def r70_cstr_unchecked(body, fired):
    rx = r'unsafe\s*\{\s*CStr::from_bytes_with_nul_unchecked\(\s*(\w+)\s*\)\s*\}'
    n = len(re.findall(rx, X.mask(body)))
    if n:
        body = re.sub(rx, lambda m: X._pad('vx_cstr_unchecked(%s)' % m.group(1), m.group(0)), body)
        fired.append('R70 every: unsafe { CStr::from_bytes_with_nul_unchecked(B) } -> vx_cstr_unchecked(B) (safety condition of the unsafe fn = proved precondition) x%d' % n)
    if re.search(r'from_bytes_with_nul_unchecked', X.mask(body)):
        raise X.ExtractError('R70: a use of CStr::from_bytes_with_nul_unchecked in an unrecognised shape')
    return body


# ------------------------------------------------------------------------------------------------------------------- R72
def r72_raw_vec(tok):
    def hook(body, fired):
        subs = [
            (r'\bVec::with_capacity\(', 'vx_vec_with_capacity(', 'Vec::with_capacity -> model: length 0, capacity at least the request'),
            (r'\b(\w+)\.as_mut_ptr\(\)\s+as\s+\*mut\s+libc::c_char', r'vx_vec_as_mut_ptr(&mut \1)', 'Vec::as_mut_ptr -> model pointer (address, room)'),
            (r'unsafe\s*\{\s*(\w+)\.set_len\(([^;{}]*)\)\s*\}\s*;', r'vx_set_len_filled(&mut \1, \2, %s);' % tok, 'Vec::set_len -> model call: new length within the capacity AND within the bytes the kernel initialised at that address'),
            (r'\b(\w+)\.capacity\(\)', r'vx_vec_capacity(&\1)', 'Vec::capacity -> model (the capacity of THIS vector)'),
            (r'\b(\w+)\.shrink_to_fit\(\)', r'vx_shrink_to_fit(&mut \1)', 'Vec::shrink_to_fit -> model (contents unchanged)'),
        ]
        for (rx, rep, why) in subs:
            n = len(re.findall(rx, X.mask(body), flags=re.S))
            if n:
                body = re.sub(rx, lambda m: X._pad(m.expand(rep), m.group(0)), body, flags=re.S)
                fired.append('R72 every: /%s/ -> %s (%s) x%d' % (rx[:46], rep[:46], why, n))
        left = re.search(r'\.\s*(set_len|as_mut_ptr|as_ptr)\s*\(', X.mask(body))
        if left and left.group(1) != 'as_ptr':
            raise X.ExtractError('R72: raw vector operation .%s( in an unrecognised shape' % left.group(1))
        return body
    return hook


# ------------------------------------------------------------------------------------------------------------------- R74
def r74_try_from(ctor_rx, conv):
    """`CTOR(..)?` -> match with the From conversion spelled as `conv(e)`"""
    def hook(body, fired):
        n = 0
        pos = 0
        while True:
            msk = X.mask(body)
            m = re.compile(ctor_rx).search(msk, pos)
            if not m:
                break
            ob = m.end() - 1
            cb = X.match_close(msk, ob)
            after = re.match(r'\s*\?', msk[cb + 1:])
            if not after:
                pos = m.end()
                continue
            end = cb + 1 + after.end()
            new = '(match %s { Ok(ok_v) => ok_v, Err(conv_e) => { return Err(%s(conv_e)); } })' % (body[m.start():cb + 1], conv)
            body = body[:m.start()] + X._pad(new, body[m.start():end]) + body[end:]
            n += 1
            pos = 0
            if n > 20:
                raise X.ExtractError('R74: runaway')
        if n:
            fired.append('R74 `%s(..)?` -> match, the From conversion of `?` named %s (%d)' % (ctor_rx[:30], conv, n))
        return body
    return hook


# ------------------------------------------------------------------------------------------------------------------- R55c
def r55c_out_param(names):
    def hook(body, fired):
        for nm in names:
            subs = [(r'\b%s\.as_mut_ptr\(\)(?!\s+as\b)' % re.escape(nm), '&mut %s' % nm, 'the out-parameter named by its cell'),
                    (r'unsafe\s*\{\s*%s\.assume_init\(\)\s*\}' % re.escape(nm), '%s.assume_init()' % nm, 'MaybeUninit::assume_init of the model cell')]
            for (rx, rep, why) in subs:
                n = len(re.findall(rx, X.mask(body)))
                if n:
                    body = re.sub(rx, lambda m: X._pad(rep, m.group(0)), body)
                    fired.append('R55c every: /%s/ -> %s (%s) x%d' % (rx[:50], rep, why, n))
        return body
    return hook


# ------------------------------------------------------------------------------------------------------------------- R53m
def r53m_match_arms(ctor_rxs, dropfn, tok):
    base = FR.r53f_file_drops(ctor_rxs, dropfn=dropfn, tok=tok)
    ANY_CT = re.compile(r'\blet\s+(?:mut\s+)?\w+\s*(?::[^=;]+)?=[^;]*?(?:%s)\s*\(' % '|'.join(ctor_rxs), re.S)

    def hook(body, fired):
        msk = X.mask(body)
        if not ANY_CT.search(msk):
            return body
        arms = []
        for m in re.finditer(r'=>\s*\{', msk):
            ob = m.end() - 1
            arms.append((ob, X.match_close(msk, ob)))
        # outermost arm blocks that contain a constructor let
        arms = [(a, b) for (a, b) in arms if ANY_CT.search(msk[a:b + 1])]
        outer = [(a, b) for (a, b) in arms if not any(a2 < a and b < b2 for (a2, b2) in arms)]
        covered = ''.join(ch if not any(a <= i <= b for (a, b) in outer) else ' ' for i, ch in enumerate(msk))
        if ANY_CT.search(covered):
            # constructor lets directly in the function block: plain R53f (which refuses nested ones)
            return base(body, fired)
        n = 0
        for (a, b) in sorted(outer, reverse=True):
            k = len(fired)
            new = base(body[a:b + 1], fired)
            del fired[k:]
            body = body[:a] + X._pad(new, body[a:b + 1]) + body[b + 1:]
            n += 1
        fired.append('R53m scope-exit drops (%s) made explicit inside %d match-arm block(s), each treated as a scope of its own (R53f per block)' % (dropfn, n))
        return body
    return hook


# ------------------------------------------------------------------------------------------------------------------- R32v
def r32v_unwrap_or_else(body, fired):
    n = 0
    while True:
        msk = X.mask(body)
        m0 = re.search(r'\.\s*unwrap_or_else\s*\(', msk)
        if not m0:
            break
        m = re.match(r'\.\s*unwrap_or_else\s*\(\s*\|\s*\|', msk[m0.start():])
        if not m:
            raise X.ExtractError('R32v: unsupported shape of .unwrap_or_else(..)')
        n += 1
        ob = m0.start() + msk[m0.start():].index('(')
        cb = X.match_close(msk, ob)
        expr = body[m0.start() + m.end():cb].strip()
        rs = PR._operand_start(msk, m0.start())
        recv = body[rs:m0.start()].rstrip()
        new = '(match %s { Some(uoe_%d) => uoe_%d, None => { %s } })' % (recv, n, n, expr)
        fired.append('R32v %s.unwrap_or_else(|| ..) -> match (definition of Option::unwrap_or_else)' % X.norm_ws(recv)[:50])
        body = body[:rs] + X._pad(new, body[rs:cb + 1]) + body[cb + 1:]
        if n > 20:
            raise X.ExtractError('R32v: runaway')
    return body


# ------------------------------------------------------------------------------------------------------------------- R76
def r76_token_on(rx, arg):
    h = PR.r56_token_on(rx, arg)

    def hook(body, fired):
        k = len(fired)
        body = h(body, fired)
        for i in range(k, len(fired)):
            fired[i] = fired[i].replace('R56', 'R76')
        return body
    return hook


# ------------------------------------------------------------------------------------------------------------------- R78
def r78_or_else_unwrap_or(body, fired):
    n = 0
    while True:
        msk = X.mask(body)
        m = re.search(r'\.\s*or_else\s*\(\s*\|\s*\|', msk)
        if not m:
            break
        ob = m.start() + msk[m.start():].index('(')
        cb = X.match_close(msk, ob)
        um = re.match(r'\s*\.\s*unwrap_or\s*\(\s*(\d+)\s*\)', msk[cb + 1:])
        if not um:
            raise X.ExtractError('R78: .or_else(|| ..) is not followed by .unwrap_or(<literal>)')
        f = body[m.end():cb].strip()
        if re.search(r'\breturn\b|\?', X.mask(f)):
            raise X.ExtractError('R78: the or_else closure contains `?` / return')
        s0 = PR._operand_start(msk, m.start())
        recv = body[s0:m.start()].rstrip()
        end = cb + 1 + um.end()
        new = '(match %s { Some(oe_v) => oe_v, None => (match %s { Some(oe_w) => oe_w, None => %s }) })' % (recv, f, um.group(1))
        body = body[:s0] + X._pad(new, body[s0:end]) + body[end:]
        fired.append('R78 `%s.or_else(|| ..).unwrap_or(%s)` -> nested match (definitions of Option::or_else / unwrap_or)' % (X.norm_ws(recv)[:40], um.group(1)))
        n += 1
        if n > 20:
            raise X.ExtractError('R78: runaway')
    return body


# ------------------------------------------------------------------------------------------------------------------- R77 / R8e
def r77_map_arc_new(body, fired):
    msk = X.mask(body)
    hits = list(re.finditer(r'\.\s*map\s*\(\s*Arc::new\s*\)\s*\.\s*map_err\s*\(', msk))
    if not hits:
        return body
    if len(hits) != 1:
        raise X.ExtractError('R77: %d occurrences' % len(hits))
    m = hits[0]
    ob = m.end() - 1
    cb = X.match_close(msk, ob)
    if msk[cb + 1:].strip() != '}':
        raise X.ExtractError('R77: .map(Arc::new).map_err(..) is not the tail expression of the function')
    pm = re.match(r'\s*\|\s*(\w+)\s*\|\s*', msk[ob + 1:cb])
    if not pm:
        raise X.ExtractError('R77: argument of .map_err is not `|e| BODY`')
    cbody = body[ob + 1 + pm.end():cb].strip()
    if re.search(r'\breturn\b|\?', X.mask(cbody)):
        raise X.ExtractError('R77: the map_err closure contains `?` / return')
    s0 = PR._operand_start(msk, m.start())
    recv = body[s0:m.start()].rstrip()
    new = 'match %s { Ok(ok_v) => Ok(Arc::new(ok_v)), Err(%s) => Err(%s) }' % (recv, pm.group(1), cbody)
    fired.append('R77 tail `%s.map(Arc::new).map_err(|%s| ..)` -> match (definitions of Result::map / map_err, closure body verbatim)' % (X.norm_ws(recv)[:40], pm.group(1)))
    return body[:s0] + X._pad(new, body[s0:cb + 1]) + body[cb + 1:]


def r8e_ghost_at_end(text):
    def hook(body, fired):
        msk = X.mask(body)
        cb = X.match_close(msk, 0)
        j = cb - 1
        while j > 0 and msk[j] in ' \t\n':
            j -= 1
        if msk[j] not in ';}':
            raise X.ExtractError('R8e: the function has a tail expression')
        fired.append('R8e ghost text at the end of the function body')
        return body[:j + 1] + X.SEP + text.replace('\n', X.SEP) + X.SEP + body[j + 1:]
    return hook


# ------------------------------------------------------------------------------------------------------------------- R71
def r71_drop_flag(names, tok, dropfn='vx_drop_slot'):
    def hook(body, fired):
        if not body.startswith('{'):
            raise X.ExtractError('R71: body does not start with {')
        cb = X.match_close(X.mask(body), 0)
        inner = body[1:cb]
        for name in names:
            inner_m = X.mask(inner)
            stmts = PR._split_stmts(inner_m)
            decl = None
            for idx, (a, b, is_tail) in enumerate(stmts):
                stm = inner_m[a:b]
                lm = re.match(r'\s*let\s+([^=;]*?)=(?!=)', stm, re.S)
                if lm and re.search(r'\b%s\b' % re.escape(name), lm.group(1)):
                    if decl is not None:
                        raise X.ExtractError('R71: %s is bound twice' % name)
                    decl = idx
            if decl is None:
                raise X.ExtractError('R71: no `let` binding %s directly in the function block' % name)
            slot = '%s__slot' % name
            if re.search(r'\b%s\b' % re.escape(slot), inner_m):
                raise X.ExtractError('R71: the name %s is in use' % slot)
            a, b, _t = stmts[decl]
            head = inner[:b] + ' let mut %s: Option<File> = Some(%s);' % (slot, name)
            parts = []
            n_mv = n_bw = 0
            drops = '%s(%s, %s);' % (dropfn, slot, tok)
            rest_stmts = stmts[decl + 1:]
            if not rest_stmts:
                raise X.ExtractError('R71: nothing follows the binding of %s' % name)
            for (a2, b2, is_tail) in rest_stmts:
                st = inner[a2:b2]
                stm = X.mask(st)
                for (ca, cb_) in PR._closure_extents(stm):
                    if re.search(r'\b%s\b' % re.escape(name), stm[ca:cb_]):
                        raise X.ExtractError('R71: a closure mentions %s' % name)
                # uses of NAME, right to left
                for m in reversed(list(re.finditer(r'\b%s\b' % re.escape(name), stm))):
                    before = stm[:m.start()].rstrip()
                    after = stm[m.end():].lstrip()
                    if before.endswith('.') or before.endswith('::') or after.startswith('::') or (after.startswith(':') and not after.startswith('::')):
                        continue
                    if re.search(r'\blet\s+(mut\s+)?$', stm[:m.start()]):
                        raise X.ExtractError('R71: %s is re-bound' % name)
                    bm = re.search(r'&\s*(mut\s+)?$', stm[:m.start()])
                    if bm:
                        if bm.group(1):
                            raise X.ExtractError('R71: &mut borrow of %s' % name)
                        s0 = bm.start()
                        st = st[:s0] + 'vx_slot_ref(&%s)' % slot + st[m.end():]
                        n_bw += 1
                    elif after.startswith('.') and not re.match(r'\.\s*into_\w+\s*\(', after):
                        st = st[:m.start()] + 'vx_slot_ref(&%s)' % slot + st[m.end():]
                        n_bw += 1
                    else:
                        st = st[:m.start()] + 'vx_slot_take(&mut %s)' % slot + st[m.end():]
                        n_mv += 1
                    stm = X.mask(st)
                lead = st[:len(st) - len(st.lstrip())]
                core = st.strip()
                new = PR._rw_exits(core, drops)
                if is_tail:
                    new = '{ let scope_val = %s; %s scope_val }' % (new, drops)
                parts.append(lead + X._pad(new, st[len(lead):]))
            consumed = stmts[-1][1]
            tail_ws = ''
            if not rest_stmts[-1][2]:
                tail_ws = ' ' + drops + ' '
            inner = X._pad(head + ''.join(parts) + tail_ws + inner[consumed:], inner)
            fired.append('R71 drop flag of the File local `%s` made explicit: Option slot, %d move(s) -> vx_slot_take, %d borrow(s) -> vx_slot_ref, %s before every later exit and at the end of the block'
                         % (name, n_mv, n_bw, dropfn))
        return '{' + inner + body[cb:]
    return hook


# ------------------------------------------------------------------------------------------------------------------- R73
def _closure_arg(body, callee):
    """the closure literal that is the LAST argument of the single call `.callee(` in body -> dict(start, end, params, cbody)"""
    msk = X.mask(body)
    hits = list(re.finditer(r'\.\s*%s\s*\(' % re.escape(callee), msk))
    if len(hits) != 1:
        raise X.ExtractError('R73: %d calls of .%s(' % (len(hits), callee))
    ob = hits[0].end() - 1
    cb = X.match_close(msk, ob)
    # the first `|` at bracket depth 0 of the argument list starts the closure literal, which must be the last argument
    k, d, p0 = ob + 1, 0, -1
    while k < cb:
        c = msk[k]
        if c in '([{':
            d += 1
        elif c in ')]}':
            d -= 1
        elif c == '|' and d == 0:
            p0 = k
            break
        k += 1
    if p0 < 0 or not re.search(r',\s*$', msk[ob + 1:p0]):
        raise X.ExtractError('R73: the last argument of .%s( is not a closure literal' % callee)
    p1 = msk.index('|', p0 + 1)
    params = [p.strip() for p in body[p0 + 1:p1].split(',')]
    e = cb
    while msk[e - 1] in ' \t\n,':
        e -= 1
    bs = p1 + 1
    while msk[bs] in ' \t\n':
        bs += 1
    cbody = body[bs:e]
    if not cbody.startswith('{'):
        cbody = '{ ' + cbody + ' }'
    elif X.match_close(X.mask(cbody), 0) != len(cbody) - 1:
        raise X.ExtractError('R73: closure body is not a single block')
    return dict(start=p0, end=e, params=params, cbody=cbody, off=bs)


def r73_locate(scope, fn_name, callee, lifted, ptypes, ret):
    def locate(src, fired):
        d = src.find_fn(scope, fn_name)
        c = _closure_arg(d['body'], callee)
        if len(c['params']) != len(ptypes):
            raise X.ExtractError('R73: the closure takes %d parameters, %d expected' % (len(c['params']), len(ptypes)))
        for p in c['params']:
            if not re.match(r'^\w+$', p):
                raise X.ExtractError('R73: closure parameter %r is not a plain name' % p)
        cm = X.mask(c['cbody'])
        if re.search(r'\breturn\b', cm):
            raise X.ExtractError('R73: `return` inside the closure')
        sig = 'fn %s(&self, %s) -> %s ' % (lifted, ', '.join('%s: %s' % (p, t) for p, t in zip(c['params'], ptypes)), ret)
        line = d['body_line'] + d['body'].count('\n', 0, c['off'])
        fired.append('R73 closure argument of .%s( in %s lifted to the method `%s` (captures: self)' % (callee, fn_name, lifted))
        return dict(sig=sig, body=c['cbody'], line=line, body_line=line, attrs=[], start=0, end=0)
    return locate


def r73_parent_hook(callee, obj):
    def hook(body, fired):
        c = _closure_arg(body, callee)
        body = body[:c['start']] + X._pad(obj, body[c['start']:c['end']]) + body[c['end']:]
        fired.append('R73 closure argument of .%s( -> %s (model object of the lifted closure)' % (callee, obj))
        return body
    return hook
