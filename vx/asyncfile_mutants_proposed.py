"""Proposed entries for vx/mutants.py (properties C04 / C20 / C15, unit asyncfile: src/common/async_file.rs).  Every `old` occurs exactly once in its
file at /repo HEAD (self-test at the bottom: `python3 vx/asyncfile_mutants_proposed.py [SRC]`); each mutant was killed in the sub-agent's campaign with
the obligation(s) given in the comment.  The unit's baseline on the unchanged tree is the ONE obligation of finding A1
(`C20.asyncfile.async_read_at.uring_same_transfer`, findings/repro_asyncfile.rs): a mutant is killed when ANOTHER obligation fails (the campaign ran with
`VX_DROP_TAGS=C20.asyncfile.async_read_at.uring_same_transfer`, which neutralises exactly that clause).  BENIGN lists edits that must stay quiet.
The unit switches feature async-io on for itself."""
AF = 'src/common/async_file.rs'

MUTANTS = {
    'C04': [
        # killed by C04.asyncfile.set_size.in_bounds (+ loop.earlier_buffers_full)
        ('af-preadv-share-ignores-len', AF, 'let cnt = std::cmp::min(count, buf.cap() - buf.len());', 'let cnt = std::cmp::min(count, buf.cap());'),
        # killed by C04.asyncfile.preadv.loop.* (sizes do not mark the filled prefix)
        ('af-preadv-set-size-forgets-len', AF, 'unsafe { buf.set_size(buf.len() + cnt) };', 'unsafe { buf.set_size(cnt) };'),
        # killed by C04.ftraits.iov_in_bounds (the kernel would read one entry beyond the array)
        ('af-preadv-iovcnt-plus-one', AF, 'preadv64(\n                fd,\n                iov.as_ptr() as *const libc::iovec,\n                iov.len() as libc::c_int,',
         'preadv64(\n                fd,\n                iov.as_ptr() as *const libc::iovec,\n                (iov.len() + 1) as libc::c_int,'),
        # killed by C04.asyncfile.async_read_at.tokio_same_transfer (the buffer handed back does not account for what was read)
        ('af-read-at-returns-stale-buffer', AF, 'let res = preadv(f.as_raw_fd(), &mut bufs, offset);\n                (res, bufs[0])', 'let res = preadv(f.as_raw_fd(), &mut bufs, offset);\n                (res, buf)'),
        # killed by C04.asyncfile.async_write_at.tokio_same_transfer
        ('af-write-at-offset-plus-one', AF, 'let res = pwritev(f.as_raw_fd(), &bufs, offset);\n                (res, bufs[0])', 'let res = pwritev(f.as_raw_fd(), &bufs, offset + 1);\n                (res, bufs[0])'),
        # killed by C04.asyncfile.async_readv_at.tokio_same_transfer
        ('af-readv-at-wrong-descriptor', AF, 'let res = preadv(f.as_raw_fd(), &mut bufs, offset);\n                (res, bufs)', 'let res = preadv(0, &mut bufs, offset);\n                (res, bufs)'),
    ],
    'C20': [
        # killed by C20.asyncfile.preadv.host_call / loop.only_failed_attempts_so_far
        ('af-preadv-wrong-descriptor', AF, 'preadv64(\n                fd,', 'preadv64(\n                fd + 1,'),
        # killed by C20.asyncfile.pwritev.host_call / loop.only_failed_attempts_so_far
        ('af-pwritev-offset-zero', AF, 'pwritev64(\n                fd,\n                iov.as_ptr() as *const libc::iovec,\n                iov.len() as libc::c_int,\n                offset as off64_t,',
         'pwritev64(\n                fd,\n                iov.as_ptr() as *const libc::iovec,\n                iov.len() as libc::c_int,\n                0 as off64_t,'),
        # killed by C20.asyncfile.pwritev.host_call (a call that moved 0 bytes is reported as an error)
        ('af-pwritev-zero-is-error', AF, 'if res >= 0 {\n            return Ok(res as usize);', 'if res > 0 {\n            return Ok(res as usize);'),
        # killed by C20.asyncfile.async_writev_at.uring_same_transfer
        ('af-writev-at-uring-offset-zero', AF, 'File::Uring(f) => f.writev_at(bufs, offset).await,', 'File::Uring(f) => f.writev_at(bufs, 0).await,'),
        # killed by C20.asyncfile.async_open.same_open_request (the tokio variant opens for writing whatever `write` says)
        ('af-open-tokio-always-writable', AF, 'RuntimeType::Tokio => tokio::fs::OpenOptions::new()\n                .read(true)\n                .write(write)',
         'RuntimeType::Tokio => tokio::fs::OpenOptions::new()\n                .read(true)\n                .write(true)'),
    ],
    'C15': [
        # killed by C15.asyncfile.metadata.descriptor_kept / one_fstat_on_own_descriptor (the temporary File is dropped: close(2) of the object's descriptor)
        ('af-metadata-no-forget', AF, '        std::mem::forget(file);\n', ''),
        # killed by C15.asyncfile.uring_from_raw_fd.not_owned_yet (the clone owns the ORIGINAL descriptor a second time; the dup'ed one leaks)
        ('af-try-clone-wraps-original-fd', AF, 'tokio_uring::fs::File::from_raw_fd(fd)', 'tokio_uring::fs::File::from_raw_fd(f.as_raw_fd())'),
        # killed by C15.asyncfile.async_try_clone.err_nothing_new (descriptor 0 is a valid result of dup: it leaks)
        ('af-try-clone-zero-is-error', AF, 'if fd < 0 {\n                    Err(std::io::Error::last_os_error())', 'if fd <= 0 {\n                    Err(std::io::Error::last_os_error())'),
    ],
}

# mutants of the A1 REPAIR (/var/tmp/a1-fix.patch: the io_uring arm of async_read_at hands tokio-uring `buf.slice(init..)`): they apply only to a tree
# that carries the repair (their old texts do not exist before it); on such a tree the unit's baseline is STATUS ok
MUTANTS_A1_REPAIR = {
    'C20': [
        # killed by C20.asyncfile.async_read_at.uring_same_transfer (the whole window again: the initialised bytes are overwritten, len = n)
        ('af-a1-slice-from-zero', AF, 'f.read_at(buf.slice(init..), offset).await', 'f.read_at(buf.slice(0..), offset).await'),
        # killed by C20.asyncfile.async_read_at.uring_same_transfer (the buffer handed back does not account for what was read)
        ('af-a1-stale-buffer-returned', AF, '(res, slice.into_inner())', '(res, buf)'),
    ],
    'C04': [
        # killed by C04.asyncfile.uring_slice.begin_below_total (slice() panics on a buffer without free space)
        ('af-a1-no-full-buffer-guard', AF, '                if init == buf.cap() {\n                    return (Ok(0), buf);\n                }\n', ''),
    ],
}

# edits that change nothing a property speaks about: the unit must stay at its baseline
BENIGN = [
    ('af-benign-comment', AF, '// Retry if the IO is interrupted by signal.\n            if e.kind() != ErrorKind::Interrupted {\n                return Err(e);\n            }\n        }\n    }\n}\n\n/// A simple wrapper over posix `pwritev`',
     '// Try again when a signal interrupted the call (EINTR).\n            if e.kind() != ErrorKind::Interrupted {\n                return Err(e);\n            }\n        }\n    }\n}\n\n/// A simple wrapper over posix `pwritev`'),
    ('af-benign-commuted-sum', AF, 'unsafe { buf.set_size(buf.len() + cnt) };', 'unsafe { buf.set_size(cnt + buf.len()) };'),
    ('af-benign-renamed-locals', AF,
     'let mut count = res as usize;\n            for buf in bufs.iter_mut() {\n                let cnt = std::cmp::min(count, buf.cap() - buf.len());\n                unsafe { buf.set_size(buf.len() + cnt) };\n                count -= cnt;\n                if count == 0 {\n                    break;\n                }\n            }\n            assert_eq!(count, 0);',
     'let mut left = res as usize;\n            for b in bufs.iter_mut() {\n                let share = std::cmp::min(left, b.cap() - b.len());\n                unsafe { b.set_size(b.len() + share) };\n                left -= share;\n                if left == 0 {\n                    break;\n                }\n            }\n            assert_eq!(left, 0);'),
    ('af-benign-rewrapped-call', AF, 'let res = pwritev(f.as_raw_fd(), &bufs, offset);\n                (res, bufs)', 'let res = pwritev(\n                    f.as_raw_fd(), // the descriptor\n                    &bufs,\n                    offset,\n                );\n                (res, bufs)'),
    ('af-benign-swapped-arms', AF, '            File::Tokio(f) => f.as_raw_fd(),\n            #[cfg(target_os = "linux")]\n            File::Uring(f) => f.as_raw_fd(),',
     '            #[cfg(target_os = "linux")]\n            File::Uring(f) => f.as_raw_fd(),\n            File::Tokio(f) => f.as_raw_fd(),'),
]

if __name__ == '__main__':
    import sys
    root = sys.argv[1] if len(sys.argv) > 1 else '/repo'
    bad = 0
    allm = [(p, m) for p, ms in MUTANTS.items() for m in ms] + [('benign', m) for m in BENIGN]
    if 'buf.slice(init..)' in open(root.rstrip('/') + '/' + AF).read():      # a tree that carries the A1 repair
        allm += [(p + '/a1-repair', m) for p, ms in MUTANTS_A1_REPAIR.items() for m in ms]
    for prop, (name, f, old, new) in allm:
        n = open(root.rstrip('/') + '/' + f).read().count(old)
        if n != 1 or old == new:
            print('NOT UNIQUE (%d): %s %s' % (n, prop, name))
            bad += 1
    print('%d mutants (+%d of the A1 repair, checked on a repaired tree only), %d benign edits, %d checked, %d problems' % (sum(len(v) for v in MUTANTS.values()), sum(len(v) for v in MUTANTS_A1_REPAIR.values()), len(BENIGN), len(allm), bad))
    sys.exit(1 if bad else 0)
