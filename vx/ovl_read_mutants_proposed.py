"""Proposed entries for vx/mutants.py (property C10, unit ovl_read: the READ side of the overlay).  Every `old` occurs exactly once in its file at /repo HEAD
(self-test at the bottom); each mutant was killed in the sub-agent's campaign with the obligation given in the comment.  The unit's baseline on the unchanged
tree is the reproduced finding [C10.read.stat64_ignore_enoent.only_missing]: compare against it, or run with
VX_DROP_TAGS=C10.read.stat64_ignore_enoent.only_missing (baseline ok)."""
M = 'src/overlayfs/mod.rs'
S = 'src/overlayfs/sync_io.rs'

MUTANTS = {
    'C10': [
        # the C10 part of STATFS: nothing changes, at most ONE layer is asked -> killed by C10.read.do_statvfs.frame
        ('read-statvfs-asks-twice', M, '                real_inode.layer.statfs(ctx, real_inode.inode)\n', '                real_inode.layer.statfs(ctx, real_inode.inode)?;\n                real_inode.layer.statfs(ctx, real_inode.inode)\n'),
        # m02_readlink_overlay_ino -> killed by C10.read.readlink.topmost
        ('read-readlink-overlay-ino', S, 'let (layer, _, inode) = node.first_layer_inode();\n        layer.readlink(ctx, inode)', 'let (layer, _, _real) = node.first_layer_inode();\n        layer.readlink(ctx, inode)'),
        # m03_access_overlay_ino -> killed by C10.read.access.topmost
        ('read-access-overlay-ino', S, 'layer.access(ctx, real_inode, mask)', 'layer.access(ctx, inode, mask)'),
        # m04_getxattr_size0 -> killed by C10.read.getxattr.topmost
        ('read-getxattr-size0', S, 'layer.getxattr(ctx, real_inode, name, size)', 'layer.getxattr(ctx, real_inode, name, 0)'),
        # m05_listxattr_whiteout_inverted -> killed by C10.read.listxattr.topmost
        ('read-listxattr-whiteout-inverted', S, 'trace!("LISTXATTR: inode: {}, size: {}\\n", inode, size);\n        let node = self.lookup_node(ctx, inode, "")?;\n\n        if node.whiteout.load(Ordering::Relaxed) {', 'trace!("LISTXATTR: inode: {}, size: {}\\n", inode, size);\n        let node = self.lookup_node(ctx, inode, "")?;\n\n        if !node.whiteout.load(Ordering::Relaxed) {'),
        # m06_read_via_node_not_handle -> killed by C10.read.read.recorded
        ('read-read-via-node-not-handle', S, 'flags\n        );\n\n        let data = self.get_data(ctx, Some(handle), inode, flags)?;\n\n        match data.real_handle {\n            None => Err(Error::from_raw_os_error(libc::ENOENT)),\n            Some(ref hd) => hd.layer.read(', 'flags\n        );\n\n        let data = self.get_data(ctx, None, inode, flags)?;\n\n        match data.real_handle {\n            None => Err(Error::from_raw_os_error(libc::ENOENT)),\n            Some(ref hd) => hd.layer.read('),
        # m07_read_real_handle_zero -> killed by C10.read.read.recorded
        ('read-read-real-handle-zero', S, 'Some(ref hd) => hd.layer.read(\n                ctx,\n                hd.inode,\n                hd.handle.load(Ordering::Relaxed),', 'Some(ref hd) => hd.layer.read(\n                ctx,\n                hd.inode,\n                0,'),
        # m08_get_data_no_inode_check -> killed by C10.read.get_data.post
        ('read-get-data-no-inode-check', M, 'if v.node.inode == inode {\n                        return Ok(Arc::clone(v));', 'if v.node.inode == inode || v.node.inode != inode {\n                        return Ok(Arc::clone(v));'),
        # m09_get_data_trunc_readonly -> killed by C10.read.copy_up.cap, C10.read.get_data.post
        ('read-get-data-trunc-readonly', M, '& (libc::O_APPEND | libc::O_CREAT | libc::O_TRUNC | libc::O_RDWR | libc::O_WRONLY)', '& (libc::O_APPEND | libc::O_CREAT | libc::O_RDWR | libc::O_WRONLY)'),
        # m10_write_lower_handle -> killed by ovl_read.write.upper ([upper] of the layer model), C10.read.write.recorded
        ('read-write-lower-handle', S, 'if !hd.in_upper_layer {\n                    return Err(Error::from_raw_os_error(libc::EBADF));\n                }', 'if false {\n                    return Err(Error::from_raw_os_error(libc::EBADF));\n                }'),
        # m11_write_delayed_false -> killed by ovl_read.write.cap ([cap]: C10.read.write.args), C10.read.write.recorded
        ('read-write-delayed-false', S, 'lock_owner,\n                    delayed_write,\n                    flags,\n                    fuse_flags,\n                )', 'lock_owner,\n                    false,\n                    flags,\n                    fuse_flags,\n                )'),
        # m12_import_no_upper_root -> killed by C10.read.import.loop
        ('read-import-no-upper-root', M, 'let real = RealInode::new(layer.clone(), true, ino, false, layer.is_opaque(&ctx, ino)?);\n            root.real_inodes.lock().unwrap().push(real);', 'let _real = RealInode::new(layer.clone(), true, ino, false, layer.is_opaque(&ctx, ino)?);'),
        # m13_import_lower_marked_upper -> killed by ovl_read.import.precondition-not-satisfied (RealInode::new: in_upper_layer ==> is_upper)
        ('read-import-lower-marked-upper', M, 'layer.clone(),\n                false,\n                ino,\n                false,\n                layer.is_opaque(&ctx, ino)?,', 'layer.clone(),\n                true,\n                ino,\n                false,\n                layer.is_opaque(&ctx, ino)?,'),
        # m14_import_root_number -> killed by C10.read.import.root_number
        ('read-import-root-number', M, 'root.inode = FUSE_ROOT_ID;', 'root.inode = FUSE_ROOT_ID + 1;'),
        # m15_import_no_load -> killed by C10.read.import.post
        ('read-import-no-load', M, 'info!("loading root directory\\n");\n        self.load_directory(&ctx, &root_node)?;', 'info!("loading root directory\\n");'),
        # m16_import_store_number -> killed by C10.read.import.post
        ('read-import-store-number', M, 'self.insert_inode(FUSE_ROOT_ID, Arc::clone(&root_node));', 'self.insert_inode(0, Arc::clone(&root_node));'),
        # m17_mount_other_inode -> killed by C10.read.mount.root_entry
        ('read-mount-other-inode', M, 'let entry = self.do_lookup(&ctx, self.root_inode(), "")?;', 'let entry = self.do_lookup(&ctx, self.root_inode() + 1, "")?;'),
        # m18_find_real_inode_deleted -> killed by C10.read.find_real_inode.topmost
        ('read-find-real-inode-deleted', M, 'if let Some(n) = self.get_active_inode(inode) {\n            let (first_layer, _, first_inode) = n.first_layer_inode();', 'if let Some(n) = self.get_all_inode(inode) {\n            let (first_layer, _, first_inode) = n.first_layer_inode();'),
        # m20_access_mutates -> killed by ovl_read.access.upper ([upper]), C10.read.access.topmost
        ('read-access-mutates', S, 'layer.access(ctx, real_inode, mask)', 'layer.fallocate(ctx, real_inode, 0, mask, 0, 0)'),
        # m21_new_drops_upper -> killed by C10.read.new.layers
        ('read-new-drops-upper', M, 'upper_layer: upper,', 'upper_layer: None,'),
        # m22_new_no_open_on -> killed by C10.read.new.switches_off
        ('read-new-no-open-on', M, 'no_open: AtomicBool::new(false),', 'no_open: AtomicBool::new(true),'),
        # m23_get_data_copyup_when_readonly -> killed by C10.read.copy_up.cap, C10.read.get_data.post
        ('read-get-data-copyup-when-readonly', M, 'if !readonly {\n                // Check if upper layer exists, return EROFS is not exists.', 'if readonly {\n                // Check if upper layer exists, return EROFS is not exists.'),
        # m24_get_data_no_erofs -> killed by C10.read.get_data.post
        ('read-get-data-no-erofs', M, 'self.upper_layer\n                    .as_ref()\n                    .cloned()\n                    .ok_or_else(|| Error::from_raw_os_error(libc::EROFS))?;\n                // copy up to upper layer\n                self.copy_node_up', '// copy up to upper layer\n                self.copy_node_up'),
        # m25_getxattr_other_name_len -> killed by C10.read.getxattr.topmost
        ('read-getxattr-other-name-len', S, 'let (layer, real_inode) = self.find_real_inode(inode)?;\n\n        layer.getxattr(ctx, real_inode, name, size)', 'let (layer, real_inode) = self.find_real_inode(FUSE_ROOT_ID)?;\n\n        layer.getxattr(ctx, real_inode, name, size)'),
        # m26_readlink_double_call -> killed by C10.read.readlink.topmost (call log: two records)
        ('read-readlink-double-call', S, 'let (layer, _, inode) = node.first_layer_inode();\n        layer.readlink(ctx, inode)', 'let (layer, _, inode) = node.first_layer_inode();\n        let _first = layer.readlink(ctx, inode);\n        layer.readlink(ctx, inode)'),
    ],
}

# equivalent / benign edits of the campaign (must stay quiet): see the report of the unit's author
# PINNED behaviour (tags `pin.*`: which layer answers STATFS, which errno an unknown number gets) belongs to no property: these edits are recorded, not alarms
PINNED = [
        # m01_statvfs_last_layer -> killed by C10.read.do_statvfs.one_layer
        ('read-statvfs-last-layer', M, 'let real_inode = all_inodes\n                    .first()', 'let real_inode = all_inodes\n                    .last()'),
        # m19_statfs_root_only -> killed by C10.read.statfs.same
        ('read-statfs-root-only', S, 'self.do_statvfs(ctx, inode)', 'self.do_statvfs(ctx, self.root_inode())'),
        # m27_statvfs_err_to_enoent_call_first -> killed by C10.read.do_statvfs.one_layer
        ('read-statvfs-err-to-enoent-call-first', M, 'None => Err(Error::from_raw_os_error(libc::ENOENT)),\n        }\n    }\n\n    #[allow(clippy::too_many_arguments)]\n    fn do_readdir(', 'None => Err(Error::from_raw_os_error(libc::EIO)),\n        }\n    }\n\n    #[allow(clippy::too_many_arguments)]\n    fn do_readdir('),
]

BENIGN = [
    ('read-comments-and-logs', S, 'trace!("READLINK: inode: {}\\n", inode);\n\n        let node = self.lookup_node(ctx, inode, "")?;', '// resolve the number first\n        trace!("READLINK request for inode {}\\n", inode);\n        debug!("readlink");\n\n        let node = self.lookup_node(ctx, inode, "")?; // the node'),
    ('read-renamed-local-access', S, 'let (layer, real_inode) = self.find_real_inode(inode)?;\n        layer.access(ctx, real_inode, mask)', 'let (lyr, rino) = self.find_real_inode(inode)?;\n        lyr.access(ctx, rino, mask)'),
    ('read-swap-independent-import', M, 'root.path = String::from("");\n        root.name = String::from("");', 'root.name = String::from("");\n        root.path = String::from("");'),
    ('read-readlink-no-whiteout-check', S, 'let node = self.lookup_node(ctx, inode, "")?;\n\n        if node.whiteout.load(Ordering::Relaxed) {\n            return Err(Error::from_raw_os_error(libc::ENOENT));\n        }\n\n        let (layer, _, inode) = node.first_layer_inode();', 'let node = self.lookup_node(ctx, inode, "")?;\n\n        let (layer, _, inode) = node.first_layer_inode();'),
    ('read-access-find-before-check', S, 'let node = self.lookup_node(ctx, inode, "")?;\n\n        if node.whiteout.load(Ordering::Relaxed) {\n            return Err(Error::from_raw_os_error(libc::ENOENT));\n        }\n\n        let (layer, real_inode) = self.find_real_inode(inode)?;\n        layer.access', 'let node = self.lookup_node(ctx, inode, "")?;\n        let (layer, real_inode) = self.find_real_inode(inode)?;\n\n        if node.whiteout.load(Ordering::Relaxed) {\n            return Err(Error::from_raw_os_error(libc::ENOENT));\n        }\n\n        layer.access'),
    ('read-new-swap-field-inits', M, 'writeback: AtomicBool::new(false),\n            no_open: AtomicBool::new(false),', 'no_open: AtomicBool::new(false),\n            writeback: AtomicBool::new(false),'),
    ('read-get-data-renamed-local-comment', M, 'let no_open = self.no_open.load(Ordering::Relaxed);\n        if !no_open {', '// are open calls in use?\n        let opens_off = self.no_open.load(Ordering::Relaxed);\n        if !opens_off {'),
    ('read-write-comment-log', S, '// A handle that lives in a lower layer was not opened for writing (that would have\n                // copied the file up): never hand a write to a lower layer.', '// lower handles are read-only\n                debug!("write through handle {}", handle);'),
]

if __name__ == '__main__':
    import sys
    root = sys.argv[1] if len(sys.argv) > 1 else '/repo'
    bad = 0
    for (n, f, old, new) in MUTANTS['C10'] + BENIGN:
        c = open(root + '/' + f).read().count(old)
        if c != 1:
            print('NOT UNIQUE', n, c); bad += 1
    print('self-test:', 'ok' if not bad else 'FAILED', len(MUTANTS['C10']), 'mutants,', len(BENIGN), 'benign edits')
