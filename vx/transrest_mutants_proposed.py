"""Proposed entries for vx/mutants.py (properties C04 / C17 / C20, unit transrest: IoBuffers::prepare_io_buf, Reader::async_read_to_at,
VirtioFsWriter::async_write_all / flush, FuseSessionExt::with_writer / try_with_writer, FuseChannel::get_request, and the syntactic alias
check of the request handlers).  Every `old` occurs exactly once in its file at /repo HEAD (self-test at the bottom:
`python3 vx/transrest_mutants_proposed.py [SRC]`); each mutant was killed in the sub-agent's campaign with the obligation(s) given in the
comment (baseline on the unchanged tree: STATUS ok).  BENIGN lists edits that must stay STATUS ok (`python3 vx/transrest_mutants_proposed.py --run
SRC` applies every entry, one at a time, to the scratch export SRC and prints the table)."""
T = 'src/transport/mod.rs'
V = 'src/transport/virtiofs/mod.rs'
F = 'src/transport/fusedev/mod.rs'
L = 'src/transport/fusedev/linux_session.rs'
S = 'src/api/server/sync_io.rs'

PREP_ARGS = 'local_buf.len(),\n                local_buf.len(),\n'
ALIAS_OLD = 'let mut data_reader = ZcReader(ctx.take_reader());'

MUTANTS = {
    'C04': [
        # prepare_io_buf: no valid bytes, the whole slice as spare room (a file operation could WRITE request memory)
        # killed by C04.prepare_io_buf.loop.no_spare_room, .loop.whole_segments, .loop.truncated_segment
        ('tr-prep-size-zero', T, PREP_ARGS, '0,\n                local_buf.len(),\n'),
        # prepare_io_buf: capacity of the untruncated slice
        # killed by C04.prepare_io_buf.in_bounds, C04.prepare_io_buf.loop.no_spare_room
        ('tr-prep-cap-untruncated', T, PREP_ARGS, 'local_buf.len(),\n                buf.len(),\n'),
        # prepare_io_buf: the remaining count is not decremented (more than `count` bytes offered)
        # killed by C04.prepare_io_buf.loop.whole_segments / .truncated_segment
        ('tr-prep-rem-stays', T, PREP_ARGS + "            ));\n\n            // Don't need check_sub() as we just made sure rem >= local_buf.len()\n            rem -= local_buf.len() as usize;",
         PREP_ARGS + '            ));'),
        # async_read_to_at: file offset dropped
        # killed by C04.async_read_to_at.offered
        ('tr-arta-offset-zero', T, 'dst.async_write_vectored_at_volatile(bufs, off).await', 'dst.async_write_vectored_at_volatile(bufs, 0).await'),
        # async_read_to_at: everything that is left is offered, not min(count, left)
        # killed by C04.async_read_to_at.offered
        ('tr-arta-count-ignored', T, 'self.buffers.prepare_io_buf(count)', 'self.buffers.prepare_io_buf(usize::MAX)'),
        # async_read_to_at: the cursor is not advanced (the same request bytes are delivered again)
        # killed by C04.async_read_to_at.advance
        ('tr-arta-no-mark-used', T, 'self.buffers.mark_used(cnt)?;\n', '\n'),
        # async_read_to_at: bytes are consumed on an error
        # killed by C04.async_read_to_at.err_nothing_moves
        ('tr-arta-err-consumes', T, 'Err(e) => Err(e),', 'Err(e) => {\n                        self.buffers.mark_used(count)?;\n                        Err(e)\n                    }'),
        # async_read_to_at: reports the requested instead of the transferred amount
        # killed by C04.async_read_to_at.advance, C04.async_read_to_at.reported
        ('tr-arta-reports-count', T, 'self.buffers.mark_used(cnt)?;\n                        Ok(cnt)', 'self.buffers.mark_used(cnt)?;\n                        Ok(count)'),
        # VirtioFsWriter::flush fails
        # killed by C04.vflush.noop
        ('tr-vflush-fails', V, '// Nothing to flush since the writes go straight into the buffer.\n        Ok(())', '// Nothing to flush since the writes go straight into the buffer.\n        Err(io::Error::from_raw_os_error(libc::EINVAL))'),
        # with_writer: half the buffer
        # killed by C04.with_writer.fresh_writer_for_the_callback
        ('tr-ww-half-buffer', F, 'let mut buf = vec![0x0u8; self.bufsize()];\n            let writer = FuseDevWriter::new(fd, &mut buf).unwrap();',
         'let mut buf = vec![0x0u8; self.bufsize() / 2];\n            let writer = FuseDevWriter::new(fd, &mut buf).unwrap();'),
        # try_with_writer: a fixed descriptor instead of the session's
        # killed by C04.try_with_writer.fresh_writer_for_the_callback
        ('tr-tww-wrong-fd', F, 'let writer = FuseDevWriter::new(fd, &mut buf)?;', 'let writer = FuseDevWriter::new(0, &mut buf)?;'),
        # get_request: the Reader covers the whole channel buffer, not the bytes read(2) returned
        # killed by C04.get_request.reader.exact, .reader.holds_request, .alias.reader_inside_writer_space
        ('tr-gr-reader-whole-buffer', L, 'match read(fd, &mut self.buf) {\n                    Ok(len) => {', 'match read(fd, &mut self.buf) {\n                    Ok(_n) => {\n                        let len = self.buf.len();'),
        # get_request: the writer's space is the Vec's capacity, not its length (memory behind the channel's buffer)
        # killed by C04.get_request.writer.space
        ('tr-gr-writer-capacity', L, 'std::slice::from_raw_parts_mut(self.buf.as_mut_ptr(), self.buf.len())\n                        };\n                        // Reader::new()',
         'std::slice::from_raw_parts_mut(self.buf.as_mut_ptr(), self.buf.capacity())\n                        };\n                        // Reader::new()'),
        # get_request: EIO is retried for ever
        # killed by C04.get_request.loop.retries
        ('tr-gr-eio-retried', L, 'Errno::EINTR => {', 'Errno::EINTR | Errno::EIO => {'),
        # get_request: ENODEV (unmounted) reported as an error
        # killed by C04.get_request.exit, C04.get_request.error
        ('tr-gr-enodev-is-error', L, 'assuming fuse filesystem was umounted.");\n                            return Ok(None);',
         'assuming fuse filesystem was umounted.");\n                            return Err(SessionFailure(format!("umounted")));'),
        # get_request: a pending device event wins over the exit event
        # killed by C04.get_request.loop.log_grows (need_exit stays set), C04.get_request.reads
        ('tr-gr-read-despite-exit', L, 'if need_exit {', 'if need_exit && !fusereq_available {'),
        # get_request: an empty read is dropped and the loop goes on
        # killed by C04.get_request.loop.retries
        ('tr-gr-request-dropped', L, 'match read(fd, &mut self.buf) {\n                    Ok(len) => {', 'match read(fd, &mut self.buf) {\n                    Ok(0) => continue,\n                    Ok(len) => {'),
        # get_request: an interrupted wait is fatal
        # killed by C04.get_request.error
        ('tr-gr-interrupted-fatal', L, 'Err(ref e) if e.kind() == std::io::ErrorKind::Interrupted => continue,\n', ''),
        # get_request: an unknown token is ignored
        # killed by C04.get_request.events.tokens_known
        ('tr-gr-unknown-token-ignored', L, 'return Err(SessionFailure(format!("unexpected epoll event: {}", x.0)));', 'let _ = x;'),
        # a handler stores into the (aliased) buffer and THEN reads more of the request: WRITE splits the writer, buffers 128 bytes at offset 16 and
        # only then hands the Reader (positioned at offset 80) to the file system
        # killed by C04.get_request.alias.handlers
        ('tr-alias-write-stores-before-data-read', S, ALIAS_OLD,
         'let mut early = ctx.w.split_at(size_of::<OutHeader>()).map_err(Error::FailedToSplitWriter)?;\n        early.write_all(&[0u8; 128]).map_err(Error::EncodeMessage)?;\n        ' + ALIAS_OLD),
    ],
    'C17': [
        # async_read_to_at marks the request buffers dirty
        # killed by C17.async_read_to_at.unmarked
        ('tr-arta-marks-dirty', T, 'self.buffers.mark_used(cnt)?;\n                        Ok(cnt)', 'self.buffers.mark_dirty(cnt);\n                        self.buffers.mark_used(cnt)?;\n                        Ok(cnt)'),
        # VirtioFsWriter::async_write_all writes half of the data and reports success
        # killed by C17.async_write_all.written_marked_exactly
        ('tr-vawa-half', V, 'self.write_all(buf)', 'self.write_all(&buf[..buf.len() / 2])'),
    ],
}

BENIGN = [
    ('tr-b-comment', L, '// Reader::new() and Writer::new() should always return success.', '// both constructors are infallible'),
    ('tr-b-rename-local', T, 'Ok(cnt) => {\n                        self.buffers.mark_used(cnt)?;\n                        Ok(cnt)', 'Ok(n) => {\n                        self.buffers.mark_used(n)?;\n                        Ok(n)'),
    ('tr-b-swap-statements', L, 'let mut events = Events::with_capacity(POLL_EVENTS_CAPACITY);\n        let mut need_exit = false;', 'let mut need_exit = false;\n        let mut events = Events::with_capacity(POLL_EVENTS_CAPACITY);'),
    ('tr-b-commute-or', L, 'if event.is_readable() || event.is_error() {', 'if event.is_error() || event.is_readable() {'),
    ('tr-b-rewrap', T, 'let (res, _) = dst.async_write_vectored_at_volatile(bufs, off).await;', 'let (res, _) = dst\n                    .async_write_vectored_at_volatile(bufs, off)\n                    .await;'),
    ('tr-b-handler-comment', S, ALIAS_OLD, '// the rest of the request is the data\n        ' + ALIAS_OLD),
]


def _check(root):
    bad = 0
    for prop, ms in list(MUTANTS.items()) + [('benign', BENIGN)]:
        for (name, f, old, new) in ms:
            n = open(root.rstrip('/') + '/' + f).read().count(old)
            if n != 1 or old == new:
                print('NOT UNIQUE (%d): %s %s' % (n, prop, name))
                bad += 1
    print('%d mutants, %d benign edits, %d problems' % (sum(len(v) for v in MUTANTS.values()), len(BENIGN), bad))
    return bad


def _run(scratch):
    """apply every entry, one at a time, to the scratch export; print name, STATUS and the failing obligations"""
    import subprocess, re
    for prop, ms in list(MUTANTS.items()) + [('benign', BENIGN)]:
        for (name, f, old, new) in ms:
            path = scratch.rstrip('/') + '/' + f
            orig = open(path).read()
            open(path, 'w').write(orig.replace(old, new, 1))
            try:
                out = subprocess.run(['python3', '/verif/tools_run_unit.py', 'transrest', '--src', scratch], capture_output=True, text=True).stdout
            finally:
                open(path, 'w').write(orig)
            st = re.search(r'^STATUS (\S+)', out, re.M)
            obl = sorted(set(re.findall(r'^--- (\S+)', out, re.M)))
            reason = re.search(r'^(?:REASON|EXTRACT ERROR) (.*)', out, re.M)
            print('%-7s %-42s %-10s %s' % (prop, name, st.group(1) if st else 'exit2', ' '.join(obl) if obl else (reason.group(1)[:150] if reason else '')), flush=True)


if __name__ == '__main__':
    import sys
    if len(sys.argv) > 2 and sys.argv[1] == '--run':
        sys.exit(_run(sys.argv[2]))
    sys.exit(1 if _check(sys.argv[1] if len(sys.argv) > 1 else '/repo') else 0)
