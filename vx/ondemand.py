"""Models added ON DEMAND, after a first run ended in a front-end error that names something the generated file lacks.  They are not part
of the fixed preludes so that the text (and with it the solver's behaviour) of every unit stays exactly the same on the unchanged tree; a
CHANGED tree that uses one more libc constant, std function or crate constant is then verified with the model instead of ending undecided.
Each entry is an assumption of the same kind as the preludes (documented meaning of libc / std); every use is logged in `rules_fired`."""
import os
import re

# x86_64-linux-gnu values (linux/fcntl.h, linux/stat.h, errno.h, unistd.h), as in the libc crate
LIBC = {
    'O_NOCTTY': ('i32', '0o400'), 'O_NONBLOCK': ('i32', '0o4000'), 'O_DSYNC': ('i32', '0o10000'), 'O_SYNC': ('i32', '0o4010000'), 'O_RSYNC': ('i32', '0o4010000'),
    'O_NOATIME': ('i32', '0o1000000'), 'O_TMPFILE': ('i32', '0o20200000'), 'O_LARGEFILE': ('i32', '0'), 'O_ASYNC': ('i32', '0o20000'), 'O_NDELAY': ('i32', '0o4000'),
    'AT_FDCWD': ('i32', '-100'), 'AT_REMOVEDIR': ('i32', '0x200'), 'AT_SYMLINK_FOLLOW': ('i32', '0x400'), 'AT_NO_AUTOMOUNT': ('i32', '0x800'), 'AT_EACCESS': ('i32', '0x200'),
    'SEEK_SET': ('i32', '0'), 'SEEK_CUR': ('i32', '1'), 'SEEK_END': ('i32', '2'), 'SEEK_DATA': ('i32', '3'), 'SEEK_HOLE': ('i32', '4'),
    'S_IFSOCK': ('u32', '0o140000'), 'S_IFBLK': ('u32', '0o060000'), 'S_IFCHR': ('u32', '0o020000'), 'S_IFIFO': ('u32', '0o010000'),
    'S_ISUID': ('u32', '0o4000'), 'S_ISGID': ('u32', '0o2000'), 'S_ISVTX': ('u32', '0o1000'), 'S_IRWXU': ('u32', '0o700'), 'S_IRWXG': ('u32', '0o070'), 'S_IRWXO': ('u32', '0o007'),
    'R_OK': ('i32', '4'), 'W_OK': ('i32', '2'), 'X_OK': ('i32', '1'), 'F_OK': ('i32', '0'),
    'F_GETFL': ('i32', '3'), 'F_GETFD': ('i32', '1'), 'F_SETFD': ('i32', '2'), 'FD_CLOEXEC': ('i32', '1'),
    'PATH_MAX': ('i32', '4096'), 'NAME_MAX': ('i32', '255'), 'XATTR_CREATE': ('i32', '1'), 'XATTR_REPLACE': ('i32', '2'),
    'E2BIG': ('i32', '7'), 'ENOEXEC': ('i32', '8'), 'ECHILD': ('i32', '10'), 'EFAULT': ('i32', '14'), 'EBUSY': ('i32', '16'), 'EISDIR': ('i32', '21'), 'ENFILE': ('i32', '23'),
    'EMFILE': ('i32', '24'), 'ETXTBSY': ('i32', '26'), 'EFBIG': ('i32', '27'), 'ENOSPC': ('i32', '28'), 'ESPIPE': ('i32', '29'), 'EMLINK': ('i32', '31'), 'EDOM': ('i32', '33'),
    'ERANGE': ('i32', '34'), 'EDEADLK': ('i32', '35'), 'ENAMETOOLONG': ('i32', '36'), 'ENOLCK': ('i32', '37'), 'ENOTEMPTY': ('i32', '39'), 'ELOOP': ('i32', '40'),
    'ENODATA': ('i32', '61'), 'ENOLINK': ('i32', '67'), 'EBADMSG': ('i32', '74'), 'EBADFD': ('i32', '77'), 'EUSERS': ('i32', '87'), 'ENOTSOCK': ('i32', '88'), 'EMSGSIZE': ('i32', '90'),
    'ESTALE': ('i32', '116'), 'EDQUOT': ('i32', '122'), 'ECANCELED': ('i32', '125'), 'ENXIO': ('i32', '6'), 'ESRCH': ('i32', '3'), 'ENOTBLK': ('i32', '15'),
    'UTIME_NOW': ('i64', '0x3fff_ffff'), 'UTIME_OMIT': ('i64', '0x3fff_fffe'),
}
LIBC_ANCHOR = '    #[allow(non_camel_case_types)] pub type mode_t = u32;'

# std functions Verus has no specification for, by the path it prints; the closure-taking ones are stated over the closure's own contract
STD = {
    r'option::impl&%0::map_or`': '''pub assume_specification<T, U, F> [std::option::Option::<T>::map_or] (o: std::option::Option<T>, d: U, f: F) -> (r: U)
    where F: std::ops::FnOnce(T,) -> U + std::marker::Destruct, U: std::marker::Destruct
    requires o is Some ==> f.requires((o->Some_0,)),
    ensures match o { Some(v) => f.ensures((v,), r), None => r == d };''',
    r'option::impl&%0::is_none_or`': '''pub assume_specification<T, F> [std::option::Option::<T>::is_none_or] (o: std::option::Option<T>, f: F) -> (r: bool)
    where F: std::ops::FnOnce(T,) -> bool + std::marker::Destruct
    requires o is Some ==> f.requires((o->Some_0,)),
    ensures match o { Some(v) => f.ensures((v,), r), None => r };''',
    r'result::impl&%0::is_ok_and`': '''pub assume_specification<T, E, F> [std::result::Result::<T, E>::is_ok_and] (o: std::result::Result<T, E>, f: F) -> (r: bool)
    where F: std::ops::FnOnce(T,) -> bool + std::marker::Destruct, E: std::marker::Destruct
    requires o is Ok ==> f.requires((o->Ok_0,)),
    ensures match o { Ok(v) => f.ensures((v,), r), Err(_) => !r };''',
    r'result::impl&%0::is_err_and`': '''pub assume_specification<T, E, F> [std::result::Result::<T, E>::is_err_and] (o: std::result::Result<T, E>, f: F) -> (r: bool)
    where F: std::ops::FnOnce(E,) -> bool + std::marker::Destruct, T: std::marker::Destruct
    requires o is Err ==> f.requires((o->Err_0,)),
    ensures match o { Err(e) => f.ensures((e,), r), Ok(_) => !r };''',
}


def additions(unit, root, res):
    """-> (prelude_subst additions, Raw texts, Copy specs (file, regex), log) derived from the front-end errors of `res`"""
    msgs = ' '.join((d.get('message', '') + ' ' + str(d.get('rendered', ''))) for d in res.get('diags', []))
    subst, raws, copies, log = [], [], [], []
    libc = sorted(set(n for n in re.findall(r'cannot find value `([A-Z][A-Z0-9_]*)` in module `libc`', msgs) if n in LIBC))
    if libc:
        txt = ' '.join('pub const %s: %s = %s;' % (n, LIBC[n][0], LIBC[n][1]) for n in libc)
        subst.append((LIBC_ANCHOR, '    ' + txt + '\n' + LIBC_ANCHOR))
        log.append('on demand: libc constants %s (x86_64-linux-gnu values)' % ', '.join(libc))
    for rx, spec in STD.items():
        if re.search(rx, msgs):
            raws.append(spec)
            log.append('on demand: specification of %s' % rx.strip('`'))
    names = sorted(set(re.findall(r'cannot find value `([A-Z][A-Z0-9_]*)` in this scope', msgs)))
    for n in names:
        hit = None
        for dp, dn, fns in os.walk(os.path.join(root, 'src')):
            for fn in sorted(fns):
                if fn.endswith('.rs'):
                    p = os.path.join(dp, fn)
                    if re.search(r'(?m)^(?:pub(?:\([a-z]+\))? )?const %s\s*:' % re.escape(n), open(p).read()):
                        hit = os.path.relpath(p, root)
                        break
            if hit:
                break
        if hit:
            copies.append((hit, r'(?m)^(?:pub(?:\([a-z]+\))? )?const %s\s*:' % re.escape(n)))
            log.append('on demand: constant %s copied from %s' % (n, hit))
    return subst, raws, copies, log
