"""Proposed entries for vx/mutants.py (property C10, unit ovl_view: the overlay's live-view bookkeeping).  Every `old` occurs exactly once in its file at
/repo HEAD e43385b (self-test at the bottom); each mutant was killed in the sub-agent's campaign with the obligation given in the comment.  The unit's
baseline on the unchanged tree are the two reproduced findings [C10.view.forget_one.other_untouched] and [C10.view.do_readdir.plus_refs]: compare against
them, or run with VX_DROP_TAGS=C10.view.forget_one.other_untouched,C10.view.do_readdir.plus_refs (baseline ok)."""
M = 'src/overlayfs/mod.rs'
S = 'src/overlayfs/sync_io.rs'

MUTANTS = {
    'C10': [
        # M01 lookup_node: EINVAL -> ENOENT for a name with /   -> killed by C10.view.lookup_node.post, C10.view.lookup_node.slash
        ('view-lookup-node-einval-enoent-for-a-name-with', M, '        if name.contains([SLASH_ASCII as char]) {\n            return Err(Error::from_raw_os_error(libc::EINVAL));', '        if name.contains([SLASH_ASCII as char]) {\n            return Err(Error::from_raw_os_error(libc::ENOENT));'),
        # M02 lookup_node: whiteout-parent check dropped   -> killed by C10.view.lookup_node.post, C10.view.lookup_node.whiteout_parent
        ('view-lookup-node-whiteout-parent-check-dropped', M, '        // Parent is whiteout-ed, return ENOENT.\n        if pnode.whiteout.load(Ordering::Relaxed) {\n            return Err(Error::from_raw_os_error(libc::ENOENT));\n        }\n', ''),
        # M03 lookup_node: loads only when ALREADY loaded   -> killed by C10.view.lookup_node.loaded, C10.view.lookup_node.post
        ('view-lookup-node-loads-only-when-already-loaded', M, 'if utils::is_dir(st) && !pnode.loaded.load(Ordering::Relaxed) {', 'if utils::is_dir(st) && pnode.loaded.load(Ordering::Relaxed) {'),
        # M04 lookup_node: "." no longer the directory itself   -> killed by C10.view.lookup_node.post, C10.view.lookup_node.resolves, C10.view.lookup_node.self
        ('view-lookup-node-no-longer-the-directory-itself', M, 'if name.eq(".")\n', 'if name.eq("..")\n'),
        # M05 lookup_node: resolves the parent among delayed-removal nodes too   -> killed by C10.view.lookup_node.frame, C10.view.lookup_node.loaded, C10.view.lookup_node.post, C10.view.lookup_node.resolves, C10.view.lookup_node.self, C10.view.lookup_node.unknown_parent
        ('view-lookup-node-resolves-the-parent-among-delayed-removal-nodes-', M, 'let pnode = match self.get_active_inode(parent) {', 'let pnode = match self.get_all_inode(parent) {'),
        # M06 load_directory: loaded flag never set   -> killed by C10.view.load_directory.union
        ('view-load-directory-loaded-flag-never-set', M, '        node.loaded.store(true, Ordering::Relaxed);\n\n        Ok(())', '        Ok(())'),
        # M07 load_directory: child not entered into the parent table   -> killed by C10.view.load_directory.table
        ('view-load-directory-child-not-entered-into-the-parent-table', M, '            node_children.insert(name, arc_child.clone());\n', ''),
        # M08 load_directory: child stored under another number   -> killed by C10.view.load_directory.loop, ovl_view.load_directory.possible-arithmetic-underflow/overflow
        ('view-load-directory-child-stored-under-another-number', M, 'inode_store.insert_inode(ino, arc_child.clone());', 'inode_store.insert_inode(ino + 1, arc_child.clone());'),
        # M09 load_directory: child keeps number 0   -> killed by C10.view.load_directory.loop, ovl_view.load_directory.assertion-failed
        ('view-load-directory-child-keeps-number-0', M, '            child.inode = ino;\n', ''),
        # M10 forget_one: root exemption dropped   -> killed by C10.view.forget_one.decrement, C10.view.forget_one.root, C10.view.forget_one.store
        ('view-forget-one-root-exemption-dropped', M, 'if inode == self.root_inode() || inode == 0 {', 'if inode == 0 {'),
        # M11 forget_one: decrements by one instead of count   -> killed by C10.view.forget_one.decrement, C10.view.forget_one.store, ovl_view.forget_one.possible-arithmetic-underflow/overflow
        ('view-forget-one-decrements-by-one-instead-of-count', M, '            lookups -= count;', '            lookups -= 1;'),
        # M12 forget_one: removes the node while one reference is left   -> killed by C10.view.forget_one.store
        ('view-forget-one-removes-the-node-while-one-reference-is-left', M, '        if lookups == 0 {\n            debug!', '        if lookups <= 1 {\n            debug!'),
        # M13 forget_one: delayed-removal nodes are never found   -> killed by C10.view.forget_one.decrement, C10.view.forget_one.store
        ('view-forget-one-delayed-removal-nodes-are-never-found', M, 'let v = match self.get_all_inode(inode) {', 'let v = match self.get_active_inode(inode) {'),
        # M14 do_lookup: whiteout child handed out   -> killed by C10.view.do_lookup.post
        ('view-do-lookup-whiteout-child-handed-out', M, '        if node.whiteout.load(Ordering::Relaxed) {\n            return Err(Error::from_raw_os_error(libc::ENOENT));\n        }\n\n        let st = node.stat64(ctx)?;\n\n        if utils::is_dir(st) && !node.loaded', '        let st = node.stat64(ctx)?;\n\n        if utils::is_dir(st) && !node.loaded'),
        # M15 do_lookup: two references per lookup   -> killed by C10.view.do_lookup.post
        ('view-do-lookup-two-references-per-lookup', M, 'let tmp = node.lookups.fetch_add(1, Ordering::Relaxed);', 'let tmp = node.lookups.fetch_add(2, Ordering::Relaxed);'),
        # M16 do_lookup: entry carries the layer inode number   -> killed by C10.view.do_lookup.post
        ('view-do-lookup-entry-carries-the-layer-inode-number', M, '        Ok(Entry {\n            inode: node.inode,', '        Ok(Entry {\n            inode: st.st_ino,'),
        # M17 do_lookup: reference taken before the step that can still fail   -> killed by C10.view.do_lookup.errors_add_none, C10.view.do_lookup.post
        ('view-do-lookup-reference-taken-before-the-step-that-can-still-fai', M, '        if utils::is_dir(st) && !node.loaded.load(Ordering::Relaxed) {\n            self.load_directory(ctx, &node)?;\n        }\n\n        // FIXME: can forget happen between found and increase reference counter?\n        let tmp = node.lookups.fetch_add(1, Ordering::Relaxed);', '        let tmp = node.lookups.fetch_add(1, Ordering::Relaxed);\n        if utils::is_dir(st) && !node.loaded.load(Ordering::Relaxed) {\n            self.load_directory(ctx, &node)?;\n        }\n'),
        # M18 do_readdir: whiteouts listed   -> killed by C10.view.do_readdir.visible
        ('view-do-readdir-whiteouts-listed', M, '            if child.whiteout.load(Ordering::Relaxed) {\n                continue;\n            }\n            childrens.push', '            childrens.push'),
        # M19 do_readdir: offset of an entry = its own index   -> killed by C10.view.do_readdir.entries
        ('view-do-readdir-offset-of-an-entry-its-own-index', M, '                    offset: index + 1,', '                    offset: index,'),
        # M20 do_readdir: resume skips one entry   -> killed by C10.view.do_readdir.resume
        ('view-do-readdir-resume-skips-one-entry', M, '            if index >= offset {', '            if index > offset {'),
        # M21 do_readdir: goes on after Ok(0)   -> killed by C10.view.do_readdir.stop, ovl_view.do_readdir.invariant-not-satisfied-at-end-of-loop-body
        ('view-do-readdir-goes-on-after-ok-0', M, '                    Ok(0) => break,\n', ''),
        # M22 do_readdir: READDIRPLUS entry carries the layer inode number   -> killed by C10.view.do_readdir.entries
        ('view-do-readdir-readdirplus-entry-carries-the-layer-inode-number', M, '                    Some(Entry {\n                        inode: child.inode,', '                    Some(Entry {\n                        inode: st.st_ino,'),
        # M23 do_readdir: d_ino = overlay number (attr.st_ino differs)   -> killed by C10.view.do_readdir.entries
        ('view-do-readdir-d-ino-overlay-number-attr-st-ino-differs', M, '                    ino: st.st_ino,', '                    ino: child.inode,'),
        # M24 readdir handler: asks do_readdir for READDIRPLUS behaviour   -> killed by C10.view.readdir.same
        ('view-readdir-handler-asks-do-readdir-for-readdirplus-behaviour', S, 'self.do_readdir(ctx, inode, handle, size, offset, false, &mut', 'self.do_readdir(ctx, inode, handle, size, offset, true, &mut'),
        # M25 readdir handler: no_readdir gate inverted   -> killed by C10.view.readdir.gate, C10.view.readdir.same
        ('view-readdir-handler-no-readdir-gate-inverted', S, '        if self.config.no_readdir {\n            info!("fuse: readdir is not supported.");', '        if !self.config.no_readdir {\n            info!("fuse: readdir is not supported.");'),
        # M26 batch_forget: every pair forgets one reference   -> killed by C10.view.batch_forget.loop
        ('view-batch-forget-every-pair-forgets-one-reference', S, '        for (inode, count) in requests {\n            self.forget_one(inode, count);', '        for (inode, count) in requests {\n            self.forget_one(inode, 1);'),
        # M27 getattr: handle path asks the layer about the OVERLAY number   -> killed by C10.view.getattr.handle
        ('view-getattr-handle-path-asks-the-layer-about-the-overlay-number', S, '                        let (st, _d) = rh.layer.getattr(\n                            ctx,\n                            rh.inode,', '                        let (st, _d) = rh.layer.getattr(\n                            ctx,\n                            inode,'),
        # M28 do_readdir: ".." of a directory without parent link is the directory itself   -> killed by C10.view.do_readdir.listing
        ('view-do-readdir-of-a-directory-without-parent-link-is-the-directo', M, '            None => self.root_node(),\n        };\n        childrens.push(("..".to_string(), parent_node));', '            None => ovl_inode.clone(),\n        };\n        childrens.push(("..".to_string(), parent_node));'),
        # M29 remove_child: removes nothing (wrong key)   -> killed by C10.view.remove_child.exact
        ('view-remove-child-removes-nothing-wrong-key', M, '        self.childrens.lock().unwrap().remove(name);', '        self.childrens.lock().unwrap().remove("");'),
        # M30 get_all_inode: delayed node preferred over the live one   -> killed by C10.view.get_all_inode.live_first
        ('view-get-all-inode-delayed-node-preferred-over-the-live-one', M, '        match inode_store.get_inode(inode) {\n            Some(n) => Some(n),\n            None => inode_store.get_deleted_inode(inode),\n        }', '        match inode_store.get_deleted_inode(inode) {\n            Some(n) => Some(n),\n            None => inode_store.get_inode(inode),\n        }'),
    ],
}


if __name__ == '__main__':
    import sys
    root = sys.argv[1] if len(sys.argv) > 1 else '/repo'
    bad = 0
    for prop, ms in MUTANTS.items():
        for (name, f, old, new) in ms:
            n = open(root + '/' + f).read().count(old)
            if n != 1:
                bad += 1
                print('NOT UNIQUE (%d): %s' % (n, name))
    print('%d mutants, %d problems' % (sum(len(v) for v in MUTANTS.values()), bad))
