"""Rewrite rules introduced for unit `filebuf` (C04: src/common/file_buf.rs, src/common/file_traits.rs).  Additive and opt-in: nothing here runs
unless a unit puts the hook into `fn.locate` / `fn.body_hooks` (vx/build.py).  Every rule logs what it did in `rules_fired`; a shape it does not
recognise raises ExtractError (exit 2, never an alarm).  Newline counts are preserved (X._pad).

R50   (re-used from vx/ptopsrules.py) macro_rules! instance expanded textually: `volatile_impl!(File);` - the function `fn F` inside
      `impl FileReadWriteVolatile for $ty {` of the macro body is taken with `$ty` replaced by `File`.  Nothing is dropped.
R64   host calls imported BY NAME        file_traits.rs calls `read(..)`, `readv(..)`, `pread64(..)` ... unqualified, through
      `use libc::{.., read, readv, .., write, writev};` and `use crate::{off64_t, pread64, preadv64, pwrite64, pwritev64};`.  The rule CHECKS that
      each name it rewrites is imported by one of these two `use` items of the SAME file (anything else: exit 2) and then rewrites every free call
      `NAME(` (not `.NAME(`, not `PATH::NAME(`, not `fn NAME(`) to `sys::NAME(` - the model of that host call with the same arguments in the same
      order (as rule R51 does for `libc::NAME(`).  `Error::last_os_error()` -> `sys::last_os_error()` (errno of the thread, kept in the ghost
      token).  Dropped: nothing; the memory safety of the FFI call itself is assumed, what it needs from its pointer arguments is a `requires`
      of the model.
R65   an `unsafe { }` block is ONE host call   after R64 every `unsafe { .. }` block of the function must consist of exactly one call `sys::NAME(ARGS)` and
      nothing else (comments aside); otherwise exit 2.  This is the syntactic guard behind the clause "the buffers are never touched by the code
      itself": the extracted text contains no raw dereference, no ptr::read / write / copy - the only memory effects are those of the modelled calls.
R66   integer -> pointer casts            `E as *mut u8` / `E as *const u8` with E a place path (`self.addr`, `new_addr`) -> `vx_ptr_at(E)` /
      `vx_cptr_at(E)`: Verus has no integer-to-pointer cast.  The model says the one thing the code relies on: the pointer's address is E
      (`r as usize == E`).  Dropped: provenance (the code never dereferences these pointers itself).  Pointer-to-pointer and pointer-to-integer
      casts are left as written (Verus supports them).
R67   `tokio::join!` read sequentially (only together with R18)   `let (a, b, ..) = join!(x, y, ..);` with x, y, .. LOCALS that were bound by
      `let x = CALL(..);` without `.await`: under R18 (`async fn` -> `fn`, an un-awaited call of an async fn IS the call) the operations have
      already run, in declaration order, when `join!` is reached; `join!(x, y, ..)` -> `(x, y, ..)`.  Dropped: the concurrent polling of the
      futures (every interleaving of the operations with each other), in addition to what R18 drops.  The arguments must be plain identifiers;
      anything else is exit 2.
"""
import re

from . import extract as X


# ------------------------------------------------------------------------------------------------------------------- locate combinators
def then(locate, *hooks):
    """-> Fn.locate: `locate(src, fired)` followed by hooks `(src, d, fired) -> d` that may look at the whole file"""
    def loc(src, fired):
        d = dict(locate(src, fired))
        for h in hooks:
            d = h(src, d, fired)
        return d
    return loc


def plain_locate(scope, name):
    def loc(src, fired):
        return dict(src.find_fn(scope, name))
    return loc


# ------------------------------------------------------------------------------------------------------------------- R64
def _imported_names(src):
    """names imported by `use libc::{..};` and `use crate::{..};` at the top level of the file"""
    out = {}
    for m in re.finditer(r'(?m)^use\s+(libc|crate)::\{([^}]*)\}\s*;', src.msk):
        for n in src.src[m.start(2):m.end(2)].split(','):
            n = n.strip()
            if re.match(r'^\w+$', n):
                out[n] = m.group(1)
    return out


def r64_host_calls_by_name(names):
    """-> locate hook (src, d, fired) -> d"""
    rx = re.compile(r'(?<![\w.:])(%s)\s*\(' % '|'.join(re.escape(n) for n in names))

    def hook(src, d, fired):
        body = d['body']
        msk = X.mask(body)
        hits = [m for m in rx.finditer(msk) if not re.search(r'\bfn\s+$', msk[:m.start()])]
        if hits:
            imp = _imported_names(src)
            for m in hits:
                if m.group(1) not in imp:
                    raise X.ExtractError('R64: `%s(` is called but not imported by `use libc::{..}` / `use crate::{..}` in %s' % (m.group(1), src.rel))
            for m in reversed(hits):
                body = body[:m.start(1)] + 'sys::' + body[m.start(1):]
            fired.append('R64 host calls imported by name -> sys::<name>( : %s (same arguments; imports checked: %s)'
                         % (', '.join('%s x%d' % (n, sum(1 for h in hits if h.group(1) == n)) for n in sorted(set(h.group(1) for h in hits))),
                            ', '.join('%s::%s' % (imp[n], n) for n in sorted(set(h.group(1) for h in hits)))))
        n = len(re.findall(r'\b(?:io::)?Error::last_os_error\(\)', body))
        if n:
            body = re.sub(r'\b(?:io::)?Error::last_os_error\(\)', 'sys::last_os_error()', body)
            fired.append('R64 every: Error::last_os_error() -> sys::last_os_error() (errno kept in the ghost token) (%d)' % n)
        left = re.search(r'\blibc::(\w+)\s*\(', X.mask(body))
        if left:
            raise X.ExtractError('R64: host call libc::%s( has no model in this unit' % left.group(1))
        d['body'] = body
        return d
    return hook


# ------------------------------------------------------------------------------------------------------------------- R65
def r65_unsafe_is_one_host_call(body, fired):
    """body hook: every `unsafe { .. }` block is exactly one `sys::NAME(ARGS)`"""
    msk = X.mask(body)
    n = 0
    for m in re.finditer(r'\bunsafe\s*\{', msk):
        ob = m.end() - 1
        cb = X.match_close(msk, ob)
        inner = msk[ob + 1:cb].strip()
        cm = re.match(r'^sys::\w+\s*\(', inner)
        if not cm:
            raise X.ExtractError('R65: unsafe block is not a single modelled host call: %r' % X.norm_ws(body[ob:cb + 1])[:100])
        k = cm.end() - 1
        if X.match_close(inner, k) != len(inner) - 1:
            raise X.ExtractError('R65: unsafe block holds more than one host call: %r' % X.norm_ws(body[ob:cb + 1])[:100])
        n += 1
    if re.search(r'\bptr::|\bcopy_nonoverlapping\b|\bread_volatile\s*\(\s*\w+\s*as\b|\bslice::from_raw_parts', msk):
        raise X.ExtractError('R65: raw memory operation outside a modelled host call')
    if n:
        fired.append('R65 every unsafe block is exactly one modelled host call (%d): the text itself touches no memory' % n)
    return body


# ------------------------------------------------------------------------------------------------------------------- R66
def r66_int_to_ptr(body, fired):
    """body hook: `PLACE as *mut u8` -> `vx_ptr_at(PLACE)`, `PLACE as *const u8` -> `vx_cptr_at(PLACE)` (PLACE = identifier path without calls)"""
    n = 0
    while True:
        msk = X.mask(body)
        m = re.search(r'(?<![\w.)\]])((?:\w+\s*\.\s*)*\w+)\s+as\s+\*(mut|const)\s+u8\b', msk)
        if not m:
            break
        place = re.sub(r'\s+', '', body[m.start(1):m.end(1)])
        new = '%s(%s)' % ('vx_ptr_at' if m.group(2) == 'mut' else 'vx_cptr_at', place)
        body = body[:m.start()] + X._pad(new, body[m.start():m.end()]) + body[m.end():]
        n += 1
    left = re.search(r'\bas\s+\*(?:mut|const)\s+u8\b', X.mask(body))
    if left:
        raise X.ExtractError('R66: integer-to-pointer cast of an expression that is not a place path: %r' % X.norm_ws(body[max(0, left.start() - 40):left.end()]))
    if n:
        fired.append('R66 integer -> pointer cast: PLACE as *mut/const u8 -> vx_ptr_at / vx_cptr_at(PLACE) (the pointer has address PLACE) (%d)' % n)
    return body


# ------------------------------------------------------------------------------------------------------------------- R67
def r67_join_sequential(body, fired):
    """body hook (with R18 only): `join!(x, y, ..)` over locals bound to un-awaited calls -> the tuple `(x, y, ..)`"""
    n = 0
    while True:
        msk = X.mask(body)
        m = re.search(r'\bjoin!\s*\(', msk)
        if not m:
            break
        ob = m.end() - 1
        cb = X.match_close(msk, ob)
        args = [a.strip() for a in X.split_top(body[ob + 1:cb]) if a.strip()]
        for a in args:
            if not re.match(r'^\w+$', a):
                raise X.ExtractError('R67: join! argument is not a local: %r' % a[:40])
            if not re.search(r'\blet\s+%s\s*=\s*[^;]*\(' % re.escape(a), msk[:m.start()]):
                raise X.ExtractError('R67: join! argument %s is not bound by `let %s = CALL(..);` before the join' % (a, a))
        new = '(%s)' % ', '.join(args)
        body = body[:m.start()] + X._pad(new, body[m.start():cb + 1]) + body[cb + 1:]
        n += 1
    if n:
        fired.append('R67 join!(x, y, ..) -> (x, y, ..): under R18 the un-awaited calls have run in declaration order; dropped: concurrent polling (%d)' % n)
    return body
