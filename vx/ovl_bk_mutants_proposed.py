"""Proposed entries for vx/mutants.py (property C10, unit ovl_bk: what the mutating operations of the overlay do to the live view).  Every `old` occurs exactly
once in its file at /repo HEAD b095594 (self-test at the bottom); each mutant was killed in the sub-agent's campaign with the obligation given in the comment
(run with VX_DROP_TAGS = the unit's findings on the unchanged tree: the six `C10.bk.*.parent_link` clauses and `C10.bk.do_rm.err_unchanged`; baseline ok).
BENIGN: edits that must NOT change the verdict (comment / log lines, a renamed local, independent statements swapped, the same node under its other name)."""
M = 'src/overlayfs/mod.rs'
S = 'src/overlayfs/sync_io.rs'

MUTANTS = {
    'C10': [
        # m01_revert_d24_do_rm_path   -> killed by C10.bk.do_rm.post
        ('bk-revert-d24-do-rm-path', M, '        let path_removed = Some(node.path.clone());\n        if node.in_upper_layer() {\n            pnode.handle_upper_inode_locked(&mut |parent_upper_inode| -> Result<bool> {\n                let parent_real_inode = parent_upper_inode.ok_or_else(|| {\n                    error!(\n                        "BUG: parent {} has no upper inode after copy up",\n                        pnode.inode\n                    );\n                    Error::from_raw_os_error(libc::EINVAL)\n                })?;\n\n                // Parent is opaque, it shadows everything in lower layers so no need to create extra whiteouts.\n                if parent_real_inode.opaque {\n                    need_whiteout = false;\n                }\n                if dir {\n                    parent_real_inode\n                        .layer\n                        .rmdir(ctx, parent_real_inode.inode, name)?;\n                } else {\n                    parent_real_inode\n                        .layer\n                        .unlink(ctx, parent_real_inode.inode, name)?;\n                }\n\n                Ok(false)\n            })?;\n        }\n\n        trace!(\n            "Remove inode {} from global hashmap and parent\'s children hashmap\\n",', '        let mut path_removed = None;\n        if node.in_upper_layer() {\n            pnode.handle_upper_inode_locked(&mut |parent_upper_inode| -> Result<bool> {\n                let parent_real_inode = parent_upper_inode.ok_or_else(|| {\n                    error!(\n                        "BUG: parent {} has no upper inode after copy up",\n                        pnode.inode\n                    );\n                    Error::from_raw_os_error(libc::EINVAL)\n                })?;\n\n                // Parent is opaque, it shadows everything in lower layers so no need to create extra whiteouts.\n                if parent_real_inode.opaque {\n                    need_whiteout = false;\n                }\n                if dir {\n                    parent_real_inode\n                        .layer\n                        .rmdir(ctx, parent_real_inode.inode, name)?;\n                } else {\n                    parent_real_inode\n                        .layer\n                        .unlink(ctx, parent_real_inode.inode, name)?;\n                }\n\n                Ok(false)\n            })?;\n\n            path_removed.replace(node.path.clone());\n        }\n\n        trace!(\n            "Remove inode {} from global hashmap and parent\'s children hashmap\\n",'),
        # m02_rm_keeps_tree_reference   -> killed by C10.bk.do_rm.post
        ('bk-rm-keeps-tree-reference', M, '        node.lookups.fetch_sub(1, Ordering::Relaxed);\n', ''),
        # m03_rm_drops_two_references   -> killed by C10.bk.do_rm.post
        ('bk-rm-drops-two-references', M, 'node.lookups.fetch_sub(1, Ordering::Relaxed);', 'node.lookups.fetch_sub(2, Ordering::Relaxed);'),
        # m04_rm_keeps_name_in_table   -> killed by C10.bk.do_rm.post
        ('bk-rm-keeps-name-in-table', M, '        pnode.remove_child(node.name.as_str());\n\n        if need_whiteout {', '\n        if need_whiteout {'),
        # m05_rm_keeps_reservation   -> killed by C10.bk.do_rm.post
        ('bk-rm-keeps-reservation', M, 'self.remove_inode(node.inode, path_removed);', 'self.remove_inode(node.inode, None);'),
        # m06_rmdir_one_child_allowed   -> killed by C10.bk.do_rm.post
        ('bk-rmdir-one-child-allowed', M, '            if count > 0 {\n                return Err(Error::from_raw_os_error(libc::ENOTEMPTY));', '            if count > 1 {\n                return Err(Error::from_raw_os_error(libc::ENOTEMPTY));'),
        # m07_rm_whiteout_not_in_table   -> killed by C10.bk.do_rm.post
        ('bk-rm-whiteout-not-in-table', M, '                pnode.insert_child(sname.as_str(), ovi.clone());\n', ''),
        # m08_rm_decrement_after_store   -> killed by C10.bk.do_rm.post
        ('bk-rm-decrement-after-store', M, '        node.lookups.fetch_sub(1, Ordering::Relaxed);\n\n        // remove it from hashmap\n        self.remove_inode(node.inode, path_removed);', '        // remove it from hashmap\n        self.remove_inode(node.inode, path_removed);\n        node.lookups.fetch_sub(1, Ordering::Relaxed);'),
        # m09_rm_whiteout_name_resolves   -> killed by C10.bk.do_rm.post
        ('bk-rm-whiteout-name-resolves', M, '        if node.whiteout.load(Ordering::Relaxed) {\n            // already deleted.\n            return Err(Error::from_raw_os_error(libc::ENOENT));\n        }\n', ''),
        # m10_create_not_in_store   -> killed by C10.bk.do_create.post
        ('bk-create-not-in-store', M, '                self.insert_inode(arc_node.inode, arc_node.clone());\n                pnode.insert_child(name, arc_node.clone());\n                arc_node', '                pnode.insert_child(name, arc_node.clone());\n                arc_node'),
        # m11_create_extra_reference   -> killed by C10.bk.do_create.post
        ('bk-create-extra-reference', M, '                pnode.insert_child(name, arc_node.clone());\n                arc_node', '                pnode.insert_child(name, arc_node.clone());\n                arc_node.lookups.fetch_add(1, Ordering::Relaxed);\n                arc_node'),
        # m12_mknod_number_of_parent_path   -> killed by C10.bk.do_mknod.post
        ('bk-mknod-number-of-parent-path', M, '                    // Allocate inode number.\n                    let ino = self.alloc_inode(&path)?;\n                    let child_ri = parent_real_inode.mknod(ctx, name, mode, rdev, umask)?;', '                    // Allocate inode number.\n                    let ino = self.alloc_inode(&pnode.path)?;\n                    let child_ri = parent_real_inode.mknod(ctx, name, mode, rdev, umask)?;'),
        # m13_symlink_wrong_path   -> killed by C10.bk.do_symlink.post
        ('bk-symlink-wrong-path', M, "let ovi = OverlayInode::new_from_real_inode(name, ino, path.clone(), child_ri);\n\n                    new_node.replace(ovi);\n                    Ok(false)\n                })?;\n\n                // new_node is always 'Some'\n                let arc_node = Arc::new(new_node.unwrap());\n                self.insert_inode(arc_node.inode, arc_node.clone());\n                pnode.insert_child(name, arc_node);\n            }\n        }\n\n        Ok(())\n    }\n\n    fn copy_symlink_up", "let ovi = OverlayInode::new_from_real_inode(name, ino, pnode.path.clone(), child_ri);\n\n                    new_node.replace(ovi);\n                    Ok(false)\n                })?;\n\n                // new_node is always 'Some'\n                let arc_node = Arc::new(new_node.unwrap());\n                self.insert_inode(arc_node.inode, arc_node.clone());\n                pnode.insert_child(name, arc_node);\n            }\n        }\n\n        Ok(())\n    }\n\n    fn copy_symlink_up"),
        # m14_link_over_visible_name   -> killed by C10.bk.do_link.post
        ('bk-link-over-visible-name', M, "                // Node with same name exists, let's check if it's whiteout.\n                if !n.whiteout.load(Ordering::Relaxed) {\n                    return Err(Error::from_raw_os_error(libc::EEXIST));\n                }\n\n                // Node is definitely a whiteout now.", '                // Node is definitely a whiteout now.'),
        # m15_mkdir_keeps_store_key_zero   -> killed by C10.bk.do_mkdir.post
        ('bk-mkdir-keeps-store-key-zero', M, '        let arc_node = Arc::new(new_node.unwrap());\n        self.insert_inode(arc_node.inode, arc_node.clone());\n        pnode.insert_child(name, arc_node);\n        Ok(())', '        let arc_node = Arc::new(new_node.unwrap());\n        self.insert_inode(0, arc_node.clone());\n        pnode.insert_child(name, arc_node);\n        Ok(())'),
        # m16_copy_symlink_wrong_node   -> killed by C10.bk.copy_symlink_up.in_upper
        ('bk-copy-symlink-wrong-node', M, '            // update upper_inode and first_inode()\n            node.add_upper_inode(real_inode, true);', '            // update upper_inode and first_inode()\n            parent_node.add_upper_inode(real_inode, true);'),
        # m17_copy_up_unhooks_children   -> killed by C10.bk.create_upper_dir.same_view
        ('bk-copy-up-unhooks-children', M, '            // Push the new real inode to the front of vector.\n            self.add_upper_inode(ri, false);\n        }\n\n        Ok(())', '            // Push the new real inode to the front of vector.\n            self.add_upper_inode(ri, false);\n            self.loaded.store(false, Ordering::Relaxed);\n        }\n\n        Ok(())'),
        # m18_unlink_as_rmdir   -> killed by C10.bk.unlink.same
        ('bk-unlink-as-rmdir', S, 'self.do_rm(ctx, parent, name, false)', 'self.do_rm(ctx, parent, name, true)'),
        # m19_mkdir_replies_parent   -> killed by C10.bk.mkdir.same
        ('bk-mkdir-replies-parent', S, '        self.do_mkdir(ctx, &pnode, sname.as_str(), mode, umask)?;\n        let entry = self.do_lookup(ctx, parent, sname.as_str());', '        self.do_mkdir(ctx, &pnode, sname.as_str(), mode, umask)?;\n        let entry = self.do_lookup(ctx, parent, "");'),
        # m20_create_lookup_before_create   -> killed by C10.bk.create.same
        ('bk-create-lookup-before-create', S, '        let final_handle = self.do_create(ctx, &pnode, sname.as_str(), hargs)?;\n        let entry = self.do_lookup(ctx, parent, sname.as_str())?;', '        let entry = self.do_lookup(ctx, parent, sname.as_str())?;\n        let final_handle = self.do_create(ctx, &pnode, sname.as_str(), hargs)?;'),
        # m21_count_whiteouts_as_entries   -> killed by C10.bk.count_entries_and_whiteout.loop
        ('bk-count-whiteouts-as-entries', M, '            if child.whiteout.load(Ordering::Relaxed) {\n                whiteouts += 1;\n            } else {\n                count += 1;\n            }', '            if !child.whiteout.load(Ordering::Relaxed) {\n                whiteouts += 1;\n            } else {\n                count += 1;\n            }'),
        # m22_mkdir_over_visible_dir   -> killed by C10.bk.do_mkdir.post
        ('bk-mkdir-over-visible-dir', M, "            // Node with same name exists, let's check if it's whiteout.\n            if !n.whiteout.load(Ordering::Relaxed) {\n                return Err(Error::from_raw_os_error(libc::EEXIST));\n            }\n\n            if n.in_upper_layer() {\n                delete_whiteout = true;", '            if n.in_upper_layer() {\n                delete_whiteout = true;'),
        # m23_empty_dir_adds_entry   -> killed by C10.bk.empty_node_directory.loop
        ('bk-empty-dir-adds-entry', M, '                // delete the child\n                self.remove_inode(child.inode, Some(child.path.clone()));\n                node.remove_child(child.name.as_str());', '                // delete the child\n                self.remove_inode(child.inode, Some(child.path.clone()));\n                node.insert_child(child.path.as_str(), child.clone());'),
    ],
}

BENIGN = [
    ('bk-b1-comments-and-log-lines', [(M, '        // lookups decrease by 1.\n        node.lookups.fetch_sub(1, Ordering::Relaxed);', '        // the tree gives up its own reference (was: "lookups decrease by 1")\n        trace!("do_rm: dropping the tree reference of {}", node.inode);\n        node.lookups.fetch_sub(1, Ordering::Relaxed);'), (M, '                // Allocate inode number.\n                    let ino = self.alloc_inode(&path)?;\n                    let child_ri = parent_real_inode.symlink', '                // a number for the new link\n                    let ino = self.alloc_inode(&path)?;\n                    debug!("symlink {} gets inode {}", name, ino);\n                    let child_ri = parent_real_inode.symlink')]),
    ('bk-b2-renamed-local', [(M, "                // new_node is always 'Some'\n                let arc_node = Arc::new(new_node.unwrap());\n                self.insert_inode(arc_node.inode, arc_node.clone());\n                pnode.insert_child(name, arc_node.clone());\n                arc_node", "                // new_node is always 'Some'\n                let fresh = Arc::new(new_node.unwrap());\n                self.insert_inode(fresh.inode, fresh.clone());\n                pnode.insert_child(name, fresh.clone());\n                fresh")]),
    ('bk-b3-swapped-independent-statements', [(M, '        // remove it from hashmap\n        self.remove_inode(node.inode, path_removed);\n        pnode.remove_child(node.name.as_str());', '        // remove it from hashmap\n        pnode.remove_child(node.name.as_str());\n        self.remove_inode(node.inode, path_removed);'), (M, '        let arc_node = Arc::new(new_node.unwrap());\n        self.insert_inode(arc_node.inode, arc_node.clone());\n        pnode.insert_child(name, arc_node);\n        Ok(())', '        let arc_node = Arc::new(new_node.unwrap());\n        pnode.insert_child(name, arc_node.clone());\n        self.insert_inode(arc_node.inode, arc_node);\n        Ok(())')]),
    ('bk-b4-same-node-other-name', [(M, '        let arc_node = Arc::new(new_node.unwrap());\n        self.insert_inode(arc_node.inode, arc_node.clone());\n        pnode.insert_child(name, arc_node);\n        Ok(())', '        let arc_node = Arc::new(new_node.unwrap());\n        self.insert_inode(arc_node.inode, arc_node.clone());\n        parent_node.insert_child(name, arc_node);\n        Ok(())')]),
]


if __name__ == '__main__':
    import sys
    root = sys.argv[1] if len(sys.argv) > 1 else '/repo'
    bad = 0
    for prop, ms in MUTANTS.items():
        for (name, f, old, new) in ms:
            n = open(root + '/' + f).read().count(old)
            if n != 1:
                bad += 1
                print('NOT UNIQUE (%d): %s' % (n, name))
    for (name, es) in BENIGN:
        for (f, old, new) in es:
            if open(root + '/' + f).read().count(old) != 1:
                bad += 1
                print('NOT UNIQUE: %s' % name)
    print('%d mutants, %d benign, %d problems' % (sum(len(v) for v in MUTANTS.values()), len(BENIGN), bad))
