"""Which units / harnesses decide which property, plus the per-property text that goes into evidence files."""

TRUSTED_COMMON = [
    'T1 Verus 0.2026.09.13 + Z3 (and rustc 1.98.1 front end)',
    'T2 extractor vx/extract.py and rewrite rules R1-R10 (DESIGN.md 3.2); hashes of source and emitted text are in functions_under_contract',
    'T7 machine arithmetic is NOT treated as mathematical: every usize/u32/u64/i32 operation is checked for overflow; usize is 64 bits',
]

PROPS = {
    'C18': dict(
        vx_units=['seal', 'ptsize'], kx=[],
        design_ref='DESIGN.md A.4 / A.6 (D10-D12)',
        not_covered=[
            'kernel semantics are assumed, not proved: pwrite on an O_APPEND descriptor appends; open(O_TRUNC) truncates; fcntl(F_SETFL) sets the status flags; fstat reports the size (the contracts of module `sys` in vx/units/ptsize.py)',
            'HandleData invariant "the descriptor is in append mode only if the recorded flags word has O_APPEND" is assumed at get_flags() (established by do_open/create, which are not extracted)',
            'do_open / create: only their re-open step (open_inode) is under contract; create_file_excl (O_CREAT|O_EXCL, new files only) is not',
            'the size of the file between the fstat and the write (concurrent host or client activity); DAX mappings (setupmapping)',
            'that a File borrowing a handle descriptor is never dropped (D12): ownership of descriptors is outside the contracts; findings/repro_pt_seal.rs::d12 is the regression test',
        ],
        trusted=['T3 std::io::Error modelled as an opaque value with os_code(); libc FALLOC_FL_* / O_* constants as on x86_64-linux-gnu',
                 'models of File / BorrowedFd / HandleData / InodeData / CString / ManuallyDrop (identity) in vx/units/ptsize.py'],
    ),
    'C06': dict(
        vx_units=['vfs', 'pt'], kx=[],
        design_ref='DESIGN.md section 5, C06',
        not_covered=[
            'symlink / hard-link / rename-of-directory-in-use semantics: kernel behaviour behind libc calls (what is proved is which FLAGS reach openat and which inode TYPES are re-opened, with openat / InodeData::open_file as capability-guarded externals)',
            'the name checks at the twelve call sites inside passthrough mutators (functions made of syscalls; no partial extraction)',
            'PassthroughFs::do_lookup ".." -> "." rewrite at the export root',
        ],
        trusted=['T3 CStr modelled as a NUL-free byte sequence (axiom_cstr_no_nul); <[u8]>::contains by assume_specification; byte-string constants CURRENT_DIR_CSTR/PARENT_DIR_CSTR by R11',
                 'T8 backends behind the VFS are arbitrary (uninterpreted results) and are reached only through capability-guarded calls'],
    ),
    'C07': dict(
        vx_units=['vfs', 'vfsmount'], kx=[], rx=['vfs'],
        design_ref='DESIGN.md section 5, C07',
        not_covered=[
            'mount / over-mount / umount / index allocation histories (Vfs::mount*, insert_mount_locked, umount, allocate_fs_idx): ArcSwap stores and atomics on &self; routing is proved for an ARBITRARY table state satisfying Vfs::wf()',
            'Vfs::readdir / readdirplus: the four entry-rewriting closures are verified after closure lifting (R17); that the backend calls them for its entries, and PseudoFs::do_readdir itself, are not covered',
            'that result-less forget reaches the backend at least once (capabilities can forbid calls, not demand them)',
        ],
        trusted=['T3 ArcSwap as a sequential cell (`cur`), std HashMap/Vec via vstd, Arc clone = same value (axiom_arc_cloned), Result::and_then by assume_specification',
                 'T8 table invariant Vfs::wf()/mount_wf(): 256 slots, mountpoint inode numbers fit in 56 bits, mount indices are non-zero, root_entry is stored converted - established by insert_mount_locked/allocate_fs_idx, which are not covered'],
    ),
    'C14': dict(
        vx_units=['vfs', 'vfsmount'], kx=[], rx=['vfs'],
        design_ref='DESIGN.md section 5, C14',
        not_covered=[
            'slot hygiene across mount / over-mount / umount histories (mount_with_id_mapping, insert_mount_locked, umount store through ArcSwap on &self): the clause "regardless of which mounts previously occupied its slot" is NOT decided (DESIGN.md section 7, D6)',
            'the order of the two stores in mount_with_id_mapping (mapping before insertion)',
        ],
        trusted=['T3 as for C07', 'T8 every configured mapping satisfies internal+range <= 2^32 and external+range <= 2^32 (map_ok; Vfs::new never validates it - DESIGN.md section 7, O2)'],
    ),
    'C01': dict(
        vx_units=['server'], kx=[], rx=['server', 'readdir'],
        design_ref='DESIGN.md section 5, C01',
        not_covered=[
            'memory safety of the unsafe blocks below the transport seam (get_message_body::set_len, Reader::read_obj, FuseDevWriter raw Vecs, virtio copy_nonoverlapping) and descriptor-chain construction',
            '"a reply IS sent" on every success path ([C01.answer]): handlers consume their context by value, so only "at most one, and exactly the specified one" is provable; helpers reply_ok/do_reply_error are proved to emit exactly one message when they return Ok',
            'that the concrete FuseDevWriter / VirtioFsWriter refine the abstract Writer (assume-guarantee seam, DESIGN 3.4d)',
        ],
        trusted=['T3 prelude models (ByteValued as byte function with decode(encode(x)) == x, io::Error, slices/CStr, bitflags, ArcSwap)',
                 'T4 abstract Reader/Writer contracts (prelude/transport.rs), written from src/transport/fusedev/mod.rs; write(2) on /dev/fuse is all-or-nothing; reply buffers are at most MAX_BUFFER_SIZE + BUFFER_HEADER_SIZE',
                 'T8 filesystems are arbitrary but return positive errnos and, for read, the count they appended to the writer'],
    ),
    'C02': dict(
        vx_units=['server', 'arcfs'], kx=[], rx=['server'],
        design_ref='DESIGN.md section 5, C02',
        not_covered=[
            'any handler listed as body=assumed in functions_under_contract (none at the time of writing; SETXATTR is verified with Iterator::position(is NUL) replaced by a model call)',
            'that result-less calls (forget, batch_forget, destroy) happen at least once, and "exactly one call" as opposed to "no other call": capabilities forbid every other call but cannot demand one',
            'identity of the payload reader handed to FileSystem::write and of the writer handed to read (only their non-stream arguments are pinned)',
            'Arc<FS> forwarding of readdir / readdirplus (&mut dyn FnMut)',
        ],
        trusted=['T3 as C01', 'T8 F::Inode / F::Handle conversions are functions (vstd FromSpec / IntoSpec obeys_*)',
                 'contract-only helpers: bytes_to_cstr, ServerUtil::extract_two_cstrs (iter().position), ServerUtil::get_message_body (unsafe set_len)'],
    ),
    'C03': dict(
        vx_units=['server'], kx=[], rx=['server', 'readdir'],
        design_ref='DESIGN.md section 5, C03',
        not_covered=[
            'the memory image of each wire struct (sbytes is an uninterpreted function of the struct value): that is C13, decided by KX',
            'the two add_entry closures of Server::do_readdir are abstracted by their free parameters (cursor, size limit) - extraction fails (exit 2) if their text is anything but `add_dirent(&mut cursor, <limit>, d, None|Some(e))`; that a filesystem calls add_entry and nothing else on the cursor is assumed (T8)',
        ],
        trusted=['T3 as C01', 'T4 as C01'],
    ),
    'C16': dict(
        vx_units=['server', 'ptreaddir'], kx=[], rx=['readdir'],
        design_ref='DESIGN.md A.4 / A.6 (D15)',
        not_covered=[
            'the closures of passthrough readdir / readdirplus (unit ptlookup, C08: reference accounting); Server::do_readdir\'s closure, PseudoFs::do_readdir, the VFS wrappers',
            'stale cookies on the lseek path (file-system specific); releasedir / handle-reuse hygiene of the cookie table; concurrency',
            'that the capacity of the getdents buffer is >= size; that each exchange is one do_readdir call on an UNCHANGED directory (hypotheses of the cross-call lemma)',
        ],
        trusted=['T3/T4 as C01', 'kernel directory-stream model (ptreaddir.py): dir_content is a sequence with non-zero pairwise distinct cookies; lseek64(fd, d_off of entry i) positions after i, lseek64(fd, 0) rewinds; getdents64 returns well-formed records of a run of the stream, 0 iff at the end',
                 'packed little-endian image of LinuxDirent64 (generated from the struct text); bytes_to_cstr contract; HandleMap cookie table as a ghost map; R23 ghost token'],
    ),
    'C12': dict(
        vx_units=['server', 'vfs', 'ptinit', 'vfsmount'], kx=[], rx=['init'],
        design_ref='DESIGN.md section 5, C12',
        not_covered=[
            'Vfs::destroy and backends mounted AFTER init (Vfs::mount_with_id_mapping initialises them; mount path not covered)',
            'OverlayFs::init; for PassthroughFs::init the converse (feature negotiated => switch IS stored) and the effect of the switches on later requests',
            'that the negotiated version IS stored (obligation to act); only that nothing but the client\'s (major, minor) may be stored',
            'fields of the INIT reply the property does not constrain (max_background, congestion_threshold, time_gran, minor)',
        ],
        trusted=['T3 as C01; pagesize() == 4096 (sysconf, x86_64)', 'T4 as C01',
                 'kernel side: process_init_reply() reads flags2 only if FUSE_INIT_EXT is set in flags (fs/fuse/inode.c)'],
    ),
    'C08': dict(
        vx_units=['inodes', 'ptlookup'], kx=[],
        design_ref='DESIGN.md A.4 / A.6 (D16, D17)',
        not_covered=[
            'forget_one keeping the store invariant of unit ptlookup (unit inodes states its frame only); import() itself (only the state it builds)',
            'do_readdir driving the callbacks (unit ptreaddir, C16), forget / batch_forget entry points, and the create / mkdir / mknod / symlink / link call sites of do_lookup',
            '"behaves as on the host" on valid inode numbers, after rename / unlink (kernel semantics), release of descriptors (Drop)',
            'concurrency beyond lock-point interference (at every lock acquisition the store may become any store satisfying the invariant; refcount loads are unconstrained): C09',
        ],
        trusted=['T3 BTreeMap as a sequential map; AtomicU64 as an opaque cell whose loads are unconstrained and whose compare_exchange / fetch_add are capability-guarded',
                 'T8 the caller holds the write lock on the inode map (forget_one takes &mut InodeStore); other threads keep the invariant; allocation counters and the prefix mutex are sequential; locks are never poisoned',
                 'host results (open, statx, file handle) are uninterpreted; Arc<FileHandle> key = the FileHandle it holds; models of CStr::from_bytes_with_nul, Option::or_else / filter, btree_map::Entry',
                 'rules R23 (ghost token), R31 (Result::inspect), R32 (Option::unwrap_or_else), R17\' (callback that continues after its continuation)'],
    ),
    'C09': dict(
        vx_units=['inodes', 'ptlookup'], kx=[],
        # C09 is decided through the obligations of the lookup / forget side of C08 (same functions, same clauses): a failure of one of these counts for C09 as well
        alias=[r'^C08\.lookup\.', r'^C08\.forget\.', r'^C08\.map\.', r'\.(cas|add|insert|seq)$', r'^(inodes|ptlookup)\.(do_lookup|forget_one)\.'],
        design_ref='DESIGN.md A.4',
        not_covered=[
            'the linearisation argument that composes the per-step obligations into "the outcome equals some sequential order" is NOT mechanised (it is the standard one: every change of a count is one atomic compare-exchange / fetch_add whose guard is re-validated by that very step or by the write lock)',
            'memory-ordering (Acquire / Release / Relaxed) adequacy; liveness of the retry loops (exec_allows_no_decreases_clause); lock poisoning',
            'interleavings with operations other than lookup and forget (create, unlink, rename ... through do_lookup are the same code path; destroy / import are not covered)',
            'known finding D16 (use_host_ino with inode_file_handles: a re-used host inode number takes over a live inode number) concerns "an inode number returned by a lookup remains usable": listed under C08',
        ],
        trusted=['T3 as C08: AtomicU64 loads are unconstrained (any value another thread may have written), compare_exchange / fetch_add are capability-guarded single steps',
                 'T8 rely: at every lock acquisition the store may have become ANY store satisfying the invariant (other threads keep the invariant); guarantee: this thread keeps it (lemmas of unit ptlookup)'],
    ),
    'C04': dict(
        vx_units=['iobuffers', 'fusedevw', 'virtiofsw'], kx=['file_buf'],
        design_ref='DESIGN.md A.4',
        not_covered=[
            'IoBuffers::available_bytes (iterator fold): assumed contract (returns the number of addresses still covered when that fits in usize)',
            'Reader::{read, read_obj} (closure captures &mut buf, MaybeUninit), VirtioFsWriter::{write_vectored, write_obj, new}, Reader::from_descriptor_chain (descriptor chain -> slices), the Writer enum dispatch',
            'FuseDevWriter::{split_at, account_written, write, write_vectored, write_from*}: unsafe from_raw_parts / set_len or closures capturing &mut self / iterator adapters in the same function',
            'file-buffer adapters (FileVolatileSlice) as plain views: KX harnesses (see units kx:file_buf when listed), lengths up to the stated bound only',
        ],
        trusted=['T3 vm_memory::VolatileSlice as (address, length) with offset() / subslice() as documented, ranges do not wrap the address space; VecDeque via vstd',
                 'T5 nix write/writev as opaque device writes guarded by a capability',
                 'rules R21 (for x in &E -> E.iter()) and R22 (Iterator::position written as the loop it stands for); ABSTRACT of copy_nonoverlapping by a model call'],
    ),
    'C17': dict(
        vx_units=['iobuffers', 'virtiofsw'], kx=[],
        design_ref='DESIGN.md A.4',
        not_covered=[
            'VirtioFsWriter::write_vectored and write_obj (fold / std write_all; they only call write); the Writer enum dispatch',
            'VirtioFsWriter::new and Reader::from_descriptor_chain (descriptor chain -> slices; the source of the chain-length invariant bytes_consumed + available <= usize::MAX, a hypothesis of the err_unmarked clauses)',
            'async_write_from_at (feature async-io is off in the extraction configuration)',
            'the counter-overflow error path of mark_used after marking; Reader::read and read_obj (closure captures &mut, MaybeUninit)',
            'page granularity of the real bitmap (the model is byte granular; pages are the monotone image of bytes); concurrency',
        ],
        trusted=['T3\' vm-memory VolatileSlice/Bitmap model: address, length, offset, subslice, bitmap().base == addr, mark_dirty adds [base+off, +len) and nothing for len 0',
                 'FileReadWriteVolatile::{read,write}_vectored(_at)_volatile fill exactly the reported prefix of the offered bytes and nothing on error (readv/preadv semantics)',
                 'rule R23: the ghost dirty-log parameter threaded through the real functions is erased by Verus (no run-time meaning); ABSTRACT of copy_nonoverlapping by vx_copy_to_guest'],
    ),
    'C15': dict(
        vx_units=['handles'], kx=[],
        design_ref='DESIGN.md A.4',
        not_covered=[
            'descriptor accounting itself (when a File / Arc<HandleData> / MountFd is dropped and closed): Arc/Weak drop and raw fds are outside the model; MountFds (finding D14) and file_handle.rs are not under contract',
            'read/write/flush/lseek/fallocate/setattr/readdir/readdirplus/do_readdir: that they resolve their handle through get_data/get_dirdata/HandleMap::get with the (handle, inode) of the request is by reading only; the textual writers scan guarantees only that they do not MODIFY the table',
            'reference accounting of inodes across lookups/forgets (C08) beyond the error paths of create; the inode-handle configuration variants of do_lookup',
            'interleavings of concurrent requests (sequential model of RwLock/Mutex/atomics)',
            'PassthroughFs::new / init (syscalls): initial values next_handle = 1, empty table, by reading',
        ],
        trusted=['T3 sequential model of RwLock/Mutex/AtomicU64/AtomicBool; BTreeMap (external, Map view, entry API) and std HashMap via vstd; Option::filter / is_some_and by assume_specification; Arc clone = same value',
                 'T8 contract-only syscall wrappers: open_inode, import, do_lookup, forget, create_file_excl, set_creds, drop_cap_fsetid, sync_fd, stat_fd (handles.py docstring A5); fewer than 2^64-1 handle allocations'],
    ),
    'C20': dict(
        vx_units=['asyncsrv', 'asyncdevw', 'server'], kx=[],
        design_ref='DESIGN.md A.4',
        not_covered=[
            'which error reply (or none) a MALFORMED request gets: the specification allows any well-formed error reply there, so two different ones would both verify (by reading, the two paths are identical)',
            'that a reply IS sent / the operation IS invoked (contracts forbid, they cannot demand) and the return value of the handlers',
            'interleavings with other tasks, cancellation at an await point, Send and lifetime obligations of the futures (rule R18 drops `async` and `.await`)',
            'bytes moved through AsyncZcWriter / AsyncZcReader; VirtioFsWriter async entry points (forward to sync, by reading); FuseDevWriter::async_write* bodies (closures capturing &mut self)',
            'AsyncFileSystem impls of Vfs and Arc<FS>; sync results carrying a passthrough backing id have no async counterpart (API gap)',
            'logging and MetricsHook calls',
        ],
        trusted=['T3/T4 as C01', 'T4a Writer::async_write* / async_commit have the contracts of their sync twins (async_commit checked on the real text in unit asyncdevw; nix pwrite is a device write under the same capability)',
                 'T8a the AsyncFileSystem model is generated from the trait text and ties async_<op> to the capability and result of the sync <op> (argument lists compared name by name and type by type)',
                 'rule R18: `async fn` verified as `fn`, `e.await` as `e` (sequential reasoning)', 'contracts of the 37 fallback sync handlers: proved in unit server'],
    ),
    'C13': dict(
        vx_units=[], kx=['abi'],
        design_ref='DESIGN.md section 5, C13',
        not_covered=[
            'constants absent from the installed kernel header (protocol 7.38): HAS_RESEND, FD_PASSTHROUGH, NotifyOpcode::Resend and the KERNEL_MINOR_VERSION_* thresholds are reported as UNCHECKED',
            'the macOS ABI file (src/abi/fuse_abi_macos.rs)',
        ],
        trusted=['T1 Kani 0.68 / CBMC 6.11, clang 14 (C probe)', 'oracle: /usr/include/linux/fuse.h (7.38)', 'exception table kx/abi_map.json (each entry justified)'],
    ),
}
