"""Which units / harnesses decide which property, plus the per-property text that goes into evidence files."""

TRUSTED_COMMON = [
    'T1 Verus 0.2026.09.13 + Z3 (and rustc 1.98.1 front end)',
    'T2 extractor vx/extract.py and rewrite rules R1-R10 (DESIGN.md 3.2); hashes of source and emitted text are in functions_under_contract',
    'T7 machine arithmetic is NOT treated as mathematical: every usize/u32/u64/i32 operation is checked for overflow; usize is 64 bits',
]

PROPS = {
    'C18': dict(
        vx_units=['seal'], kx=[],
        design_ref='DESIGN.md section 5, C18',
        not_covered=[
            'O_APPEND writes (the gate is applied to pwrite on a descriptor whose flags come from the request) and O_TRUNC in open/create: kernel semantics behind libc calls, outside contract reach (DESIGN.md section 7, O1)',
            'size-changing setattr path (PassthroughFs::setattr is a chain of syscalls)',
            'the call sites of seal_size_check in write/fallocate (functions made of syscalls; not extracted)',
        ],
        trusted=['T3 std::io::Error modelled as an opaque value with os_code(); libc FALLOC_FL_* constants as on x86_64-linux-gnu'],
    ),
}
