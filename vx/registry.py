"""Which units / harnesses decide which property, plus the per-property text that goes into evidence files."""

TRUSTED_COMMON = [
    'T1 Verus 0.2026.09.13 + Z3 (and rustc 1.98.1 front end)',
    'T2 extractor vx/extract.py and rewrite rules R1-R10 (DESIGN.md 3.2); hashes of source and emitted text are in functions_under_contract',
    'T7 machine arithmetic is NOT treated as mathematical: every usize/u32/u64/i32 operation is checked for overflow; usize is 64 bits',
]

PROPS = {
    'C18': dict(
        vx_units=['seal', 'ptsize'], kx=[], rx=['pt'],
        design_ref='DESIGN.md A.4 / A.6 (D10-D12)',
        not_covered=[
            'kernel semantics are assumed, not proved: pwrite on an O_APPEND descriptor appends; open(O_TRUNC) truncates; fcntl(F_SETFL) sets the status flags; fstat reports the size (the contracts of module `sys` in vx/units/ptsize.py)',
            'HandleData invariant "the descriptor is in append mode only if the recorded flags word has O_APPEND" is assumed at get_flags() (established by do_open/create, which are not extracted)',
            'do_open / create: only their re-open step (open_inode) is under contract; create_file_excl (O_CREAT|O_EXCL, new files only) is not',
            'the size of the file between the fstat and the write (concurrent host or client activity); DAX mappings (setupmapping)',
            'that a File borrowing a handle descriptor is never dropped (D12): ownership of descriptors is outside the contracts; findings/repro_pt_seal.rs::d12 is the regression test',
        ],
        trusted=['T3 std::io::Error modelled as an opaque value with os_code(); libc FALLOC_FL_* / O_* constants as on x86_64-linux-gnu',
                 'models of File / BorrowedFd / HandleData / InodeData / CString / ManuallyDrop (identity) in vx/units/ptsize.py'],
    ),
    'C05': dict(
        vx_units=['ptops', 'ptstatx', 'fhandle', 'ptlookup', 'ptcore', 'fhcmp'], kx=[], rx=['pt'],
        # the host object a LOOKUP (and the entry reply of mkdir / mknod / symlink / link / create) is about: openat(parent's descriptor, exactly the client's name), `..` at
        # the export root being the root itself and nothing else being rewritten - the [open] capability of do_lookup in unit ptlookup ([C08.lookup.root_parent])
        alias=[r'^ptlookup\.do_lookup\.open$'],
        design_ref='DESIGN.md A.4 / A.6 (D18, D19)',
        not_covered=[
            'the kernel\'s semantics of every system call (what the call yields) and the equality of the exported tree with the tree produced by applying the same calls directly, over histories: only WHICH call is made, on which descriptor, with which arguments, how often, and what is done with its result is decided (bounded differential check: RX group pt)',
            'readdir (C16), release / forget bookkeeping (C15 / C08), the body of do_lookup (unit ptlookup), setupmapping / removemapping, init / destroy',
            'access(2) class exclusivity; the kernel clearing / restoring the effective capability set on euid 0 <-> non-0 transitions; a failing restore of ids; unwinding; concurrency',
            'known finding D19: CREATE of an existing file by a non-root caller under inode_file_handles',
        ],
        trusted=['M1 models of the host calls in module sys (a successful call leaves errno alone, a failing one sets it; buffer-filling calls return the number of bytes stored, at most the size passed)',
                 'M2 setresuid/setresgid(-1, e, -1) change only the effective id; going back to 0 cannot fail for a thread whose real id is 0; M3 caps::{has_cap, drop, raise} act on the effective set of the thread',
                 'M4 InodeMap::get / HandleMap::get yield the stored objects; get_file / open_file on an inode kept as a file handle is open_by_handle_at and needs euid 0; M5 contract-only: do_lookup, do_getattr, validate_path_component, seal_size_check, forget, stat_fd',
                 'the serving thread starts as root (precondition of every handler); rules R50-R56 (scoped_cred! expanded, libc::syscall(SYS_x) -> sys::x, scope-exit drops of the credential guards made explicit, pointer arguments named by their owner)'],
    ),
    'C06': dict(
        vx_units=['vfs', 'pt', 'inodes', 'ptops', 'ptlookup', 'ptcore'], kx=[], rx=['pt'],
        # the `..`-at-the-export-root rewrite relies on the export root being known as inode 1 only: a root that can be forgotten can be re-registered under
        # another number and then be walked out of (seed C06-c)
        alias=[r'^C08\.forget\.root', r'^ptlookup\.do_lookup\.open$'],      # + `..` at the export root resolves to the root, and ONLY `..` does (the [open] capability of do_lookup, unit ptlookup)
        design_ref='DESIGN.md section 5, C06',
        not_covered=[
            'symlink / hard-link / rename-of-directory-in-use semantics: kernel behaviour behind libc calls (what is proved is which FLAGS reach openat and which inode TYPES are re-opened, with openat / InodeData::open_file as capability-guarded externals)',
            'the name checks at the call sites inside the passthrough mutators ARE covered since unit ptops: every mkdirat / mknodat / symlinkat / linkat / unlinkat / renameat2 / creating openat needs `gated(name)`, which only validate_path_component returning Ok provides ([C06.gate.*]); lookup\'s own slash check is in unit pt; the order "before any backend is touched" holds because the gated call is the first host call that names the object',
        ],
        trusted=['T3 CStr modelled as a NUL-free byte sequence (axiom_cstr_no_nul); <[u8]>::contains by assume_specification; byte-string constants CURRENT_DIR_CSTR/PARENT_DIR_CSTR by R11',
                 'T8 backends behind the VFS are arbitrary (uninterpreted results) and are reached only through capability-guarded calls'],
    ),
    'C07': dict(
        vx_units=['vfs', 'vfsmount', 'pseudofs'], kx=[], rx=['vfs'],
        design_ref='DESIGN.md section 5, C07',
        not_covered=[
            'over operation HISTORIES the mount table is covered step-wise: routing (unit vfs) is proved for an arbitrary table satisfying Vfs::wf(), and every table operation (allocate_fs_idx, insert_mount_locked, mount_with_id_mapping, umount; unit vfsmount, rule R25) is proved to preserve it and to change exactly the slot it names; interleavings of mount operations with requests (ArcSwap readers during a mount) are not covered',
            'Vfs::readdir / readdirplus: the four entry-rewriting closures are verified after closure lifting (R17); that a backend calls them for its entries is not covered (PseudoFs::do_readdir is: unit pseudofs); the pseudo tree (mount, path_walk, lookup, evict) is covered by unit pseudofs in the sequential model - the unlocked optimistic scans, readers during mount / evict and exhaustion of the 2^56 pseudo inode numbers (a precondition) are not; vfsmount still treats what a path resolves to as uninterpreted (the definitions exist in pseudofs: mount_spec / walk_spec)',
            'that result-less forget reaches the backend at least once (capabilities can forbid calls, not demand them)',
        ],
        trusted=['T3 ArcSwap as a sequential cell (`cur`), std HashMap/Vec via vstd, Arc clone = same value (axiom_arc_cloned), Result::and_then by assume_specification',
                 'T8 table invariant Vfs::wf()/mount_wf(): 256 slots, mountpoint inode numbers fit in 56 bits, mount indices are non-zero, root_entry is stored converted - established by insert_mount_locked/allocate_fs_idx, which are not covered'],
    ),
    'C14': dict(
        vx_units=['vfs', 'vfsmount'], kx=[], rx=['vfs'],
        design_ref='DESIGN.md section 5, C14',
        not_covered=[
            'slot hygiene across mount / over-mount / umount is decided per operation (unit vfsmount: [C14.mount.mapping] found D6); concurrent requests DURING a mount operation (they may see the new mapping before the new mount: the order of the two stores) are not covered',
            'the order of the two stores in mount_with_id_mapping (mapping before insertion)',
        ],
        trusted=['T3 as for C07', 'T8 every configured mapping satisfies internal+range <= 2^32 and external+range <= 2^32 (map_ok; Vfs::new never validates it - DESIGN.md section 7, O2)'],
    ),
    'C01': dict(
        vx_units=['server', 'fusedevw', 'cstrs', 'virtiofsw', 'writerenum', 'pseudofs', 'msgbody'], kx=[], rx=['server', 'readdir'],
        # "check_available_space refuses writes beyond capacity" on the virtio-fs side and the Writer enum handing every write to the wrapped writer are C04 obligations
        # of units virtiofsw / writerenum: a failure of one of these counts for C01 ("never touches memory outside the supplied buffers ... over either transport") as well
        alias=[r'^C04\.vwriter\.space', r'^C04\.\w+\.exceeds_fails', r'^C04\.writer\.', r'^C16\.pseudo\.do_readdir\.offset_overflow'],      # + the pseudo fs listing must not panic on a hostile offset (D22)
        design_ref='DESIGN.md section 5, C01',
        not_covered=[
            'memory safety below the transport seam is decided elsewhere: get_message_body::set_len within the capacity just allocated (unit msgbody), Reader::read / read_obj raw copies and descriptor-chain construction (unit readerrd), FuseDevWriter raw Vecs (unit fusedevw), virtio copies (units virtiofsw / readerrd), FuseChannel::get_request (unit transrest) - each over models of the dependencies listed there; not covered: that the uninitialised bytes set_len exposes are all overwritten before use (the contract of read_exact says so; the contents are unspecified in between)',
            '"every well-formed request due an answer gets exactly one" is stated on results, because handlers consume their context by value: [C01.<op>.replied] (Ok(n) only with n >= 16, and the reply helpers return Ok(n) only after exactly one complete message of n bytes was emitted) and [C01.<op>.answered] (a complete request fails only with EncodeMessage, i.e. writing its reply failed); outside these clauses: DESTROY (handler returns nothing), IOCTL (its Reader::read model may fail for any reason), requests with a missing NUL / short body (the "explicit EINVAL reply then Err" paths are only held to at-most-one and to the reply bytes), READ / READDIR[PLUS] on a reply buffer smaller than a header',
            'that VirtioFsWriter refines the abstract Writer the handlers are verified against (FuseDevWriter does: unit fusedevw, C01.refine.*); for virtio-fs "one reply" is the used-ring entry the caller adds after handle_message, outside this crate',
        ],
        trusted=['T3 prelude models (ByteValued as byte function with decode(encode(x)) == x, io::Error, slices/CStr, bitflags, ArcSwap)',
                 'T4 abstract Reader/Writer contracts (prelude/transport.rs), written from src/transport/fusedev/mod.rs; write(2) on /dev/fuse is all-or-nothing; reply buffers are at most MAX_BUFFER_SIZE + BUFFER_HEADER_SIZE',
                 'T8 filesystems are arbitrary but return positive errnos and, for read, the count they appended to the writer'],
    ),
    'C02': dict(
        vx_units=['server', 'arcfs', 'cstrs', 'msgbody'], kx=[], rx=['server'],
        design_ref='DESIGN.md section 5, C02',
        not_covered=[
            'any handler listed as body=assumed in functions_under_contract (none at the time of writing; SETXATTR is verified with Iterator::position(is NUL) replaced by a model call)',
            'that result-less calls (forget, batch_forget, destroy) happen at least once, and "exactly one call" as opposed to "no other call": capabilities forbid every other call but cannot demand one',
            'identity of the payload reader handed to FileSystem::write and of the writer handed to read (only their non-stream arguments are pinned)',
        ],
        trusted=['T3 as C01', 'T8 F::Inode / F::Handle conversions are functions (vstd FromSpec / IntoSpec obeys_*)',
                 'ServerUtil::get_message_body (unit msgbody), bytes_to_cstr and ServerUtil::extract_two_cstrs are verified on their real text in unit cstrs against the very contracts unit server assumes (std only is assumed there: Iterator::position(is NUL), range indexing with the in-bounds condition as an obligation, CStr::from_bytes_with_nul as documented)'],
    ),
    'C03': dict(
        vx_units=['server'], kx=[], rx=['server', 'readdir'],
        design_ref='DESIGN.md section 5, C03',
        not_covered=[
            'the memory image of each wire struct (sbytes is an uninterpreted function of the struct value): that is C13, decided by KX',
            'the two add_entry closures of Server::do_readdir are abstracted by their free parameters (cursor, size limit) - extraction fails (exit 2) if their text is anything but `add_dirent(&mut cursor, <limit>, d, None|Some(e))`; that a filesystem calls add_entry and nothing else on the cursor is assumed (T8)',
        ],
        trusted=['T3 as C01', 'T4 as C01'],
    ),
    'C16': dict(
        vx_units=['server', 'ptreaddir', 'pseudofs', 'fhcmp'], kx=[], rx=['readdir', 'pt'],
        design_ref='DESIGN.md A.4 / A.6 (D15)',
        not_covered=[
            'the closures of passthrough readdir / readdirplus (unit ptlookup, C08: reference accounting); the VFS wrappers around a backend listing; for the pseudo fs: the composition of the lifted readdirplus closure with the continuation (adapter `plus_sink`, assumed), "no reply exceeds the requested size" is the server side (add_dirent)',
            'stale cookies on the lseek path (file-system specific); releasedir / handle-reuse hygiene of the cookie table; concurrency',
            'that the capacity of the getdents buffer is >= size; that each exchange is one do_readdir call on an UNCHANGED directory (hypotheses of the cross-call lemma)',
        ],
        trusted=['T3/T4 as C01', 'kernel directory-stream model (ptreaddir.py): dir_content is a sequence with non-zero pairwise distinct cookies; lseek64(fd, d_off of entry i) positions after i, lseek64(fd, 0) rewinds; getdents64 returns well-formed records of a run of the stream, 0 iff at the end',
                 'packed little-endian image of LinuxDirent64 (generated from the struct text); bytes_to_cstr contract; HandleMap cookie table as a ghost map; R23 ghost token'],
    ),
    'C12': dict(
        vx_units=['server', 'vfs', 'ptinit', 'vfsmount', 'ovlinit', 'ovl_ops', 'ptops'], kx=[], rx=['init'],
        # the use sites of PassthroughFs's behaviour switches are pinned by C05 clauses of unit ptops (the host call each request makes depends on the NEGOTIATED switch
        # `X.cur()`, never on the configuration): a failure of one of these counts for C12 as well
        alias=[r'^C05\.open\.wbflags', r'^C05\.(open|flush)\.no_open', r'^C05\.opendir\.no_opendir', r'^C05\.\w+\.killpriv', r'^C05\.get_(dir)?data\.'],
        design_ref='DESIGN.md section 5, C12',
        not_covered=[
            'Vfs::destroy; restore_mount (persist feature) never initialises the backend it attaches (observation in DESIGN A.6); backends mounted AFTER init ARE covered: Vfs::mount_with_id_mapping may call init only on an initialised VFS and only with the negotiated out_opts ([C12.mount.init], unit vfsmount)',
            'for PassthroughFs::init / OverlayFs::init the converse (feature negotiated => switch IS stored); the effect of the switches on later requests beyond: PassthroughFs (unit ptops: writeback flag rewriting, ENOSYS for open/opendir/flush, the descriptor used in no_open / no_opendir mode, CAP_FSETID dropping for kill-priv - all as functions of the negotiated switch) and the writeback rewriting of the open flags in OverlayFs::open / create (D21); per-file DAX attribute flags; a second INIT after DESTROY on a passthrough / overlay instance (switches are only ever turned on)',
            'that the negotiated version IS stored (obligation to act); only that nothing but the client\'s (major, minor) may be stored',
            'fields of the INIT reply the property does not constrain (max_background, congestion_threshold, time_gran, minor)',
        ],
        trusted=['T3 as C01; pagesize() == 4096 (sysconf, x86_64)', 'T4 as C01',
                 'kernel side: process_init_reply() reads flags2 only if FUSE_INIT_EXT is set in flags (fs/fuse/inode.c)'],
    ),
    'C08': dict(
        vx_units=['inodes', 'ptlookup', 'ptcore', 'fhcmp'], kx=[], rx=['pt'],
        design_ref='DESIGN.md A.4 / A.6 (D16, D17)',
        not_covered=[
            'forget_one keeping the store invariant of unit ptlookup (unit inodes states its frame only); import() itself (only the state it builds)',
            'do_readdir driving the callbacks (unit ptreaddir, C16), forget / batch_forget entry points, and the create / mkdir / mknod / symlink / link call sites of do_lookup',
            '"behaves as on the host" on valid inode numbers, after rename / unlink (kernel semantics), release of descriptors (Drop)',
            'concurrency beyond lock-point interference (at every lock acquisition the store may become any store satisfying the invariant; refcount loads are unconstrained): C09',
        ],
        trusted=['T3 BTreeMap as a sequential map; AtomicU64 as an opaque cell whose loads are unconstrained and whose compare_exchange / fetch_add are capability-guarded',
                 'T8 the caller holds the write lock on the inode map (forget_one takes &mut InodeStore); other threads keep the invariant; allocation counters and the prefix mutex are sequential; locks are never poisoned',
                 'host results (open, statx, file handle) are uninterpreted; Arc<FileHandle> key = the FileHandle it holds; models of CStr::from_bytes_with_nul, Option::or_else / filter, btree_map::Entry',
                 'rules R23 (ghost token), R31 (Result::inspect), R32 (Option::unwrap_or_else), R17\' (callback that continues after its continuation)'],
    ),
    'C09': dict(
        vx_units=['inodes', 'ptlookup'], kx=[],
        # C09 is decided through the obligations of the lookup / forget side of C08 (same functions, same clauses): a failure of one of these counts for C09 as well
        # (readdirplus is named in C09's quantifier: its callback takes one reference per entry and gives back the undelivered one - seed C09-f)
        alias=[r'^C08\.lookup\.', r'^C08\.forget\.', r'^C08\.map\.', r'^C08\.ino\.', r'^C08\.store\.remove\.keep', r'^C08\.readdirplus\.', r'\.(cas|add|insert|seq)$', r'^(inodes|ptlookup)\.(do_lookup|forget_one)\.'],
        design_ref='DESIGN.md A.4',
        not_covered=[
            'the linearisation argument that composes the per-step obligations into "the outcome equals some sequential order" is NOT mechanised (it is the standard one: every change of a count is one atomic compare-exchange / fetch_add whose guard is re-validated by that very step or by the write lock)',
            'memory-ordering (Acquire / Release / Relaxed) adequacy; liveness of the retry loops (exec_allows_no_decreases_clause); lock poisoning',
            'interleavings with operations other than lookup and forget (create, unlink, rename ... through do_lookup are the same code path; destroy / import are not covered)',
            'known finding D16 (use_host_ino with inode_file_handles: a re-used host inode number takes over a live inode number) concerns "an inode number returned by a lookup remains usable": listed under C08',
        ],
        trusted=['T3 as C08: AtomicU64 loads are unconstrained (any value another thread may have written), compare_exchange / fetch_add are capability-guarded single steps',
                 'T8 rely: at every lock acquisition the store may have become ANY store satisfying the invariant (other threads keep the invariant); guarantee: this thread keeps it (lemmas of unit ptlookup)'],
    ),
    'C04': dict(
        vx_units=['iobuffers', 'fusedevw', 'asyncdevw', 'virtiofsw', 'virtiofsw_async', 'writerenum', 'readerrd', 'filebuf', 'zcstreams', 'transrest', 'asyncfile'], kx=['file_buf'],
        design_ref='DESIGN.md A.4',
        not_covered=[
            'IoBuffers::available_bytes (iterator fold): assumed contract (returns the number of addresses still covered when that fits in usize)',
            'virtio-queue / vm-memory themselves: DescriptorChain::{readable, writable} and their iterators, GuestMemory::find_region, GuestMemoryRegion::get_slice are models written from the texts of virtio-queue 0.17.0 / vm-memory 0.17.1 (indirect tables, the 2^32 cap of a chain are theirs); guest memory is a snapshot during one operation (a guest modifying a request buffer while it is read is not modelled); std read_exact / write_all are verified hand copies of the std text',
            'contents of the bytes a file transfer appends (that the file fills exactly what it reports is assumed); FuseDevWriter::write_all_from on an UNBUFFERED writer (stated as a precondition: a second round trips the writer\'s own assert - public-API observation F1, not reachable through the server); slice totals >= 2^64 in write_vectored',
            'file transfers above the transports (unit zcstreams): the provided methods of ZeroCopyReader / ZeroCopyWriter (read_exact_to, write_all_from, copy_to_end) are proved to issue a CHAIN of transfer calls whose (count, offset) follow what the calls before reported, the Zc* adapters of the server to forward one call unchanged, the overlay File adapters to relay in order within their buffer and to leave the source positioned behind exactly what the sink accepted (D29); NOT covered: termination of the retry loops, the transports\' own Ok(0) => WriteZero rule, byte contents beyond the address log',
            'file-buffer adapters: FileVolatileSlice / FileVolatileBuf and `impl FileReadWriteVolatile for File` (the volatile_impl! instance, its default loops, the &mut T / Arc<T> forwarders, the async vectored functions) are proved for all lengths in unit filebuf against a model of vm-memory 0.17.1 VolatileSlice / Bytes written from its text; the Kani group kx:file_buf (lengths 0..4) remains as a bounded check that vm-memory\'s real code behaves like that model; NOT covered: slice lists longer than i32::MAX, the default vectored trait bodies (File overrides them), termination of the Interrupted-retry loops; async_file.rs is no longer only a model: unit asyncfile verifies its real text (preadv / pwritev loops, the four transfer functions per runtime variant, descriptor ownership of metadata / try_clone / from_std_file) against the clauses filebuf assumes, modulo EINTR retries and offsets <= i64::MAX, over a model of tokio-uring 0.4.0 written from its source; API-level preconditions of the async vectored functions (buffers empty for a read / full for a write: observation F4)',
        ],
        trusted=['T3 vm_memory::VolatileSlice as (address, length) with offset() / subslice() as documented, ranges do not wrap the address space; VecDeque via vstd',
                 'T5 nix write/writev as opaque device writes guarded by a capability',
                 'rules R21 (for x in &E -> E.iter()), R22 (Iterator::position), R40-R43 (fold / filter+fold / filter in for / Result::map written as the loops / matches they stand for); ABSTRACT of copy_nonoverlapping, extend_from_slice, as_mut_ptr().add, Vec::from_raw_parts, from_raw_ptr windows by model calls whose in-bounds preconditions are proved at every call site',
                 'write / writev / pwrite on /dev/fuse are all-or-nothing (fuse_dev_do_write); Vec capacity/base uninterpreted with len <= capacity; Vec::set_len by assume_specification; std Write::write_all as a hand copy of the std text'],
    ),
    'C17': dict(
        vx_units=['iobuffers', 'virtiofsw', 'virtiofsw_async', 'writerenum', 'readerrd', 'filebuf', 'transrest'], kx=[],
        # the Writer enum hands the operation to the wrapped writer unchanged (a wrong forward loses or misplaces the marking); the file READ functions of unit
        # filebuf fill guest memory and REPORT how much - the writer marks exactly what they report, so a read that fills more than it reports (seed C17-f:
        # the async vectored read returning early with a smaller count after all four buffers were filled) leaves modified memory clean
        alias=[r'^C04\.writer\.', r'^C20\.writer\.', r'^filebuf\.(async_)?read_', r'^C04\.ftraits\.([a-z]+\.)?(async_)?read_'],
        design_ref='DESIGN.md A.4',
        not_covered=[
            'contents of the guest memory written by write_vectored / write_obj (the contract of write exports the addresses, not the bytes); the chain-length invariant bytes_consumed + available <= usize::MAX is now ESTABLISHED by the constructors (unit readerrd: length_fits) and remains a hypothesis of the per-operation clauses',
            'async_write_all (std write_all over write); Reader::async_read_to_at / prepare_io_buf (reads; never mark); the AsyncFileReadWriteVolatile / FileReadWriteVolatile impls for File fill exactly the reported prefix: proved in unit filebuf over the model of async_file.rs / the host calls (counted for C17 by alias)',
            'the counter-overflow error path of mark_used after marking',
            'page granularity of the real bitmap (the model is byte granular; pages are the monotone image of bytes); concurrency',
        ],
        trusted=['T3\' vm-memory VolatileSlice/Bitmap model: address, length, offset, subslice, bitmap().base == addr, mark_dirty adds [base+off, +len) and nothing for len 0',
                 'FileReadWriteVolatile::{read,write}_vectored(_at)_volatile fill exactly the reported prefix of the offered bytes and nothing on error (readv/preadv semantics)',
                 'rule R23: the ghost dirty-log parameter threaded through the real functions is erased by Verus (no run-time meaning); ABSTRACT of copy_nonoverlapping by vx_copy_to_guest'],
    ),
    'C15': dict(
        vx_units=['handles', 'fhandle', 'ptcore', 'asyncfile'], kx=[], rx=['pt'],
        design_ref='DESIGN.md A.4',
        not_covered=[
            'descriptor accounting of the handle table itself (when a File / Arc<HandleData> is dropped and closed): Arc drop and raw fds of HandleData are outside the model; for file handles and mount descriptors it IS modelled (unit fhandle: a ghost set of open descriptors, explicit scope-exit drops of File values, the drop glue of Arc<MountFd> spelled out) under the assumptions listed there - Weak::upgrade succeeds iff a strong reference exists, one MountFds table, one interfering get() for the same mount id; get_mount_root (mountinfo parsing) is contract-only',
            'read/write/flush/lseek/fallocate/setattr/readdir/readdirplus/do_readdir: that they resolve their handle through get_data/get_dirdata/HandleMap::get with the (handle, inode) of the request is by reading only; the textual writers scan guarantees only that they do not MODIFY the table',
            'reference accounting of inodes across lookups/forgets (C08) beyond the error paths of create; the inode-handle configuration variants of do_lookup',
            'interleavings of concurrent requests (sequential model of RwLock/Mutex/atomics)',
            'PassthroughFs::new / init (syscalls): initial values next_handle = 1, empty table, by reading',
        ],
        trusted=['T3 sequential model of RwLock/Mutex/AtomicU64/AtomicBool; BTreeMap (external, Map view, entry API) and std HashMap via vstd; Option::filter / is_some_and by assume_specification; Arc clone = same value',
                 'T8 contract-only syscall wrappers: open_inode, import, do_lookup, forget, create_file_excl, set_creds, drop_cap_fsetid, sync_fd, stat_fd (handles.py docstring A5); fewer than 2^64-1 handle allocations'],
    ),
    'C10': dict(
        vx_units=['ovl_layer', 'ovl_real', 'ovl_merge', 'ovl_ops', 'ovl_inodes', 'ovl_view', 'ovl_bk', 'ovl_read'], kx=[],
        design_ref='DESIGN.md A.4 / A.6',
        not_covered=[
            'equality of the whole visible tree with the overlayfs union over operation HISTORIES as one statement: decided are the union rules for ONE name over arbitrary layer listings, the "only the upper layer is ever modified" frame, and - since unit ovl_view - the live view per operation (load_directory enters exactly the union of the layers under fresh numbers, lookup_node / do_lookup resolve exactly the table entry, forget removes exactly the forgotten node, do_readdir lists every visible child once); the bookkeeping inside the mutating operations is covered per operation by unit ovl_bk (create / mkdir / mknod / symlink / link enter exactly one new node with a fresh or remembered-and-free number; unlink / rmdir take exactly the node out, give up its reservation, leave a whiteout node as the whiteout rule says; copy-up leaves the view alone) under the invariants its lemmas take as hypotheses (reservation / table consistency over histories is not mechanised); known finding D26 (a failed whiteout creation leaves the name removed); LINK makes a node and a number of its own for the new name (observation K3); import(), rename (unimplemented: EXDEV)',
            'rename (unimplemented in the code: EXDEV), Drop / forget accounting, concurrency, non-UTF-8 names, special files',
        ],
        trusted=['A-LAYER-FN: the answer of a layer is a function of the arguments of the call (no contract relates two reads across a mutation); generated mini-model of trait FileSystem / Layer with read(2)/write(2) semantics over a file with data and cursor; kernel meaning of mknod and xattrs',
                 'S-HEAP: heap restatement of the node contracts of unit ovl_merge; S-SCAN-COMPLETE: lookup Ok(None) => the lower layers show nothing at that path; S-HANDLES: a handle on record is honest about its layer; sequential model, locks never poisoned',
                 'rules R26 (named local closure lifted), R27 (unused zip counter dropped), R28 (`for` over an owned collection as its iterator loop), R29 (handle_upper_inode_locked callback inlined against its dispatch contract); logged abstractions of the readdir paging loop, Vec::drain/extend, libc major/minor/makedev (verified copies)'],
    ),
    'C11': dict(
        vx_units=['ovl_ops', 'ovl_merge', 'ovl_layer', 'zcstreams'], kx=[],
        # the File adapters copy-up streams content through (unit zcstreams, tags C04.zc.ovl_*) count for C11 too;
        # the argument-level capabilities of the copy-up functions (name, mode, link target, bytes) carry C11's "copy-up preserves" clause
        alias=[r'^ovl_ops\.(copy_regfile_up|copy_symlink_up|create_upper_dir|copy_node_up)\.', r'^C04\.zc\.ovl_'],
        design_ref='DESIGN.md A.4 / A.6',
        not_covered=[
            'equality of a restarted instance\'s tree with the running one over histories as a whole: decided are the per-function obligations that make it hold (whiteout left / opaque set whenever the lower layers still show the name - record invariant preserved by every operation; copy-up preserves name, mode, link target, content, parents first), the link from the record to the on-disk layer contents is an assumed predicate (S-SCAN-COMPLETE, S-REC-SCAN)',
            'uid / gid / times / xattr preservation on copy-up (the code copies only the mode), special files (copied up as regular files), atomicity / crash consistency of copy-up, load_directory',
        ],
        trusted=['as C10'],
    ),
    'C19': dict(
        vx_units=['vfspersist', 'pseudopersist', 'vfsmount'], kx=[],
        design_ref='DESIGN.md A.4',
        not_covered=[
            'byte format and CRC of the snapshot (versionize / dbs-snapshot are external: save/load assumed to be an inverse pair on the state value); behaviour when writer and reader disagree on the type version at a root version',
            'that allocate_fs_idx and pseudo path walking are functions of (cursor, occupancy) resp. of the tree (by inspection); path parsing; that load succeeds',
            're-initialisation of re-attached backends (restore_mount never calls fs.init although the restored VFS is initialised); restore_mount at index 0 or at an occupied index (stated as preconditions; the code accepts both)',
            'a failed pseudo restore leaves options, cursor and mappings already stored; an image with duplicate inode numbers is not refused; concurrency under Vfs::lock / PseudoFs::lock',
        ],
        trusted=['versionize::VersionMap (five functions transcribed from version_map.rs 0.2.0); #[derive(Versionize)]: a #[version(start = N, default_fn = F)] field is not written below N and a reader below N gets F (N and F re-read from the attribute text on every run)',
                 'dbs_snapshot::Snapshot::save/load inverse on the written value; sort_by(ino) = sorted permutation; derived Clone / String::clone; stateful cell models (R25) and the ghost heap of shared Arc nodes; vstd HashMap specs',
                 'cargo feature `persist` switched on for these units only; rules R33 (iter().map().collect() as an index loop) and R34 (`if C { continue; } REST` as if/else)'],
    ),
    'C20': dict(
        vx_units=['asyncsrv', 'asyncdevw', 'asyncarcfs', 'asyncvfs', 'server', 'arcfs', 'vfs', 'writerenum', 'virtiofsw_async', 'asyncpt', 'zcstreams', 'transrest', 'asyncfile'], kx=[],
        # the async entry points of VirtioFsWriter are verified in unit virtiofsw_async against the clauses of their sync twins (same cursor movement, same marking, same refusals)
        alias=[r'^C04\.async_', r'^C17\.async_', r'^virtiofsw_async\.'],
        design_ref='DESIGN.md A.4',
        not_covered=[
            'which error reply (or none) a MALFORMED request gets: the specification allows any well-formed error reply there, so two different ones would both verify (by reading, the two paths are identical)',
            'that the operation IS invoked (capabilities forbid calls, they cannot demand one); that a reply is sent is covered as on the sync side, on results ([C20.<op>.replied] / [C20.<op>.answered], same clauses as C01)',
            'interleavings with other tasks, cancellation at an await point, Send and lifetime obligations of the futures (rule R18 drops `async` and `.await`)',
            'bytes moved through AsyncZcWriter / AsyncZcReader beyond the forwarding itself (unit zcstreams: each async adapter method is ONE call of the corresponding async transport method with the same file, count and offset, result unchanged - tags C20.zc.*)',
            'non-forwarding bodies of the Arc<FS> AsyncFileSystem impl are undecided (exit 2); async results cannot carry the passthrough backing id (Vfs async_open / async_create are specified as the sync result minus that component); the AsyncFileSystem impl of OverlayFs (there is none in this tree); the one of PassthroughFs is covered (unit asyncpt: every async operation is its sync twin with the same arguments)',
            'logging and MetricsHook calls',
        ],
        trusted=['T3/T4 as C01', 'T4a Writer::async_write* / async_commit have the contracts of their sync twins (async_commit checked on the real text in unit asyncdevw; nix pwrite is a device write under the same capability)',
                 'T8a the AsyncFileSystem model is generated from the trait text and ties async_<op> to the capability and result of the sync <op> (argument lists compared name by name and type by type)',
                 'rule R18: `async fn` verified as `fn`, `e.await` as `e` (sequential reasoning); R18b: a hand-desugared #[async_trait] method returning the callee future is that call', 'std `impl From<T> for T` is the identity; PseudoFs defines no read/write (re-checked from the text on every run); T8 Vfs::wf()/mount_wf() as for C07', 'contracts of the 37 fallback sync handlers: proved in unit server'],
    ),
    'C13': dict(
        vx_units=[], kx=['abi'],
        design_ref='DESIGN.md section 5, C13',
        not_covered=[
            'constants absent from the installed kernel header (protocol 7.38): FD_PASSTHROUGH (vendor flag, no upstream value) is reported as UNCHECKED; HAS_RESEND and NotifyOpcode::Resend are compared with values PINNED BY HAND from Linux 6.9 fuse.h (kx/abi_map.json `pinned`: an assumption); the KERNEL_MINOR_VERSION_* thresholds have no kernel constant - the reply specifications of unit server carry the protocol revisions (5, 23, 4) as literals, so a changed threshold fails C03 / C12',
            'the macOS ABI file (src/abi/fuse_abi_macos.rs)',
        ],
        trusted=['T1 Kani 0.68 / CBMC 6.11, clang 14 (C probe)', 'oracle: /usr/include/linux/fuse.h (7.38)', 'exception table kx/abi_map.json (each entry justified)'],
    ),
}
