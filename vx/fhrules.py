"""Rewrite rules introduced for unit `fhandle` (C15 / C05: src/passthrough/file_handle.rs, src/passthrough/mount_fd.rs).  Opt-in per function
through the hooks of vx/build.py (`fn.locate`, `fn.body_hooks`: body -> body, run after the standard rules and BEFORE the ghost-token rule
R23).  Every rule logs what it did in `rules_fired`; a shape it does not recognise raises ExtractError (exit 2, never an alarm).  Newline
counts are preserved (X._pad), so generated lines still map 1:1 onto /repo lines.  Additive: no existing unit uses this module.

R53f scope-exit drops of `File` values made explicit (the File twin of R53, which does this for the credential guards).
     A FILE LOCAL is `let [mut] NAME = INIT;` whose INIT is a call of one of the unit's File constructors (`File::from_raw_fd(..)`,
     `File::open(..)`, the re-open callback), possibly inside `unsafe { }`, followed by `?`, or wrapped in the match R59 produces.
     For the block that declares it (and recursively for the if / else chains inside it):
        * every later `E?`  -> `(match E { Ok(v) => v, Err(e) => { DROPS return Err(e); } })`, every later `return E` ->
          `{ let scope_val = E; DROPS return scope_val; }` (ptopsrules._rw_exits: `?` on a Result inside a function returning a Result with
          the same error type is exactly this); DROPS = `vx_drop_file(NAME, Tracked(hs));` for every File local still alive, in reverse
          order of declaration (Rust reference, "Destructors");
        * `drop(NAME);` / `mem::drop(NAME);` of a live File local -> its explicit drop call (and it is dead afterwards);
        * a statement that MOVES a live File local (the name used as a value: struct field initialiser, argument, `NAME.into_*()`;
          `&NAME`, `&mut NAME`, `NAME.method(..)` are borrows) kills it without a drop.  A moving statement must be straight-line (no
          if / match / loop / closure / `?` / return in it), or an if / else chain whose branches are treated one by one;
        * at the end of the declaring block the File locals still alive are dropped (after the tail expression has been evaluated:
          `{ let scope_val = TAIL; DROPS scope_val }`);
        * DROP FLAG: if the branches of an if / else chain disagree on which File locals they moved, the chain must be the LAST statement
          of its block; the branch that did not move NAME then drops it at its own end.  Rust drops it (drop flag) at the end of the
          enclosing block: between the two points lie only other scope-exit drops, and closing two different descriptors commutes.
     Anything else that moves, shadows or re-declares a live File local (match arms, loops, closures) is refused (exit 2).
     Dropped by this rule: nothing; ADDED: the calls Rust inserts implicitly.  Unwinding (panic) paths are not modelled.
R55f pointer arguments named by their owner (extension of R55 to vmm-sys-util's FamStructWrapper): `P.as_mut_fam_struct_ptr()` -> `&mut P`,
     `P.as_fam_struct_ptr()` -> `&P`.  The model of the host call then speaks about the struct the kernel reads / fills instead of about
     an address.  Dropped: nothing is computed by these accessors (they return the address of element 0 of the allocation).
R51f host calls declared by the crate itself in an `extern "C" { }` block: `name_to_handle_at(` / `open_by_handle_at(` (free calls) ->
     `sys::name_to_handle_at(` / `sys::open_by_handle_at(` (capability-guarded models with the same arguments), like R51 for `libc::X(`.
R58  Option adapter applied to a PATH function, by definition: `RECV.and_then(Weak::upgrade)` -> `(match RECV { Some(opt_v) =>
     opt_v.upgrade(), None => None })`, `RECV.map(Weak::strong_count)` -> `(match RECV { Some(opt_v) => Some(opt_v.strong_count()),
     None => None })`.  (Option::and_then / Option::map; `Weak::f(w)` and `w.f()` are the same function applied to the same argument.)
     Reason: the function needs the ghost token (R23), which a path expression cannot carry.  Other argument shapes are left alone.
R59  `E.map_err(|x| B)?` -> `(match E { Ok(ok_v) => ok_v, Err(x) => { return Err(B); } })` (Result::map_err followed by `?`; the error
     type of the function is the closure's result type, so the `From` conversion of `?` is the identity).  B verbatim.  Reason: the
     closure's result must be visible to the proof (its errno), and R53f needs the exit as a `return`.
R60  `Arc::new(MountFd { .. })` -> `Arc::new_mountfd(MountFd { .. }, Tracked(hs))`: the allocation of a MountFd is recorded in the ghost
     heap (fresh allocation, strong count 1).  Any other `Arc::new(` is left alone (plain model: the value it holds).
R61  the `FnOnce(RawFd, c_int, u32) -> io::Result<File>` callback as a trait object of the model trait `ReopenFd` (one method `call_once`
     with the same arguments, consuming the callback): `NAME(ARGS)` -> `NAME.call_once(ARGS)` for the parameter NAME whose type is the
     generic parameter bounded by that FnOnce (found in the signature).  Same call, static dispatch; the trait method can take the token.
R63  `P: &impl AsRawFd` in a parameter list -> a named generic parameter `<D: AsRawFd>` and `P: &D` (what `impl Trait` in argument position
     stands for; Verus does not accept the sugar).  Same meaning.  Done on the signature whatever the parameter is called.
R62  `fn f(mut self, ..) { B }` -> `fn f(self, ..) { let mut this = self; B[self := this] }`: a by-value `mut` receiver is a local variable
     initialised with the argument (Verus does not accept `mut self`).  Same meaning.
"""
import re

from . import extract as X
from . import ptopsrules as PR


# ------------------------------------------------------------------------------------------------------------------- helpers
def _chain_start(msk, dot):
    """msk[dot] == '.' of a method call: start of the postfix-expression chain that is its receiver"""
    return PR._operand_start(msk, dot)


def _recv_text(body, msk, s0, e):
    """the receiver expression body[s0:e] without trailing white space / comments (comments between its parts stay)"""
    while e > s0 and msk[e - 1] in ' \t\n':
        e -= 1
    return body[s0:e]


# ------------------------------------------------------------------------------------------------------------------- R58
def r58_option_path_adapter(body, fired):
    n = 0
    while True:
        msk = X.mask(body)
        m = re.search(r'\.\s*(and_then|map)\s*\(\s*([A-Z]\w*)::([a-z_]\w*)\s*\)', msk)
        if not m:
            break
        s0 = _chain_start(msk, m.start())
        recv = _recv_text(body, msk, s0, m.start())
        if m.group(1) == 'and_then':
            new = '(match %s { Some(opt_v) => opt_v.%s(), None => None })' % (recv, m.group(3))
        else:
            new = '(match %s { Some(opt_v) => Some(opt_v.%s()), None => None })' % (recv, m.group(3))
        body = body[:s0] + X._pad(new, body[s0:m.end()]) + body[m.end():]
        fired.append('R58 `%s.%s(%s::%s)` -> match on the Option (definition of Option::%s; %s::%s(w) written w.%s())'
                     % (X.norm_ws(recv)[-30:], m.group(1), m.group(2), m.group(3), m.group(1), m.group(2), m.group(3), m.group(3)))
        n += 1
        if n > 50:
            raise X.ExtractError('R58: runaway')
    return body


# ------------------------------------------------------------------------------------------------------------------- R59
def r59_map_err_try(body, fired):
    n = 0
    pos = 0
    while True:
        msk = X.mask(body)
        m = re.compile(r'\.\s*map_err\s*\(').search(msk, pos)
        if not m:
            break
        ob = m.end() - 1
        cb = X.match_close(msk, ob)
        after = re.match(r'\s*\?', msk[cb + 1:])
        pm = re.match(r'\s*\|\s*(\w+)\s*\|\s*', msk[ob + 1:cb])
        if not after or not pm:
            pos = m.end()
            continue
        cbody = body[ob + 1 + pm.end():cb].strip()
        if re.search(r'\breturn\b|\?', X.mask(cbody)):
            raise X.ExtractError('R59: the map_err closure contains `?` / return')
        s0 = _chain_start(msk, m.start())
        recv = _recv_text(body, msk, s0, m.start())
        end = cb + 1 + after.end()
        new = '(match %s { Ok(ok_v) => ok_v, Err(%s) => { return Err(%s); } })' % (recv, pm.group(1), cbody)
        body = body[:s0] + X._pad(new, body[s0:end]) + body[end:]
        fired.append('R59 `%s.map_err(|%s| ..)?` -> match (definition of Result::map_err followed by `?`, closure body verbatim)' % (X.norm_ws(recv)[:40], pm.group(1)))
        n += 1
        pos = 0
        if n > 50:
            raise X.ExtractError('R59: runaway')
    return body


# ------------------------------------------------------------------------------------------------------------------- R55f / R51f / R60
def r55f_pointer_args(body, fired):
    subs = [
        (r'\b(\w+(?:\s*\.\s*\w+)*)\s*\.\s*as_mut_fam_struct_ptr\(\)', r'&mut \1', 'the file_handle buffer the kernel fills, named by the wrapper that owns it'),
        (r'\b(\w+(?:\s*\.\s*\w+)*)\s*\.\s*as_fam_struct_ptr\(\)', r'&\1', 'the file_handle the kernel reads, named by the wrapper that owns it'),
        (r'unsafe \{ CStr::from_bytes_with_nul_unchecked\(EMPTY_CSTR\) \}', 'empty_cstr()', 'the constant empty C string'),
    ]
    for (rx, rep, why) in subs:
        n = len(re.findall(rx, X.mask(body)))
        if n:
            body = re.sub(rx, lambda m: X._pad(m.expand(rep), m.group(0)), body)
            fired.append('R55f every: /%s/ -> %s (%s) x%d' % (rx[:50], rep, why, n))
    return body


def r51f_extern_calls(names):
    rx = re.compile(r'(?<![\w.:])(%s)\s*\(' % '|'.join(re.escape(n) for n in names))

    def hook(body, fired):
        msk = X.mask(body)
        hits = [m for m in rx.finditer(msk) if not re.search(r'\bfn\s+$', msk[:m.start()])]
        for m in reversed(hits):
            body = body[:m.start()] + 'sys::' + body[m.start():]
        if hits:
            fired.append('R51f every: extern "C" host call NAME( -> sys::NAME( (%d: %s; capability-guarded models, same arguments)' % (len(hits), ', '.join(sorted(set(m.group(1) for m in hits)))))
        return body
    return hook


def r60_arc_new_mountfd(body, fired):
    msk = X.mask(body)
    hits = list(re.finditer(r'\bArc::new\s*\((?=\s*MountFd\s*\{)', msk))
    for m in reversed(hits):
        ob = m.end() - 1
        cb = X.match_close(msk, ob)
        j = cb
        while msk[j - 1] in ' \t\n':
            j -= 1
        sep = ' ' if msk[j - 1] == ',' else ', '
        body = body[:j] + sep + 'Tracked(hs)' + body[j:]
        body = body[:m.start()] + 'Arc::new_mountfd(' + body[m.end():]
    if hits:
        fired.append('R60 Arc::new(MountFd {..}) -> Arc::new_mountfd(MountFd {..}, Tracked(hs)): allocation recorded in the ghost heap (%d)' % len(hits))
    return body


# ------------------------------------------------------------------------------------------------------------------- R61
FNONCE_RX = re.compile(r'\b(\w+)\s*:\s*FnOnce\s*\(\s*RawFd\s*,\s*libc::c_int\s*,\s*u32\s*\)\s*->\s*io::Result<File>\s*,?')


def r61_locate(scope, name):
    """-> Fn.locate: calls of the FnOnce callback parameter become calls of the model trait's method (see R61)"""
    def locate(src, fired):
        d = dict(src.find_fn(scope, name))
        sm = X.mask(d['sig'])
        gm = FNONCE_RX.search(sm)
        if not gm:
            raise X.ExtractError('R61: no `F: FnOnce(RawFd, libc::c_int, u32) -> io::Result<File>` bound in the signature of %s' % name)
        pm = re.findall(r'\b(\w+)\s*:\s*%s\b\s*[,)]' % re.escape(gm.group(1)), sm)
        if len(pm) != 1:
            raise X.ExtractError('R61: %d parameters of type %s in %s' % (len(pm), gm.group(1), name))
        p = pm[0]
        body = d['body']
        msk = X.mask(body)
        hits = list(re.finditer(r'(?<![\w.:])%s\s*\(' % re.escape(p), msk))
        for m in reversed(hits):
            body = body[:m.start()] + p + '.call_once(' + body[m.end():]
        d['body'] = body
        d['sig'] = d['sig'][:gm.start()] + '%s: ReopenFd,' % gm.group(1) + X._pad('', d['sig'][gm.start():gm.end()]) + d['sig'][gm.end():]
        fired.append('R61 callback `%s: %s` (FnOnce(RawFd, c_int, u32) -> io::Result<File>) -> model trait ReopenFd; %d call(s) %s(..) -> %s.call_once(..)'
                     % (p, gm.group(1), len(hits), p, p))
        return d
    return locate


# ------------------------------------------------------------------------------------------------------------------- R53f
KW_CTRL = re.compile(r'\b(if|match|while|loop|for)\b')


def _strip_init(init_m):
    """masked initialiser text -> the constructor call it consists of (wrappers peeled), or None"""
    t = init_m.strip()
    while True:
        t = t.strip()
        if t.endswith('?'):
            t = t[:-1]
            continue
        um = re.match(r'^unsafe\s*\{(.*)\}$', t, re.S)
        if um and X.match_close(t, t.index('{')) == len(t) - 1:
            t = um.group(1)
            continue
        if t.startswith('(') and X.match_close(t, 0) == len(t) - 1:
            t = t[1:-1]
            continue
        mm = re.match(r'^match\s+(.*?)\s*\{\s*Ok\((\w+)\)\s*=>\s*\2\s*,', t, re.S)       # the match R59 produces (or the same written by hand)
        if mm and t.endswith('}'):
            t = mm.group(1)
            continue
        return t


def _uses(stm, name):
    """classify the occurrences of the variable `name` in masked statement text -> (moves, borrows, redecl)"""
    moves = borrows = redecl = 0
    for m in re.finditer(r'\b%s\b' % re.escape(name), stm):
        before = stm[:m.start()].rstrip()
        after = stm[m.end():].lstrip()
        if before.endswith('.') or before.endswith('::') or after.startswith('::') or after.startswith('('):
            continue                                   # a field / path segment / function of that name, not the variable
        if re.search(r'\blet\s+(mut\s+)?$', stm[:m.start()]) or re.search(r'\b(Some|Ok|Err)\s*\(\s*(mut\s+)?$', stm[:m.start()]) and re.match(r'\)\s*=(?!=)', after):
            redecl += 1
            continue
        if after.startswith(':') and not after.startswith('::'):
            continue                                   # field label of a struct literal (`file: EXPR`)
        if before.endswith('&') or re.search(r'&\s*mut$', before):
            borrows += 1
            continue
        if after.startswith('.'):
            if re.match(r'\.\s*into_\w+\s*\(', after):
                moves += 1
            else:
                borrows += 1
            continue
        moves += 1
    return moves, borrows, redecl


def _parse_if_chain(msk, k):
    """msk[k:] starts with `if`: -> list of (cond_start, cond_end, block_open, block_close), end index; the final else block has cond None"""
    out = []
    while True:
        if not re.match(r'if\b', msk[k:]):
            raise X.ExtractError('R53f: if-chain expected')
        j, d = k + 2, 0
        while j < len(msk):
            c = msk[j]
            if c in '([':
                d += 1
            elif c in ')]':
                d -= 1
            elif c == '{' and d == 0:
                break
            j += 1
        if j >= len(msk):
            raise X.ExtractError('R53f: then-block of an if not found')
        cb = X.match_close(msk, j)
        out.append((k + 2, j, j, cb))
        em = re.match(r'\s*else\b\s*', msk[cb + 1:])
        if not em:
            return out, cb + 1
        k2 = cb + 1 + em.end()
        if msk[k2] == '{':
            cb2 = X.match_close(msk, k2)
            out.append((None, None, k2, cb2))
            return out, cb2 + 1
        k = k2


def r53f_file_drops(ctor_rxs, dropfn='vx_drop_file', tok='Tracked(hs)'):
    CT = [re.compile(r'^(?:%s)\s*\(' % r) for r in ctor_rxs]
    ANY_CT = re.compile(r'\blet\s+(?:mut\s+)?\w+\s*(?::[^=;]+)?=[^;]*?(?:%s)\s*\(' % '|'.join(ctor_rxs), re.S)

    def file_let(stm):
        m = re.match(r'\s*let\s+(?:mut\s+)?(\w+)\s*(?::[^=]+)?=(?!=)', stm)
        if not m or not stm.rstrip().endswith(';'):
            return None
        init = _strip_init(stm.rstrip()[m.end():-1])
        for c in CT:
            cm = c.match(init)
            if cm:
                ob = cm.end() - 1
                if X.match_close(init, ob) == len(init.rstrip()) - 1:
                    return m.group(1)
        return None

    def drops(names):
        return ' '.join('%s(%s, %s);' % (dropfn, n, tok) for n in reversed(names))

    state = dict(lets=0, exits=0, moved=0, flags=0)

    def rw_exits(core, alive):
        if not alive:
            return core
        new = PR._rw_exits(core, drops(alive))
        if new != core:
            state['exits'] += 1
        return new

    def proc_block(inner, alive_in, extra_drop=()):
        """-> (new_inner, alive_out (subset of alive_in, order kept), diverges)"""
        inner_m = X.mask(inner)
        stmts = PR._split_stmts(inner_m)
        alive = list(alive_in)
        here = []
        parts = []
        diverges = False
        for idx, (a, b, is_tail) in enumerate(stmts):
            st, stm = inner[a:b], inner_m[a:b]
            a0, b0 = len(stm) - len(stm.lstrip()), len(stm.rstrip())      # bounds taken from the MASKED text: leading / trailing comments stay outside
            lead, trail = st[:a0], st[b0:]
            core, corem = st[a0:b0], stm[a0:b0]
            last = idx == len(stmts) - 1
            name = file_let(corem)
            if name:
                if name in alive:
                    raise X.ExtractError('R53f: `let %s` shadows a live File local of the same name' % name)
                for nm in alive:
                    if _uses(corem, nm)[0]:
                        raise X.ExtractError('R53f: the initialiser of File local %s moves the live File local %s' % (name, nm))
                core = rw_exits(core, alive)
                alive.append(name)
                here.append(name)
                state['lets'] += 1
                parts.append(lead + X._pad(core, st[a0:b0]) + trail)
                continue
            dm = re.match(r'^(?:(?:std::)?mem::)?drop\s*\(\s*(\w+)\s*\)\s*;$', corem)
            if dm and dm.group(1) in alive:
                alive.remove(dm.group(1))
                parts.append(lead + X._pad('%s(%s, %s);' % (dropfn, dm.group(1), tok), st[a0:b0]) + trail)
                continue
            moved = [nm for nm in alive if _uses(corem, nm)[0]]
            for nm in alive:
                if _uses(corem, nm)[2]:
                    raise X.ExtractError('R53f: the live File local %s is shadowed / re-declared' % nm)
            nested = bool(ANY_CT.search(corem)) and not file_let(corem)
            if not moved and not nested:
                new = rw_exits(core, alive)
                if re.match(r'^return\b', corem):
                    diverges = True
                if is_tail and (here or extra_drop):
                    dl = [n for n in alive if n in here] + [n for n in extra_drop if n in alive]
                    if dl:
                        new = '{ let scope_val = %s; %s scope_val }' % (new, drops(dl))
                        for n in dl:
                            alive.remove(n)
                parts.append(lead + X._pad(new, st[a0:b0]) + trail)
                continue
            # a statement that moves a live File local, or declares File locals in nested blocks
            pm = re.match(r'^(let\s+[^=]+=(?!=)\s*)?(if\b)', corem)
            if pm:
                k0 = pm.start(2)
                chain, cend = _parse_if_chain(corem, k0)
                rest = corem[cend:].strip()
                if rest not in ('', ';'):
                    raise X.ExtractError('R53f: text after an if / else chain that moves a File local: %r' % rest[:40])
                if chain[-1][0] is not None:
                    raise X.ExtractError('R53f: an if-chain without a final else moves a File local')
                outs = []
                for (c0, c1, bo, bc) in chain:
                    if c0 is not None:
                        for nm in alive:
                            if _uses(corem[c0:c1], nm)[0]:
                                raise X.ExtractError('R53f: the condition of an if moves the File local %s' % nm)
                        if re.search(r'\?|\breturn\b', corem[c0:c1]) and alive:
                            raise X.ExtractError('R53f: `?` / return in the condition of an if-chain that moves a File local')
                    saved = dict(state)
                    _t, out, dv = proc_block(core[bo + 1:bc], alive)      # first pass: which File locals does this branch leave alive
                    state.update(saved)
                    outs.append((out, dv))
                live_outs = [o for (o, dv) in outs if not dv]
                common = [n for n in alive if all(n in o for o in live_outs)] if live_outs else []
                uneven = any(set(o) != set(common) for o in live_outs)
                if uneven and not last:
                    raise X.ExtractError('R53f: the branches of an if / else chain that is not the last statement of its block disagree on the File locals they move')
                if uneven:
                    state['flags'] += 1
                new = core
                for (c0, c1, bo, bc), (out, dv) in reversed(list(zip(chain, outs))):
                    extra = [] if dv else [n for n in out if n not in common]
                    t2, _o, _d = proc_block(core[bo + 1:bc], alive, extra_drop=extra)
                    new = new[:bo + 1] + t2 + new[bc:]
                if live_outs:
                    state['moved'] += len([n for n in alive if n not in common])
                    alive = common
                else:
                    diverges = True
                if is_tail:
                    dl = [n for n in alive if n in here] + [n for n in extra_drop if n in alive]
                    if dl:
                        new = '{ let scope_val = %s; %s scope_val }' % (new, drops(dl))
                        for n in dl:
                            alive.remove(n)
                parts.append(lead + X._pad(new, st[a0:b0]) + trail)
                continue
            if nested:
                raise X.ExtractError('R53f: a File local is declared inside a statement that is not an if / else chain: %r' % X.norm_ws(core)[:60])
            if KW_CTRL.search(corem) or PR._closure_extents(corem) or re.search(r'\?|\breturn\b', corem):
                raise X.ExtractError('R53f: the File local %s is moved in a statement with control flow: %r' % (moved[0], X.norm_ws(core)[:60]))
            for nm in moved:
                alive.remove(nm)
                state['moved'] += 1
            new = core
            if is_tail:
                dl = [n for n in alive if n in here] + [n for n in extra_drop if n in alive]
                if dl:
                    new = '{ let scope_val = %s; %s scope_val }' % (new, drops(dl))
                    for n in dl:
                        alive.remove(n)
            parts.append(lead + X._pad(new, st[a0:b0]) + trail)
        consumed = stmts[-1][1] if stmts else 0
        tail_ws = ''
        dl = [n for n in alive if n in here] + [n for n in extra_drop if n in alive and n not in here]
        if dl and not diverges:
            tail_ws = ' ' + drops(dl) + ' '
        for n in dl:
            alive.remove(n)
        new_inner = ''.join(parts) + tail_ws + inner[consumed:]
        return X._pad(new_inner, inner), [n for n in alive_in if n in alive], diverges

    def hook(body, fired):
        if not body.startswith('{'):
            raise X.ExtractError('R53f: body does not start with {')
        if not ANY_CT.search(X.mask(body)):
            return body
        for k in state:
            state[k] = 0
        cb = X.match_close(X.mask(body), 0)
        new_inner, _o, _d = proc_block(body[1:cb], [])
        fired.append('R53f scope-exit drops of %d File local(s) made explicit (%s before every later exit of the declaring block and at its end; %d moved value(s) not dropped; %d drop-flag branch(es))'
                     % (state['lets'], dropfn, state['moved'], state['flags']))
        return '{' + new_inner + body[cb:]
    return hook


# ------------------------------------------------------------------------------------------------------------------- R62
def r62_locate(scope, name):
    def locate(src, fired):
        d = dict(src.find_fn(scope, name))
        sm = X.mask(d['sig'])
        m = re.search(r'\(\s*mut\s+self\b', sm)
        if not m:
            return d
        d['sig'] = d['sig'][:m.start()] + '(self' + X._pad('', d['sig'][m.start():m.end()]) + d['sig'][m.end():]
        body = d['body']
        bm = X.mask(body)
        if re.search(r'\bthis\b', bm):
            raise X.ExtractError('R62: the body of %s already uses the name `this`' % name)
        out, last = [], 0
        for mm in re.finditer(r'\bself\b', bm):
            out.append(body[last:mm.start()] + 'this')
            last = mm.end()
        body = ''.join(out) + body[last:]
        d['body'] = '{ let mut this = self;' + body[1:]
        fired.append('R62 `mut self` receiver -> `self` + `let mut this = self;` (self := this in the body)')
        return d
    return locate


# ------------------------------------------------------------------------------------------------------------------- R63
def r63_locate(scope, name):
    def locate(src, fired):
        d = dict(src.find_fn(scope, name))
        sig = d['sig']
        sm = X.mask(sig)
        hits = list(re.finditer(r'(\b\w+\s*:\s*)&\s*impl\s+AsRawFd\b', sm))
        if len(hits) != 1:
            raise X.ExtractError('R63: %d `&impl AsRawFd` parameters in %s' % (len(hits), name))
        m = hits[0]
        sig = sig[:m.end(1)] + '&D' + X._pad('', sig[m.end(1):m.end()]) + sig[m.end():]
        fm = re.search(r'\bfn\s+%s\b' % re.escape(name), X.mask(sig))
        k = fm.end()
        if X.mask(sig)[k:].lstrip().startswith('<'):
            k2 = sig.index('<', k)
            sig = sig[:k2 + 1] + 'D: AsRawFd, ' + sig[k2 + 1:]
        else:
            sig = sig[:k] + '<D: AsRawFd>' + sig[k:]
        d['sig'] = sig
        fired.append('R63 `%s&impl AsRawFd` -> generic parameter D: AsRawFd' % X.norm_ws(m.group(1)))
        return d
    return locate
