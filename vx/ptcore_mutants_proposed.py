"""Mutants for unit ptcore (proposed and tried by the sub-agent that built it; transcribed from its report).  Tuples (name, file, old_text, new_text);
self-test: python3 vx/ptcore_mutants_proposed.py [SRC] checks that every `old` occurs exactly once."""
P, U, SI, IS, SX = 'src/passthrough/mod.rs', 'src/passthrough/util.rs', 'src/passthrough/sync_io.rs', 'src/passthrough/inode_store.rs', 'src/passthrough/statx.rs'
MUTANTS = {
    'C08': [
        ('ptcore-import-refcount', P, "            handle,\n            2,\n            id,", "            handle,\n            1,\n            id,"),
        ('ptcore-next-inode-root', P, "            next_inode: AtomicU64::new(fuse::ROOT_ID + 1),", "            next_inode: AtomicU64::new(fuse::ROOT_ID),"),
        ('ptcore-import-mode', P, "            id,\n            st.st.st_mode,\n        )));", "            id,\n            0o040755,\n        )));"),
    ],
    'C06': [
        ('ptcore-restricted-follow', P, "        let flags = libc::O_NOFOLLOW | libc::O_CLOEXEC | flags;", "        let flags = libc::O_CLOEXEC | flags;"),
        ('ptcore-reopen-other-fd', U, "    let name = CString::new(format!(\"{}\", fd.as_raw_fd()).as_str())?;", "    let name = CString::new(format!(\"{}\", fd.as_raw_fd() + 1).as_str())?;"),
        ('ptcore-getfile-second-owner', P, "            InodeHandle::File(f) => Ok(InodeFile::Ref(f)),", "            InodeHandle::File(f) => Ok(InodeFile::Owned(unsafe { File::from_raw_fd(f.as_raw_fd()) })),"),
        ('ptcore-mount-dotdot', P, "&CString::new(\".\").unwrap())?;", "&CString::new(\"..\").unwrap())?;"),
        ('ptcore-readlink-proc-cwd', P, "        Self::readlinkat(self.proc_self_fd.as_raw_fd(), &pathname)", "        Self::readlinkat(libc::AT_FDCWD, &pathname)"),
    ],
    'C15': [
        ('ptcore-import-keeps-opath-fd', P, "            InodeHandle::Handle(self.to_openable_handle(h)?)\n        } else {", "            let oh = self.to_openable_handle(h)?;\n            let _raw = path_fd.into_raw_fd();\n            InodeHandle::Handle(oh)\n        } else {"),
        ('ptcore-destroy-no-inode-clear', SI, "        self.handle_map.clear();\n        self.inode_map.clear();\n", "        self.handle_map.clear();\n"),
        ('ptcore-store-clear-keeps-data', IS, "        self.data.clear();\n        self.by_handle.clear();", "        self.by_handle.clear();"),
        ('ptcore-keep-fds-empty', P, "        vec![self.proc_self_fd.as_raw_fd()]", "        vec![]"),
    ],
    'C05': [
        ('ptcore-no-umask', P, "        unsafe { libc::umask(0o000) };", "        "),
        ('ptcore-setlen-plus1', P, "        unsafe { buf.set_len(buf_read as usize) };", "        unsafe { buf.set_len(buf_read as usize + 1) };"),
        ('ptcore-bufsiz-twice', P, "                buf.capacity(),\n            )", "                buf.capacity() * 2,\n            )"),
        ('ptcore-statfd-follow', U, "            libc::AT_EMPTY_PATH | libc::AT_SYMLINK_NOFOLLOW,\n        )\n    };\n    if res >= 0 {", "            libc::AT_EMPTY_PATH,\n        )\n    };\n    if res >= 0 {"),
        ('ptcore-statx-mask', SX, "            STATX_BASIC_STATS | STATX_MNT_ID,\n            stx_ui.as_mut_ptr(),", "            STATX_BASIC_STATS,\n            stx_ui.as_mut_ptr(),"),
        ('ptcore-statx-failure-ok', SX, "    if res >= 0 {\n        // Safe because we are only going to use the SafeStatXAccess", "    if res >= -1 {\n        // Safe because we are only going to use the SafeStatXAccess"),
        ('ptcore-reopen-keeps-nofollow', U, "        flags & !libc::O_NOFOLLOW & !libc::O_CREAT & !(libc::O_TMPFILE & !libc::O_DIRECTORY),", "        flags & !libc::O_CREAT & !(libc::O_TMPFILE & !libc::O_DIRECTORY),"),
        # the D31 repair undone: O_TMPFILE reaches the kernel again
        ('ptcore-reopen-keeps-tmpfile', U, "        flags & !libc::O_NOFOLLOW & !libc::O_CREAT & !(libc::O_TMPFILE & !libc::O_DIRECTORY),", "        flags & !libc::O_NOFOLLOW & !libc::O_CREAT,"),
    ],
}
if __name__ == '__main__':
    import sys
    src = sys.argv[1] if len(sys.argv) > 1 else '/repo'
    bad = 0
    for k, v in MUTANTS.items():
        for (n, f, o, w) in v:
            c = open(src + '/' + f).read().count(o)
            if c != 1:
                bad += 1
                print('PROBLEM', n, 'old text occurs', c, 'times')
    print(sum(len(v) for v in MUTANTS.values()), 'mutants,', bad, 'problems')
