"""Rewrite rules introduced for unit `asyncfile` (C04 / C20 / C15: src/common/async_file.rs, src/common/async_runtime.rs).  Additive and opt-in:
nothing here runs unless a unit puts the hook into `fn.locate` / `fn.body_hooks` (vx/build.py).  Every rule logs what it did in `rules_fired`; a
shape it does not recognise raises ExtractError (exit 2, never an alarm).  Newline counts are preserved (X._pad).

R80   `std::` paths named by the model   async_file.rs writes std items by their full path (`std::io::Result`, `std::io::Error::last_os_error()`,
      `std::fs::File::from_raw_fd`, `std::fs::Metadata`, `std::mem::forget`, `std::cmp::min`).  `std::io::` -> `io::` (the io model of
      prelude/base.rs, as every unit uses it), `std::fs::` / `std::mem::` / `std::cmp::` -> `stdm::fs::` / `stdm::mem::` / `stdm::cmp::` (the
      unit's model module).  Signature and body.  A renaming of paths: no run-time meaning.  Any other `std::` path left in the text is exit 2.
R81   `for P in E.iter_mut() { B }`  ->  `let mut P_i: usize = 0; while P_i < E.len() { let P = &mut E[P_i]; B P_i += 1; };`
      Definition of `<[T]>::iter_mut` (E a place path naming a slice / Vec): it yields `&mut E[0]`, `&mut E[1]`, .. in index order, each once.
      B verbatim; a `break` in B leaves the loop as before (the increment is the last statement, B may not contain `continue`: exit 2).
      Nothing is dropped.  Reason: Verus has no specification for `IterMut`.
R82   tail `RECV.map(PATH::Variant)` on a Result, with an enum constructor as the function  ->
      `(match RECV { Ok(ok_v) => Ok(PATH::Variant(ok_v)), Err(err_v) => Err(err_v) })`  (definition of Result::map applied to a tuple-variant
      constructor, which is the function `|v| PATH::Variant(v)`).  Nothing is dropped.  Only `.map(` whose single argument is a path ending in
      a capitalised identifier is rewritten (also in the eta-expanded form `|e| PATH::Variant(e)` that rule R1 produces); the receiver is the whole
      postfix chain before it.
R83   `*RUNTIME_TYPE`  ->  `*vx_runtime_type()`   RUNTIME_TYPE is a `lazy_static!` cell (`static ref RUNTIME_TYPE: RuntimeType = RuntimeType::new();`,
      checked in src/common/async_runtime.rs): dereferencing it yields the value `RuntimeType::new()` returned the first time, the same value
      for the rest of the process.  The model function returns a reference to that value (`the_runtime_type()`, uninterpreted).  Dropped: the
      one-time initialisation (the probe of RuntimeType::new, which unit asyncfile verifies on its own) happening at the first dereference.
R65a  the unsafe-block guard of R65, generalised: every `unsafe { .. }` block of the function must consist of exactly ONE call, and that call
      must be one of the listed shapes (`sys::NAME(..)` a modelled host call; `X.set_size(..)` the verified method of FileVolatileBuf whose
      safety condition is its `requires`; `PATH::from_raw_fd(..)` a modelled constructor whose safety condition is its `requires`).  Anything else
      is exit 2.  Together with the `requires` of these callees this is "in-bounds / ownership preconditions proved, not assumed".
R84   local `use` items inside a function body (`use io_uring::{opcode, IoUring, Probe};` in probe_io_uring) are deleted; the names they import
      are provided by the unit's model module.  No run-time meaning.
"""
import re

from . import extract as X
from . import ptopsrules as PR


# ------------------------------------------------------------------------------------------------------------------- R80
_STD = [(r'\bstd::io::', 'io::'), (r'\bstd::fs::', 'stdm::fs::'), (r'\bstd::mem::', 'stdm::mem::'), (r'\bstd::cmp::', 'stdm::cmp::')]


def _r80_text(text, counts):
    for (rx, new) in _STD:
        while True:
            msk = X.mask(text)
            m = re.search(rx, msk)
            if not m:
                break
            text = text[:m.start()] + new + text[m.end():]
            counts[new] = counts.get(new, 0) + 1
    left = re.search(r'\bstd::(?!future::)\w+', X.mask(text))
    if left:
        raise X.ExtractError('R80: std path without a model: %r' % text[left.start():left.start() + 40])
    return text


def r80_std_paths(src, d, fired):
    """locate hook: (src, d, fired) -> d"""
    counts = {}
    d = dict(d)
    d['sig'] = _r80_text(d['sig'], counts)
    d['body'] = _r80_text(d['body'], counts)
    if counts:
        fired.append('R80 std paths named by the model: %s' % ', '.join('-> %s x%d' % (k, v) for k, v in sorted(counts.items())))
    return d


# ------------------------------------------------------------------------------------------------------------------- R81
def r81_iter_mut_loop(body, fired):
    n = 0
    while True:
        msk = X.mask(body)
        m = re.search(r'\bfor\s+(\w+)\s+in\s+((?:\w+\s*\.\s*)*\w+)\s*\.\s*iter_mut\s*\(\s*\)\s*\{', msk)
        if not m:
            break
        ob = m.end() - 1
        cb = X.match_close(msk, ob)
        if re.search(r'\bcontinue\b', msk[ob:cb]):
            raise X.ExtractError('R81: `continue` inside a `for .. in E.iter_mut()` body')
        p, e = m.group(1), re.sub(r'\s+', '', m.group(2))
        head = 'let mut %s_i: usize = 0; while %s_i < %s.len() { let %s = &mut %s[%s_i];' % (p, p, e, p, e, p)
        foot = ' %s_i += 1; };' % p
        body = body[:m.start()] + X._pad(head, body[m.start():m.end()]) + body[m.end():cb] + foot + body[cb + 1:]
        n += 1
    if re.search(r'\.\s*iter_mut\s*\(', X.mask(body)):
        raise X.ExtractError('R81: unsupported shape of .iter_mut()')
    if n:
        fired.append('R81 for P in E.iter_mut() { B } -> index loop with `let P = &mut E[P_i];` (definition of iter_mut; B verbatim) (%d)' % n)
    return body


# ------------------------------------------------------------------------------------------------------------------- R82
class _G:
    """a match object whose group(1) is the constructor path"""
    def __init__(self, m, ctor):
        self.m, self.ctor = m, ctor

    def start(self):
        return self.m.start()

    def end(self):
        return self.m.end()

    def group(self, k):
        return self.ctor


def r82_map_variant(body, fired):
    n = 0
    while True:
        msk = X.mask(body)
        m = re.search(r'\.\s*map\s*\(\s*((?:\w+\s*::\s*)*[A-Z]\w*)\s*\)', msk)
        if not m:      # the form rule R1 leaves behind: `.map(|e| PATH::Variant(e))` (eta-expanded constructor)
            m = re.search(r'\.\s*map\s*\(\s*\|\s*(?P<v>\w+)\s*\|\s*((?:\w+\s*::\s*)*[A-Z]\w*)\s*\(\s*(?P=v)\s*\)\s*\)', msk)
            if m:
                m = _G(m, m.group(2))
        if not m:
            break
        s0 = PR._operand_start(msk, m.start())
        e = m.start()
        while e > s0 and msk[e - 1] in ' \t\n':
            e -= 1
        recv = body[s0:e]
        ctor = re.sub(r'\s+', '', m.group(1))
        new = '(match %s { Ok(ok_v) => Ok(%s(ok_v)), Err(err_v) => Err(err_v) })' % (recv, ctor)
        body = body[:s0] + X._pad(new, body[s0:m.end()]) + body[m.end():]
        n += 1
    if n:
        fired.append('R82 RECV.map(PATH::Variant) -> match (definition of Result::map applied to a variant constructor) (%d)' % n)
    return body


# ------------------------------------------------------------------------------------------------------------------- R83
def r83_runtime_type(root):
    def hook(body, fired):
        msk = X.mask(body)
        hits = list(re.finditer(r'\*\s*RUNTIME_TYPE\b', msk))
        if not hits:
            if re.search(r'\bRUNTIME_TYPE\b', msk):
                raise X.ExtractError('R83: RUNTIME_TYPE used other than as `*RUNTIME_TYPE`')
            return body
        rt = open('%s/src/common/async_runtime.rs' % root).read()
        rt = re.sub(r'//[^\n]*', '', rt)        # comments do not matter for the declaration check
        if not re.search(r'lazy_static!\s*\{\s*pub\(crate\)\s+static\s+ref\s+RUNTIME_TYPE\s*:\s*RuntimeType\s*=\s*RuntimeType::new\(\)\s*;\s*\}', rt):
            raise X.ExtractError('R83: `static ref RUNTIME_TYPE: RuntimeType = RuntimeType::new();` not found in src/common/async_runtime.rs')
        for m in reversed(hits):
            body = body[:m.start()] + X._pad('*vx_runtime_type()', body[m.start():m.end()]) + body[m.end():]
        if re.search(r'(?<!vx_)\bRUNTIME_TYPE\b', X.mask(body)):
            raise X.ExtractError('R83: RUNTIME_TYPE used other than as `*RUNTIME_TYPE`')
        fired.append('R83 *RUNTIME_TYPE -> *vx_runtime_type() (lazy_static cell initialised by RuntimeType::new(), declaration checked; the same value at every use) (%d)' % len(hits))
        return body
    return hook


# ------------------------------------------------------------------------------------------------------------------- R65a
def r65a_unsafe_one_call(shapes):
    """shapes: regexes (on masked text) a single call inside an unsafe block may start with"""
    rxs = [re.compile(r'^(?:%s)\s*\(' % s) for s in shapes]

    def hook(body, fired):
        msk = X.mask(body)
        n = 0
        for m in re.finditer(r'\bunsafe\s*\{', msk):
            ob = m.end() - 1
            cb = X.match_close(msk, ob)
            inner = msk[ob + 1:cb].strip()
            cm = None
            for r in rxs:
                cm = r.match(inner)
                if cm:
                    break
            if not cm:
                raise X.ExtractError('R65a: unsafe block is not a single call of a modelled / verified function: %r' % X.norm_ws(body[ob:cb + 1])[:100])
            k = cm.end() - 1
            if X.match_close(inner, k) != len(inner) - 1:
                raise X.ExtractError('R65a: unsafe block holds more than one call: %r' % X.norm_ws(body[ob:cb + 1])[:100])
            n += 1
        if re.search(r'\bptr::|\bcopy_nonoverlapping\b|\bslice::from_raw_parts|\btransmute\b', msk):
            raise X.ExtractError('R65a: raw memory operation outside a modelled call')
        if n:
            fired.append('R65a every unsafe block is exactly one call of a modelled / verified function whose safety condition is a proved precondition (%d)' % n)
        return body
    return hook


# ------------------------------------------------------------------------------------------------------------------- R84
def r84_local_use(body, fired):
    msk = X.mask(body)
    hits = list(re.finditer(r'(?m)^[ \t]*use\s+[\w:]+(?:::\{[^}]*\})?\s*;', msk))
    for m in reversed(hits):
        body = body[:m.start()] + X._pad('', body[m.start():m.end()]) + body[m.end():]
    if hits:
        fired.append('R84 local `use` item(s) deleted (names provided by the model module) (%d)' % len(hits))
    return body


# ------------------------------------------------------------------------------------------------------------------- R51a
def r51a_libc_calls(names, mod='fsys'):
    """R51 for this unit: `libc::NAME(` -> `<mod>::NAME(` for the listed host calls (model with the same arguments), `io::Error::last_os_error()` ->
    `<mod>::last_os_error()` (errno of the thread, kept in the ghost token).  A `libc::` call that is not listed is exit 2."""
    def hook(body, fired):
        n = 0
        while True:
            msk = X.mask(body)
            m = re.search(r'\blibc::(\w+)\s*\(', msk)
            if not m:
                break
            if m.group(1) not in names:
                raise X.ExtractError('R51a: host call libc::%s( has no model in this unit' % m.group(1))
            body = body[:m.start()] + mod + '::' + body[m.start() + len('libc::'):]
            n += 1
        k = len(re.findall(r'\b(?:io::)?Error::last_os_error\(\)', X.mask(body)))
        if k:
            body = re.sub(r'\b(?:io::)?Error::last_os_error\(\)', mod + '::last_os_error()', body)
        if n or k:
            fired.append('R51a libc::<call>( -> %s::<call>( (%d), Error::last_os_error() -> %s::last_os_error() (%d): models with the same arguments' % (mod, n, mod, k))
        return body
    return hook
