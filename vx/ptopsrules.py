"""Rewrite rules introduced for unit `ptops` (C05).  Opt-in per function through the hooks of vx/build.py: `fn.locate` (where the item's text
comes from; runs BEFORE the standard rules) and `fn.body_hooks` (body -> body; run after the standard rules and BEFORE the ghost-token rule
R23).  Every rule logs what it did in `rules_fired`; a shape it does not recognise raises ExtractError (exit 2, never an alarm).  Newline
counts are preserved (X._pad), so generated lines still map 1:1 onto /repo lines.

R50  macro_rules! instance expanded        `scoped_cred!(ScopedUid, libc::uid_t, libc::SYS_setresuid);` : the function `fn F` inside
     `impl $name {` / `impl Drop for $name {` of the macro body is taken with `$name` / `$ty` / `$syscall_nr` replaced by the arguments of
     that invocation (textual substitution = what macro_rules! does for `ident` / `ty` / `expr` fragments; `$syscall_nr` is only used as a
     whole argument, so no re-parenthesisation is needed).  Nothing is dropped.  The Drop impl is emitted as an INHERENT method `drop`
     (Group header written in the unit): Verus does not see implicit drops, the calls are made explicit by R53.
R51  raw system call by number             `libc::syscall(libc::SYS_<name>, ARGS)` -> `sys::<name>(ARGS)` (syscall(2): "performs the system
     call whose assembly language interface has the specified number with the specified arguments"); a first argument that is not a
     literal `libc::SYS_<name>` path is refused.  Then, like ptsize's rule, `libc::<name>(` -> `sys::<name>(` for the listed host calls
     (capability-guarded models with the same name and the same arguments).  `libc::openat` is variadic: the 3-argument form becomes
     `sys::openat3` (no mode), the 4-argument form `sys::openat`.  `io::Error::last_os_error()` -> `sys::last_os_error()` (errno of the
     thread, kept in the ghost token).
R52  `E.and_then(|X| BODY)` as the TAIL expression of a function -> `match E { Ok(X) => BODY, Err(e) => Err(e) }` (definition of
     Result::and_then).  A `?` inside BODY leaves the closure with Err(From::from(e)), which and_then returns, which the function returns:
     the same value the inlined `?` returns from the function directly (error types are identical).  Values bound by X are dropped at the
     same point (end of the closure / end of the match arm, also on the `?` path).  Reason: the closure would capture the ghost token
     mutably.  Any other position of `.and_then(` in that function is refused.
R53  scope-exit drops of credential guards made explicit.  For a guard statement G (`let (A, B) = set_creds(..)?;` or
     `let K = if C { [self::]drop_cap_fsetid()? } else { None };`) directly inside a block `{ .. G S1 .. Sn [T] }`:
        * every statement Si of the form `let P = X?;` -> `let P = match X { Ok(v) => v, Err(e) => { DROPS return Err(e); } };`
          (`?` on an io::Result inside a function returning io::Result is exactly this; the guards go out of scope on that return);
        * an Si that is `drop(K);` / `mem::drop(K);` of a guard K -> the explicit drop call of K (and K is no longer dropped at the end);
        * the tail expression T (or the last expression statement if the block has no tail) -> `{ let scope_val = T; DROPS scope_val }`;
          a tail of the form `X?` -> `match X { Ok(v) => { DROPS v } Err(e) => { DROPS return Err(e); } }`;
          `return E;` as a statement directly in the block -> `{ let scope_val = E; DROPS return scope_val; }`
        * any OTHER `?`, `return`, `break`, `continue` lexically inside the rest of the block (closures excepted) is refused (exit 2).
     DROPS = the explicit drop calls of the guards still alive, in reverse order of declaration (Rust reference, "Destructors": variables of
     a scope are dropped in reverse order of declaration; within one pattern in order of appearance, so `(_uid, _gid)` drops `_gid` first).
     `vx_drop_gid/uid/cap(g, Tracked(hs))` are hand-written and VERIFIED wrappers: dropping an Option<T> drops the T if it is Some.
     Other locals of the block (a `file`, a `flags` word) are dropped before the guards as in Rust; they are not credential state.
     Dropped by this rule: nothing; ADDED: the calls Rust inserts implicitly.  Unwinding (panic) paths are not modelled.
R54  `format!` with a key                  `format!("/proc/self/fd/{}", E)` -> `vx_fmt_proc_self_fd(E)`, `format!("{}", E)` -> `vx_fmt_display(E)`
     (models that say WHICH bytes the string holds, as uninterpreted functions of E); runs before R7, which would make the string opaque.
R55  pointer arguments named by their owner  `buf.as_mut_ptr() as *mut libc::c_char|c_void` -> `&mut buf`; `value.as_ptr() as *const libc::c_void` ->
     `value`; `tvs.as_ptr()` -> `&tvs`; `out.as_mut_ptr()` -> `&mut out`; `unsafe { buf.set_len(N) };` -> `sys::vec_set_len(&mut buf, N);`;
     `unsafe { out.assume_init() }` -> `out.assume_init()`.  The model of the system call then speaks about the bytes / the struct the kernel
     stored instead of about an address.  Dropped: the address arithmetic (none is performed), the memory safety of the FFI call (assumed).
R56  ghost token on associated calls       `ScopedGid::new(X)` / `ScopedUid::new(X)` -> `..::new(X, Tracked(hs))` (R23 matches callees by bare name
     and `new` is too common a name); `drop(K)` handled by R53.
"""
import re

from . import extract as X


# ------------------------------------------------------------------------------------------------------------------- R50
def _macro_body(src, macro):
    m = re.search(r'\bmacro_rules!\s*%s\s*\{' % re.escape(macro), src.msk)
    if not m:
        raise X.ExtractError('R50: macro_rules! %s not found in %s' % (macro, src.rel))
    ob = m.end() - 1
    cb = X.match_close(src.msk, ob)
    arm = re.search(r'\(\s*((?:\$\w+\s*:\s*\w+\s*,?\s*)+)\)\s*=>\s*\{', src.msk[ob:cb])
    if not arm:
        raise X.ExtractError('R50: macro %s: single arm `(..) => {` not found' % macro)
    params = re.findall(r'\$(\w+)\s*:\s*(\w+)', src.src[ob + arm.start(1):ob + arm.end(1)])
    bo = ob + arm.end() - 1
    bc = X.match_close(src.msk, bo)
    if src.msk[bc + 1:cb].strip(' \t\n;'):
        raise X.ExtractError('R50: macro %s has more than one arm' % macro)
    return params, bo, bc


def r50_locate(macro, instance_first_arg, impl_header, fn_name):
    """-> Fn.locate.  impl_header e.g. 'impl $name' or 'impl Drop for $name' (as written in the macro body)."""
    def locate(src, fired):
        params, bo, bc = _macro_body(src, macro)
        inv = None
        for m in re.finditer(r'(?m)^\s*%s!\s*\(' % re.escape(macro), src.msk):
            ob = m.end() - 1
            cb = X.match_close(src.msk, ob)
            args = [a.strip() for a in X.split_top(src.src[ob + 1:cb]) if a.strip()]
            if args and args[0] == instance_first_arg:
                if inv is not None:
                    raise X.ExtractError('R50: %s!(%s, ..) invoked twice' % (macro, instance_first_arg))
                inv = args
        if inv is None:
            raise X.ExtractError('R50: invocation %s!(%s, ..) not found' % (macro, instance_first_arg))
        if len(inv) != len(params):
            raise X.ExtractError('R50: %s! takes %d arguments, %d given' % (macro, len(params), len(inv)))
        want = X.norm_ws(impl_header)
        hit = None
        for m in re.finditer(r'\bimpl\b[^{;]*\{', src.msk[bo:bc]):
            hdr = X.norm_ws(src.src[bo + m.start():bo + m.end() - 1])
            if hdr == want:
                if hit is not None:
                    raise X.ExtractError('R50: `%s` occurs twice in macro %s' % (want, macro))
                hit = (bo + m.end() - 1)
        if hit is None:
            raise X.ExtractError('R50: `%s` not found in macro %s' % (want, macro))
        ic = X.match_close(src.msk, hit)
        fm = [m for m in re.finditer(r'\bfn\s+%s\b' % re.escape(fn_name), src.msk[hit:ic])]
        if len(fm) != 1:
            raise X.ExtractError('R50: fn %s occurs %d times in `%s` of macro %s' % (fn_name, len(fm), want, macro))
        p = hit + fm[0].start()
        k = p
        d = 0
        while True:
            ch = src.msk[k]
            if ch in '([':
                d += 1
            elif ch in ')]':
                d -= 1
            elif ch == '{' and d == 0:
                break
            k += 1
        e = X.match_close(src.msk, k)
        sig, body = src.src[p:k], src.src[k:e + 1]
        for (pn, kind), val in zip(params, inv):
            sig = re.sub(r'\$%s\b' % re.escape(pn), lambda _m: val, sig)
            body = re.sub(r'\$%s\b' % re.escape(pn), lambda _m: val, body)
        if '$' in X.mask(sig) or '$' in X.mask(body):
            raise X.ExtractError('R50: an unexpanded macro variable survives in %s::%s' % (instance_first_arg, fn_name))
        fired.append('R50 %s!(%s) expanded: fn %s of `%s` with %s' % (macro, ', '.join(inv), fn_name, want,
                                                                       ', '.join('$%s := %s' % (pn, v) for (pn, _k), v in zip(params, inv))))
        return dict(sig=sig, body=body, line=src.line_of(p), body_line=src.line_of(k), attrs=[], start=p, end=e + 1)
    return locate


# ------------------------------------------------------------------------------------------------------------------- R54 (+ generic pre-rules locate)
def pre_locate(scope, name, hooks):
    """-> Fn.locate: `hooks` (body, fired) -> body applied to the function's ORIGINAL text, before the standard rules"""
    def locate(src, fired):
        d = dict(src.find_fn(scope, name))
        body = d['body']
        for h in hooks:
            body = h(body, fired)
        d['body'] = body
        return d
    return locate


def r54_format_keyed(body, fired):
    n = 0
    while True:
        msk = X.mask(body)
        hit = None
        for m in re.finditer(r'\bformat!\s*\(', msk):
            ob = m.end() - 1
            cb = X.match_close(msk, ob)
            args = [a.strip() for a in X.split_top(body[ob + 1:cb]) if a.strip()]
            if len(args) == 2 and args[0] == '"/proc/self/fd/{}"':
                hit = (m.start(), cb, 'vx_fmt_proc_self_fd(%s)' % args[1])
            elif len(args) == 2 and args[0] == '"{}"':
                hit = (m.start(), cb, 'vx_fmt_display(%s)' % args[1])
            if hit:
                break
        if not hit:
            break
        n += 1
        body = body[:hit[0]] + X._pad(hit[2], body[hit[0]:hit[1] + 1]) + body[hit[1] + 1:]
    if n:
        fired.append('R54 format!("<key>", E) -> keyed model vx_fmt_*(E) (%d)' % n)
    return body


# ------------------------------------------------------------------------------------------------------------------- R51
def r51_syscalls(names):
    rx_names = '|'.join(re.escape(n) for n in names)

    def hook(body, fired):
        # raw syscall by number
        n_raw = 0
        while True:
            msk = X.mask(body)
            m = re.search(r'\blibc::syscall\s*\(', msk)
            if not m:
                break
            ob = m.end() - 1
            cb = X.match_close(msk, ob)
            args = X.split_top(body[ob + 1:cb])
            first = args[0].strip()
            fm = re.match(r'^libc::SYS_(\w+)$', first)
            if not fm:
                raise X.ExtractError('R51: libc::syscall(..) whose number is not a literal libc::SYS_<name>: %r' % first[:60])
            rest = body[ob + 1:cb]
            k = rest.index(',') + 1          # first top-level comma: the number contains none
            new = 'sys::%s(%s)' % (fm.group(1), rest[k:])
            body = body[:m.start()] + X._pad(new, body[m.start():cb + 1]) + body[cb + 1:]
            n_raw += 1
        if n_raw:
            fired.append('R51 libc::syscall(libc::SYS_<name>, ARGS) -> sys::<name>(ARGS) (%d)' % n_raw)
        # variadic openat
        n_o = 0
        while True:
            msk = X.mask(body)
            m = re.search(r'\blibc::openat\s*\(', msk)
            if not m:
                break
            ob = m.end() - 1
            cb = X.match_close(msk, ob)
            na = len([a for a in X.split_top(body[ob + 1:cb]) if a.strip()])
            if na not in (3, 4):
                raise X.ExtractError('R51: libc::openat with %d arguments' % na)
            body = body[:m.start()] + ('sys::openat3(' if na == 3 else 'sys::openat(') + body[ob + 1:]
            n_o += 1
        if n_o:
            fired.append('R51 libc::openat: 3-argument form -> sys::openat3, 4-argument form -> sys::openat (%d)' % n_o)
        cnt = len(re.findall(r'\blibc::(%s)\(' % rx_names, X.mask(body)))
        if cnt:
            body = re.sub(r'\blibc::(%s)\(' % rx_names, r'sys::\1(', body)
            fired.append('R51 every: libc::<host call>( -> sys::<host call>( (%d; capability-guarded models, same name and arguments)' % cnt)
        cnt = len(re.findall(r'\bio::Error::last_os_error\(\)', body))
        if cnt:
            body = re.sub(r'\bio::Error::last_os_error\(\)', 'sys::last_os_error()', body)
            fired.append('R51 every: io::Error::last_os_error() -> sys::last_os_error() (errno kept in the ghost token) (%d)' % cnt)
        left = re.search(r'\blibc::(\w+)\s*\(', X.mask(body))
        if left:
            raise X.ExtractError('R51: host call libc::%s( has no model in this unit' % left.group(1))
        return body
    return hook


# ------------------------------------------------------------------------------------------------------------------- R52
def r52_tail_and_then(body, fired, guard_drop=None):
    msk = X.mask(body)
    hits = list(re.finditer(r'\.\s*and_then\s*\(', msk))
    if not hits:
        return body
    if len(hits) != 1:
        raise X.ExtractError('R52: %d uses of .and_then(' % len(hits))
    m = hits[0]
    ob = m.end() - 1
    cb = X.match_close(msk, ob)
    if msk[cb + 1:].strip() != '}':
        raise X.ExtractError('R52: .and_then(..) is not the tail expression of the function')
    pm = re.match(r'\s*\|\s*(\w+)\s*\|\s*', msk[ob + 1:cb])
    if not pm:
        raise X.ExtractError('R52: argument of .and_then is not `|x| BODY`')
    cbody = body[ob + 1 + pm.end():cb].strip()
    if guard_drop:       # the closure parameter is an owned credential guard: it dies on the `?` path of the closure body (R53)
        cbody = _rw_exits(cbody, '%s(%s, Tracked(hs));' % (guard_drop, pm.group(1)))
    # the receiver: from the start of the last statement (after the last `;` / the opening brace at depth 1)
    k = m.start() - 1
    d = 0
    while k > 0:
        c = msk[k]
        if c in ')]}':
            d += 1
        elif c in '([{':
            if d == 0:
                break
            d -= 1
        elif c == ';' and d == 0:
            break
        k -= 1
    recv = body[k + 1:m.start()]
    new = 'match %s { Ok(%s) => %s, Err(e) => Err(e) }' % (recv.strip(), pm.group(1), cbody)
    fired.append('R52 tail `%s.and_then(|%s| ..)` -> match (closure body inlined; its `?` now returns from the function with the same value)'
                 % (X.norm_ws(recv)[:40], pm.group(1)))
    lead = recv[:len(recv) - len(recv.lstrip())]
    return body[:k + 1] + lead + X._pad(new, body[k + 1 + len(lead):cb + 1]) + body[cb + 1:]


# ------------------------------------------------------------------------------------------------------------------- R55 / R56
def r55_pointer_args(body, fired):
    subs = [
        (r'\b(\w+)\.as_mut_ptr\(\)\s+as\s+\*mut\s+libc::(?:c_char|c_void)', r'&mut \1', 'destination buffer named by the vector that owns it'),
        (r'\b(\w+)\.as_ptr\(\)\s+as\s+\*const\s+libc::c_void', r'\1', 'source bytes named by the slice'),
        (r'\btvs\.as_ptr\(\)', r'&tvs', 'the timespec pair named by the array'),
        (r'\bout\.as_mut_ptr\(\)', r'&mut out', 'the out-parameter named by its cell'),
        (r'unsafe\s*\{\s*(\w+)\.set_len\(([^;{}]*)\)\s*\}\s*;', r'sys::vec_set_len(&mut \1, \2);', 'Vec::set_len after the kernel filled the buffer'),
        (r'unsafe\s*\{\s*out\.assume_init\(\)\s*\}', r'out.assume_init()', 'MaybeUninit::assume_init of the model cell'),
        (r'\bMaybeUninit::<libc::statvfs64>::zeroed\(\)', r'MaybeUninit::<statvfs64>::zeroed()', 'libc::statvfs64 is the prelude struct'),
        (r'\bio::Error::new\(\s*(io::ErrorKind::\w+)\s*,\s*("[^"]*")\s*,?\s*\)', r'io::Error::new_str(\1, \2)', 'io::Error::new over a literal message (opaque error value of that kind)'),
        (r'\.map_err\(\|e\| io::Error::new\(io::ErrorKind::InvalidData, e\)\)', '.map_err(|e: NulError| -> (r: io::Error) { io::Error::new_nul(io::ErrorKind::InvalidData, e) })', 'io::Error::new over a NulError (opaque error value)'),
        (r'unsafe \{ CStr::from_bytes_with_nul_unchecked\(EMPTY_CSTR\) \}', 'empty_cstr()', 'the constant empty C string'),
    ]
    for (rx, rep, why) in subs:
        n = len(re.findall(rx, body, flags=re.S))
        if n:
            body = re.sub(rx, lambda m: X._pad(m.expand(rep), m.group(0)), body, flags=re.S)
            fired.append('R55 every: /%s/ -> %s (%s) x%d' % (rx[:50], rep[:40], why, n))
    return body


def r56_token_on(rx, arg):
    """append the ghost argument to every call matched by rx (rx ends in `\\(`)"""
    def hook(body, fired):
        msk = X.mask(body)
        hits = list(re.finditer(rx, msk))
        for m in reversed(hits):
            ob = m.end() - 1
            cb = X.match_close(msk, ob)
            j = cb
            while msk[j - 1] in ' \t\n':
                j -= 1
            sep = '' if j - 1 == ob else (' ' if msk[j - 1] == ',' else ', ')
            body = body[:j] + sep + arg + body[j:]
        if hits:
            fired.append('R56 ghost argument %s appended to %d call(s) matching /%s/' % (arg, len(hits), rx))
        return body
    return hook


# ------------------------------------------------------------------------------------------------------------------- R53
GUARD_CREDS = re.compile(r'\blet\s*\(\s*(\w+)\s*,\s*(\w+)\s*\)\s*=\s*set_creds\s*\(')
GUARD_CAP = re.compile(r'\blet\s+(\w+)\s*=\s*if\b')


def _enclosing_block(msk, pos):
    d, k = 0, pos
    while k >= 0:
        c = msk[k]
        if c == '}':
            d += 1
        elif c == '{':
            if d == 0:
                return k, X.match_close(msk, k)
            d -= 1
        k -= 1
    raise X.ExtractError('R53: enclosing block not found')


def _split_stmts(msk):
    """top-level statements of a block interior: list of (start, end, is_tail)"""
    out, d, start, i, n = [], 0, 0, 0, len(msk)
    while i < n:
        c = msk[i]
        if c in '([{':
            d += 1
        elif c in ')]}':
            d -= 1
            if c == '}' and d == 0:
                rest = msk[i + 1:].lstrip()
                head = msk[start:i + 1].lstrip()
                if re.match(r'(if|match|loop|while|for|unsafe)\b|\{', head) and rest and not rest.startswith(('.', '?', 'else', ';', ')', ',')):
                    out.append((start, i + 1, False))
                    start = i + 1
        elif c == ';' and d == 0:
            out.append((start, i + 1, False))
            start = i + 1
        i += 1
    if msk[start:].strip():
        out.append((start, n, True))
    return out


def _operand_start(msk, q):
    """msk[q] == '?': start of the postfix-expression chain it applies to"""
    k = q - 1
    while True:
        while k >= 0 and msk[k] in ' \t\n':
            k -= 1
        if k < 0:
            raise X.ExtractError('R53: operand of `?` not found')
        c = msk[k]
        if c in ')]':
            d = 0
            while k >= 0:
                if msk[k] in ')]}':
                    d += 1
                elif msk[k] in '([{':
                    d -= 1
                    if d == 0:
                        break
                k -= 1
            k -= 1
            # a call / index: the callee (path or method name) precedes
            j = k
            while j >= 0 and msk[j] in ' \t\n':
                j -= 1
            if j >= 0 and (msk[j].isalnum() or msk[j] in '_>)]'):
                k = j
                continue
            return k + 1 + len(msk[k + 1:]) - len(msk[k + 1:].lstrip())
        if c.isalnum() or c == '_':
            while k >= 0 and (msk[k].isalnum() or msk[k] == '_'):
                k -= 1
            j = k
            while j >= 0 and msk[j] in ' \t\n':
                j -= 1
            if j >= 0 and msk[j] == '.':
                k = j - 1
                continue
            if j >= 1 and msk[j - 1:j + 1] == '::':
                k = j - 2
                continue
            return k + 1
        if c == '>':       # turbofish / generic path segment `::<T>`
            d = 0
            while k >= 0:
                if msk[k] == '>':
                    d += 1
                elif msk[k] == '<':
                    d -= 1
                    if d == 0:
                        break
                k -= 1
            k -= 1
            if k >= 1 and msk[k - 1:k + 1] == '::':
                k -= 2
                continue
            raise X.ExtractError('R53: unsupported operand of `?`')
        raise X.ExtractError('R53: unsupported operand of `?` ending in %r' % c)


def _closure_extents(msk):
    out = []
    for m in re.finditer(r'(?<![\w)\]])\|[^|\n]*\|\s*(?:->\s*[^{]+)?', msk):
        k = m.end()
        while k < len(msk) and msk[k] in ' \t\n':
            k += 1
        if k < len(msk) and msk[k] == '{':
            e = X.match_close(msk, k) + 1
        else:
            d, e = 0, k
            while e < len(msk):
                c = msk[e]
                if c in '([{':
                    d += 1
                elif c in ')]}':
                    if d == 0:
                        break
                    d -= 1
                elif c in ',;' and d == 0:
                    break
                e += 1
        out.append((m.start(), e))
    return out


def _rw_exits(text, drops):
    """every `return E` and every `E?` in `text` (closures refused if they contain one) gets the drops in front of the exit"""
    msk = X.mask(text)
    if re.search(r'\b(break|continue)\b', msk):
        raise X.ExtractError('R53: break / continue inside a guarded scope is not supported')
    for (a, b) in _closure_extents(msk):
        if '?' in msk[a:b] or re.search(r'\breturn\b', msk[a:b]):
            raise X.ExtractError('R53: a closure inside a guarded scope contains `?` / return: %r' % X.norm_ws(text[a:b])[:60])
    # returns first (right to left, so that positions stay valid)
    for m in reversed(list(re.finditer(r'\breturn\b', msk))):
        k, d = m.end(), 0
        while k < len(msk):
            c = msk[k]
            if c in '([{':
                d += 1
            elif c in ')]}':
                if d == 0:
                    break
                d -= 1
            elif c in ';,' and d == 0:
                break
            k += 1
        expr = text[m.end():k].strip()
        new = '{ let scope_val = %s; %s return scope_val; }' % (expr if expr else '()', drops)
        text = text[:m.start()] + X._pad(new, text[m.start():k]) + text[k:]
    # then every `?`
    guard = 0
    while True:
        msk = X.mask(text)
        q = msk.find('?')
        if q < 0:
            break
        guard += 1
        if guard > 200:
            raise X.ExtractError('R53: runaway `?` rewriting')
        s0 = _operand_start(msk, q)
        new = '(match %s { Ok(v) => v, Err(e) => { %s return Err(e); } })' % (text[s0:q].strip(), drops)
        text = text[:s0] + X._pad(new, text[s0:q + 1]) + text[q + 1:]
    return text


def r53_scope_drops(body, fired):
    """see the module docstring"""
    guards_done = 0
    search_from = 0
    while True:
        msk = X.mask(body)
        cands = []
        for m in GUARD_CREDS.finditer(msk, search_from):
            cands.append(m.start())
        for m in GUARD_CAP.finditer(msk, search_from):
            e = X.item_end(msk, m.start())
            if re.search(r'\bdrop_cap_fsetid\s*\(', msk[m.start():e]):
                cands.append(m.start())
        if not cands:
            break
        pos = min(cands)
        ob, cb = _enclosing_block(msk, pos)
        inner, inner_m = body[ob + 1:cb], msk[ob + 1:cb]
        stmts = _split_stmts(inner_m)
        new_parts = []
        alive = []          # (name, dropfn) in declaration order
        seen_guard = False
        prev_end = 0

        def drops():
            return ' '.join('%s(%s, Tracked(hs));' % (fn_, nm) for (nm, fn_) in reversed(alive))
        for (a, b, is_tail) in stmts:
            st, stm = inner[a:b], inner_m[a:b]
            lead = st[:len(st) - len(st.lstrip())]
            core, corem = st.strip(), stm.strip()
            gm = GUARD_CREDS.match(corem)
            gc = GUARD_CAP.match(corem) if re.search(r'\bdrop_cap_fsetid\s*\(', corem) else None
            if gm or gc:
                if not corem.endswith(';'):
                    raise X.ExtractError('R53: guard statement does not end in `;`')
                if alive:        # the guard statement's own `?`: earlier guards die on that path
                    core = _rw_exits(core, drops())
                if gm:
                    alive.append((gm.group(1), 'vx_drop_uid'))
                    alive.append((gm.group(2), 'vx_drop_gid'))
                else:
                    alive.append((gc.group(1), 'vx_drop_cap'))
                seen_guard = True
                guards_done += 1
                new_parts.append(lead + X._pad(core, st.strip()))
                continue
            if not seen_guard or not alive:
                new_parts.append(st)
                continue
            dm = re.match(r'^(?:mem::)?drop\s*\(\s*(\w+)\s*\)\s*;$', corem)
            if dm and any(nm == dm.group(1) for (nm, _f) in alive):
                fn_ = [f for (nm, f) in alive if nm == dm.group(1)][0]
                alive = [(nm, f) for (nm, f) in alive if nm != dm.group(1)]
                new_parts.append(lead + X._pad('%s(%s, Tracked(hs));' % (fn_, dm.group(1)), st.strip()))
                continue
            new = _rw_exits(core, drops())
            if is_tail:
                new = '{ let scope_val = %s; %s scope_val }' % (new, drops())
            new_parts.append(lead + X._pad(new, st.strip()))
        tail_ws = ''
        if alive and not (stmts and stmts[-1][2]):
            tail_ws = ' ' + drops() + ' '
        new_inner = ''.join(new_parts)
        consumed = stmts[-1][1] if stmts else 0
        new_inner += tail_ws + inner[consumed:]
        new_inner = X._pad(new_inner, inner)
        body = body[:ob + 1] + new_inner + body[cb:]
        search_from = ob + 1 + len(new_inner)
    if guards_done:
        fired.append('R53 scope-exit drops of %d guard statement(s) made explicit (vx_drop_uid / vx_drop_gid / vx_drop_cap before every exit of the guarded block)' % guards_done)
    return body
